(* Property C03 (and C17), pointer level.
   "For ArrayList, SinglyLinkedList and DoublyLinkedList, after any history of
    Add/Append/Prepend/Insert/Remove/Set/Swap/Sort/Clear, Values() equals the result of applying the
    same operations to an abstract sequence: Insert(i, vs...) splices vs before position i for
    0 <= i <= size, Set(size, v) appends, Sort leaves the comparator-sorted permutation, and
    Insert/Set/Remove/Swap with any other index are no-ops.  Get(i), IndexOf(v), Contains(vs...) and
    Size() always agree with that sequence, so the three implementations are interchangeable."
   C17: no operation panics (nil dereference), for any index -- negative, huge -- and any variadic
   argument count, zero included.

   Properties/C03.v proves this for the sequence-level models [sll_*] / [dll_*] of Model/Lists.v, in
   which the pointer surgery of the two linked lists is abstracted away.  This file is the
   REFINEMENT one level further down: Model/LinkedCells.v transcribes singlylinkedlist.go and
   doublylinkedlist.go statement by statement over a heap of cells (value, next, prev) addressed by
   natural numbers, with a list header (first, last, size); every method returns an [option] and
   [None] means "the Go code dereferences a nil (or dangling) pointer here, indexes a slice out of
   range, or loops forever".  The theorems say: [None] is unreachable, and the heap always spells
   the sequence that the sequence-level model (hence, by C03, the abstract sequence) computes.

   Reading guide.
   * [repr_sll d l] / [repr_dll d l] (= [repr false] / [repr true], Proofs/LinkedCellsProofs.v): the
     list header [d] represents the sequence [l].  In words: there is a list [al] of pairwise
     distinct, allocated addresses, as long as [l], such that
       - the k-th cell carries the k-th value of [l] and its [next] field is the (k+1)-th address,
         nil for the last one  (the chain from [first] spells [l] and ends in nil: no cycle, no
         sharing);
       - [first] is the first address and [last] the last one (both nil iff [l] is empty);
       - [size] is the length of [l];
       - for the doubly linked list, moreover, the [prev] field of the k-th cell is the (k-1)-th
         address, nil for the first one  (prev mirrors next).
     [C03c_repr_header], [C03c_walk_fwd], [C03c_walk_bwd] below spell out consequences that do not
     mention [al]: the executable consistency checks [walk_fwd] (exactly [size] cells from [first]
     along [next], ending in [last] and then nil) and [walk_bwd] (the same from [last] along [prev])
     succeed and read [l] and [rev l].
   * [c<list>_<op> d args] is the pointer-level method, [sll_<op>] / [dll_<op>] the sequence-level
     one.  Each operation theorem has the shape
         repr d l -> exists d', c_op d args = Some d' /\ repr d' (op args l)
     for ALL arguments (indices are unbounded integers, value lists may be empty).
   * [cells_run k ops] runs a whole history of machine operations [ops : list op] on the cells from
     the empty list, with the dispatch of [Machine.step] ([cells_step]: Add/Append/Prepend/Insert/
     SetAt/RemoveAt/Swap/Sort/Clear/FromJSON; every other operation of the machine alphabet leaves
     a list unchanged).  [seq_run ops] (Proofs/C03Proofs.v) is the same history on the abstract
     sequence of Spec/SeqSpec.v; [run c ops] is the executable machine.  [repr_kind k] is
     [repr_sll] for SinglyLinkedList and [repr_dll] otherwise. *)
From Coq Require Import ZArith List Bool Lia.
From Gods Require Import Common.Cmp Spec.SeqSpec Model.Ops Model.Lists Model.LinkedCells Model.Machine.
From Gods Require Import Proofs.ListsProofs Proofs.C03Proofs Proofs.LinkedCellsProofs.
Import ListNotations.
Local Open Scope Z_scope.

(* ---------- every history: never nil, and the heap is the sequence ---------- *)
Theorem C03c_run : forall k ops,
  exists d, cells_run k ops = Some d /\ repr_kind k d (seq_run ops).
Proof. exact LinkedCellsProofs.cells_run_ok. Qed.
Print Assumptions C03c_run.

Theorem C03c_run_never_nil : forall k ops, cells_run k ops <> None.
Proof. exact LinkedCellsProofs.cells_run_never_nil. Qed.
Print Assumptions C03c_run_never_nil.

(* the same, tied to the executable machine that is compared with the Go containers *)
Theorem C03c_run_machine : forall c ops, has_append (ckind c) = true ->
  exists d, cells_run (ckind c) ops = Some d /\
    run c ops = StSeq (seq_run ops) /\
    repr_kind (ckind c) d (values_of c (run c ops)).
Proof. exact LinkedCellsProofs.cells_run_machine. Qed.
Print Assumptions C03c_run_machine.

(* from any represented list, not only the empty one *)
Theorem C03c_run_from : forall k ops d l, repr_kind k d l ->
  exists d', cells_run_from k d ops = Some d' /\ repr_kind k d' (fold_left seq_of_op ops l).
Proof. exact LinkedCellsProofs.cells_run_from_ok. Qed.
Print Assumptions C03c_run_from.

Theorem C03c_step : forall k d l o, repr_kind k d l ->
  exists d', cells_step k d o = Some d' /\ repr_kind k d' (seq_of_op l o).
Proof. exact LinkedCellsProofs.cells_step_ok. Qed.
Print Assumptions C03c_step.

(* the pointer-level observers after any history: Size, Values, the forward chain check, Contains,
   IndexOf, Get (the doubly linked list walks from the nearer end), and the backward chain check *)
Theorem C03c_run_observers : forall k ops,
  exists d, cells_run k ops = Some d /\
    let l := seq_run ops in
    lsize d = zlen l /\
    c_values d = Some l /\
    walk_fwd d = Some l /\
    (forall vs, c_contains d vs = Some (seq_contains vs l)) /\
    (forall v, c_index_of d v = Some (seq_index_of v l)) /\
    (forall i, (if match k with SinglyLinkedList => true | _ => false end then csll_get d i else cdll_get d i)
               = Some (seq_get i l)) /\
    (k <> SinglyLinkedList -> walk_bwd d = Some (rev l)).
Proof. exact LinkedCellsProofs.cells_run_observers. Qed.
Print Assumptions C03c_run_observers.

(* ---------- what the representation predicate implies ---------- *)
Theorem C03c_repr_header : forall dbl d l, repr dbl d l ->
  lsize d = zlen l /\
  (lfirst d = None <-> l = []) /\ (llast d = None <-> l = []) /\
  (forall c, deref (lheap d) (llast d) = Some c -> cnext c = None) /\
  (dbl = true -> forall c, deref (lheap d) (lfirst d) = Some c -> cprev c = None) /\
  (forall v, l = [v] -> lfirst d = llast d).
Proof. exact LinkedCellsProofs.repr_header. Qed.
Print Assumptions C03c_repr_header.

Theorem C03c_walk_fwd : forall dbl d l, repr dbl d l -> walk_fwd d = Some l.
Proof. exact LinkedCellsProofs.walk_fwd_ok. Qed.
Print Assumptions C03c_walk_fwd.

Theorem C03c_walk_bwd : forall d l, repr_dll d l -> walk_bwd d = Some (rev l).
Proof. exact LinkedCellsProofs.walk_bwd_ok. Qed.
Print Assumptions C03c_walk_bwd.

Theorem C03c_dll_is_sll : forall d l, repr_dll d l -> repr_sll d l.
Proof. exact LinkedCellsProofs.repr_dll_sll. Qed.
Print Assumptions C03c_dll_is_sll.

Theorem C03c_empty : forall dbl, repr dbl empty_llist [].
Proof. exact LinkedCellsProofs.repr_empty. Qed.
Print Assumptions C03c_empty.

(* ---------- singly linked list, operation by operation ---------- *)
Theorem C03c_sll_add : forall d l vs, repr_sll d l ->
  exists d', csll_add d vs = Some d' /\ repr_sll d' (sll_add vs l).
Proof. exact LinkedCellsProofs.csll_add_ok. Qed.
Print Assumptions C03c_sll_add.

Theorem C03c_sll_prepend : forall d l vs, repr_sll d l ->
  exists d', csll_prepend d vs = Some d' /\ repr_sll d' (sll_prepend vs l).
Proof. exact LinkedCellsProofs.csll_prepend_ok. Qed.
Print Assumptions C03c_sll_prepend.

(* every index (negative, 0, middle, size, beyond) and every number of values (zero included) *)
Theorem C03c_sll_insert : forall d l i vs, repr_sll d l ->
  exists d', csll_insert d i vs = Some d' /\ repr_sll d' (sll_insert i vs l).
Proof. exact LinkedCellsProofs.csll_insert_ok. Qed.
Print Assumptions C03c_sll_insert.

Theorem C03c_sll_set : forall d l i v, repr_sll d l ->
  exists d', csll_set d i v = Some d' /\ repr_sll d' (sll_set i v l).
Proof. exact LinkedCellsProofs.csll_set_ok. Qed.
Print Assumptions C03c_sll_set.

(* head, middle, tail, only element, out of range *)
Theorem C03c_sll_remove : forall d l i, repr_sll d l ->
  exists d', csll_remove d i = Some d' /\ repr_sll d' (sll_remove i l).
Proof. exact LinkedCellsProofs.csll_remove_ok. Qed.
Print Assumptions C03c_sll_remove.

Theorem C03c_sll_get : forall d l i, repr_sll d l -> csll_get d i = Some (sll_get i l).
Proof. exact LinkedCellsProofs.csll_get_ok. Qed.
Print Assumptions C03c_sll_get.

Theorem C03c_sll_sort : forall d l res, repr_sll d l ->
  exists d', csll_sort d res = Some d' /\ repr_sll d' (if zlen l <? 2 then l else res).
Proof. exact LinkedCellsProofs.csll_sort_ok. Qed.
Print Assumptions C03c_sll_sort.

Theorem C03c_sll_clear : forall d l, repr_sll d l -> exists d', csll_clear d = Some d' /\ repr_sll d' [].
Proof. exact LinkedCellsProofs.csll_clear_ok. Qed.
Print Assumptions C03c_sll_clear.

(* ---------- doubly linked list, operation by operation ---------- *)
Theorem C03c_dll_add : forall d l vs, repr_dll d l ->
  exists d', cdll_add d vs = Some d' /\ repr_dll d' (dll_add vs l).
Proof. exact LinkedCellsProofs.cdll_add_ok. Qed.
Print Assumptions C03c_dll_add.

Theorem C03c_dll_prepend : forall d l vs, repr_dll d l ->
  exists d', cdll_prepend d vs = Some d' /\ repr_dll d' (dll_prepend vs l).
Proof. exact LinkedCellsProofs.cdll_prepend_ok. Qed.
Print Assumptions C03c_dll_prepend.

(* the walk to the insertion point starts from whichever end is nearer *)
Theorem C03c_dll_insert : forall d l i vs, repr_dll d l ->
  exists d', cdll_insert d i vs = Some d' /\ repr_dll d' (dll_insert i vs l).
Proof. exact LinkedCellsProofs.cdll_insert_ok. Qed.
Print Assumptions C03c_dll_insert.

Theorem C03c_dll_set : forall d l i v, repr_dll d l ->
  exists d', cdll_set d i v = Some d' /\ repr_dll d' (dll_set i v l).
Proof. exact LinkedCellsProofs.cdll_set_ok. Qed.
Print Assumptions C03c_dll_set.

Theorem C03c_dll_remove : forall d l i, repr_dll d l ->
  exists d', cdll_remove d i = Some d' /\ repr_dll d' (dll_remove i l).
Proof. exact LinkedCellsProofs.cdll_remove_ok. Qed.
Print Assumptions C03c_dll_remove.

Theorem C03c_dll_get : forall d l i, repr_dll d l -> cdll_get d i = Some (dll_get i l).
Proof. exact LinkedCellsProofs.cdll_get_ok. Qed.
Print Assumptions C03c_dll_get.

(* the direction choice itself: whichever branch is taken, the walk ends on the cell of index i *)
Theorem C03c_dll_locate : forall d a1 x a2 l i,
  chain true cnext cprev (lheap d) None (a1 ++ x :: a2) l None ->
  lfirst d = hd_or (a1 ++ x :: a2) None -> llast d = last_or (a1 ++ x :: a2) None ->
  lsize d = zlen l -> length a1 = Z.to_nat i -> 0 <= i ->
  cdll_locate d i = Some (Some x).
Proof. exact LinkedCellsProofs.cdll_locate_ok. Qed.
Print Assumptions C03c_dll_locate.

Theorem C03c_dll_sort : forall d l res, repr_dll d l ->
  exists d', cdll_sort d res = Some d' /\ repr_dll d' (if zlen l <? 2 then l else res).
Proof. exact LinkedCellsProofs.cdll_sort_ok. Qed.
Print Assumptions C03c_dll_sort.

Theorem C03c_dll_clear : forall d l, repr_dll d l -> exists d', cdll_clear d = Some d' /\ repr_dll d' [].
Proof. exact LinkedCellsProofs.cdll_clear_ok. Qed.
Print Assumptions C03c_dll_clear.

(* ---------- code shared verbatim by the two Go files ---------- *)
Theorem C03c_swap : forall dbl d l i j, repr dbl d l ->
  exists d', c_swap d i j = Some d' /\ repr dbl d' (sll_swap i j l).
Proof. exact LinkedCellsProofs.c_swap_ok. Qed.
Print Assumptions C03c_swap.

Theorem C03c_values : forall dbl d l, repr dbl d l -> c_values d = Some l.
Proof. exact LinkedCellsProofs.c_values_ok. Qed.
Print Assumptions C03c_values.

Theorem C03c_contains : forall dbl d l vs, repr dbl d l -> c_contains d vs = Some (sll_contains vs l).
Proof. exact LinkedCellsProofs.c_contains_ok. Qed.
Print Assumptions C03c_contains.

Theorem C03c_index_of : forall dbl d l v, repr dbl d l -> c_index_of d v = Some (sll_index_of v l).
Proof. exact LinkedCellsProofs.c_index_of_ok. Qed.
Print Assumptions C03c_index_of.

(* ---------- examples ---------- *)
(* what the hooks see after a history: Values(), the forward and the backward chain check, size,
   and whether first == last *)
Definition look (k : kind) (ops : list op) :=
  match cells_run k ops with
  | Some d => Some (c_values d, walk_fwd d, walk_bwd d, lsize d, ptr_eqb (lfirst d) (llast d))
  | None => None
  end.
Definition both {A} (f : kind -> A) : list A := [f SinglyLinkedList; f DoublyLinkedList].
Definition get_after (k : kind) (ops : list op) (i : Z) : option (option Z) :=
  match cells_run k ops with
  | Some d => (match k with SinglyLinkedList => csll_get d i | _ => cdll_get d i end)
  | None => None
  end.

(* Insert(0) with no values on a two-element list: the historic crash (D1 / D2); with the repaired
   guard nothing is dereferenced and nothing changes.  (The singly linked list has no prev links:
   its backward check fails as soon as there are two cells, and says nothing.) *)
Example ex_insert_nothing_at_head :
  look SinglyLinkedList [Add [1; 2]; Insert 0 []] = Some (Some [1; 2], Some [1; 2], None, 2, false) /\
  look DoublyLinkedList [Add [1; 2]; Insert 0 []] = Some (Some [1; 2], Some [1; 2], Some [2; 1], 2, false).
Proof. vm_compute. split; reflexivity. Qed.

(* Insert at the head, in the middle, at size (append), beyond and before: the header stays consistent *)
Example ex_insert_everywhere :
  both (fun k => look k [Add [1; 2; 3]; Insert 0 [7; 8]; Insert 2 [9]; Insert 6 [5]; Insert 8 [0]; Insert (-1) [0]]) =
  [Some (Some [7; 8; 9; 1; 2; 3; 5], Some [7; 8; 9; 1; 2; 3; 5], None, 7, false);
   Some (Some [7; 8; 9; 1; 2; 3; 5], Some [7; 8; 9; 1; 2; 3; 5], Some [5; 3; 2; 1; 9; 8; 7], 7, false)].
Proof. vm_compute. reflexivity. Qed.

(* Insert in the second half of a doubly linked list (the walk starts from the tail), then Get on
   both sides of the middle (indices 4 and 5 are reached from the tail, 0..3 from the head) *)
Example ex_insert_then_get_from_tail :
  look DoublyLinkedList [Add [1; 2; 3; 4]; Insert 3 [7; 8]] =
    Some (Some [1; 2; 3; 7; 8; 4], Some [1; 2; 3; 7; 8; 4], Some [4; 8; 7; 3; 2; 1], 6, false) /\
  map (get_after DoublyLinkedList [Add [1; 2; 3; 4]; Insert 3 [7; 8]]) [-1; 0; 1; 2; 3; 4; 5; 6] =
    [Some None; Some (Some 1); Some (Some 2); Some (Some 3); Some (Some 7); Some (Some 8); Some (Some 4); Some None] /\
  map (get_after SinglyLinkedList [Add [1; 2; 3; 4]; Insert 3 [7; 8]]) [-1; 0; 4; 5; 6] =
    [Some None; Some (Some 1); Some (Some 8); Some (Some 4); Some None].
Proof. vm_compute. repeat split; reflexivity. Qed.

(* Remove of the only element clears first and last; the list is usable afterwards and first == last
   again for the new single cell *)
Example ex_remove_only_element :
  both (fun k => look k [Add [4]; RemoveAt 0]) =
    [Some (Some [], Some [], Some [], 0, true); Some (Some [], Some [], Some [], 0, true)] /\
  both (fun k => look k [Add [4]; RemoveAt 0; Add [5]]) =
    [Some (Some [5], Some [5], Some [5], 1, true); Some (Some [5], Some [5], Some [5], 1, true)].
Proof. vm_compute. split; reflexivity. Qed.

(* Remove at the head, in the middle, at the tail, out of range (negative and huge) *)
Example ex_remove_positions :
  both (fun k => look k [Add [1; 2; 3; 4; 5]; RemoveAt 0; RemoveAt 3; RemoveAt 1; RemoveAt 2; RemoveAt (-1);
                         RemoveAt 1000000000000]) =
  [Some (Some [2; 4], Some [2; 4], None, 2, false); Some (Some [2; 4], Some [2; 4], Some [4; 2], 2, false)].
Proof. vm_compute. reflexivity. Qed.

(* Set inside, at size (append) and beyond; Swap; Prepend; Sort (Values, Clear, Add) *)
Example ex_set_swap_prepend_sort :
  both (fun k => look k [Prepend [2; 3]; SetAt 2 9; SetAt 0 1; SetAt 4 0; Swap 0 2; Swap 1 1; Swap 0 3;
                         Sort CNat [1; 3; 9]]) =
  [Some (Some [1; 3; 9], Some [1; 3; 9], None, 3, false); Some (Some [1; 3; 9], Some [1; 3; 9], Some [9; 3; 1], 3, false)].
Proof. vm_compute. reflexivity. Qed.

(* the pointer run and the executable machine agree on a mixed history *)
Definition cfg (k : kind) : config :=
  {| ckind := k; kcmp := CNat; vcmp := CNat; ccap := 0; corder := 0; cuni := 3 |}.
Example ex_cells_vs_machine :
  let ops := [Add [3; 1]; Insert 1 [4; 1; 5]; RemoveAt 4; Prepend [9]; Swap 0 4; SetAt 5 2; Insert 0 []; Clear;
              Append [6]; Insert 0 [7]; Insert 1 [8]] in
  both (fun k => match cells_run k ops with Some d => c_values d | None => None end) =
  both (fun k => Some (values_of (cfg k) (run (cfg k) ops))) /\
  values_of (cfg DoublyLinkedList) (run (cfg DoublyLinkedList) ops) = [7; 8; 6].
Proof. vm_compute. split; reflexivity. Qed.
