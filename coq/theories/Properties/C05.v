(* Property C05 (verbatim):
   "ArrayStack and LinkedListStack return from Pop/Peek the most recently pushed element not yet
    popped; ArrayQueue and LinkedListQueue return from Dequeue/Peek the oldest element not yet
    dequeued; Values() lists elements in the order they would be removed.  A CircularBuffer of
    capacity c is a FIFO queue holding the last c enqueued elements not yet dequeued: enqueuing into
    a full buffer discards exactly the oldest element, and Full() holds exactly when Size() == c.
    On an empty container Pop/Dequeue/Peek return (zero, false) and leave it empty."
   Quantifier: all interleavings of Push/Pop/Peek, Enqueue/Dequeue/Peek and Clear; all capacities
   c >= 1 and all wrap-around positions of the ring.

   Every theorem below is about runs [run c ops] of the uniform machine (Model/Machine.v) for an
   ARBITRARY operation list [ops] (FromJSON and the operations a kind does not offer included),
   and every configuration [c] with [c05_config c]: kind in {ArrayStack, LinkedListStack,
   ArrayQueue, LinkedListQueue}, or CircularBuffer with 1 <= ccap c.  The abstract machine
   ([abs_step], [abs_run]: a list in removal order; push = cons, enqueue = append, bounded enqueue
   = lastn cap (q ++ [x]), pop/dequeue = remove the head) is Spec/FifoSpec.v.
   This file only restates; the proofs are in Proofs/C05Proofs.v and Proofs/RingProofs.v. *)
From Coq Require Import ZArith List Bool Arith.
From Gods Require Import Common.Cmp Common.ListAux Spec.SeqSpec Spec.FifoSpec Model.Ops Model.Ring Model.Machine.
From Gods Require Proofs.RingProofs Proofs.C05Proofs.
Import ListNotations.

(* configurations used by the examples *)
Definition ex_cfg (k : kind) (cap : Z) : config :=
  {| ckind := k; kcmp := CNat; vcmp := CNat; ccap := cap; corder := 3; cuni := 3 |}.

(* the hypotheses are satisfiable *)
Example c05_config_ring2 : c05_config (ex_cfg CircularBuffer 2).
Proof. vm_compute. discriminate. Qed.
Example c05_config_array_stack : c05_config (ex_cfg ArrayStack 0).
Proof. vm_compute. exact I. Qed.

(* ---------- no run of the five kinds crashes ---------- *)
Theorem C05_never_crashes : forall c, c05_config c -> forall ops, run c ops <> StCrash.
Proof. exact C05Proofs.C05_never_crashes. Qed.
Print Assumptions C05_never_crashes.

(* (New(0) is the documented panic: the capacity hypothesis is needed) *)
Example ex_ring_cap0_crashes : run (ex_cfg CircularBuffer 0) [Enqueue 1%Z] = StCrash.
Proof. vm_compute; reflexivity. Qed.

(* ---------- Values() = the abstract LIFO / FIFO / bounded-FIFO content, in removal order ---------- *)
Theorem C05_refines : forall c, c05_config c -> forall ops, values_of c (run c ops) = abs_run c ops.
Proof. exact C05Proofs.C05_refines. Qed.
Print Assumptions C05_refines.

Example ex_refines_ring :
  values_of (ex_cfg CircularBuffer 2) (run (ex_cfg CircularBuffer 2) [Enqueue 1; Enqueue 2; Enqueue 3; Dequeue]%Z) = [3%Z]
  /\ abs_run (ex_cfg CircularBuffer 2) [Enqueue 1; Enqueue 2; Enqueue 3; Dequeue]%Z = [3%Z].
Proof. vm_compute; split; reflexivity. Qed.
Example ex_refines_stack :
  values_of (ex_cfg ArrayStack 0) (run (ex_cfg ArrayStack 0) [Push 1; Push 2; Push 3; Pop; Push 4]%Z) = [4; 2; 1]%Z
  /\ values_of (ex_cfg LinkedListStack 0) (run (ex_cfg LinkedListStack 0) [Push 1; Push 2; Push 3; Pop; Push 4]%Z) = [4; 2; 1]%Z.
Proof. vm_compute; split; reflexivity. Qed.

(* ---------- every operation: new content and result are the abstract machine's ---------- *)
Theorem C05_step : forall c, c05_config c -> forall ops o,
  values_of c (fst (fst (step c (run c ops) o))) = fst (abs_step c (abs_run c ops) o) /\
  (c05_specified o = true -> snd (fst (step c (run c ops) o)) = snd (abs_step c (abs_run c ops) o)).
Proof. exact C05Proofs.C05_step. Qed.
Print Assumptions C05_step.

(* the same, purely in terms of Values() before and after the operation *)
Theorem C05_step_values : forall c, c05_config c -> forall ops o,
  values_of c (run c (ops ++ [o])) = fst (abs_step c (values_of c (run c ops)) o) /\
  (c05_specified o = true ->
   snd (fst (step c (run c ops) o)) = snd (abs_step c (values_of c (run c ops)) o)).
Proof. exact C05Proofs.C05_step_values. Qed.
Print Assumptions C05_step_values.

Example ex_step_dequeue_result :
  snd (fst (step (ex_cfg LinkedListQueue 0) (run (ex_cfg LinkedListQueue 0) [Enqueue 7; Enqueue 8; Dequeue; Enqueue 9]%Z) Dequeue))
  = OL [OZ 8%Z].
Proof. vm_compute; reflexivity. Qed.

(* ---------- stacks: LIFO ---------- *)
Theorem C05_push : forall c, is_stack (ckind c) = true -> forall ops v,
  values_of c (run c (ops ++ [Push v])) = v :: values_of c (run c ops).
Proof. exact C05Proofs.C05_push. Qed.
Print Assumptions C05_push.

Theorem C05_pop : forall c, is_stack (ckind c) = true -> forall ops,
  snd (fst (step c (run c ops) Pop)) = oopt (hd_error (values_of c (run c ops))) /\
  values_of c (run c (ops ++ [Pop])) = tl (values_of c (run c ops)).
Proof. exact C05Proofs.C05_pop. Qed.
Print Assumptions C05_pop.

Example ex_pop_after_load :   (* FromJSON: the top is the LAST array element for ArrayStack, the FIRST for LinkedListStack *)
  snd (fst (step (ex_cfg ArrayStack 0) (run (ex_cfg ArrayStack 0) [FromJSON (DArr [1; 2; 3]%Z)]) Pop)) = OL [OZ 3%Z] /\
  snd (fst (step (ex_cfg LinkedListStack 0) (run (ex_cfg LinkedListStack 0) [FromJSON (DArr [1; 2; 3]%Z)]) Pop)) = OL [OZ 1%Z].
Proof. vm_compute; split; reflexivity. Qed.

(* ---------- queues: FIFO ---------- *)
Theorem C05_enqueue : forall c, ckind c = ArrayQueue \/ ckind c = LinkedListQueue -> forall ops v,
  values_of c (run c (ops ++ [Enqueue v])) = values_of c (run c ops) ++ [v].
Proof. exact C05Proofs.C05_enqueue. Qed.
Print Assumptions C05_enqueue.

Theorem C05_ring_enqueue : forall c, ckind c = CircularBuffer -> (1 <= ccap c)%Z -> forall ops v,
  values_of c (run c (ops ++ [Enqueue v])) = lastn (cap_of c) (values_of c (run c ops) ++ [v]).
Proof. exact C05Proofs.C05_ring_enqueue. Qed.
Print Assumptions C05_ring_enqueue.

Theorem C05_dequeue : forall c, c05_config c -> is_queue (ckind c) = true -> forall ops,
  snd (fst (step c (run c ops) Dequeue)) = oopt (hd_error (values_of c (run c ops))) /\
  values_of c (run c (ops ++ [Dequeue])) = tl (values_of c (run c ops)).
Proof. exact C05Proofs.C05_dequeue. Qed.
Print Assumptions C05_dequeue.

Theorem C05_clear : forall c, c05_config c -> forall ops, values_of c (run c (ops ++ [Clear])) = [].
Proof. exact C05Proofs.C05_clear. Qed.
Print Assumptions C05_clear.

Example ex_queue :
  values_of (ex_cfg ArrayQueue 0) (run (ex_cfg ArrayQueue 0) [Enqueue 1; Enqueue 2; Dequeue; Enqueue 3]%Z) = [2; 3]%Z.
Proof. vm_compute; reflexivity. Qed.

(* ---------- Peek and Size ---------- *)
Theorem C05_peek : forall c, c05_config c -> forall ops,
  peek_of c (run c ops) = oopt (hd_error (abs_run c ops)).
Proof. exact C05Proofs.C05_peek. Qed.
Print Assumptions C05_peek.

Theorem C05_size : forall c, c05_config c -> forall ops,
  size_of c (run c ops) = Z.of_nat (length (abs_run c ops)).
Proof. exact C05Proofs.C05_size. Qed.
Print Assumptions C05_size.

Example ex_peek_size :
  peek_of (ex_cfg CircularBuffer 2) (run (ex_cfg CircularBuffer 2) [Enqueue 1; Enqueue 2; Enqueue 3]%Z) = OL [OZ 2%Z] /\
  size_of (ex_cfg CircularBuffer 2) (run (ex_cfg CircularBuffer 2) [Enqueue 1; Enqueue 2; Enqueue 3]%Z) = 2%Z.
Proof. vm_compute; split; reflexivity. Qed.

(* ---------- Values() lists the elements in the order they would be removed ---------- *)
(* [remove_op c] is Pop for the stacks and Dequeue for the queues: the (n+1)-th removal in a row
   returns Values()[n], and (zero, false) once n >= Size() *)
Theorem C05_removal_order : forall c, c05_config c -> forall ops n,
  snd (fst (step c (run c (ops ++ repeat (remove_op c) n)) (remove_op c))) =
  oopt (nth_error (values_of c (run c ops)) n).
Proof. exact C05Proofs.C05_removal_order. Qed.
Print Assumptions C05_removal_order.

Example ex_removal_order :
  values_of (ex_cfg ArrayStack 0) (run (ex_cfg ArrayStack 0) [Push 5; Push 6; Push 7]%Z) = [7; 6; 5]%Z /\
  snd (fst (step (ex_cfg ArrayStack 0) (run (ex_cfg ArrayStack 0) ([Push 5; Push 6; Push 7]%Z ++ repeat Pop 1)) Pop)) = OL [OZ 6%Z].
Proof. vm_compute; split; reflexivity. Qed.

(* ---------- the circular buffer ---------- *)
Theorem C05_bounded : forall c, ckind c = CircularBuffer -> (1 <= ccap c)%Z -> forall ops,
  length (abs_run c ops) <= cap_of c.
Proof. exact C05Proofs.C05_bounded. Qed.
Print Assumptions C05_bounded.

Theorem C05_values_bounded : forall c, ckind c = CircularBuffer -> (1 <= ccap c)%Z -> forall ops,
  length (values_of c (run c ops)) <= cap_of c.
Proof. exact C05Proofs.C05_values_bounded. Qed.
Print Assumptions C05_values_bounded.

(* Full() (the model's [rfullb], reported in the observation vector under TFull) holds exactly when
   the content has c elements, i.e. exactly when Size() == c *)
Theorem C05_full : forall c, ckind c = CircularBuffer -> (1 <= ccap c)%Z -> forall ops,
  exists r, run c ops = StRing r /\
    rfullb r = (length (abs_run c ops) =? cap_of c) /\
    rfullb r = (size_of c (run c ops) =? ccap c)%Z /\
    In (TFull, obool (rfullb r)) (observe c 1 (run c ops)).
Proof. exact C05Proofs.C05_full. Qed.
Print Assumptions C05_full.

Theorem C05_full_observed : forall c, ckind c = CircularBuffer -> (1 <= ccap c)%Z -> forall ops o,
  In (TFull, o) (observe c 1 (run c ops)) <-> o = obool (abs_full c (abs_run c ops)).
Proof. exact C05Proofs.C05_full_observed. Qed.
Print Assumptions C05_full_observed.

Example ex_full :
  In (TFull, OZ 1%Z) (observe (ex_cfg CircularBuffer 2) 1 (run (ex_cfg CircularBuffer 2) [Enqueue 1; Enqueue 2; Enqueue 3]%Z)) /\
  In (TFull, OZ 0%Z) (observe (ex_cfg CircularBuffer 2) 1 (run (ex_cfg CircularBuffer 2) [Enqueue 1; Enqueue 2; Enqueue 3; Dequeue]%Z)).
Proof. vm_compute. split; do 4 right; left; reflexivity. Qed.

(* enqueuing into a full buffer discards exactly the oldest element ... *)
Theorem C05_evicts : forall c, ckind c = CircularBuffer -> (1 <= ccap c)%Z -> forall ops y q x,
  values_of c (run c ops) = y :: q -> length (y :: q) = cap_of c ->
  values_of c (run c (ops ++ [Enqueue x])) = q ++ [x].
Proof. exact C05Proofs.C05_evicts. Qed.
Print Assumptions C05_evicts.

Theorem C05_evicts_abs : forall c, ckind c = CircularBuffer -> (1 <= ccap c)%Z -> forall ops y q x,
  abs_run c ops = y :: q -> length (y :: q) = cap_of c ->
  abs_run c (ops ++ [Enqueue x]) = q ++ [x].
Proof. exact C05Proofs.C05_evicts_abs. Qed.
Print Assumptions C05_evicts_abs.

(* ... and into a buffer with room discards nothing *)
Theorem C05_room : forall c, ckind c = CircularBuffer -> (1 <= ccap c)%Z -> forall ops x,
  length (values_of c (run c ops)) < cap_of c ->
  values_of c (run c (ops ++ [Enqueue x])) = values_of c (run c ops) ++ [x].
Proof. exact C05Proofs.C05_room. Qed.
Print Assumptions C05_room.

Example ex_evicts :   (* capacity 3, wrapped around: start = end = 2 in the backing array [4; 5; 3] *)
  let c := ex_cfg CircularBuffer 3 in
  let ops := [Enqueue 1; Enqueue 2; Enqueue 3; Enqueue 4; Enqueue 5]%Z in
  values_of c (run c ops) = 3%Z :: [4; 5]%Z /\ length (3%Z :: [4; 5]%Z) = cap_of c /\
  values_of c (run c (ops ++ [Enqueue 6%Z])) = [4; 5]%Z ++ [6%Z] /\
  run c ops = StRing {| rvals := [4; 5; 3]%Z; rstart := 2; rend := 2; rfull := true; rmax := 3; rsize := 3 |}.
Proof. vm_compute; repeat split; reflexivity. Qed.

(* ---------- the empty container ---------- *)
(* Pop / Dequeue return (zero, false) = [OL []], the state is unchanged, Peek returns (zero, false) *)
Theorem C05_empty_pop : forall c, c05_config c -> forall ops,
  values_of c (run c ops) = [] ->
  step c (run c ops) (remove_op c) = (run c ops, OL [], onone) /\
  peek_of c (run c ops) = OL [] /\
  size_of c (run c ops) = 0%Z /\
  values_of c (run c (ops ++ [remove_op c])) = [].
Proof. exact C05Proofs.C05_empty_pop. Qed.
Print Assumptions C05_empty_pop.

Example ex_empty :
  let c := ex_cfg CircularBuffer 2 in
  let ops := [Enqueue 1; Enqueue 2; Enqueue 3; Dequeue; Dequeue]%Z in
  values_of c (run c ops) = [] /\ snd (fst (step c (run c ops) Dequeue)) = OL [] /\
  fst (fst (step c (run c ops) Dequeue)) = run c ops.
Proof. vm_compute; repeat split; reflexivity. Qed.

(* ---------- history view of the queues ---------- *)
(* [enq_history c ops]: the values that entered the queue since the last Clear / FromJSON, oldest
   first.  The content is what is left of them after a prefix (dequeued, or evicted by the ring)
   has gone: nothing is lost in the middle, nothing is reordered. *)
Theorem C05_history : forall c, c05_config c -> is_queue (ckind c) = true -> forall ops,
  exists gone, enq_history c ops = gone ++ values_of c (run c ops).
Proof. exact C05Proofs.C05_history. Qed.
Print Assumptions C05_history.

Theorem C05_history_last : forall c, c05_config c -> is_queue (ckind c) = true -> forall ops,
  values_of c (run c ops) = lastn (Z.to_nat (size_of c (run c ops))) (enq_history c ops).
Proof. exact C05Proofs.C05_history_last. Qed.
Print Assumptions C05_history_last.

(* while nothing is dequeued the buffer holds exactly the last c values that entered *)
Theorem C05_ring_last_c : forall c, ckind c = CircularBuffer -> (1 <= ccap c)%Z -> forall ops,
  no_dequeue ops = true ->
  values_of c (run c ops) = lastn (cap_of c) (enq_history c ops).
Proof. exact C05Proofs.C05_ring_last_c. Qed.
Print Assumptions C05_ring_last_c.

Example ex_history :
  let c := ex_cfg CircularBuffer 3 in
  let ops := [Enqueue 9; Clear; Enqueue 1; Enqueue 2; Enqueue 3; Enqueue 4; Dequeue; Enqueue 5]%Z in
  enq_history c ops = [1; 2; 3; 4; 5]%Z /\ values_of c (run c ops) = [3; 4; 5]%Z.
Proof. vm_compute; split; reflexivity. Qed.
Example ex_load_ring :
  values_of (ex_cfg CircularBuffer 2) (run (ex_cfg CircularBuffer 2) [Enqueue 9%Z; FromJSON (DArr [1; 2; 3]%Z)]) = [2; 3]%Z.
Proof. vm_compute; reflexivity. Qed.

(* ---------- the ring refinement itself (Proofs/RingProofs.v), for reference ---------- *)
Theorem ring_enqueue_refines : forall x r, RingProofs.ring_inv r ->
  RingProofs.ring_inv (renq x r) /\ rvalues (renq x r) = lastn (rmax r) (rvalues r ++ [x]).
Proof. exact RingProofs.renq_refines. Qed.
Print Assumptions ring_enqueue_refines.

Theorem ring_dequeue_refines : forall r, RingProofs.ring_inv r ->
  RingProofs.ring_inv (fst (rdeq r)) /\
  match rvalues r with
  | [] => rdeq r = (r, None)
  | y :: q => exists r', rdeq r = (r', Some y) /\ rvalues r' = q
  end.
Proof. exact RingProofs.rdeq_refines. Qed.
Print Assumptions ring_dequeue_refines.
