(* Property C12 ("Deserializing replaces content, keeps the container sound, is atomic on error").

   "When FromJSON/json.Unmarshal succeeds on a container with arbitrary prior content, the content
    afterwards is exactly what the input denotes - no prior element survives; sets deduplicate,
    ordered containers sort, bidirectional maps stay one-to-one, a circular buffer keeps the last
    capacity-many values. The container then continues to satisfy all its other guarantees for any
    further operations (including after the inputs null, [] and {}). When it returns an error the
    container is exactly as it was before the call."

   Reading.  [from_json c d s : state * bool] is FromJSON on a document denoting [d : decoded]
   ([DErr]: encoding/json rejects it for the element type, [DNull], [DArr vs], [DObj kvs] with the
   members in document order, duplicate names included); the boolean is "no error".  The byte level
   is encoding/json's (trusted oracle).  [step c s (FromJSON d)] is the same call as an operation of
   the machine (answer [obool ok]).  [run c ops] is the state after ANY operation list;
   [config_ok c] excludes the two documented constructor panics.

   - atomic on error: [C12_atomic], [C12_atomic_step]; the call succeeds exactly on the documents
     [accepts c d] (array or null for value containers, object or null for key-value containers).
   - no prior element survives: [C12_replaces] - the loaded state is a function of (c, d) alone.
   - what the content is: [C12_denotes_*], one theorem per class of kinds.
   - soundness afterwards: [C12_reachable] - the loaded state is the state of a FromJSON-FREE history
     (Clear followed by inserts, [load_ops]), so every theorem about [run c ops] of the other
     properties applies to it and, by [C12_continues], to every continuation.  For BinaryHeap the
     inserts are one bulk Push; for PriorityQueue (no bulk operation) they are the Enqueues of the
     HEAPIFIED array in array order - enqueueing the document's elements in document order gives
     another (also valid) heap: [C12_pq_array_order_false].  [C12_sound] restates the reachable-state
     invariant [jinv] (heap order, search-tree + balance invariants, canonical tables, one-to-one, ...).
   - null, [], {}: [C12_null_empty] - the result is exactly the fresh container [init c]. *)
From Coq Require Import ZArith List Bool Sorted SetoidList Permutation.
From Gods Require Import Common.Cmp Common.ListAux Spec.MapSpec Spec.SetSpec Spec.FifoSpec Spec.BagSpec
  Model.Ops Model.Machine Proofs.JsonProofs.
From Gods Require Model.Ring Proofs.HeapProofs Proofs.RingProofs Proofs.MachineMaps Proofs.SetsProofs.
Import ListNotations.
Local Open Scope Z_scope.

(* ---------- atomic on error ---------- *)
Theorem C12_atomic : forall c s d, snd (from_json c d s) = false -> fst (from_json c d s) = s.
Proof. exact C12_atomic_proof. Qed.
Print Assumptions C12_atomic.

Theorem C12_atomic_step : forall c s d,
  snd (fst (step c s (FromJSON d))) = obool false -> fst (fst (step c s (FromJSON d))) = s.
Proof. exact C12_atomic_step_proof. Qed.
Print Assumptions C12_atomic_step.

(* success depends on the document only *)
Theorem C12_success_iff : forall c d s, s <> StCrash -> snd (from_json c d s) = accepts c d.
Proof. exact from_json_ok_iff. Qed.
Print Assumptions C12_success_iff.

(* ---------- no prior element survives ---------- *)
Theorem C12_replaces : forall c s d, config_ok c -> s <> StCrash -> snd (from_json c d s) = true ->
  fst (from_json c d s) = fst (from_json c d (init c)).
Proof. intros c s d Hc Hs H. exact (C12_replaces_proof c s d Hs H (init_not_crash c Hc)). Qed.
Print Assumptions C12_replaces.

(* ---------- what the loaded content is ---------- *)
(* lists, stacks, plain queues: the array is the backing sequence; Values() of the array stack lists
   it top (= last array element) first: [abs_load c vs = rev vs] for ArrayStack, [vs] otherwise *)
Theorem C12_denotes_seq : forall c s vs, seq_kind (ckind c) = true -> s <> StCrash ->
  from_json c (DArr vs) s = (StSeq vs, true) /\ values_of c (StSeq vs) = abs_load c vs.
Proof. exact C12_denotes_seq_proof. Qed.
Print Assumptions C12_denotes_seq.

(* sets deduplicate: x is a member iff (an element equivalent to) x occurs in the array; Values() has
   no two equivalent elements, is ascending for HashSet (canonical form) and TreeSet (comparator
   order), and lists first occurrences in document order for LinkedHashSet *)
Theorem C12_denotes_set : forall c s vs, SetsProofs.is_set_kind (ckind c) = true -> s <> StCrash ->
  let s' := fst (from_json c (DArr vs) s) in
  snd (from_json c (DArr vs) s) = true /\
  (forall x, SetsProofs.member c s' x = eqvb (SetsProofs.set_cmp c) x vs) /\
  NoDupA (SetsProofs.sequiv c) (values_of c s') /\
  (forall x, InA (SetsProofs.sequiv c) x (values_of c s') <-> eqvb (SetsProofs.set_cmp c) x vs = true) /\
  size_of c s' = Z.of_nat (length (values_of c s')) /\
  (ckind c = HashSet -> StronglySorted Z.lt (values_of c s')) /\
  (ckind c = TreeSet -> StronglySorted (fun a b => kc c a b = Lt) (values_of c s')) /\
  (ckind c = LinkedHashSet -> values_of c s' = fold_left order_step (map EIns vs) []).
Proof. exact C12_denotes_set_proof. Qed.
Print Assumptions C12_denotes_set.

(* heap, priority queue: a valid heap (parent never after child) holding exactly the array's elements *)
Theorem C12_denotes_heap : forall c s vs, is_heap_kind (ckind c) = true -> s <> StCrash ->
  exists l', from_json c (DArr vs) s = (StHeap l', true) /\
             HeapProofs.heap_ok (kc c) l' /\ Permutation l' vs.
Proof. exact C12_denotes_heap_proof. Qed.
Print Assumptions C12_denotes_heap.

(* circular buffer: the last capacity-many values *)
Theorem C12_denotes_ring : forall c s vs, ckind c = CircularBuffer -> 1 <= ccap c -> s <> StCrash ->
  exists r', from_json c (DArr vs) s = (StRing r', true) /\ RingProofs.ring_inv r' /\
             Ring.rmax r' = cap_of c /\ values_of c (StRing r') = lastn (cap_of c) vs.
Proof. exact C12_denotes_ring_proof. Qed.
Print Assumptions C12_denotes_ring.

(* HashMap, TreeMap, LinkedHashMap, RedBlackTree, AVLTree, BTree: the abstract map [mrun] of putting
   the members one by one - keys equal under the container's comparator [cmp_for c] are one key, the
   last member wins ([last_live]) - strictly sorted by that comparator *)
Theorem C12_denotes_map : forall c s kvs, config_ok c -> MachineMaps.map_kind (ckind c) = true -> s <> StCrash ->
  let s' := fst (from_json c (DObj kvs) s) in
  let h := MachineMaps.puts (MachineMaps.json_entries c kvs) in
  snd (from_json c (DObj kvs) s) = true /\
  MachineMaps.minv c s' /\
  MachineMaps.mabs c s' = mrun (MachineMaps.cmp_for c) h /\
  ksorted (MachineMaps.cmp_for c) (MachineMaps.mabs c s') /\
  (forall k, get_of c s' k = oopt (option_map snd (last_live (MachineMaps.cmp_for c) (rev h) k))) /\
  size_of c s' = Z.of_nat (length (mrun (MachineMaps.cmp_for c) h)) /\
  (ckind c <> LinkedHashMap -> entries_of c s' = mrun (MachineMaps.cmp_for c) h) /\
  (ckind c = HashMap -> entries_of c s' = sort_entries kvs).
Proof. exact C12_denotes_map_proof. Qed.
Print Assumptions C12_denotes_map.

(* LinkedHashMap: each distinct key at the position of its FIRST occurrence, with its LAST value *)
Theorem C12_denotes_linkedmap : forall c s kvs, ckind c = LinkedHashMap -> s <> StCrash ->
  let s' := fst (from_json c (DObj kvs) s) in
  keys_of c s' = fold_left order_step (map EIns (map fst kvs)) [] /\
  (forall k, get_of c s' k = oopt (hget k (sort_entries kvs))).
Proof. exact C12_denotes_linkedmap_proof. Qed.
Print Assumptions C12_denotes_linkedmap.

(* bidirectional maps: the result of successive Puts ([lb_puts]) of the members in ascending key
   order; it is one-to-one ([lbI]: both directions strictly sorted, the inverse direction holds
   exactly the swapped entries), and Get / GetKey are inverse to each other *)
Theorem C12_denotes_bidi : forall c s kvs, bidi_kind (ckind c) = true -> s <> StCrash ->
  let s' := fst (from_json c (DObj kvs) s) in
  snd (from_json c (DObj kvs) s) = true /\
  bidi_inv c s' /\
  bidi_lists s' = lb_puts (bidi_kcmp c) (bidi_vcmp c) (sort_entries kvs) ([], []) /\
  lbI (bidi_kcmp c) (bidi_vcmp c) (fst (bidi_lists s')) (snd (bidi_lists s')) /\
  (forall k v, In (k, v) (entries_of c s') ->
     get_of c s' k = oopt (Some v) /\ getkey_of c s' v = oopt (Some k)).
Proof. exact C12_denotes_bidi_proof. Qed.
Print Assumptions C12_denotes_bidi.

(* ---------- the container stays sound ---------- *)
Theorem C12_reachable : forall c ops d, config_ok c ->
  snd (from_json c d (run c ops)) = true ->
  exists ops', (forall o, In o ops' -> is_from_json o = false) /\
               fst (from_json c d (run c ops)) = run c ops'.
Proof. exact C12_reachable_proof. Qed.
Print Assumptions C12_reachable.

(* every history is equivalent to one in which the successful FromJSON (and everything before it) is
   replaced by the inserts [load_ops c d], and a failing FromJSON is dropped *)
Theorem C12_continues : forall c ops d more, config_ok c ->
  run c (ops ++ FromJSON d :: more) =
  if accepts c d then run c (load_ops c d ++ more) else run c (ops ++ more).
Proof. exact C12_continues_proof. Qed.
Print Assumptions C12_continues.

Theorem C12_load_ops_no_from_json : forall c d o, In o (load_ops c d) -> is_from_json o = false.
Proof. exact load_ops_no_from_json. Qed.
Print Assumptions C12_load_ops_no_from_json.

(* the invariant of the reachable states holds of the loaded state, from ANY non-crashed prior state *)
Theorem C12_sound : forall c s d, config_ok c -> s <> StCrash -> snd (from_json c d s) = true ->
  jinv c (fst (from_json c d s)).
Proof. exact C12_sound_proof. Qed.
Print Assumptions C12_sound.

Theorem C12_never_crashes : forall c ops, config_ok c -> run c ops <> StCrash.
Proof. exact run_not_crash. Qed.
Print Assumptions C12_never_crashes.

(* ---------- null, [] and {} ---------- *)
Theorem C12_null_empty : forall c s, s <> StCrash ->
  from_json c DNull s = (init c, true) /\
  (is_kv (ckind c) = false -> from_json c (DArr []) s = (init c, true)) /\
  (is_kv (ckind c) = true -> from_json c (DObj []) s = (init c, true)).
Proof. exact C12_null_empty_proof. Qed.
Print Assumptions C12_null_empty.

(* ---------- what is not true ---------- *)
Theorem C12_pq_array_order_false : exists c vs, ckind c = PriorityQueue /\
  fst (from_json c (DArr vs) (init c)) <> run c (map Enqueue vs).
Proof. exact C12_pq_array_order_refuted. Qed.
Print Assumptions C12_pq_array_order_false.

(* ---------- non-vacuity ---------- *)
Definition ex_prior : list op := map (fun k => Put k (k + 100)) [40; 41; 42; 43].

(* BTree of order 3 with prior content, loaded from 12 members (the name 3 occurs twice: the last value wins) ... *)
Example C12_ex_btree :
  let c := mkc BTree CNat CNat 3 3 in
  let kvs := [(5, 1); (3, 2); (9, 3); (1, 4); (12, 5); (7, 6); (2, 7); (8, 8); (11, 9); (4, 10); (6, 11); (3, 12)] in
  let '(s', ok) := from_json c (DObj kvs) (run c ex_prior) in
  ok = true /\
  entries_of c s' = [(1, 4); (2, 7); (3, 12); (4, 10); (5, 1); (6, 11); (7, 6); (8, 8); (9, 3); (11, 9); (12, 5)] /\
  s' = run c (load_ops c (DObj kvs)) /\ get_of c s' 40 = oopt None.
Proof. vm_compute. repeat split. Qed.

(* ... and with a comparator that identifies keys: one entry per class, the greatest member (by ==) wins *)
Example C12_ex_treemap_div3 :
  let c := mkc TreeMap CDiv3 CNat 3 3 in
  let kvs := [(5, 1); (3, 2); (9, 3); (1, 4); (12, 5); (7, 6)] in
  entries_of c (fst (from_json c (DObj kvs) (run c ex_prior))) = [(1, 4); (5, 1); (7, 6); (9, 3); (12, 5)].
Proof. vm_compute. reflexivity. Qed.

(* TreeBidiMap, value comparator x/3: the duplicate name 2 keeps its last value 10; values 10 and 9
   collide under x/3, so the later Put (3, 9) evicts the pair (2, 10): the result is one-to-one *)
Example C12_ex_treebidi :
  let c := mkc TreeBidiMap CNat CDiv3 3 3 in
  let '(s', ok) := from_json c (DObj [(1, 3); (2, 4); (3, 9); (2, 10)]) (run c ex_prior) in
  ok = true /\ entries_of c s' = [(1, 3); (3, 9)] /\ values_of c s' = [3; 9] /\
  getkey_of c s' 11 = oopt (Some 3) /\ get_of c s' 2 = oopt None /\ get_of c s' 40 = oopt None.
Proof. vm_compute. repeat split. Qed.

(* a ring of capacity 3 loaded from 5 values keeps the last 3; from a wrapped prior state *)
Example C12_ex_ring :
  let c := mkc CircularBuffer CNat CNat 3 3 in
  let s := run c (map Enqueue [1; 2; 3; 4] ++ [Dequeue]) in
  values_of c (fst (from_json c (DArr [10; 20; 30; 40; 50]) s)) = [30; 40; 50] /\
  fst (from_json c (DArr [10; 20; 30; 40; 50]) s) = run c (map Enqueue [10; 20; 30; 40; 50]) /\
  from_json c DErr s = (s, false) /\ from_json c (DObj []) s = (s, false) /\
  from_json c DNull s = (init c, true).
Proof. vm_compute. repeat split. Qed.

(* sets deduplicate; LinkedHashSet keeps first occurrences *)
Example C12_ex_linkedset :
  let c := mkc LinkedHashSet CNat CNat 3 3 in
  values_of c (fst (from_json c (DArr [5; 3; 5; 9; 3; 1]) (run c [Add [7; 8]]))) = [5; 3; 9; 1].
Proof. vm_compute. reflexivity. Qed.

(* LinkedHashMap: first position, last value *)
Example C12_ex_linkedmap :
  let c := mkc LinkedHashMap CNat CNat 3 3 in
  entries_of c (fst (from_json c (DObj [(5, 1); (3, 2); (5, 3); (1, 4); (3, 5)]) (run c ex_prior))) =
  [(5, 3); (3, 5); (1, 4)].
Proof. vm_compute. reflexivity. Qed.

(* the priority queue: heapified array; the FromJSON-free history that reaches it *)
Example C12_ex_pq :
  let c := mkc PriorityQueue CNat CNat 3 3 in
  fst (from_json c (DArr [3; 2; 1]) (run c [Enqueue 7])) = StHeap [1; 2; 3] /\
  load_ops c (DArr [3; 2; 1]) = [Enqueue 1; Enqueue 2; Enqueue 3] /\
  run c (map Enqueue [3; 2; 1]) = StHeap [1; 3; 2].
Proof. vm_compute. repeat split. Qed.
