(* Property C07, B-tree part.
   "a single Get, Put or Remove on a tree with n keys invokes the comparator O(log n) times (at most
    ... 4*(log2(m)+1)*(log_ceil(m/2)(n+1)+1) for a B-tree of order m)"

   Reading guide.  [get_c], [put_c], [remove_c] (Model/BTreeCost.v) count every comparator call the Go
   code makes for one Get / Put / Remove: one per iteration of every binary search, including the
   search splitNonRoot performs in the parent for every split and the searches of leftSibling /
   rightSibling at every underflowing level.  [fuel] is the recursion bound of the model (the machine
   passes the tree height); the bounds hold for every fuel.  [node_le m root]: every node has at most
   m - 1 entries.  [btree_inv m (Some root)] (Proofs/BTreeInv.v) is the documented shape invariant,
   preserved by Put and Remove: all leaves at the same depth, between ceil(m/2) - 1 and m - 1 entries
   per non-root node.  [maxheight root] is the number of levels, equal to [height root] = Height()
   under the invariant.  [count root] is n.

   The quantity log_ceil(m/2)(n+1) is expressed by its defining inequality: any L with
   n + 1 < ceil(m/2)^(L+1), in particular L = floor(log_ceil(m/2)(n+1)) ([C07_bt_cost_n]); with
   ceil(m/2) >= 2 this also gives the closed form 4*(log2 m + 1)*log2(n+1) ([C07_bt_cost_log2]).
   On the empty tree ([None]) Put and Remove make no comparator call ([put_c_empty],
   [remove_c_empty] in Proofs/BTreeCostProofs.v). *)
From Coq Require Import ZArith List Lia Bool Arith.
From Gods Require Import Common.Cmp Model.BTree Model.BTreeCost.
From Gods Require Import Proofs.BTreeInv Proofs.BTreeCostProofs.
Import ListNotations.

(* ---------- one binary search over k entries: at most floor(log2 k) + 1 comparator calls ---------- *)
Theorem C07_bt_search : forall cmp key es, (search_c cmp key es <= Nat.log2 (length es) + 1)%nat.
Proof. exact BTreeCostProofs.search_c_bound. Qed.
Print Assumptions C07_bt_search.

(* ---------- per operation, with the sharp constants: Get one search per level, Put at most two
   (except at the leaf), Remove at most three (except at the leaf) ---------- *)
Theorem C07_bt_get : forall m cmp fuel key root, node_le m root ->
  (get_c cmp fuel key root <= per_node m * maxheight root)%nat.
Proof. exact BTreeCostProofs.get_c_bound. Qed.
Print Assumptions C07_bt_get.

Theorem C07_bt_put : forall m cmp fuel e root, node_le m root ->
  (put_c m cmp fuel e (Some root) <= per_node m * (2 * maxheight root - 1))%nat.
Proof. exact BTreeCostProofs.put_c_bound_sharp. Qed.
Print Assumptions C07_bt_put.

Theorem C07_bt_remove : forall m cmp fuel key root, node_le m root ->
  (remove_c m cmp fuel key (Some root) <= per_node m * (3 * maxheight root - 2))%nat.
Proof. exact BTreeCostProofs.remove_c_bound_sharp. Qed.
Print Assumptions C07_bt_remove.

(* ---------- the property's bound in terms of the number of levels ---------- *)
Theorem C07_bt_cost : forall m cmp fuel key e root, (3 <= m)%nat -> node_le m root ->
  let H := maxheight root in
  (get_c cmp fuel key root <= 4 * (Nat.log2 m + 1) * H)%nat /\
  (put_c m cmp fuel e (Some root) <= 4 * (Nat.log2 m + 1) * H)%nat /\
  (remove_c m cmp fuel key (Some root) <= 4 * (Nat.log2 m + 1) * H)%nat.
Proof. exact BTreeCostProofs.C07_bt_cost. Qed.
Print Assumptions C07_bt_cost.

Theorem C07_bt_cost_inv : forall m cmp fuel key e root, (3 <= m)%nat -> btree_inv m (Some root) ->
  let H := height root in
  (get_c cmp fuel key root <= 4 * (Nat.log2 m + 1) * H)%nat /\
  (put_c m cmp fuel e (Some root) <= 4 * (Nat.log2 m + 1) * H)%nat /\
  (remove_c m cmp fuel key (Some root) <= 4 * (Nat.log2 m + 1) * H)%nat.
Proof. exact BTreeCostProofs.C07_bt_cost_inv. Qed.
Print Assumptions C07_bt_cost_inv.

(* ---------- the property's bound in terms of the number of keys ---------- *)
Theorem C07_bt_cost_n : forall m cmp fuel key e root L, (3 <= m)%nat -> btree_inv m (Some root) ->
  (count root + 1 < ((m + 1) / 2) ^ (L + 1))%nat ->
  (get_c cmp fuel key root <= 4 * (Nat.log2 m + 1) * (L + 1))%nat /\
  (put_c m cmp fuel e (Some root) <= 4 * (Nat.log2 m + 1) * (L + 1))%nat /\
  (remove_c m cmp fuel key (Some root) <= 4 * (Nat.log2 m + 1) * (L + 1))%nat.
Proof. exact BTreeCostProofs.C07_bt_cost_n. Qed.
Print Assumptions C07_bt_cost_n.

Theorem C07_bt_cost_log2 : forall m cmp fuel key e root, (3 <= m)%nat -> btree_inv m (Some root) ->
  let B := (4 * (Nat.log2 m + 1) * Nat.log2 (count root + 1))%nat in
  (get_c cmp fuel key root <= B)%nat /\
  (put_c m cmp fuel e (Some root) <= B)%nat /\
  (remove_c m cmp fuel key (Some root) <= B)%nat.
Proof. exact BTreeCostProofs.C07_bt_cost_log2. Qed.
Print Assumptions C07_bt_cost_log2.

(* ---------- a concrete order-3 tree of 15 keys (0..14 inserted in order: 4 levels) ---------- *)
Definition ex_keys : list Z := [0;1;2;3;4;5;6;7;8;9;10;11;12;13;14]%Z.
Definition ex_put (r : option node) (k : Z) : option node :=
  match put 3 Z.compare 8 (k, k) r with Some (r', _) => r' | None => r end.
Definition ex_tree : node :=
  match fold_left ex_put ex_keys None with Some n => n | None => N [] [] end.
Definition ex_probes : list Z := (-1 :: ex_keys ++ [15])%Z.
Definition ex_max (f : Z -> nat) : nat := list_max (map f ex_probes).

(* worst case over the keys -1..15: 4 calls for Get, 4 for Put, 10 for Remove; the bound of the
   property is 4 * (log2 3 + 1) * 4 = 32 *)
Example C07_bt_example :
  (count ex_tree, height ex_tree, maxheight ex_tree) = (15, 4, 4)%nat /\
  ex_max (fun k => get_c Z.compare 8 k ex_tree) = 4%nat /\
  ex_max (fun k => put_c 3 Z.compare 8 (k, k) (Some ex_tree)) = 4%nat /\
  ex_max (fun k => remove_c 3 Z.compare 8 k (Some ex_tree)) = 10%nat /\
  (4 * (Nat.log2 3 + 1) * height ex_tree = 32)%nat /\
  (4 * (Nat.log2 3 + 1) * Nat.log2 (count ex_tree + 1) = 32)%nat.
Proof. vm_compute. repeat split; reflexivity. Qed.
