(* Property C03.
   "For ArrayList, SinglyLinkedList and DoublyLinkedList, after any history of
    Add/Append/Prepend/Insert/Remove/Set/Swap/Sort/Clear, Values() equals the result of applying the
    same operations to an abstract sequence: Insert(i, vs...) splices vs before position i for
    0 <= i <= size, Set(size, v) appends, Sort leaves the comparator-sorted permutation, and
    Insert/Set/Remove/Swap with any other index are no-ops.  Get(i), IndexOf(v), Contains(vs...) and
    Size() always agree with that sequence, so the three implementations are interchangeable."

   Quantifier: all histories [ops : list op] (every operation of the machine, not only the list ones),
   all indices (unbounded Z: negative, 0, middle, size-1, size, beyond), all variadic argument counts
   including zero, duplicates.

   Reading guide.  [run c ops] is the state of the machine of Model/Machine.v (whose list functions
   follow the case structure of the Go methods) after the history [ops]; [abs_run c ops] is the same
   history applied to a mathematical sequence with the operations of Spec/SeqSpec.v
   ([abs_of_op], defined in Proofs/C03Proofs.v, is the dictionary).  ArrayList has no Append/Prepend:
   the machine answers "unsupported" and [abs_of_op] leaves the sequence unchanged for that kind; the
   interchangeability theorem therefore asks that the history only uses operations both kinds offer
   ([offered]). *)
From Coq Require Import ZArith List Bool Lia Sorted Permutation.
From Gods Require Import Common.Cmp Spec.SeqSpec Model.Ops Model.Lists Model.Machine.
From Gods Require Import Proofs.ListsProofs Proofs.C03Proofs.
Import ListNotations.
Local Open Scope Z_scope.

(* ---------- Values() is the abstract sequence, for every history ---------- *)
Theorem C03_refines : forall c ops, is_list_kind (ckind c) = true ->
  run c ops = StSeq (abs_run c ops).
Proof. exact C03Proofs.C03_refines. Qed.
Print Assumptions C03_refines.

Theorem C03_values : forall c ops, is_list_kind (ckind c) = true ->
  values_of c (run c ops) = abs_run c ops.
Proof. exact C03Proofs.C03_values. Qed.
Print Assumptions C03_values.

Theorem C03_never_crashes : forall c ops, is_list_kind (ckind c) = true -> run c ops <> StCrash.
Proof. exact C03Proofs.C03_never_crashes. Qed.
Print Assumptions C03_never_crashes.

(* ---------- the three implementations are interchangeable ---------- *)
Theorem C03_interchangeable : forall c1 c2 ops,
  is_list_kind (ckind c1) = true -> is_list_kind (ckind c2) = true ->
  forallb (offered (ckind c1)) ops = true -> forallb (offered (ckind c2)) ops = true ->
  values_of c1 (run c1 ops) = values_of c2 (run c2 ops) /\ run c1 ops = run c2 ops.
Proof. exact C03Proofs.C03_interchangeable. Qed.
Print Assumptions C03_interchangeable.

Theorem C03_linked_interchangeable : forall c1 c2 ops,
  has_append (ckind c1) = true -> has_append (ckind c2) = true ->
  run c1 ops = run c2 ops.
Proof. exact C03Proofs.C03_linked_interchangeable. Qed.
Print Assumptions C03_linked_interchangeable.

(* ---------- indices outside the stated range: nothing happens ---------- *)
Theorem C03_noop : forall c ops, is_list_kind (ckind c) = true ->
  let n := size_of c (run c ops) in
  (forall i vs, ~ (0 <= i <= n) -> run c (ops ++ [Insert i vs]) = run c ops) /\
  (forall i v, ~ (0 <= i <= n) -> run c (ops ++ [SetAt i v]) = run c ops) /\
  (forall i, ~ (0 <= i < n) -> run c (ops ++ [RemoveAt i]) = run c ops) /\
  (forall i j, ~ (0 <= i < n /\ 0 <= j < n) -> run c (ops ++ [Swap i j]) = run c ops).
Proof. exact C03Proofs.C03_noop. Qed.
Print Assumptions C03_noop.

(* ---------- indices inside the range: splice / overwrite / append / delete ---------- *)
Theorem C03_in_range : forall c ops, is_list_kind (ckind c) = true ->
  let l := values_of c (run c ops) in
  let n := size_of c (run c ops) in
  (forall i vs, 0 <= i <= n ->
     values_of c (run c (ops ++ [Insert i vs])) = firstn (Z.to_nat i) l ++ vs ++ skipn (Z.to_nat i) l) /\
  (forall v, values_of c (run c (ops ++ [SetAt n v])) = l ++ [v]) /\
  (forall i v, 0 <= i < n ->
     values_of c (run c (ops ++ [SetAt i v])) = firstn (Z.to_nat i) l ++ v :: skipn (S (Z.to_nat i)) l) /\
  (forall i, 0 <= i < n ->
     values_of c (run c (ops ++ [RemoveAt i])) = firstn (Z.to_nat i) l ++ skipn (S (Z.to_nat i)) l) /\
  (forall vs, values_of c (run c (ops ++ [Add vs])) = l ++ vs) /\
  values_of c (run c (ops ++ [Clear])) = [].
Proof. exact C03Proofs.C03_in_range. Qed.
Print Assumptions C03_in_range.

(* ---------- observers agree with the sequence ---------- *)
Theorem C03_observers : forall c ops, is_list_kind (ckind c) = true ->
  let s := run c ops in
  let l := abs_run c ops in
  size_of c s = zlen l /\
  values_of c s = l /\
  (forall o, In (TGetIdx, o) (observe c 1 s) ->
     o = OL (map (fun i => oopt (seq_get i l)) (zrange (-2) (length l + 4)))) /\
  (forall o, In (TIndexOf, o) (observe c 1 s) ->
     o = ozs (map (fun v => seq_index_of v l) (probes c))) /\
  (forall o, In (TContains, o) (observe c 1 s) ->
     o = OL (map (fun vs => obool (forallb (fun v => existsb (Z.eqb v) l) vs)) (contains_probes c))) /\
  (forall vs, contains_of c s vs = obool (forallb (fun v => existsb (Z.eqb v) l) vs)) /\
  (forall i, get_obs c l i = seq_get i l) /\
  (forall v, index_of_obs c l v = seq_index_of v l).
Proof. exact C03Proofs.C03_observers. Qed.
Print Assumptions C03_observers.

(* the complete level-1 observation vector depends on the abstract sequence only *)
Theorem C03_observe_vector : forall c ops, is_list_kind (ckind c) = true ->
  observe c 1 (run c ops) = list_vector c (abs_run c ops).
Proof. exact C03Proofs.C03_observe_vector. Qed.
Print Assumptions C03_observe_vector.

(* what the abstract observers mean *)
Theorem C03_index_of_least : forall v l,
  (seq_index_of v l = -1 /\ ~ In v l) \/
  (0 <= seq_index_of v l < zlen l /\
   seq_get (seq_index_of v l) l = Some v /\
   forall j, 0 <= j < seq_index_of v l -> seq_get j l <> Some v).
Proof. exact ListsProofs.seq_index_of_spec. Qed.
Print Assumptions C03_index_of_least.

Theorem C03_contains_all : forall vs l, seq_contains vs l = true <-> (forall v, In v vs -> In v l).
Proof. exact ListsProofs.seq_contains_spec. Qed.
Print Assumptions C03_contains_all.

(* ---------- Sort ---------- *)
Theorem C03_sort : forall c ops ci res, is_list_kind (ckind c) = true ->
  let l := values_of c (run c ops) in
  2 <= zlen l -> sort_okb (cmp_of ci) l res = true ->
  values_of c (run c (ops ++ [Sort ci res])) = res /\
  StronglySorted (cmp_le (cmp_of ci)) res /\ Permutation res l.
Proof. exact C03Proofs.C03_sort. Qed.
Print Assumptions C03_sort.

Theorem C03_sort_always : forall c ops ci res, is_list_kind (ckind c) = true ->
  let l := values_of c (run c ops) in
  let l' := values_of c (run c (ops ++ [Sort ci res])) in
  StronglySorted (cmp_le (cmp_of ci)) l' /\ Permutation l' l.
Proof. exact C03Proofs.C03_sort_always. Qed.
Print Assumptions C03_sort_always.

Theorem C03_sort_test_sound : forall cmp l res, sort_okb cmp l res = true ->
  Sorted (cmp_le cmp) res /\ Permutation res l.
Proof. exact ListsProofs.sort_okb_sound. Qed.
Print Assumptions C03_sort_test_sound.

Theorem C03_sort_result_exists : forall cmp, SWO cmp -> forall l, sort_okb cmp l (isort cmp l) = true.
Proof. exact ListsProofs.isort_ok. Qed.
Print Assumptions C03_sort_result_exists.

(* ---------- each Go-shaped list function is the sequence operation (L1 = L2) ---------- *)
Theorem C03_L1_is_L2 :
  (forall i vs l, al_insert i vs l = seq_insert i vs l /\ sll_insert i vs l = seq_insert i vs l /\
                  dll_insert i vs l = seq_insert i vs l) /\
  (forall i v l, al_set i v l = seq_set i v l /\ sll_set i v l = seq_set i v l /\ dll_set i v l = seq_set i v l) /\
  (forall i l, al_remove i l = seq_remove i l /\ sll_remove i l = seq_remove i l /\ dll_remove i l = seq_remove i l) /\
  (forall i j l, al_swap i j l = seq_swap i j l /\ sll_swap i j l = seq_swap i j l /\ dll_swap i j l = seq_swap i j l) /\
  (forall vs l, al_add vs l = l ++ vs /\ sll_add vs l = l ++ vs /\ dll_add vs l = l ++ vs) /\
  (forall vs l, sll_prepend vs l = vs ++ l /\ dll_prepend vs l = vs ++ l) /\
  (forall i l, al_get i l = seq_get i l /\ sll_get i l = seq_get i l /\ dll_get i l = seq_get i l) /\
  (forall v l, al_index_of v l = seq_index_of v l /\ sll_index_of v l = seq_index_of v l /\
               dll_index_of v l = seq_index_of v l) /\
  (forall vs l, al_contains vs l = seq_contains vs l /\ sll_contains vs l = seq_contains vs l /\
                dll_contains vs l = seq_contains vs l).
Proof.
  exact (conj (fun i vs l => conj (al_insert_eq i vs l) (conj (sll_insert_eq i vs l) (dll_insert_eq i vs l)))
        (conj (fun i v l => conj (al_set_eq i v l) (conj (sll_set_eq i v l) (dll_set_eq i v l)))
        (conj (fun i l => conj (al_remove_eq i l) (conj (sll_remove_eq i l) (dll_remove_eq i l)))
        (conj (fun i j l => conj (al_swap_eq i j l) (conj (sll_swap_eq i j l) (dll_swap_eq i j l)))
        (conj (fun vs l => conj (al_add_eq vs l) (conj (sll_add_eq vs l) (dll_add_eq vs l)))
        (conj (fun vs l => conj (sll_prepend_eq vs l) (dll_prepend_eq vs l))
        (conj (fun i l => conj (al_get_eq i l) (conj (sll_get_eq i l) (dll_get_eq i l)))
        (conj (fun v l => conj (al_index_of_eq v l) (conj (sll_index_of_eq v l) (dll_index_of_eq v l)))
              (fun vs l => conj (al_contains_eq vs l) (conj (sll_contains_eq vs l) (dll_contains_eq vs l))))))))))).
Qed.
Print Assumptions C03_L1_is_L2.

(* ---------- examples ---------- *)
Definition cfg (k : kind) : config :=
  {| ckind := k; kcmp := CNat; vcmp := CNat; ccap := 0; corder := 0; cuni := 3 |}.
Definition three {A} (f : kind -> A) : list A := [f ArrayList; f SinglyLinkedList; f DoublyLinkedList].
Definition vals (ops : list op) : list (list Z) := three (fun k => values_of (cfg k) (run (cfg k) ops)).

(* Insert at size appends; at size + 1 and at -1 it does nothing; with no values it does nothing *)
Example ex_insert_at_size : vals [Add [1; 2]; Insert 2 [7; 8]] = [[1; 2; 7; 8]; [1; 2; 7; 8]; [1; 2; 7; 8]].
Proof. vm_compute; reflexivity. Qed.
Example ex_insert_middle : vals [Add [1; 2; 3]; Insert 1 [7; 7]] = [[1; 7; 7; 2; 3]; [1; 7; 7; 2; 3]; [1; 7; 7; 2; 3]].
Proof. vm_compute; reflexivity. Qed.
Example ex_insert_beyond : vals [Add [1; 2]; Insert 3 [7; 8]] = [[1; 2]; [1; 2]; [1; 2]].
Proof. vm_compute; reflexivity. Qed.
Example ex_insert_negative : vals [Add [1; 2]; Insert (-1) [7]] = [[1; 2]; [1; 2]; [1; 2]].
Proof. vm_compute; reflexivity. Qed.
Example ex_insert_nothing_at_head : vals [Add [1; 2]; Insert 0 []] = [[1; 2]; [1; 2]; [1; 2]].
Proof. vm_compute; reflexivity. Qed.
Example ex_insert_head : vals [Add [1; 2]; Insert 0 [9; 9]] = [[9; 9; 1; 2]; [9; 9; 1; 2]; [9; 9; 1; 2]].
Proof. vm_compute; reflexivity. Qed.
Example ex_insert_into_empty : vals [Insert 0 [5; 6]] = [[5; 6]; [5; 6]; [5; 6]].
Proof. vm_compute; reflexivity. Qed.

(* Set(size, v) appends, Set(size + 1, v) does nothing *)
Example ex_set_at_size : vals [Add [1; 2]; SetAt 2 9] = [[1; 2; 9]; [1; 2; 9]; [1; 2; 9]].
Proof. vm_compute; reflexivity. Qed.
Example ex_set_beyond : vals [Add [1; 2]; SetAt 3 9; SetAt (-1) 9] = [[1; 2]; [1; 2]; [1; 2]].
Proof. vm_compute; reflexivity. Qed.
Example ex_set_inside : vals [Add [1; 2; 3]; SetAt 1 9] = [[1; 9; 3]; [1; 9; 3]; [1; 9; 3]].
Proof. vm_compute; reflexivity. Qed.

(* Remove / Swap *)
Example ex_remove : vals [Add [1; 2; 2; 3]; RemoveAt 2; RemoveAt 3; RemoveAt (-1)] = [[1; 2; 3]; [1; 2; 3]; [1; 2; 3]].
Proof. vm_compute; reflexivity. Qed.
Example ex_remove_last_one : vals [Add [4]; RemoveAt 0; Add [5]] = [[5]; [5]; [5]].
Proof. vm_compute; reflexivity. Qed.
Example ex_swap : vals [Add [1; 2; 3]; Swap 0 2; Swap 1 1; Swap 0 3; Swap (-1) 0] = [[3; 2; 1]; [3; 2; 1]; [3; 2; 1]].
Proof. vm_compute; reflexivity. Qed.

(* Sort: a correct result is adopted, a wrong one is replaced by the insertion-sorted content *)
Example ex_sort_accepts : vals [Add [3; 1; 2; 1]; Sort CNat [1; 1; 2; 3]] = [[1; 1; 2; 3]; [1; 1; 2; 3]; [1; 1; 2; 3]].
Proof. vm_compute; reflexivity. Qed.
Example ex_sort_rejects : vals [Add [3; 1; 2; 1]; Sort CRev [3; 1; 2; 1]] = [[3; 2; 1; 1]; [3; 2; 1; 1]; [3; 2; 1; 1]].
Proof. vm_compute; reflexivity. Qed.
Example ex_sort_weak_order :   (* 4 and 5 are equivalent under x / 3: either order is acceptable *)
  vals [Add [5; 4; 0]; Sort CDiv3 [0; 5; 4]] = [[0; 5; 4]; [0; 5; 4]; [0; 5; 4]] /\
  vals [Add [5; 4; 0]; Sort CDiv3 [0; 4; 5]] = [[0; 4; 5]; [0; 4; 5]; [0; 4; 5]].
Proof. vm_compute; split; reflexivity. Qed.

(* Append / Prepend exist on the linked lists only *)
Example ex_prepend : vals [Add [1]; Prepend [7; 8]; Append [9]] = [[1]; [7; 8; 1; 9]; [7; 8; 1; 9]].
Proof. vm_compute; reflexivity. Qed.

(* observers: Get on both sides of the middle (the doubly linked list walks from the tail), IndexOf
   with duplicates, Contains with zero / duplicate / missing values *)
Example ex_observers :
  three (fun k => map (fun i => get_obs (cfg k) [5; 6; 6; 7] i) [-1; 0; 1; 2; 3; 4]) =
    (let r := [None; Some 5; Some 6; Some 6; Some 7; None] in [r; r; r]) /\
  three (fun k => map (index_of_obs (cfg k) [5; 6; 6; 7]) [6; 7; 8]) = [[1; 3; -1]; [1; 3; -1]; [1; 3; -1]] /\
  map (fun vs => seq_contains vs [5; 6; 6; 7]) [[]; [6; 6]; [7; 5]; [5; 8]] = [true; true; true; false] /\
  map (fun vs => sll_contains vs []) [[]; [1]] = [true; false].
Proof. vm_compute; repeat split; reflexivity. Qed.

Example ex_observe_vector :
  observe (cfg DoublyLinkedList) 1 (run (cfg DoublyLinkedList) [Add [5; 6]; Insert 1 [6]]) =
  observe (cfg ArrayList) 1 (run (cfg ArrayList) [Add [5]; SetAt 1 6; Insert 2 [6]]).
Proof. vm_compute; reflexivity. Qed.

(* ---------- rebuilding a list from its own Values() ----------
   Model side of the "variadic constructor" conjunct of harness sane bit 7: the harness checks after
   every operation that New(list.Values()...) — in the Go code "construct empty, then one
   Add(values...) call", at machine level the one-operation history [Add vs] — has the same observation
   vector (size, empty, values, contains, getidx, indexof) as the list itself.  Here: for every
   configuration of the three list kinds and EVERY history, the rebuilt machine state is not a panic
   and IS the state of the original (so every observer agrees, at every observation level). *)
From Gods Require Import Proofs.RebuildProofs.

Theorem C03_rebuild_from_values : forall c ops, is_list_kind (ckind c) = true ->
  let s := run c ops in
  let r := run c [Add (values_of c s)] in
  r <> StCrash /\ r = s /\ forall lvl, observe c lvl r = observe c lvl s.
Proof. exact rebuild_list_full. Qed.
Print Assumptions C03_rebuild_from_values.

Example ex_rebuild_from_values :
  let h := [Add [3; 1; 3]; Insert 1 [7; 7]; Prepend [4]; RemoveAt 0; Swap 0 2; Add [1]] in
  three (fun k => run (cfg k) [Add (values_of (cfg k) (run (cfg k) h))]) = three (fun k => run (cfg k) h) /\
  three (fun k => run (cfg k) h) = [StSeq [1; 7; 7; 3; 1]; StSeq [7; 7; 3; 1; 3; 1]; StSeq [7; 7; 3; 1; 3; 1]].
Proof. vm_compute; split; reflexivity. Qed.
