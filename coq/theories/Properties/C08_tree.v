(* Property C08, the tree iterators.
   "For every ordered container with n elements that is not modified meanwhile, and any sequence of
    Next/Prev/Begin/End/First/Last/NextTo/PrevTo calls, the iterator behaves as a cursor over
    positions -1..n of the container's Values()/Keys() sequence: Next and Prev move one step and
    saturate at n and -1, return true exactly when the new position is within 0..n-1, and then
    Index()/Key()/Value() are those of that position; Begin/End/First/Last jump to -1/n/0/n-1.
    NextTo/PrevTo stop at the nearest later/earlier element satisfying the predicate, or run off the
    end and return false; forward-only iterators obey the same rules without the backward half."

   This file covers the six kinds whose iterator walks a tree: RedBlackTree, TreeMap, TreeBidiMap
   (red-black path iterator over the (forward) tree), TreeSet (the same iterator plus an index),
   AVLTree (AVL path iterator), BTree (path iterator that re-finds its entry by key in every node).
   All six are bidirectional.  (The twelve index / linked-list iterators are in C08_linear.v.)

   Reading guide.
   - The specification is the SAME cursor as in C08_linear.v (Proofs/IterLinear.v, Section Cursor):
     the state is a position p in [-1, n] over a list l of (key, value) pairs - (index, element) pairs
     for TreeSet; [cursor_call l has_prev p c] gives the new position and the observation of one
     call; [cursor_script l has_prev cs] runs a script from a fresh iterator (position -1).  The
     observation of a move is [OL [OZ 1; OZ k; OZ v]] (true, then Key()/Index() and Value()) or
     [OL [OZ 0]] (false); Begin/End answer [ounit].
   - [run_iter c s cs] is the machine's execution of the script cs by the model of the Go iterator
     (Model/Iter.v, RBTree.v, AVLTree.v, BTreeIter.v) on state s; a crash would show as [ocrash].  The
     theorems are equalities of observation lists for EVERY script after EVERY list of operations
     [run c ops], so they also say that the iterator never crashes and NextTo/PrevTo terminate.
   - [tree_iter_seq c s] = [entries_of c s], the (key, value) entries in Keys() order - for
     TreeBidiMap the forward map's entries - and [indexed (values_of c s)] = [(0, v0); (1, v1); ...]
     for TreeSet.  [C08_tree_seq]: its length is Size(), its first components are Keys(), its second
     components are Values() (except TreeBidiMap, whose Values() are listed in value order).
   - Hypotheses: on the configuration only, [is_tree_iter_kind (ckind c) = true] and
     [btree_ok c = true] (a BTree is built with order >= 3; smaller orders panic in the constructor).
     (The model's B-tree iterator descends and climbs with the fuel S (maxheight root), which always
     suffices: Model/BTreeIter.v, [fuel_of].) *)
From Coq Require Import ZArith List Bool Lia.
From Gods Require Import Common.Cmp Spec.SeqSpec Model.Ops Model.Iter Model.Machine.
From Gods Require Proofs.BTreeInv Proofs.IterTreeBT.
From Gods Require Import Proofs.IterLinear Proofs.IterTreeMachine.
Import ListNotations.
Local Open Scope Z_scope.

(* ====================== machine level: the iterator is the cursor ====================== *)

(* after every history of operations, every script, all six kinds *)
Theorem C08_tree_cursor : forall c ops cs, is_tree_iter_kind (ckind c) = true -> btree_ok c = true ->
  run_iter c (run c ops) cs = cursor_script (tree_iter_seq c (run c ops)) true cs.
Proof. exact tree_iter_reachable. Qed.
Print Assumptions C08_tree_cursor.

(* hence the answers of a script depend on the enumerated sequence only, not on the shape of the tree *)
Theorem C08_tree_seq_only : forall c ops1 ops2 cs, is_tree_iter_kind (ckind c) = true -> btree_ok c = true ->
  tree_iter_seq c (run c ops1) = tree_iter_seq c (run c ops2) ->
  run_iter c (run c ops1) cs = run_iter c (run c ops2) cs.
Proof. exact tree_iter_seq_only. Qed.
Print Assumptions C08_tree_seq_only.

(* the reachable states never crash and keep the invariant the iterators rely on: cached size =
   number of nodes; for the B-tree the shape invariant and strictly ascending entries *)
Theorem C08_tree_reachable : forall c ops, is_tree_iter_kind (ckind c) = true -> btree_ok c = true ->
  tree_state c (run c ops) /\ run c ops <> StCrash.
Proof. exact (fun c ops Hk Hb => conj (run_tree_state c ops Hk Hb) (run_tree_not_crash c ops Hk Hb)). Qed.
Print Assumptions C08_tree_reachable.

(* every state satisfying that invariant, every script *)
Theorem C08_tree : forall c s cs, tree_state c s ->
  run_iter c s cs = cursor_script (tree_iter_seq c s) true cs.
Proof. exact tree_iter_is_cursor. Qed.
Print Assumptions C08_tree.

(* the full forward and backward walks of a fresh iterator (what Each / Keys / Values / String and
   the enumerable functions range over) visit exactly that sequence, and its reverse *)
Theorem C08_tree_forward : forall c ops, is_tree_iter_kind (ckind c) = true -> btree_ok c = true ->
  each_of c (run c ops) = Some (tree_iter_seq c (run c ops)).
Proof. exact each_of_tree_machine. Qed.
Print Assumptions C08_tree_forward.

Theorem C08_tree_backward : forall c ops, is_tree_iter_kind (ckind c) = true -> btree_ok c = true ->
  each_back c (run c ops) = Some (rev (entries_of c (run c ops))).
Proof. exact each_back_tree_machine. Qed.
Print Assumptions C08_tree_backward.

(* the sequence: n = Size(), keys = Keys(), values = Values() *)
Theorem C08_tree_seq : forall c ops, is_tree_iter_kind (ckind c) = true -> btree_ok c = true ->
  let s := run c ops in
  cur_n (tree_iter_seq c s) = size_of c s /\
  (ckind c <> TreeSet -> map fst (tree_iter_seq c s) = keys_of c s) /\
  (ckind c <> TreeBidiMap -> map snd (tree_iter_seq c s) = values_of c s).
Proof. exact tree_seq_reachable. Qed.
Print Assumptions C08_tree_seq.

(* ====================== the laws of the cursor, over a reachable tree container ====================== *)
(* l = the container's sequence, n = Size(); the iterators are bidirectional (has_prev = true) *)

(* positions stay within [-1, n] *)
Theorem C08_tree_cursor_range : forall c ops, is_tree_iter_kind (ckind c) = true -> btree_ok c = true ->
  forall p call,
  let l := tree_iter_seq c (run c ops) in let n := size_of c (run c ops) in
  -1 <= p <= n -> -1 <= fst (cursor_call l true p call) <= n.
Proof. exact tree_cursor_range. Qed.
Print Assumptions C08_tree_cursor_range.

(* Next and Prev move one step and saturate at n and -1 *)
Theorem C08_tree_next_prev : forall c ops, is_tree_iter_kind (ckind c) = true -> btree_ok c = true ->
  forall p,
  let l := tree_iter_seq c (run c ops) in let n := size_of c (run c ops) in
  (p < n -> cur_next l p = p + 1) /\ (n <= p -> cur_next l p = p) /\
  (0 <= p -> cur_prev p = p - 1) /\ (p < 0 -> cur_prev p = p).
Proof. exact tree_next_prev. Qed.
Print Assumptions C08_tree_next_prev.

(* every moving call answers true exactly when the new position is within 0..n-1 and then reports
   Key() (Index() for TreeSet) and Value() of the element of that position; otherwise the new position
   is -1 or n and the answer is false *)
Theorem C08_tree_move_result : forall c ops, is_tree_iter_kind (ckind c) = true -> btree_ok c = true ->
  forall p call,
  let l := tree_iter_seq c (run c ops) in let n := size_of c (run c ops) in
  -1 <= p <= n ->
  match call with CBegin | CEnd => True | _ =>
    let p' := fst (cursor_call l true p call) in
    (0 <= p' < n /\
     exists k v, nth_error l (Z.to_nat p') = Some (k, v) /\ snd (cursor_call l true p call) = OL [OZ 1; OZ k; OZ v])
    \/ ((p' = -1 \/ p' = n) /\ snd (cursor_call l true p call) = OL [OZ 0])
  end.
Proof. exact tree_move_result. Qed.
Print Assumptions C08_tree_move_result.

(* Begin / End jump to -1 / n *)
Theorem C08_tree_begin_end : forall c ops, is_tree_iter_kind (ckind c) = true -> btree_ok c = true ->
  forall p,
  let l := tree_iter_seq c (run c ops) in let n := size_of c (run c ops) in
  cursor_call l true p CBegin = (-1, ounit) /\ cursor_call l true p CEnd = (n, ounit).
Proof. exact tree_begin_end. Qed.
Print Assumptions C08_tree_begin_end.

(* First = Begin; Next: lands on 0, false exactly on the empty container *)
Theorem C08_tree_first : forall c ops, is_tree_iter_kind (ckind c) = true -> btree_ok c = true ->
  forall p,
  let l := tree_iter_seq c (run c ops) in let n := size_of c (run c ops) in
  cursor_call l true p CFirst = cursor_call l true (fst (cursor_call l true p CBegin)) CNext /\
  fst (cursor_call l true p CFirst) = 0 /\
  (snd (cursor_call l true p CFirst) = OL [OZ 0] <-> n = 0).
Proof. exact tree_first. Qed.
Print Assumptions C08_tree_first.

(* Last = End; Prev: lands on n - 1 *)
Theorem C08_tree_last : forall c ops, is_tree_iter_kind (ckind c) = true -> btree_ok c = true ->
  forall p,
  let l := tree_iter_seq c (run c ops) in let n := size_of c (run c ops) in
  cursor_call l true p CLast = cursor_call l true (fst (cursor_call l true p CEnd)) CPrev /\
  fst (cursor_call l true p CLast) = n - 1.
Proof. exact tree_last. Qed.
Print Assumptions C08_tree_last.

(* NextTo lands on the LEAST later position whose element satisfies the predicate, or on n *)
Theorem C08_tree_next_to_least : forall c ops, is_tree_iter_kind (ckind c) = true -> btree_ok c = true ->
  forall pr p,
  let l := tree_iter_seq c (run c ops) in let n := size_of c (run c ops) in
  -1 <= p < n ->
  let r := cur_next_to l pr p in
  p < r <= n /\ (r < n -> cur_holds l pr r = true) /\ (forall q, p < q < r -> cur_holds l pr q = false).
Proof. exact tree_next_to_least. Qed.
Print Assumptions C08_tree_next_to_least.

Theorem C08_tree_next_to_at_end : forall c ops, is_tree_iter_kind (ckind c) = true -> btree_ok c = true ->
  forall pr p,
  let l := tree_iter_seq c (run c ops) in let n := size_of c (run c ops) in
  n <= p -> cur_next_to l pr p = p.
Proof. exact tree_next_to_at_end. Qed.
Print Assumptions C08_tree_next_to_at_end.

(* PrevTo lands on the GREATEST earlier position whose element satisfies the predicate, or on -1 *)
Theorem C08_tree_prev_to_greatest : forall c ops, is_tree_iter_kind (ckind c) = true -> btree_ok c = true ->
  forall pr p,
  let l := tree_iter_seq c (run c ops) in let n := size_of c (run c ops) in
  0 <= p <= n ->
  let r := cur_prev_to l pr p in
  -1 <= r < p /\ (-1 < r -> cur_holds l pr r = true) /\ (forall q, r < q < p -> cur_holds l pr q = false).
Proof. exact tree_prev_to_greatest. Qed.
Print Assumptions C08_tree_prev_to_greatest.

Theorem C08_tree_prev_to_at_begin : forall c ops pr p,
  let l := tree_iter_seq c (run c ops) in
  p < 0 -> cur_prev_to l pr p = p.
Proof. exact tree_prev_to_at_begin. Qed.
Print Assumptions C08_tree_prev_to_at_begin.

(* ====================== the Go-shaped path iterators refine the cursor ====================== *)

(* (a) red-black path iterator, on ANY tree: the walk is purely structural *)
Theorem C08_rb_path_iterator : forall (t : RB.tree) fuel cs, (RB.count t + 2 <= fuel)%nat ->
  run_script RB.ipos (rb_next t) (rb_prev t) (fun _ => RB.IBegin) (fun _ => RB.IEnd) (RB.ikv t) true fuel RB.IBegin cs
  = cursor_script (RB.inorder t) true cs.
Proof. exact rb_path_iterator. Qed.
Print Assumptions C08_rb_path_iterator.

(* (b) TreeSet: the same iterator with an index next to it *)
Theorem C08_treeset_iterator : forall (t : RB.tree) fuel cs, (RB.count t + 2 <= fuel)%nat ->
  run_script (Z * RB.ipos) (ts_next t (Z.of_nat (RB.count t))) (ts_prev t) ts_begin
             (ts_end (Z.of_nat (RB.count t))) (ts_cur t) true fuel (-1, RB.IBegin) cs
  = cursor_script (indexed (RB.keys t)) true cs.
Proof. exact treeset_iterator. Qed.
Print Assumptions C08_treeset_iterator.

(* (c) AVL path iterator, on any tree *)
Theorem C08_avl_path_iterator : forall (t : AVL.tree) fuel cs, (AVL.count t + 2 <= fuel)%nat ->
  run_script AVL.ipos (avl_next t) (avl_prev t) (fun _ => AVL.IBegin) (fun _ => AVL.IEnd) (AVL.ikv t) true fuel AVL.IBegin cs
  = cursor_script (AVL.inorder t) true cs.
Proof. exact avl_path_iterator. Qed.
Print Assumptions C08_avl_path_iterator.

(* (d) B-tree path iterator: it searches its key again in the node and in every ancestor, so it needs
   the shape invariant and strictly ascending entries under a strict weak order (both hold for every
   reachable state) *)
Theorem C08_bt_path_iterator : forall cmp, SWO cmp -> forall m (r : option BT.node) fuel cs, (3 <= m)%nat ->
  BTreeInv.btree_inv m r -> BTreeInv.sorted_root cmp r ->
  (length (bt_inorder r) + 2 <= fuel)%nat ->
  run_script BTI.ipos (bt_next cmp r) (bt_prev cmp r) (fun _ => BTI.IBegin) (fun _ => BTI.IEnd) (BTI.ientry r) true fuel BTI.IBegin cs
  = cursor_script (bt_inorder r) true cs.
Proof. exact bt_path_iterator. Qed.
Print Assumptions C08_bt_path_iterator.

(* kind by kind, with the sequence spelled out *)
Theorem C08_RedBlackTree : forall c t n cs, ckind c = RedBlackTree \/ ckind c = TreeMap ->
  n = Z.of_nat (RB.count t) ->
  run_iter c (StRB t n) cs = cursor_script (entries_of c (StRB t n)) true cs.
Proof. exact iter_RedBlackTree. Qed.
Print Assumptions C08_RedBlackTree.

Theorem C08_TreeSet : forall c t n cs, ckind c = TreeSet -> n = Z.of_nat (RB.count t) ->
  run_iter c (StRB t n) cs = cursor_script (indexed (values_of c (StRB t n))) true cs.
Proof. exact iter_TreeSet. Qed.
Print Assumptions C08_TreeSet.

Theorem C08_TreeBidiMap : forall c f fn i inn cs, fn = Z.of_nat (RB.count f) ->
  run_iter c (StTBidi f fn i inn) cs = cursor_script (entries_of c (StTBidi f fn i inn)) true cs.
Proof. exact iter_TreeBidiMap. Qed.
Print Assumptions C08_TreeBidiMap.

Theorem C08_AVLTree : forall c t n cs, n = Z.of_nat (AVL.count t) ->
  run_iter c (StAVL t n) cs = cursor_script (entries_of c (StAVL t n)) true cs.
Proof. exact iter_AVLTree. Qed.
Print Assumptions C08_AVLTree.

Theorem C08_BTree : forall c r n cs, (3 <= bt_m c)%nat ->
  BTreeInv.btree_inv (bt_m c) r -> BTreeInv.sorted_root (kc c) r ->
  n = Z.of_nat (length (bt_inorder r)) ->
  run_iter c (StBT r n) cs = cursor_script (entries_of c (StBT r n)) true cs.
Proof. exact iter_BTree. Qed.
Print Assumptions C08_BTree.

(* ====================== examples ====================== *)
Definition cfg (k : kind) : config :=
  {| ckind := k; kcmp := CNat; vcmp := CNat; ccap := 3; corder := 3; cuni := 3 |}.
Definition cfg_div3 (k : kind) : config :=                  (* keys compared by k / 3: 0,1,2 are ONE key *)
  {| ckind := k; kcmp := CDiv3; vcmp := CNat; ccap := 3; corder := 3; cuni := 3 |}.
Definition it (k : kind) (ops : list op) (cs : list icall) : list obs := run_iter (cfg k) (run (cfg k) ops) cs.
Definition puts (ks : list Z) : list op := map (fun k => Put k (10 * k)) ks.
Definition T (i v : Z) : obs := OL [OZ 1; OZ i; OZ v].      (* moved: true, Key()/Index() = i, Value() = v *)
Definition F : obs := OL [OZ 0].                            (* moved: false *)
Definition U : obs := ounit.                                (* Begin / End *)

(* a B-tree of order 3 with twelve keys: three levels,
     [5 9] / [2] [7] [11] / [1] [3 4] [6] [8] [10] [12] *)
Definition bt_ops : list op := puts [5; 1; 9; 3; 7; 11; 2; 8; 4; 10; 6; 12].

Example ex_btree_shape :
  run (cfg BTree) bt_ops =
  StBT (Some (BT.N [(5, 50); (9, 90)]
                [BT.N [(2, 20)] [BT.N [(1, 10)] []; BT.N [(3, 30); (4, 40)] []];
                 BT.N [(7, 70)] [BT.N [(6, 60)] []; BT.N [(8, 80)] []];
                 BT.N [(11, 110)] [BT.N [(10, 100)] []; BT.N [(12, 120)] []]])) 12.
Proof. vm_compute; reflexivity. Qed.

(* the hypotheses of C08_tree_cursor hold for it *)
Example ex_btree_hyps :
  is_tree_iter_kind (ckind (cfg BTree)) = true /\ btree_ok (cfg BTree) = true.
Proof. split; reflexivity. Qed.

(* reversing direction at both sentinels: Prev twice below the first element stays at -1 and the next
   Next is the first element again; End then Next stays at n and the next Prev is the last element;
   the walk crosses leaves, internal nodes and the root in both directions *)
Example ex_btree :
  it BTree bt_ops
     [CNext; CNext; CPrev; CPrev; CPrev; CNext; CEnd; CNext; CPrev; CPrev; CNext; CNext; CNext; CPrev;
      CBegin; CPrev; CFirst; CLast]
  = [T 1 10; T 2 20; T 1 10; F; F; T 1 10; U; F; T 12 120; T 11 110; T 12 120; F; F; T 12 120;
     U; F; T 1 10; T 12 120].
Proof. vm_compute; reflexivity. Qed.

Example ex_btree_full_walk :
  it BTree bt_ops [CNext; CNext; CNext; CNext; CNext; CNext; CNext; CNext; CNext; CNext; CNext; CNext; CNext;
                   CPrev; CPrev; CPrev; CPrev; CPrev; CPrev; CPrev; CPrev; CPrev; CPrev; CPrev; CPrev; CPrev]
  = [T 1 10; T 2 20; T 3 30; T 4 40; T 5 50; T 6 60; T 7 70; T 8 80; T 9 90; T 10 100; T 11 110; T 12 120; F;
     T 12 120; T 11 110; T 10 100; T 9 90; T 8 80; T 7 70; T 6 60; T 5 50; T 4 40; T 3 30; T 2 20; T 1 10; F].
Proof. vm_compute; reflexivity. Qed.

(* NextTo / PrevTo: nearest match, or off the end (answer false, position n / -1) *)
Example ex_btree_next_to :
  it BTree bt_ops
     [CNextTo (PKeyEq 6); CPrevTo (PValMod 40 0); CNextTo (PValMod 40 0); CNextTo (PValMod 40 0);
      CNextTo (PValMod 40 0); CPrev; CPrevTo (PKeyEq 99); CNext]
  = [T 6 60; T 4 40; T 8 80; T 12 120; F; T 12 120; F; T 1 10].
Proof. vm_compute; reflexivity. Qed.

(* after removals that merge nodes the iterator ranges over the new sequence *)
Example ex_btree_after_remove :
  it BTree (bt_ops ++ [Remove 6; Remove 1]) [CNext; CNext; CNext; CNext; CLast; CPrev; CPrev]
  = [T 2 20; T 3 30; T 4 40; T 5 50; T 12 120; T 11 110; T 10 100].
Proof. vm_compute; reflexivity. Qed.

Example ex_btree_walks :
  each_of (cfg BTree) (run (cfg BTree) bt_ops)
  = Some [(1, 10); (2, 20); (3, 30); (4, 40); (5, 50); (6, 60); (7, 70); (8, 80); (9, 90); (10, 100); (11, 110); (12, 120)] /\
  each_back (cfg BTree) (run (cfg BTree) bt_ops)
  = Some [(12, 120); (11, 110); (10, 100); (9, 90); (8, 80); (7, 70); (6, 60); (5, 50); (4, 40); (3, 30); (2, 20); (1, 10)].
Proof. vm_compute; split; reflexivity. Qed.

(* the theorem instantiated: what the model answers IS what the cursor specification answers *)
Example ex_btree_by_theorem : forall cs,
  it BTree bt_ops cs = cursor_script (tree_iter_seq (cfg BTree) (run (cfg BTree) bt_ops)) true cs.
Proof.
  intros cs. apply C08_tree_cursor; reflexivity.
Qed.

(* red-black tree: 9 removed, the value of 3 overwritten in place; both sentinels *)
Example ex_red_black :
  it RedBlackTree (puts [5; 1; 9; 3; 7] ++ [Remove 9; Put 3 33])
     [CNext; CPrev; CPrev; CNext; CNext; CLast; CNext; CNext; CPrev; CPrevTo (PValLt 40); CPrevTo (PValLt 30); CPrevTo PTrue]
  = [T 1 10; F; F; T 1 10; T 3 33; T 7 70; F; F; T 7 70; T 3 33; T 1 10; F].
Proof. vm_compute; reflexivity. Qed.

Example ex_tree_map_empty : it TreeMap [] [CNext; CFirst; CLast; CPrev; CNextTo PTrue; CEnd; CPrev] = [F; F; F; F; F; U; F].
Proof. vm_compute; reflexivity. Qed.

(* TreeSet under the comparator k / 3: 7 and 8 are one element (the later spelling 8 is kept), so are 1
   and 2; removing 5 removes 4.  Values() = [2; 8; 13]; the iterator reports (index, element) *)
Example ex_tree_set_div3 :
  run_iter (cfg_div3 TreeSet) (run (cfg_div3 TreeSet) [Add [7; 1; 4; 8; 2; 13]; RemoveVals [5]])
     [CNext; CNext; CNext; CNext; CNext; CPrev; CBegin; CPrev; CPrev; CNext; CEnd; CNext; CPrev; CLast; CFirst;
      CNextTo (PIdxMod 2 1); CNextTo (PIdxMod 2 1)]
  = [T 0 2; T 1 8; T 2 13; F; F; T 2 13; U; F; F; T 0 2; U; F; T 2 13; T 2 13; T 0 2; T 1 8; F].
Proof. vm_compute; reflexivity. Qed.

Example ex_tree_set_div3_seq :
  tree_iter_seq (cfg_div3 TreeSet) (run (cfg_div3 TreeSet) [Add [7; 1; 4; 8; 2; 13]; RemoveVals [5]])
  = [(0, 2); (1, 8); (2, 13)].
Proof. vm_compute; reflexivity. Qed.

(* TreeBidiMap: the iterator ranges over the forward map in key order (Put 3 30 evicts key 1, whose
   value 30 it takes over) *)
Example ex_tree_bidi :
  it TreeBidiMap [Put 1 30; Put 2 20; Put 3 30; Put 4 10] [CNext; CNext; CNext; CNext; CPrev; CPrev; CPrev; CPrev; CNext]
  = [T 2 20; T 3 30; T 4 10; F; T 4 10; T 3 30; T 2 20; F; T 2 20].
Proof. vm_compute; reflexivity. Qed.

Example ex_avl :
  it AVLTree (puts [5; 1; 9; 3; 7]) [CLast; CPrev; CNext; CNext; CNext; CPrev; CBegin; CPrev; CNext]
  = [T 9 90; T 7 70; T 9 90; F; F; T 9 90; U; F; T 1 10].
Proof. vm_compute; reflexivity. Qed.

(* the same answers computed by the cursor specification directly *)
Example ex_cursor_spec :
  cursor_script [(1, 10); (3, 33); (5, 50); (7, 70)] true
     [CNext; CPrev; CPrev; CNext; CNext; CLast; CNext; CNext; CPrev; CPrevTo (PValLt 40); CPrevTo (PValLt 30); CPrevTo PTrue]
  = [T 1 10; F; F; T 1 10; T 3 33; T 7 70; F; F; T 7 70; T 3 33; T 1 10; F].
Proof. vm_compute; reflexivity. Qed.
