(* Property C18.

   "The read-only operations of every container (Get, GetKey, Contains, IndexOf, Peek, Size, Empty,
    Values, Keys, String, ToJSON, Floor, Ceiling, Min, Max, Left, Right, Height, iteration with fresh
    iterators, Each/Any/All/Find/Select/Map, set algebra, GetSortedValues) do not modify the
    container.  Hence any number of goroutines may call them concurrently on a container that no
    goroutine is mutating - the usage a caller-side RWMutex produces - without a data race, each call
    returning what it would return sequentially, and the container's state is the same afterwards."

   How this file decides it.  Purity is a fact about what the Go code does to memory; a functional
   model cannot express it (every Gallina observer is pure by construction).  The model used here is
   therefore REGENERATED FROM THE GO SOURCE ON EVERY RUN: /verif/effects (go/ssa) translates every
   function of the module into an effect record - which abstract origins it writes, which it
   captures, what it returns, whether it performs I/O, its call edges with origin substitutions -
   and emits Effects/EffectsGen.v.  Coq then
     1. computes the transitive closure [cl] of the direct effects along the call edges and proves it
        is the closure and a fixpoint ([C18_closure_is_fixpoint]);
     2. re-proves, by computation over the finite generated domain, that every function classified
        read-only by the naming rules of DESIGN.md Appendix B.4 - [readonly_api], generated from the
        method sets, so a new exported observer is included automatically - has NO write to any
        origin that is not fresh in its own activation, performs no I/O, reaches no callee without a
        summary, and writes iterator state only into iterators it created itself (or, for an iterator
        method, into its receiver) ([C18_readonly_api_pure], [C18_no_unknown_callees],
        [C18_iterator_rule]);
     3. and a generic theorem, proved once for ALL interleavings and any number of threads
        ([C18_readers_noninterfere]): threads whose writes all go to locations they allocated
        themselves (on shared locations they only read) cannot conflict - so there is no data race
        whatever the synchronisation -, leave every shared location unchanged, and each read sees
        what it would see sequentially, so each call returns its sequential result.
   The step from 2 to the hypothesis of 3 ("the events of a call of a function whose closure has no
   non-fresh write are all reads on shared locations") is the translator's soundness claim and is
   part of the trusted base (DESIGN.md 6, typing rules T, F, I, C), as is the assumption that
   comparators and callbacks passed by the caller are pure.  The dynamic counterpart is the race
   probe (/verif/probe, built with -race, with a generic deep dump of all unexported fields).

   In the functional machine the statement "observers do not modify the container" is
   [C18_model_observers_pure]: every observing operation of the operation alphabet returns the state
   it was given - true by computation, and compared with the Go code through bit 6 of the `sane`
   vector (deep fingerprint before = after all observers). *)
From Coq Require Import List String Bool PArith ZArith FMapPositive.
From Gods Require Import Effects.EffectModel Effects.EffectsGen Effects.EffectsObligations Effects.EffectsCheck.
From Gods Require Import Model.Ops Model.Machine.
Import ListNotations.

(* ---------- generic: readers do not interfere, for every interleaving ---------- *)
Theorem C18_readers_noninterfere :
  forall (ts : list (list event)) (s0 : store) (tr : list (nat * event)),
    Forall writes_own_only ts ->
    private_allocs ts ->
    interleave ts tr ->
    (forall i j e1 e2, In (i, e1) tr -> In (j, e2) tr -> i <> j -> ~ conflict e1 e2)
    /\ (forall l, shared ts l -> exec s0 tr l = s0 l)
    /\ (forall pre i l post, tr = pre ++ (i, Read l) :: post -> shared ts l -> exec s0 pre l = s0 l)
    /\ (forall pre i e post l, tr = pre ++ (i, e) :: post -> accesses e l ->
                               exec s0 pre l = exec s0 (proj i pre) l).
Proof. exact readers_noninterfere. Qed.
Print Assumptions C18_readers_noninterfere.

(* ---------- the table regenerated from /repo on this run ---------- *)
Theorem C18_table_wellformed : table_wellformed effects = true.
Proof. exact table_wellformed_ok. Qed.
Print Assumptions C18_table_wellformed.

Theorem C18_closure_is_fixpoint : cl = closure_table effects /\ stable effects cl = true.
Proof. exact (conj cl_is_closure closure_stable). Qed.
Print Assumptions C18_closure_is_fixpoint.

(* every read-only operation: no write to non-fresh memory, no I/O, iterator writes only into own
   iterators *)
Theorem C18_readonly_api_pure : forallb readonly_pure readonly_api = true.
Proof. exact readonly_api_pure. Qed.
Print Assumptions C18_readonly_api_pure.

Theorem C18_readonly_each : forall f, In f readonly_api ->
  e_writes (closure f) = [] /\ e_io (closure f) = [] /\
  iter_writes_ok (f_iter_params (entry f)) (in_ids f iterator_api) (closure f) = true.
Proof.
  intros f Hf. pose proof (forallb_In readonly_pure readonly_api f readonly_api_pure Hf) as H.
  unfold readonly_pure in H. apply andb_true_iff in H. destruct H as [H Hi].
  apply andb_true_iff in H. destruct H as [Hw Hio].
  unfold no_shared_write, no_io, is_nil in Hw, Hio.
  destruct (e_writes (closure f)); [|discriminate]. destruct (e_io (closure f)); [|discriminate].
  repeat split. exact Hi.
Qed.
Print Assumptions C18_readonly_each.

Theorem C18_no_unknown_callees : forallb known_callees readonly_api = true.
Proof. exact no_unknown_callees_in_readonly. Qed.
Print Assumptions C18_no_unknown_callees.

(* typing rule (I) of the translator is an obligation, not an assumption: no non-iterator type has a
   field of an iterator type, so iterator state is never part of a container *)
Theorem C18_iterator_rule : forallb rule_I_ok type_mentions = true.
Proof. exact iterator_rule_I. Qed.
Print Assumptions C18_iterator_rule.

(* the translator's own summaries agree with the closure Coq computes, and every call edge's
   assumption about the callee's result is covered by the callee's closure *)
Theorem C18_translator_cross_check :
  forallb agrees_with_tool effects = true /\ forallb edges_ok effects = true.
Proof. exact (conj closure_agrees edges_consistent). Qed.
Print Assumptions C18_translator_cross_check.

(* ---------- the functional machine: observing operations return the state they were given ---------- *)
Definition is_observer (o : op) : bool :=
  match o with
  | Iter _ | Each | AnyP _ | AllP _ | FindP _ | SelectP _ | MapF _
  | Inter _ | Union _ | Diff _ | InterSelf | UnionSelf | DiffSelf
  | SortedValues | SortedValuesFunc _ _ => true
  | _ => false
  end.

Lemma observers_pure : forall c s o, is_observer o = true -> fst (fst (step c s o)) = s.
Proof.
  intros c s o H. unfold step.
  destruct s; destruct o; try discriminate H; try reflexivity;
    cbn [negb]; repeat match goal with
                       | |- context [if ?b then _ else _] => destruct b
                       | |- context [match each_of ?a ?b with _ => _ end] => destruct (each_of a b)
                       end; reflexivity.
Qed.
Print Assumptions observers_pure.

Theorem C18_model_observers_pure : forall c s o, is_observer o = true -> fst (fst (step c s o)) = s.
Proof. exact observers_pure. Qed.
Print Assumptions C18_model_observers_pure.

(* non-vacuity: the generated domains are not empty and contain the operations the property names *)
Example C18_domain_nonempty :
  (200 <=? List.length readonly_api)%nat = true /\ (15 <=? List.length iterator_api)%nat = true.
Proof. vm_compute. split; reflexivity. Qed.
