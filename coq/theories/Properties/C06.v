(* Property C06.

   "For BinaryHeap and PriorityQueue, after any history of single or bulk Push/Enqueue,
    Pop/Dequeue, Clear and successful FromJSON, Pop/Peek return an element that no contained
    element precedes under the comparator, so draining yields a non-decreasing sequence.  The
    multiset of contained elements is exactly what was pushed or loaded minus what was popped -
    nothing is lost, duplicated or altered, even among elements that compare equal.  Values() and
    iteration expose a permutation of the contents whose first element is the Peek element."

   Quantifier: all interleavings of Push(1 value), Push(k values, k = 0, 2, 3, ...), Pop, Clear,
   FromJSON(any array); all comparators (min-heap, max-heap, ties between distinguishable elements).

   How the statements below read.
   - [c : config] with [is_heap_kind (ckind c) = true]: BinaryHeap or PriorityQueue, with ANY of the
     executed comparators ([kc c = cmp_of (kcmp c)], kcmp c in {CNat, CRev, CDiv3, CAbs}: min-heap,
     max-heap, and two comparators with ties between distinguishable elements).
   - [ops : list op] is an ARBITRARY history over the whole operation vocabulary of the machine
     (Model/Ops.v), not only the operations the two kinds offer; [run c ops] is the state of the
     machine (Model/Machine.v) after it, [StHeap l] a state whose backing array is l.
   - The contents are compared with [Permutation]: multiset equality with Leibniz equality of the
     elements, so an element may not even be replaced by another one the comparator deems equal.
   - "x is not preceded by y" is [kc c x y <> Gt].
   - [push_op k v] / [pop_op k] are Push v / Pop for BinaryHeap and Enqueue v / Dequeue for
     PriorityQueue; answers are S-expressions: [OL [OZ x]] = (x, true), [OL []] = (nil, false) or no
     result, [obool b] for FromJSON's error being nil or not.
   - The abstract bag machine ([bag_step], [bag_trans], [bag_run], [pushed]) is Spec/BagSpec.v.

   All proofs are in Proofs/C06Proofs.v (on top of Proofs/HeapProofs.v and Proofs/HeapValues.v). *)
From Coq Require Import ZArith List Permutation Sorted.
From Gods Require Import Common.Cmp Spec.BagSpec Model.Ops Model.Iter Model.Machine.
From Gods Require Import Proofs.HeapProofs Proofs.C06Proofs.
Import ListNotations.

(* ------------------------------------------------------------------------------------------ *)
(* 0. every executed comparator is a strict weak order (nothing is assumed about it elsewhere)  *)
(* ------------------------------------------------------------------------------------------ *)
Theorem C06_comparators : forall ci : cmp_id, SWO (cmp_of ci).
Proof. exact C06Proofs.c06_cmp_of_SWO. Qed.
Print Assumptions C06_comparators.

(* ------------------------------------------------------------------------------------------ *)
(* 1. after any history the machine is in a heap state (never crashed) whose array is a valid   *)
(*    heap: no element is preceded by one of its two children                                   *)
(* ------------------------------------------------------------------------------------------ *)
Theorem C06_heap_inv : forall (c : config) (ops : list op),
  is_heap_kind (ckind c) = true ->
  exists l, run c ops = StHeap l /\ heap_ok (kc c) l.
Proof. exact C06Proofs.C06_heap_inv. Qed.
Print Assumptions C06_heap_inv.

(* ------------------------------------------------------------------------------------------ *)
(* 2. one more operation, whatever it is, from any reachable state: no crash, the invariant is  *)
(*    kept, and the step is a transition of the abstract bag machine (BagSpec.bag_trans)        *)
(* ------------------------------------------------------------------------------------------ *)
Theorem C06_step_bag : forall (c : config) (ops : list op) (l : list Z) (o : op),
  is_heap_kind (ckind c) = true ->
  run c ops = StHeap l ->
  exists l' r, step c (StHeap l) o = (StHeap l', r, onone) /\
               heap_ok (kc c) l' /\ bag_trans c l o r l'.
Proof. exact C06Proofs.C06_step_bag. Qed.
Print Assumptions C06_step_bag.

(* ... spelled out operation by operation. *)

(* Push v / Enqueue v: exactly one occurrence of v is added *)
Theorem C06_push1 : forall (c : config) (ops : list op) (l : list Z) (v : Z),
  is_heap_kind (ckind c) = true ->
  run c ops = StHeap l ->
  exists l',
    step c (StHeap l) (push_op (ckind c) v) = (StHeap l', ounit, onone) /\
    heap_ok (kc c) l' /\ Permutation l' (v :: l).
Proof. exact C06Proofs.C06_push1. Qed.
Print Assumptions C06_push1.

(* Push(vs...) with any number of values (0, 1, 2, ...): exactly vs is added *)
Theorem C06_pushall : forall (c : config) (ops : list op) (l vs : list Z),
  ckind c = BinaryHeap ->
  run c ops = StHeap l ->
  exists l',
    step c (StHeap l) (PushAll vs) = (StHeap l', ounit, onone) /\
    heap_ok (kc c) l' /\ Permutation l' (vs ++ l).
Proof. exact C06Proofs.C06_pushall. Qed.
Print Assumptions C06_pushall.

(* Pop / Dequeue on the empty container: (nil, false), still empty *)
Theorem C06_pop_empty : forall (c : config) (ops : list op),
  is_heap_kind (ckind c) = true ->
  run c ops = StHeap [] ->
  step c (StHeap []) (pop_op (ckind c)) = (StHeap [], OL [], onone).
Proof. exact C06Proofs.C06_pop_empty. Qed.
Print Assumptions C06_pop_empty.

(* Pop / Dequeue on a non-empty container: answers (x, true) where exactly one occurrence of
   exactly x leaves the content, no contained element precedes x, and x is what Peek shows *)
Theorem C06_pop_nonempty : forall (c : config) (ops : list op) (l : list Z),
  is_heap_kind (ckind c) = true ->
  run c ops = StHeap l ->
  l <> [] ->
  exists x l',
    step c (StHeap l) (pop_op (ckind c)) = (StHeap l', OL [OZ x], onone) /\
    heap_ok (kc c) l' /\
    Permutation l (x :: l') /\
    (forall y, In y l -> kc c x y <> Gt) /\
    peek_of c (StHeap l) = OL [OZ x].
Proof. exact C06Proofs.C06_pop_nonempty. Qed.
Print Assumptions C06_pop_nonempty.

Theorem C06_clear : forall (c : config) (ops : list op) (l : list Z),
  is_heap_kind (ckind c) = true ->
  run c ops = StHeap l ->
  step c (StHeap l) Clear = (StHeap [], ounit, onone).
Proof. exact C06Proofs.C06_clear. Qed.
Print Assumptions C06_clear.

(* successful FromJSON of an ARBITRARY array: the content is exactly the array, re-heapified *)
Theorem C06_fromjson_ok : forall (c : config) (ops : list op) (l vs : list Z),
  is_heap_kind (ckind c) = true ->
  run c ops = StHeap l ->
  exists l',
    step c (StHeap l) (FromJSON (DArr vs)) = (StHeap l', obool true, onone) /\
    heap_ok (kc c) l' /\ Permutation l' vs.
Proof. exact C06Proofs.C06_fromjson_ok. Qed.
Print Assumptions C06_fromjson_ok.

Theorem C06_fromjson_null : forall (c : config) (ops : list op) (l : list Z),
  is_heap_kind (ckind c) = true ->
  run c ops = StHeap l ->
  step c (StHeap l) (FromJSON DNull) = (StHeap [], obool true, onone).
Proof. exact C06Proofs.C06_fromjson_null. Qed.
Print Assumptions C06_fromjson_null.

(* failing FromJSON (the document does not decode into a slice): nothing changes *)
Theorem C06_fromjson_fail : forall (c : config) (ops : list op) (l : list Z) (d : decoded),
  is_heap_kind (ckind c) = true ->
  run c ops = StHeap l ->
  (d = DErr \/ exists kvs, d = DObj kvs) ->
  step c (StHeap l) (FromJSON d) = (StHeap l, obool false, onone).
Proof. exact C06Proofs.C06_fromjson_fail. Qed.
Print Assumptions C06_fromjson_fail.

(* observers (Iter, GetSortedValues, GetSortedValuesFunc) and operations the kind does not offer
   leave the backing array untouched; the latter answer [ounsupported] *)
Theorem C06_other_ops : forall (c : config) (ops : list op) (l : list Z) (o : op),
  is_heap_kind (ckind c) = true ->
  run c ops = StHeap l ->
  classify (ckind c) o = BObserve \/ classify (ckind c) o = BUnsupported ->
  exists r, step c (StHeap l) o = (StHeap l, r, onone).
Proof. exact C06Proofs.C06_other_ops. Qed.
Print Assumptions C06_other_ops.

Theorem C06_unsupported : forall (c : config) (ops : list op) (l : list Z) (o : op),
  is_heap_kind (ckind c) = true ->
  run c ops = StHeap l ->
  classify (ckind c) o = BUnsupported ->
  step c (StHeap l) o = (StHeap l, ounsupported, onone).
Proof. exact C06Proofs.C06_unsupported. Qed.
Print Assumptions C06_unsupported.

(* ------------------------------------------------------------------------------------------ *)
(* 3. whole histories                                                                           *)
(* ------------------------------------------------------------------------------------------ *)

(* refinement: the (operation, answer) trace of every history is a run of the abstract bag
   machine from the empty bag, ending in the bag held by the backing array *)
Theorem C06_refines : forall (c : config) (ops : list op),
  is_heap_kind (ckind c) = true ->
  exists l, run c ops = StHeap l /\ heap_ok (kc c) l /\ bag_run c [] (trace c ops) l.
Proof. exact C06Proofs.C06_refines. Qed.
Print Assumptions C06_refines.

(* bookkeeping over the whole history: content + everything popped since the last Clear /
   successful FromJSON = everything pushed or loaded since then.  [pushed c ops] is read off the
   operations alone (BagSpec.pushed), [popped c ops] off the answers the machine gave. *)
Theorem C06_history_bag : forall (c : config) (ops : list op),
  is_heap_kind (ckind c) = true ->
  exists l, run c ops = StHeap l /\ Permutation (l ++ popped c ops) (pushed c ops).
Proof. exact C06Proofs.C06_history_bag. Qed.
Print Assumptions C06_history_bag.

(* ------------------------------------------------------------------------------------------ *)
(* 4. Peek                                                                                      *)
(* ------------------------------------------------------------------------------------------ *)
Theorem C06_peek : forall (c : config) (ops : list op) (l : list Z),
  is_heap_kind (ckind c) = true ->
  run c ops = StHeap l ->
  peek_of c (StHeap l) = oopt (hd_error l) /\
  (forall x, hd_error l = Some x -> forall y, In y l -> kc c x y <> Gt).
Proof. exact C06Proofs.C06_peek. Qed.
Print Assumptions C06_peek.

(* ------------------------------------------------------------------------------------------ *)
(* 5. draining: popping size-many times from any reachable state answers (x, true) every time,  *)
(*    the x's are non-decreasing (each one not preceded by any later one) and are exactly the   *)
(*    content; the container ends empty                                                         *)
(* ------------------------------------------------------------------------------------------ *)
Theorem C06_drain_sorted : forall (c : config) (ops : list op) (l : list Z),
  is_heap_kind (ckind c) = true ->
  run c ops = StHeap l ->
  exists d,
    results_from c (StHeap l) (repeat (pop_op (ckind c)) (length l)) = map (fun x => OL [OZ x]) d /\
    run_from c (StHeap l) (repeat (pop_op (ckind c)) (length l)) = StHeap [] /\
    StronglySorted (fun a b => kc c a b <> Gt) d /\
    Permutation d l.
Proof. exact C06Proofs.C06_drain_sorted. Qed.
Print Assumptions C06_drain_sorted.

(* ------------------------------------------------------------------------------------------ *)
(* 6. Values(), Size() and iteration                                                            *)
(* ------------------------------------------------------------------------------------------ *)
Theorem C06_values : forall (c : config) (ops : list op) (l : list Z),
  is_heap_kind (ckind c) = true ->
  run c ops = StHeap l ->
  Permutation (values_of c (StHeap l)) l /\
  hd_error (values_of c (StHeap l)) = hd_error l /\
  Z.of_nat (length (values_of c (StHeap l))) = size_of c (StHeap l).
Proof. exact C06Proofs.C06_values. Qed.
Print Assumptions C06_values.

(* a fresh iterator driven by Next() reports (true, i, i-th element of Values()) for
   i = 0 .. size-1 and then false; with C06_values: a permutation of the content starting with
   the Peek element *)
Theorem C06_iteration : forall (c : config) (l : list Z),
  run_iter c (StHeap l) (repeat CNext (S (length l))) =
  map (fun i => OL [OZ 1; OZ (Z.of_nat i); OZ (nth i (values_of c (StHeap l)) 0%Z)]) (seq 0 (length l))
  ++ [OL [OZ 0]].
Proof. exact C06Proofs.C06_iteration. Qed.
Print Assumptions C06_iteration.

Theorem C06_iter_op : forall (c : config) (l : list Z) (cs : list icall),
  is_heap_kind (ckind c) = true ->
  step c (StHeap l) (Iter cs) = (StHeap l, OL (run_iter c (StHeap l) cs), onone).
Proof. exact C06Proofs.C06_iter_op. Qed.
Print Assumptions C06_iter_op.

(* ------------------------------------------------------------------------------------------ *)
(* 7. the repaired defect: FromJSON re-heapifies whatever array it is given                     *)
(* ------------------------------------------------------------------------------------------ *)
Theorem C06_fromjson_reheaps : forall (c : config) (ops : list op) (vs : list Z),
  is_heap_kind (ckind c) = true ->
  exists l', run c (ops ++ [FromJSON (DArr vs)]) = StHeap l' /\
             heap_ok (kc c) l' /\ Permutation l' vs.
Proof. exact C06Proofs.C06_fromjson_reheaps. Qed.
Print Assumptions C06_fromjson_reheaps.

Theorem C06_load_array_heap : forall (c : config) (vs : list Z),
  is_heap_kind (ckind c) = true ->
  exists l', load_array c vs = StHeap l' /\ heap_ok (kc c) l' /\ Permutation l' vs.
Proof. exact C06Proofs.C06_load_array_heap. Qed.
Print Assumptions C06_load_array_heap.

(* ------------------------------------------------------------------------------------------ *)
(* Examples (executed)                                                                          *)
(* ------------------------------------------------------------------------------------------ *)
Local Open Scope Z_scope.

Definition bh (ci : cmp_id) : config :=
  {| ckind := BinaryHeap; kcmp := ci; vcmp := CNat; ccap := 0; corder := 0; cuni := 5 |}.
Definition pq (ci : cmp_id) : config :=
  {| ckind := PriorityQueue; kcmp := ci; vcmp := CNat; ccap := 0; corder := 0; cuni := 5 |}.

(* CDiv3 compares x / 3: 3, 4, 5 all tie, 0 precedes them.  Pop hands out 0 first, then the three
   distinguishable ties, each exactly once, in an order that depends on the insertion order. *)
Example ex_ties_1 :
  results_from (bh CDiv3) (init (bh CDiv3)) [Push 3; Push 4; Push 5; Push 0; Pop; Pop; Pop; Pop; Pop]
  = [OL []; OL []; OL []; OL []; OL [OZ 0]; OL [OZ 4]; OL [OZ 5]; OL [OZ 3]; OL []].
Proof. vm_compute; reflexivity. Qed.

Example ex_ties_2 :
  results_from (bh CDiv3) (init (bh CDiv3)) [Push 5; Push 4; Push 3; Push 0; Pop; Pop; Pop; Pop; Pop]
  = [OL []; OL []; OL []; OL []; OL [OZ 0]; OL [OZ 4]; OL [OZ 3]; OL [OZ 5]; OL []].
Proof. vm_compute; reflexivity. Qed.

Example ex_ties_bulk :
  results_from (bh CDiv3) (init (bh CDiv3)) [PushAll [5; 3; 0; 4]; Pop; Pop; Pop; Pop; Pop]
  = [OL []; OL [OZ 0]; OL [OZ 4]; OL [OZ 5]; OL [OZ 3]; OL []].
Proof. vm_compute; reflexivity. Qed.

Example ex_ties_peek_values :
  let s := run (bh CDiv3) [Push 3; Push 4; Push 5; Push 0] in
  s = StHeap [0; 3; 5; 4] /\ peek_of (bh CDiv3) s = OL [OZ 0] /\ values_of (bh CDiv3) s = [0; 3; 5; 4].
Proof. vm_compute. repeat split; reflexivity. Qed.

(* FromJSON of a descending array discards the old content, re-heapifies, and drains ascending *)
Example ex_fromjson_state :
  run (bh CNat) [Push 9; FromJSON (DArr [5; 4; 3; 2; 1])] = StHeap [1; 2; 3; 5; 4].
Proof. vm_compute; reflexivity. Qed.

Example ex_fromjson_drain :
  results_from (bh CNat) (init (bh CNat))
    [Push 9; FromJSON (DArr [5; 4; 3; 2; 1]); Pop; Pop; Pop; Pop; Pop; Pop]
  = [OL []; OZ 1; OL [OZ 1]; OL [OZ 2]; OL [OZ 3]; OL [OZ 4]; OL [OZ 5]; OL []].
Proof. vm_compute; reflexivity. Qed.

(* max-heap priority queue with a duplicate *)
Example ex_pq_max :
  results_from (pq CRev) (init (pq CRev))
    [Enqueue 2; Enqueue 7; Enqueue 2; Enqueue 5; Dequeue; Dequeue; Dequeue; Dequeue; Dequeue]
  = [OL []; OL []; OL []; OL []; OL [OZ 7]; OL [OZ 5]; OL [OZ 2]; OL [OZ 2]; OL []].
Proof. vm_compute; reflexivity. Qed.

(* CAbs: x and -x tie and stay distinct; Push / Pop are not offered by PriorityQueue *)
Example ex_pq_abs :
  results_from (pq CAbs) (init (pq CAbs))
    [Enqueue 2; Enqueue (-2); Enqueue 1; Enqueue (-1); Push 4; Pop;
     Dequeue; Dequeue; Dequeue; Dequeue; Dequeue]
  = [OL []; OL []; OL []; OL []; ounsupported; ounsupported;
     OL [OZ 1]; OL [OZ (-1)]; OL [OZ 2]; OL [OZ (-2)]; OL []].
Proof. vm_compute; reflexivity. Qed.

(* history bookkeeping: content ++ popped is a permutation of pushed *)
Definition h1 : list op :=
  [Push 3; PushAll [4; 5; 0]; Pop; Push 1; Pop; FromJSON DErr; PushAll []; Push 7].
Example ex_history_1 :
  run (bh CDiv3) h1 = StHeap [3; 4; 5; 7] /\
  popped (bh CDiv3) h1 = [1; 0] /\
  pushed (bh CDiv3) h1 = [7; 1; 4; 5; 0; 3].
Proof. vm_compute. repeat split; reflexivity. Qed.

(* Clear and a successful FromJSON restart the bookkeeping, a failing FromJSON does not *)
Definition h2 : list op :=
  [Push 3; PushAll [4; 5; 0]; Pop; Clear; Push 1; Push 2; Pop; FromJSON (DObj [(1, 1)]);
   FromJSON (DArr [9; 8; 7; 8]); Pop; Push 8].
Example ex_history_2 :
  run (bh CRev) h2 = StHeap [8; 8; 7; 8] /\
  popped (bh CRev) h2 = [9] /\
  pushed (bh CRev) h2 = [8; 9; 8; 7; 8].
Proof. vm_compute. repeat split; reflexivity. Qed.

(* Values() is level-sorted, not the raw array *)
Example ex_values :
  let s := run (bh CNat) [PushAll [9; 8; 7; 6; 5; 4; 3; 2; 1]] in
  s = StHeap [1; 2; 3; 6; 5; 4; 7; 8; 9] /\ values_of (bh CNat) s = [1; 2; 3; 4; 5; 6; 7; 8; 9].
Proof. vm_compute. repeat split; reflexivity. Qed.

Example ex_iteration :
  step (bh CNat) (StHeap [1; 3; 2]) (Iter [CNext; CNext; CNext; CNext])
  = (StHeap [1; 3; 2],
     OL [OL [OZ 1; OZ 0; OZ 1]; OL [OZ 1; OZ 1; OZ 2]; OL [OZ 1; OZ 2; OZ 3]; OL [OZ 0]], onone).
Proof. vm_compute; reflexivity. Qed.
