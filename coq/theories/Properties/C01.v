(* Property C01 (verbatim):

   "For HashMap, TreeMap, LinkedHashMap, RedBlackTree, AVLTree and BTree, after any sequence of Put,
    Remove and Clear, Get(k) returns (v, true) exactly when the most recent Put(k, v) has not been
    followed by Remove(k) or Clear, and (zero, false) otherwise; Size() is the number of such live
    keys and Keys()/Values() list every live key and its current value exactly once,
    position-aligned in TreeMap, LinkedHashMap and the three trees. Removing an absent key changes
    nothing, and the two bidirectional maps obey the same rule except that a Put also drops the
    pair that previously held the same value (C10)."

   Quantifier: all finite histories (here: ALL operation lists of the uniform machine, observers,
   unsupported operations and FromJSON included), all comparators the machine executes -- each is a
   strict weak order ([cmp_of_SWO]; keys that compare Eq are ONE key) -- and all B-tree orders
   m >= 3 ([valid c]).  The tree-level lemmas underneath hold for every comparator satisfying
   [SWO] (Proofs/RBMap.v, AVLMap.v, BTreeMap.v, MapSpecProofs.v).

   Reading of the statement:
     [hist c ops]             the Put / Remove / Clear history of an operation list (FromJSON is
                              Clear followed by Puts), Model-independent: Proofs/MachineMaps.v
     [last_live cmp h k]      Spec/MapSpec.v: scans a newest-first history for the most recent
                              Put of a key equivalent to k not followed by Remove of an equivalent
                              key or by Clear; it never mentions a container state
     [mrun cmp h]             Spec/MapSpec.v: the sorted association list reached by history h
     [cmp_for c]              the key comparator of the tree kinds, == on integers for the hash kinds

   The bidirectional maps (last sentence) are property C10 and are not covered here.
   Only restatements: every proof is in Proofs/MachineMaps.v and Proofs/MapSpecProofs.v. *)
From Coq Require Import ZArith List Bool Sorted SetoidList Permutation.
From Gods Require Import Common.Cmp Common.ListAux Spec.MapSpec Model.Ops Model.Machine.
From Gods Require Import Proofs.MapSpecProofs Proofs.MachineMaps.
Import ListNotations.
Local Open Scope Z_scope.

(* ---------- nothing below is vacuous: the executed comparators are strict weak orders ---------- *)
Theorem C01_comparators_are_SWO : forall ci : cmp_id, SWO (cmp_of ci).
Proof. exact cmp_of_SWO. Qed.
Print Assumptions C01_comparators_are_SWO.

Theorem C01_int_equality_is_SWO : SWO Z.compare.
Proof. exact Zcompare_SWO. Qed.
Print Assumptions C01_int_equality_is_SWO.

(* ---------- the declarative core: abstract lookup = last live Put of the history ---------- *)
Theorem C01_spec_last_live : forall cmp, SWO cmp -> forall h k,
  find_list cmp k (mrun cmp h) = last_live cmp (rev h) k.
Proof. exact mrun_last_live. Qed.
Print Assumptions C01_spec_last_live.

(* ---------- the machine never crashes on these kinds ---------- *)
Theorem C01_no_crash : forall c ops, valid c -> run c ops <> StCrash.
Proof. exact run_not_crash. Qed.
Print Assumptions C01_no_crash.

(* ---------- refinement: the enumerated entries ARE the abstract map ---------- *)
Theorem C01_refines : forall c ops, valid c -> ckind c <> LinkedHashMap ->
  entries_of c (run c ops) = mrun (cmp_for c) (hist c ops).
Proof. exact refines_tree. Qed.
Print Assumptions C01_refines.

Theorem C01_refines_linked : forall c ops, valid c -> ckind c = LinkedHashMap ->
  Permutation (entries_of c (run c ops)) (mrun Z.compare (hist c ops)) /\
  NoDup (keys_of c (run c ops)).
Proof. exact refines_linked. Qed.
Print Assumptions C01_refines_linked.

(* ---------- Get ---------- *)
(* Get(k) = (v, true) iff the last live Put of (a key equivalent to) k stored v; else (zero, false) *)
Theorem C01_Get : forall c ops k, valid c ->
  get_of c (run c ops) k = oopt (option_map snd (last_live (cmp_for c) (rev (hist c ops)) k)).
Proof. exact C01_get. Qed.
Print Assumptions C01_Get.

(* ---------- Size ---------- *)
Theorem C01_Size : forall c ops, valid c ->
  size_of c (run c ops) = Z.of_nat (length (mrun (cmp_for c) (hist c ops))).
Proof. exact C01_size. Qed.
Print Assumptions C01_Size.

(* ---------- Keys / Values ---------- *)
(* exact, position-aligned lists for HashMap (canonical order), TreeMap and the three trees *)
Theorem C01_Keys_Values : forall c ops, valid c -> ckind c <> LinkedHashMap ->
  keys_of c (run c ops) = map fst (mrun (cmp_for c) (hist c ops)) /\
  values_of c (run c ops) = map snd (mrun (cmp_for c) (hist c ops)).
Proof. exact C01_keys_values. Qed.
Print Assumptions C01_Keys_Values.

(* all six kinds: an entry is enumerated iff it is the last live Put of its key ... *)
Theorem C01_Entries_live : forall c ops e, valid c ->
  In e (entries_of c (run c ops)) <-> last_live (cmp_for c) (rev (hist c ops)) (fst e) = Some e.
Proof. exact C01_entry_iff. Qed.
Print Assumptions C01_Entries_live.

(* ... exactly once ... *)
Theorem C01_Keys_once : forall c ops, valid c ->
  NoDupA (fun a b => cmp_for c a b = Eq) (keys_of c (run c ops)).
Proof. exact C01_nodup. Qed.
Print Assumptions C01_Keys_once.

(* ... and Keys() / Values() are position-aligned: the i-th value is the current value of the i-th key *)
Theorem C01_Keys_Values_aligned : forall c ops, valid c ->
  keys_of c (run c ops) = map fst (entries_of c (run c ops)) /\
  values_of c (run c ops) = map snd (entries_of c (run c ops)) /\
  values_of c (run c ops) =
    map (fun k => match last_live (cmp_for c) (rev (hist c ops)) k with Some e => snd e | None => 0 end)
        (keys_of c (run c ops)).
Proof. exact C01_aligned. Qed.
Print Assumptions C01_Keys_Values_aligned.

(* LinkedHashMap: same content, in an order that is the subject of C09 *)
Theorem C01_LinkedHashMap : forall c ops, valid c -> ckind c = LinkedHashMap ->
  Permutation (entries_of c (run c ops)) (mrun Z.compare (hist c ops)) /\
  Permutation (keys_of c (run c ops)) (map fst (mrun Z.compare (hist c ops))) /\
  Permutation (values_of c (run c ops)) (map snd (mrun Z.compare (hist c ops))) /\
  NoDup (keys_of c (run c ops)).
Proof. exact C01_linked. Qed.
Print Assumptions C01_LinkedHashMap.

(* ---------- removing an absent key changes nothing: the very same machine state ---------- *)
Theorem C01_Remove_absent : forall c ops k, valid c ->
  get_of c (run c ops) k = OL [] ->
  fst (fst (step c (run c ops) (Remove k))) = run c ops.
Proof. exact C01_remove_absent. Qed.
Print Assumptions C01_Remove_absent.

(* at the level of the specification *)
Theorem C01_spec_remove_absent : forall cmp k l,
  ksorted cmp l -> mem_list cmp k l = false -> del_list cmp k l = l.
Proof. exact del_absent. Qed.
Print Assumptions C01_spec_remove_absent.

(* ================================================================================================ *)
(* concrete histories (evaluated, not proved)                                                       *)
(* ================================================================================================ *)
Definition cfg (k : kind) (kci : cmp_id) (m : Z) : config :=
  {| ckind := k; kcmp := kci; vcmp := CNat; ccap := 0; corder := m; cuni := 6 |}.

(* floor division by 3: 3, 4 and 5 are ONE key.  Put 4 then Put 5 replaces the key and the value. *)
Example ex_div3_one_key :
  let c := cfg RedBlackTree CDiv3 3 in
  let ops := [Put 4 10; Put 5 20; Put 7 70] in
  entries_of c (run c ops) = [(5, 20); (7, 70)] /\
  get_of c (run c ops) 3 = OL [OZ 20] /\ get_of c (run c ops) 4 = OL [OZ 20] /\
  get_of c (run c ops) 2 = OL [] /\ size_of c (run c ops) = 2 /\
  last_live (cmp_for c) (rev (hist c ops)) 3 = Some (5, 20).
Proof. vm_compute. repeat split; reflexivity. Qed.

(* negative keys: -1 / 3 = -1 and -3 / 3 = -1 (floor), but 0 / 3 = 0: -1 and 0 are different keys *)
Example ex_div3_negative :
  let c := cfg AVLTree CDiv3 3 in
  let ops := [Put (-1) 1; Put 0 2; Put (-3) 3] in
  entries_of c (run c ops) = [(-3, 3); (0, 2)].
Proof. vm_compute. reflexivity. Qed.

(* |k|: -2 and 2 are one key; Remove 2 removes the entry stored under -2 *)
Example ex_abs_remove :
  let c := cfg BTree CAbs 3 in
  let ops := [Put (-2) 1; Put 5 2; Put 1 3; Put 4 4; Put (-3) 5; Remove 2; Put (-5) 6] in
  entries_of c (run c ops) = [(1, 3); (-3, 5); (4, 4); (-5, 6)] /\
  entries_of c (run c ops) = mrun (cmp_for c) (hist c ops) /\
  get_of c (run c ops) 2 = OL [] /\ get_of c (run c ops) 5 = OL [OZ 6] /\ size_of c (run c ops) = 4.
Proof. vm_compute. repeat split; reflexivity. Qed.

(* removing an absent key: the machine state (tree shape, colours, cached size) is unchanged;
   Clear forgets everything; a Put after Clear is live again *)
Example ex_remove_absent_clear :
  let c := cfg RedBlackTree CNat 3 in
  let ops := [Put 1 10; Put 2 20; Put 3 30; Remove 2] in
  fst (fst (step c (run c ops) (Remove 2))) = run c ops /\
  fst (fst (step c (run c ops) (Remove 9))) = run c ops /\
  entries_of c (run c (ops ++ [Clear])) = [] /\
  get_of c (run c (ops ++ [Clear])) 1 = OL [] /\
  get_of c (run c (ops ++ [Clear; Put 1 11])) 1 = OL [OZ 11] /\
  last_live (cmp_for c) (rev (hist c (ops ++ [Clear; Put 1 11]))) 3 = None.
Proof. vm_compute. repeat split; reflexivity. Qed.

(* observers, unsupported operations and a failing FromJSON are not part of the history;
   FromJSON of an object is Clear followed by Puts (duplicate members: the last one wins) *)
Example ex_history :
  let c := cfg TreeMap CRev 3 in
  let ops := [Put 1 10; Each; Push 5; FromJSON DErr; Put 2 20; FromJSON (DObj [(7, 1); (3, 2); (7, 3)]); Put 5 50] in
  hist c ops = [MPut 1 10; MPut 2 20; MClear; MPut 3 2; MPut 7 3; MPut 5 50] /\
  entries_of c (run c ops) = [(7, 3); (5, 50); (3, 2)] /\
  keys_of c (run c ops) = [7; 5; 3] /\ values_of c (run c ops) = [3; 50; 2].
Proof. vm_compute. repeat split; reflexivity. Qed.

(* the hash map and the linked hash map: same content; the linked one keeps insertion order *)
Example ex_hash_linked :
  let ops := [Put 5 50; Put 1 10; Put 3 30; Put 1 11; Remove 5; Put 5 55] in
  entries_of (cfg HashMap CNat 3) (run (cfg HashMap CNat 3) ops) = [(1, 11); (3, 30); (5, 55)] /\
  entries_of (cfg LinkedHashMap CNat 3) (run (cfg LinkedHashMap CNat 3) ops) = [(1, 11); (3, 30); (5, 55)] /\
  entries_of (cfg LinkedHashMap CNat 3) (run (cfg LinkedHashMap CNat 3) (ops ++ [Put 2 20; Remove 1; Put 1 12])) =
    [(3, 30); (5, 55); (2, 20); (1, 12)] /\
  mrun Z.compare (hist (cfg LinkedHashMap CNat 3) (ops ++ [Put 2 20; Remove 1; Put 1 12])) =
    [(1, 12); (2, 20); (3, 30); (5, 55)].
Proof. vm_compute. repeat split; reflexivity. Qed.

(* a B-tree of order 3 below its documented minimum order panics in the constructor: not [valid] *)
Example ex_btree_order2_crashes : run (cfg BTree CNat 2) [Put 1 1] = StCrash.
Proof. vm_compute. reflexivity. Qed.
