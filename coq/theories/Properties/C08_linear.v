(* Property C08, the linear iterators (index iterators and linked-list iterators).
   "For every ordered container with n elements that is not modified meanwhile, and any sequence of
    Next/Prev/Begin/End/First/Last/NextTo/PrevTo calls, the iterator behaves as a cursor over
    positions -1..n of the container's Values()/Keys() sequence: Next and Prev move one step and
    saturate at n and -1, return true exactly when the new position is within 0..n-1, and then
    Index()/Key()/Value() are those of that position; Begin/End/First/Last jump to -1/n/0/n-1.
    NextTo/PrevTo stop at the nearest later/earlier element satisfying the predicate, or run off the
    end and return false; forward-only iterators obey the same rules without the backward half."

   This file covers the twelve kinds whose iterator is an integer index or an (index, cell pointer)
   pair: ArrayList, ArrayStack, ArrayQueue, LinkedListStack, LinkedListQueue, SinglyLinkedList,
   DoublyLinkedList, LinkedHashSet, LinkedHashMap, CircularBuffer, BinaryHeap, PriorityQueue.  (The
   tree iterators are in the other C08 files.)

   Reading guide.
   - The specification is the cursor of Proofs/IterLinear.v, Section Cursor: the state is a position
     p in [-1, n] over a list l of (index-or-key, value) pairs; [cursor_call l has_prev p c] gives the
     new position and the observation of one call; [cursor_script l has_prev cs] runs a script from
     a fresh iterator (position -1).  The observation of a move is [OL [OZ 1; OZ i; OZ v]] (true, then
     Index()/Key() and Value()) or [OL [OZ 0]] (false); Begin/End answer [ounit]; a forward-only
     iterator answers [ounsupported] to Prev/End/Last/PrevTo.
   - [run_iter c s cs] is the machine's execution of the script cs by the model of the Go iterator
     (Model/Iter.v), in which following a nil cell pointer and looping more than n+2 times in
     NextTo/PrevTo are crashes ([ocrash], the script stops).  The refinement theorems are equalities
     of observation lists for EVERY script, so they also say that neither ever happens.
   - [iter_seq c s] = the (index, value) pairs of Values(), or the (key, value) entries for
     LinkedHashMap; [indexed vs] = [(0, v0); (1, v1); ...]. *)
From Coq Require Import ZArith List Bool Lia.
From Gods Require Import Common.Cmp Spec.SeqSpec Model.Ops Model.Lists Model.Iter Model.Machine.
From Gods Require Import Proofs.IterLinear.
Import ListNotations.
Local Open Scope Z_scope.

(* ====================== the laws of the cursor ====================== *)

(* positions stay within [-1, n] *)
Theorem C08_cursor_range : forall l has_prev p c,
  -1 <= p <= cur_n l -> -1 <= fst (cursor_call l has_prev p c) <= cur_n l.
Proof. exact cursor_call_range. Qed.
Print Assumptions C08_cursor_range.

(* Next and Prev move one step and saturate at n and -1 *)
Theorem C08_next_prev : forall l p,
  (p < cur_n l -> cur_next l p = p + 1) /\ (cur_n l <= p -> cur_next l p = p) /\
  (0 <= p -> cur_prev p = p - 1) /\ (p < 0 -> cur_prev p = p).
Proof.
  exact (fun l p => conj (cur_next_step l p) (conj (cur_next_saturates l p)
                    (conj (cur_prev_step p) (cur_prev_saturates p)))).
Qed.
Print Assumptions C08_next_prev.

(* every moving call answers true exactly when the new position is within 0..n-1 and then reports the
   element of that position; otherwise the new position is -1 or n and the answer is false.  (On a
   forward-only iterator the backward calls are unsupported and leave the position alone.) *)
Theorem C08_move_result : forall l has_prev p c, -1 <= p <= cur_n l ->
  match c with CBegin | CEnd => True | _ =>
    (c = CPrev \/ c = CLast \/ (exists pr, c = CPrevTo pr)) /\ has_prev = false /\
      cursor_call l has_prev p c = (p, ounsupported)
    \/
    let p' := fst (cursor_call l has_prev p c) in
    (0 <= p' < cur_n l /\
     exists i v, nth_error l (Z.to_nat p') = Some (i, v) /\ snd (cursor_call l has_prev p c) = OL [OZ 1; OZ i; OZ v])
    \/ ((p' = -1 \/ p' = cur_n l) /\ snd (cursor_call l has_prev p c) = OL [OZ 0])
  end.
Proof. exact cursor_move_result. Qed.
Print Assumptions C08_move_result.

(* Begin / End jump to -1 / n *)
Theorem C08_begin_end : forall l has_prev p,
  cursor_call l has_prev p CBegin = (-1, ounit) /\
  (has_prev = true -> cursor_call l has_prev p CEnd = (cur_n l, ounit)).
Proof. exact cursor_begin_end. Qed.
Print Assumptions C08_begin_end.

(* First = Begin; Next: lands on 0, false exactly on the empty container *)
Theorem C08_first : forall l has_prev p,
  cursor_call l has_prev p CFirst = cursor_call l has_prev (fst (cursor_call l has_prev p CBegin)) CNext /\
  fst (cursor_call l has_prev p CFirst) = 0 /\
  (snd (cursor_call l has_prev p CFirst) = OL [OZ 0] <-> cur_n l = 0).
Proof. exact cursor_first. Qed.
Print Assumptions C08_first.

(* Last = End; Prev: lands on n - 1 *)
Theorem C08_last : forall l has_prev p, has_prev = true ->
  cursor_call l has_prev p CLast = cursor_call l has_prev (fst (cursor_call l has_prev p CEnd)) CPrev /\
  fst (cursor_call l has_prev p CLast) = cur_n l - 1.
Proof. exact cursor_last. Qed.
Print Assumptions C08_last.

(* NextTo lands on the LEAST later position whose element satisfies the predicate, or on n *)
Theorem C08_next_to_least : forall l pr p, -1 <= p < cur_n l ->
  let r := cur_next_to l pr p in
  p < r <= cur_n l /\
  (r < cur_n l -> cur_holds l pr r = true) /\
  (forall q, p < q < r -> cur_holds l pr q = false).
Proof. exact cur_next_to_least. Qed.
Print Assumptions C08_next_to_least.

Theorem C08_next_to_at_end : forall l pr p, cur_n l <= p -> cur_next_to l pr p = p.
Proof. exact cur_next_to_at_end. Qed.
Print Assumptions C08_next_to_at_end.

(* PrevTo lands on the GREATEST earlier position whose element satisfies the predicate, or on -1 *)
Theorem C08_prev_to_greatest : forall l pr p, 0 <= p <= cur_n l ->
  let r := cur_prev_to l pr p in
  -1 <= r < p /\
  (-1 < r -> cur_holds l pr r = true) /\
  (forall q, r < q < p -> cur_holds l pr q = false).
Proof. exact cur_prev_to_greatest. Qed.
Print Assumptions C08_prev_to_greatest.

Theorem C08_prev_to_at_begin : forall l pr p, p < 0 -> cur_prev_to l pr p = p.
Proof. exact cur_prev_to_at_begin. Qed.
Print Assumptions C08_prev_to_at_begin.

(* forward-only iterators: no backward half *)
Theorem C08_forward_only : forall l has_prev p c, has_prev = false ->
  match c with
  | CPrev | CEnd | CLast | CPrevTo _ => cursor_call l has_prev p c = (p, ounsupported)
  | _ => True
  end.
Proof. exact cursor_forward_only. Qed.
Print Assumptions C08_forward_only.

(* ====================== the Go-shaped iterators refine the cursor ====================== *)

(* (a) index iterators *)
Theorem C08_index_iterator : forall (l : list (Z * Z)) (n : Z) (value_at : Z -> option Z) (has_prev : bool),
  n = zlen l ->
  (forall i, 0 <= i < n -> exists v, value_at i = Some v /\ nth_error l (Z.to_nat i) = Some (i, v)) ->
  forall fuel cs, (Z.to_nat n + 2 <= fuel)%nat ->
  run_script Z (ix_next n) (ix_prev n) ix_begin (ix_end n) (ix_cur value_at) has_prev fuel (-1) cs
  = cursor_script l has_prev cs.
Proof. exact ix_refines. Qed.
Print Assumptions C08_index_iterator.

(* (b) linked-list iterators: (index, cell pointer) *)
Theorem C08_linked_iterator : forall (vs : list Z) (has_prev : bool) fuel cs,
  (Z.to_nat (zlen vs) + 2 <= fuel)%nat ->
  run_script (Z * cell) (ll_next vs) (ll_prev vs) ll_begin (ll_end vs) (ll_cur vs) has_prev fuel (-1, None) cs
  = cursor_script (indexed vs) has_prev cs.
Proof. exact ll_refines. Qed.
Print Assumptions C08_linked_iterator.

(* the same with any reading of the current cell (LinkedHashMap looks the value up in its table) *)
Theorem C08_linked_iterator_gen :
  forall (vals : list Z) (l : list (Z * Z)) (cur : Z * cell -> option (Z * Z)) (has_prev : bool),
  zlen l = zlen vals ->
  (forall p, 0 <= p < zlen vals -> cur (p, Some (Z.to_nat p)) = nth_error l (Z.to_nat p)) ->
  forall fuel cs, (Z.to_nat (zlen vals) + 2 <= fuel)%nat ->
  run_script (Z * cell) (ll_next vals) (ll_prev vals) ll_begin (ll_end vals) cur has_prev fuel (-1, None) cs
  = cursor_script l has_prev cs.
Proof. exact ll_refines_gen. Qed.
Print Assumptions C08_linked_iterator_gen.

(* the invariant that makes the nil dereference unreachable: whenever the index is within range the
   cell pointer is the cell of that index *)
Theorem C08_linked_no_nil : forall vs p s,
  (fst s = p /\ -1 <= p <= zlen vs /\ (0 <= p < zlen vs -> snd s = Some (Z.to_nat p))) ->
  ll_next vs s <> None /\ ll_prev vs s <> None.
Proof. exact ll_next_prev_total. Qed.
Print Assumptions C08_linked_no_nil.

(* ====================== machine level ====================== *)

(* every state of the right shape, all twelve kinds, every script *)
Theorem C08_linear : forall c s cs, linear_state c s = true ->
  run_iter c s cs = cursor_script (iter_seq c s) (iter_has_prev (ckind c)) cs.
Proof. exact linear_iter_is_cursor. Qed.
Print Assumptions C08_linear.

(* after every history of operations (ring_ok: a CircularBuffer is built with capacity >= 1) *)
Theorem C08_linear_reachable : forall c ops cs, is_linear_kind (ckind c) = true -> ring_ok c = true ->
  run_iter c (run c ops) cs
  = cursor_script (iter_seq c (run c ops)) (iter_has_prev (ckind c)) cs.
Proof. exact linear_iter_reachable. Qed.
Print Assumptions C08_linear_reachable.

(* kind by kind, with the sequence and direction spelled out *)
Theorem C08_ArrayList : forall c vs cs, ckind c = ArrayList \/ ckind c = ArrayQueue ->
  run_iter c (StSeq vs) cs = cursor_script (indexed (values_of c (StSeq vs))) true cs.
Proof. exact iter_ArrayList. Qed.
Print Assumptions C08_ArrayList.

Theorem C08_ArrayStack : forall c vs cs, ckind c = ArrayStack ->
  run_iter c (StSeq vs) cs = cursor_script (indexed (values_of c (StSeq vs))) true cs.
Proof. exact iter_ArrayStack. Qed.
Print Assumptions C08_ArrayStack.

Theorem C08_LinkedListStack : forall c vs cs, ckind c = LinkedListStack \/ ckind c = LinkedListQueue ->
  run_iter c (StSeq vs) cs = cursor_script (indexed (values_of c (StSeq vs))) false cs.
Proof. exact iter_LinkedListStack. Qed.
Print Assumptions C08_LinkedListStack.

Theorem C08_SinglyLinkedList : forall c vs cs, ckind c = SinglyLinkedList ->
  run_iter c (StSeq vs) cs = cursor_script (indexed (values_of c (StSeq vs))) false cs.
Proof. exact iter_SinglyLinkedList. Qed.
Print Assumptions C08_SinglyLinkedList.

Theorem C08_DoublyLinkedList : forall c vs cs, ckind c = DoublyLinkedList ->
  run_iter c (StSeq vs) cs = cursor_script (indexed (values_of c (StSeq vs))) true cs.
Proof. exact iter_DoublyLinkedList. Qed.
Print Assumptions C08_DoublyLinkedList.

Theorem C08_LinkedHashSet : forall c tbl ord cs,
  run_iter c (StLSet tbl ord) cs = cursor_script (indexed (values_of c (StLSet tbl ord))) true cs.
Proof. exact iter_LinkedHashSet. Qed.
Print Assumptions C08_LinkedHashSet.

Theorem C08_LinkedHashMap : forall c tbl ord cs,
  run_iter c (StLMap tbl ord) cs = cursor_script (entries_of c (StLMap tbl ord)) true cs.
Proof. exact iter_LinkedHashMap. Qed.
Print Assumptions C08_LinkedHashMap.

Theorem C08_CircularBuffer : forall c r cs,
  run_iter c (StRing r) cs = cursor_script (indexed (values_of c (StRing r))) true cs.
Proof. exact iter_CircularBuffer. Qed.
Print Assumptions C08_CircularBuffer.

Theorem C08_Heap : forall c h cs,
  run_iter c (StHeap h) cs = cursor_script (indexed (values_of c (StHeap h))) true cs.
Proof. exact iter_Heap. Qed.
Print Assumptions C08_Heap.

(* the forward walk the enumerable functions use visits exactly that sequence *)
Theorem C08_each_of : forall c s, ckind c <> ArrayStack ->
  match s with StSeq _ | StLSet _ _ | StLMap _ _ => True | _ => False end ->
  each_of c s = Some (iter_seq c s).
Proof. exact each_of_linear. Qed.
Print Assumptions C08_each_of.

(* ====================== examples ====================== *)
Definition cfg (k : kind) : config :=
  {| ckind := k; kcmp := CNat; vcmp := CNat; ccap := 3; corder := 3; cuni := 3 |}.
Definition it (k : kind) (ops : list op) (cs : list icall) : list obs := run_iter (cfg k) (run (cfg k) ops) cs.
Definition T (i v : Z) : obs := OL [OZ 1; OZ i; OZ v].      (* moved: true, Index()/Key() = i, Value() = v *)
Definition F : obs := OL [OZ 0].                            (* moved: false *)
Definition U : obs := ounit.                                (* Begin / End *)
Definition X : obs := ounsupported.                         (* not offered by a forward-only iterator *)

(* saturation at both ends, End then Next stays at n, Begin then Prev stays at -1, First and Last *)
Example ex_array_list :
  it ArrayList [Add [10; 20; 30]] [CNext; CNext; CPrev; CEnd; CNext; CPrev; CBegin; CPrev; CFirst; CLast]
  = [T 0 10; T 1 20; T 0 10; U; F; T 2 30; U; F; T 0 10; T 2 30].
Proof. vm_compute; reflexivity. Qed.

(* the linked iterator answers the same script identically *)
Example ex_doubly_linked :
  it DoublyLinkedList [Add [10; 20; 30]] [CNext; CNext; CPrev; CEnd; CNext; CPrev; CBegin; CPrev; CFirst; CLast]
  = [T 0 10; T 1 20; T 0 10; U; F; T 2 30; U; F; T 0 10; T 2 30].
Proof. vm_compute; reflexivity. Qed.

(* the empty container: n = 0, positions -1 and 0 only, every move is false *)
Example ex_empty : it ArrayList [] [CNext; CFirst; CLast; CPrev; CNextTo PTrue] = [F; F; F; F; F].
Proof. vm_compute; reflexivity. Qed.

(* forward-only: backward calls are unsupported; NextTo without a match runs off the end *)
Example ex_singly_linked :
  it SinglyLinkedList [Add [10; 20; 30]]
     [CNext; CPrev; CEnd; CLast; CPrevTo PTrue; CNextTo (PValLt 5); CNext; CBegin; CNextTo (PIdxMod 2 1)]
  = [T 0 10; X; X; X; X; F; F; U; T 1 20].
Proof. vm_compute; reflexivity. Qed.

(* NextTo stops at the nearest later even value (duplicates: 8 at 1 and at 3), then runs off the end;
   PrevTo from n finds the nearest earlier match *)
Example ex_next_to :
  it DoublyLinkedList [Add [5; 8; 6; 8; 7]]
     [CNextTo (PValMod 2 0); CNextTo (PValMod 2 0); CNextTo (PValMod 2 0); CNextTo (PValMod 2 0);
      CNextTo (PValMod 2 0); CPrevTo (PValLt 7); CPrevTo (PValLt 6); CPrevTo PTrue; CPrevTo PTrue]
  = [T 1 8; T 2 6; T 3 8; F; F; T 2 6; T 0 5; F; F].
Proof. vm_compute; reflexivity. Qed.

(* the array stack is enumerated from the top *)
Example ex_array_stack :
  it ArrayStack [Push 1; Push 2; Push 3] [CNext; CNext; CNext; CNext; CNext; CPrev] = [T 0 3; T 1 2; T 2 1; F; F; T 2 1].
Proof. vm_compute; reflexivity. Qed.

Example ex_linked_queue :
  it LinkedListQueue [Enqueue 1; Enqueue 2] [CNext; CPrev; CNext; CNext; CEnd; CFirst] = [T 0 1; X; T 1 2; F; X; T 0 1].
Proof. vm_compute; reflexivity. Qed.

(* a ring of capacity 3 that has wrapped around: Values() = [3; 4; 5] *)
Example ex_ring :
  it CircularBuffer [Enqueue 1; Enqueue 2; Enqueue 3; Enqueue 4; Enqueue 5]
     [CNext; CNext; CNext; CNext; CLast; CPrevTo (PValLt 4)]
  = [T 0 3; T 1 4; T 2 5; F; T 2 5; T 0 3].
Proof. vm_compute; reflexivity. Qed.

(* the heap iterator reports Values() = [1; 2; 4; 3; 5] (sorted within each level of the heap) *)
Example ex_heap :
  it BinaryHeap [PushAll [5; 3; 4; 1; 2]] [CNext; CNext; CNext; CNext; CNext; CNext]
  = [T 0 1; T 1 2; T 2 4; T 3 3; T 4 5; F].
Proof. vm_compute; reflexivity. Qed.

(* LinkedHashMap: keys in insertion order (7 keeps its place when overwritten), Key()/Value() reported *)
Example ex_linked_hash_map :
  it LinkedHashMap [Put 7 70; Put 3 30; Put 7 71; Put 5 50; Remove 3]
     [CNext; CNext; CNext; CLast; CPrevTo (PKeyEq 7); CNextTo (PKeyEq 9)]
  = [T 7 71; T 5 50; F; T 5 50; T 7 71; F].
Proof. vm_compute; reflexivity. Qed.

Example ex_linked_hash_set :
  it LinkedHashSet [Add [4; 2; 4; 9]] [CLast; CPrev; CPrev; CPrev; CNext] = [T 2 9; T 1 2; T 0 4; F; T 0 4].
Proof. vm_compute; reflexivity. Qed.

(* the same answers computed by the cursor specification directly *)
Example ex_cursor_spec :
  cursor_script (indexed [10; 20; 30]) true [CNext; CNext; CPrev; CEnd; CNext; CPrev; CBegin; CPrev; CFirst; CLast]
  = [T 0 10; T 1 20; T 0 10; U; F; T 2 30; U; F; T 0 10; T 2 30] /\
  cursor_script (indexed [5; 8; 6; 8; 7]) false [CNextTo (PValMod 2 0); CNextTo (PValMod 2 0); CPrev; CNextTo (PValLt 7)]
  = [T 1 8; T 2 6; X; F].
Proof. vm_compute; split; reflexivity. Qed.
