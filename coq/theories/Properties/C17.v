(* Property C17, the part that is an effect of the Go code: silence.  (The model-level part - every
   step of the machine is total over unbounded integer arguments and no reachable state is the crash
   state, the only panics being the two documented constructor preconditions - is Properties/C17_model.v.)

   "... No operation writes to the process's standard output or standard error."

   The effect table regenerated from the Go source on every run (/verif/effects, go/ssa ->
   Effects/EffectsGen.v) records for every function of the module whether it DIRECTLY performs I/O
   (calls of fmt.Print*/Fprint* to os.Stdout/os.Stderr, print, println, log.*, any reference to
   os.Stdout / os.Stderr) and its call edges (static calls, interface calls resolved to every module
   implementation, go, defer, closures).  Coq computes the transitive closure and re-proves:
     * [C17_whole_api_silent]: the closure of every exported function and method of the module and of
       every package initialiser ([silent_domain], generated from the package scopes and method sets:
       a newly added exported operation is included automatically) contains no I/O;
     * [C17_no_unknown_callees]: none of them reaches a callee for which the translator has no
       summary (which could do anything);
     * [C17_silent_paths], through the soundness theorem of the closure ([stable_io_sound], proved
       once): NO function reachable through call edges from an exported operation performs I/O
       directly.
   Trusted: the translator's call graph and its table of I/O primitives; callbacks supplied by the
   caller are assumed silent.  Dynamic counterpart: fd 1 / fd 2 are redirected to a file around every
   call the harness and the reflection-driven probe make; a written byte is a failing input (this is
   how the debug line of DoublyLinkedList.Set, defect D3, was found before it was fixed). *)
From Coq Require Import List String Bool Arith PArith FMapPositive.
From Gods Require Import Effects.EffectModel Effects.EffectsGen Effects.EffectsObligations Effects.EffectsCheck.
Import ListNotations.

Theorem C17_whole_api_silent : forallb silent silent_domain = true.
Proof. exact whole_api_silent. Qed.
Print Assumptions C17_whole_api_silent.

Theorem C17_no_unknown_callees : forallb known_callees silent_domain = true.
Proof. exact no_unknown_callees_in_api. Qed.
Print Assumptions C17_no_unknown_callees.

Theorem C17_silent_paths :
  forall f g fe ge x,
    In f silent_domain -> In (f, fe) effects -> reaches effects f g -> In (g, ge) effects ->
    ~ In x (e_io (f_direct ge)).
Proof. exact whole_api_silent_paths. Qed.
Print Assumptions C17_silent_paths.

Theorem C17_closure_sound :
  forall tbl T, keys_nodup tbl -> stable tbl T = true ->
  forall f g, reaches tbl f g ->
  forall x, (exists fe, In (g, fe) tbl /\ In x (e_io (f_direct fe))) ->
  (exists fe, In (f, fe) tbl) -> In x (e_io (lookup T f)).
Proof. exact stable_io_sound. Qed.
Print Assumptions C17_closure_sound.

Example C17_domain_nonempty : (500 <=? List.length silent_domain)%nat = true.
Proof. vm_compute. reflexivity. Qed.
