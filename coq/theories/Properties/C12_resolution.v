(* Property C12 ("Deserializing replaces content, keeps the container sound, is atomic on error"),
   the ORDER in which a decoded JSON object is re-inserted.

   "When FromJSON/json.Unmarshal succeeds on a container with arbitrary prior content, the content
    afterwards is exactly what the input denotes - no prior element survives; sets deduplicate,
    ordered containers sort, bidirectional maps stay one-to-one ... The container then continues to
    satisfy all its other guarantees for any further operations"

   The Go loaders of TreeMap, RedBlackTree, AVLTree, BTree, HashMap, HashBidiMap and TreeBidiMap decode
   the object into a Go map - exact-duplicate member names collapse, the last wins: [sort_entries kvs],
   pairwise different keys ([C12_doc_keys_distinct]) - and then RANGE OVER THAT GO MAP calling Put for
   every pair, in an unspecified order.  When two different keys tie under the container's comparator
   (3 and 4 under x/3), or two pairs of a bidirectional map share a value, the surviving pair depends on
   that order.  The executable model ([from_json], Properties/C12.v) uses ONE order, ascending by key
   ([C12_model_order]).  Here: what EVERY order gives, so that fixing one loses nothing.

   Reading.
   - [p] with [Permutation p (sort_entries kvs)]: the order in which the range loop delivers the pairs.
   - [load c p = put_entries c p (init c)]: Clear, then Put every pair of [p] in that order; it is the
     state [run c (put_ops p)] of a plain history of Puts, so every run-level theorem applies to it.
   - [res_config c]: kind TreeMap / RedBlackTree / AVLTree / BTree (order >= 3) / HashMap;
     [MachineMaps.cmp_for c] is the key comparator ([kc c]; == for HashMap).
     [BidiProofs.bidi c]: HashBidiMap / TreeBidiMap; [bk c] / [bv c] compare keys / values (== for hash).
   - [valid_resolution cmp doc result] (key-value kinds):
       (a) result strictly ascending under cmp (no two stored keys tie),
       (b) every stored pair is EXACTLY a pair of the document (key and value),
       (c) every class of document keys has exactly one stored representative,
       (d) size = number of classes of document keys ([nclasses], order-independent: [C12_nclasses_perm]).
     Which member of a class survives: the LAST one in [p], key included - Put on an equivalent key
     replaces the stored key too, in all three trees ([C12_any_order_maps], clause 9;
     [C12_last_member_wins]).
   - [valid_bidi_resolution ck cv doc result]: (a) sorted keys, (a') no two stored values tie,
       (b) members of the document, (c) a pair that is not stored is in conflict (key tie or value tie)
       with ANOTHER document pair, (d) non-empty document => non-empty map.  The exact content is the
       [sput] fold of the C10 specification over [p] ([bidi_spec]): a pair is stored iff no LATER pair
       of [p] conflicts with it.  Even the SIZE depends on the order ([C12_bidi_size_refuted]); a pair
       can vanish without a conflicting stored pair ([C12_bidi_cover_refuted]).
   - [valid_resolutionb c doc result]: the boolean checker the Go probe implements on the
     implementation's own output; [C12_checker_spec] (sound and complete), [C12_checker_accepts].
   - no ties (no two document keys tie / no two document pairs conflict): the result is the same for
     every order, all document pairs, and every further operation answers alike ([oeq], [results_from]
     of Proofs/JsonProofs.v): [C12_no_tie_maps], [C12_no_tie_bidi], [C12_hashmap_any_order]. *)
From Coq Require Import ZArith List Bool Sorted Permutation.
From Gods Require Import Common.Cmp Common.ListAux Spec.SeqSpec Spec.MapSpec Model.Ops Model.Machine.
From Gods Require Proofs.MachineMaps Proofs.BidiProofs Proofs.MachineInv Proofs.JsonProofs.
From Gods Require Import Proofs.ResolutionProofs.
Import ListNotations.
Local Open Scope Z_scope.

(* ---------- the decoded document ---------- *)
Theorem C12_doc_keys_distinct : forall kvs, NoDup (map fst (sort_entries kvs)).
Proof. exact doc_keys_distinct. Qed.
Print Assumptions C12_doc_keys_distinct.

(* the model's FromJSON is the load in ascending key order, whatever the prior state *)
Theorem C12_model_order : forall c ops kvs, load_config c ->
  from_json c (DObj kvs) (run c ops) = (load c (sort_entries kvs), true) /\
  Permutation (sort_entries kvs) (sort_entries kvs).
Proof. exact from_json_is_a_load. Qed.
Print Assumptions C12_model_order.

(* ---------- 1. TreeMap, RedBlackTree, AVLTree, BTree, HashMap: every order ---------- *)
Theorem C12_any_order_maps : forall c kvs p, res_config c -> Permutation p (sort_entries kvs) ->
  let doc := sort_entries kvs in
  let cmp := MachineMaps.cmp_for c in
  let s := load c p in
  s <> StCrash /\
  s = run c (JsonProofs.put_ops p) /\ s = run c (Clear :: JsonProofs.put_ops p) /\
  MachineMaps.minv c s /\ MachineInv.ginv c s /\
  valid_resolution cmp doc (entries_of c s) /\
  size_of c s = Z.of_nat (length (entries_of c s)) /\
  size_of c s = Z.of_nat (nclasses cmp (map fst doc)) /\
  (forall e, In e (entries_of c s) <->
             exists p1 p2, p = p1 ++ e :: p2 /\ forall e', In e' p2 -> cmp (fst e) (fst e') <> Eq) /\
  (forall k, get_of c s k = oopt (option_map snd (find_list cmp k (rev p)))).
Proof. exact maps_any_order. Qed.
Print Assumptions C12_any_order_maps.

(* list level, any comparator: the in-order entry list after inserting [p] *)
Theorem C12_any_order_list : forall cmp, SWO cmp -> forall doc p, Permutation p doc ->
  valid_resolution cmp doc (JsonProofs.inss cmp p []).
Proof. exact inss_valid_resolution. Qed.
Print Assumptions C12_any_order_list.

(* clause (d) is a consequence of (a), (b) and "every document key has a representative" *)
Theorem C12_size_from_abc : forall cmp, SWO cmp -> forall doc result, ksorted cmp result ->
  (forall e, In e result -> In e doc) ->
  (forall e, In e doc -> exists r, In r result /\ cmp (fst e) (fst r) = Eq) ->
  length result = nclasses cmp (map fst doc).
Proof. exact resolution_size. Qed.
Print Assumptions C12_size_from_abc.

Theorem C12_nclasses_perm : forall cmp, SWO cmp -> forall l1 l2, Permutation l1 l2 ->
  nclasses cmp l1 = nclasses cmp l2.
Proof. exact nclasses_perm. Qed.
Print Assumptions C12_nclasses_perm.

(* ---------- 2. HashBidiMap, TreeBidiMap: every order ---------- *)
Theorem C12_any_order_bidi : forall c kvs p, BidiProofs.bidi c -> Permutation p (sort_entries kvs) ->
  let doc := sort_entries kvs in
  let ck := BidiProofs.bk c in
  let cv := BidiProofs.bv c in
  let s := load c p in
  s <> StCrash /\
  s = run c (JsonProofs.put_ops p) /\ s = run c (Clear :: JsonProofs.put_ops p) /\
  BidiProofs.bidi_inv c s /\ MachineInv.ginv c s /\ JsonProofs.bidi_inv c s /\
  BidiProofs.brel c (bidi_spec c p) s /\
  (forall e, In e (entries_of c s) <-> In e (bidi_spec c p)) /\
  valid_bidi_resolution ck cv doc (entries_of c s) /\
  (forall e, In e (entries_of c s) <->
             exists p1 p2, p = p1 ++ e :: p2 /\ forall e', In e' p2 -> ~ conflict ck cv e e') /\
  (forall e, In e doc ->
             In e (entries_of c s) \/
             exists p1 p2 e', p = p1 ++ e :: p2 /\ In e' p2 /\ conflict ck cv e e') /\
  size_of c s = zlen (entries_of c s) /\ zlen (keys_of c s) = size_of c s /\ zlen (values_of c s) = size_of c s.
Proof. exact bidi_any_order. Qed.
Print Assumptions C12_any_order_bidi.

(* [bidi_spec] is the fold of the C10 specification's Put over the order *)
Theorem C12_bidi_spec_fold : forall c p,
  bidi_spec c p =
  fold_left (fun P e => BidiProofs.sput (BidiProofs.bk c) (BidiProofs.bv c) (fst e) (snd e) P) p [].
Proof. exact bidi_spec_eq. Qed.
Print Assumptions C12_bidi_spec_fold.

(* ---------- 3. the checker ---------- *)
Theorem C12_checker_spec : forall c doc result,
  valid_resolutionb c doc result = true <-> valid_resolution_c c doc result.
Proof. exact valid_resolutionb_spec. Qed.
Print Assumptions C12_checker_spec.

Theorem C12_checker_spec_maps : forall cmp, SWO cmp -> forall doc result,
  resolutionb cmp doc result = true <-> valid_resolution cmp doc result.
Proof. exact resolutionb_spec. Qed.
Print Assumptions C12_checker_spec_maps.

Theorem C12_checker_spec_bidi : forall ck cv doc result,
  bidi_resolutionb ck cv doc result = true <-> valid_bidi_resolution ck cv doc result.
Proof. exact bidi_resolutionb_spec. Qed.
Print Assumptions C12_checker_spec_bidi.

Theorem C12_checker_accepts : forall c kvs p, load_config c -> Permutation p (sort_entries kvs) ->
  valid_resolutionb c (sort_entries kvs) (entries_of c (load c p)) = true.
Proof. exact every_order_accepted. Qed.
Print Assumptions C12_checker_accepts.

(* ---------- 4. prior content, continuations ---------- *)
Theorem C12_no_prior_survives : forall c ops p more, load_config c ->
  run c (ops ++ Clear :: JsonProofs.put_ops p) = load c p /\
  run c (ops ++ Clear :: JsonProofs.put_ops p ++ more) = run_from c (load c p) more /\
  run c (ops ++ Clear :: JsonProofs.put_ops p ++ more) = run c (JsonProofs.put_ops p ++ more) /\
  (forall lvl, observe c lvl (run c (ops ++ Clear :: JsonProofs.put_ops p)) = observe c lvl (load c p)) /\
  run c (ops ++ Clear :: JsonProofs.put_ops p ++ more) <> StCrash /\
  MachineInv.ginv c (run c (ops ++ Clear :: JsonProofs.put_ops p ++ more)) /\
  JsonProofs.jinv c (run c (ops ++ Clear :: JsonProofs.put_ops p ++ more)).
Proof. exact no_prior_survives. Qed.
Print Assumptions C12_no_prior_survives.

(* ---------- documents without ties ---------- *)
Theorem C12_no_tie_maps : forall c kvs p, res_config c -> Permutation p (sort_entries kvs) ->
  let doc := sort_entries kvs in
  (forall e1 e2, In e1 doc -> In e2 doc -> MachineMaps.cmp_for c (fst e1) (fst e2) = Eq -> e1 = e2) ->
  entries_of c (load c p) = entries_of c (load c doc) /\
  entries_of c (load c p) = entries_of c (fst (from_json c (DObj kvs) (init c))) /\
  (forall e, In e (entries_of c (load c p)) <-> In e doc) /\
  size_of c (load c p) = zlen doc /\
  JsonProofs.oeq c (load c p) (load c doc) /\
  JsonProofs.equiv_content c (load c p) (load c doc) /\
  (forall more, JsonProofs.results_from c (load c p) more = JsonProofs.results_from c (load c doc) more /\
                JsonProofs.oeq c (run_from c (load c p) more) (run_from c (load c doc) more)).
Proof. exact maps_no_tie. Qed.
Print Assumptions C12_no_tie_maps.

Theorem C12_hashmap_any_order : forall c kvs p, ckind c = HashMap -> Permutation p (sort_entries kvs) ->
  load c p = load c (sort_entries kvs) /\ entries_of c (load c p) = sort_entries kvs.
Proof. exact hashmap_order_irrelevant. Qed.
Print Assumptions C12_hashmap_any_order.

Theorem C12_no_tie_bidi : forall c kvs p, BidiProofs.bidi c -> Permutation p (sort_entries kvs) ->
  let doc := sort_entries kvs in
  (forall e1 e2, In e1 doc -> In e2 doc -> conflict (BidiProofs.bk c) (BidiProofs.bv c) e1 e2 -> e1 = e2) ->
  (forall e, In e (entries_of c (load c p)) <-> In e doc) /\
  entries_of c (load c p) = entries_of c (load c doc) /\
  entries_of c (load c p) = entries_of c (fst (from_json c (DObj kvs) (init c))) /\
  size_of c (load c p) = zlen doc /\
  JsonProofs.oeq c (load c p) (load c doc) /\
  JsonProofs.equiv_content c (load c p) (load c doc) /\
  (forall more, JsonProofs.results_from c (load c p) more = JsonProofs.results_from c (load c doc) more /\
                JsonProofs.oeq c (run_from c (load c p) more) (run_from c (load c doc) more)).
Proof. exact bidi_no_tie. Qed.
Print Assumptions C12_no_tie_bidi.

(* ---------- what depends on the order ---------- *)
(* FULL statement "the loaded content does not depend on the order" is false with ties: *)
Theorem C12_order_independent_refuted : exists c kvs p1 p2,
  res_config c /\ Permutation p1 (sort_entries kvs) /\ Permutation p2 (sort_entries kvs) /\
  entries_of c (load c p1) = [(4, 2)] /\ entries_of c (load c p2) = [(3, 1)] /\
  get_of c (load c p1) 3 <> get_of c (load c p2) 3.
Proof. exact order_independent_refuted. Qed.
Print Assumptions C12_order_independent_refuted.

(* "the size of a loaded bidirectional map is determined by the document" is false: *)
Theorem C12_bidi_size_refuted : exists c kvs p1 p2,
  BidiProofs.bidi c /\ Permutation p1 (sort_entries kvs) /\ Permutation p2 (sort_entries kvs) /\
  p1 = sort_entries kvs /\
  entries_of c (load c p1) = [(9, 20)] /\ size_of c (load c p1) = 1 /\
  entries_of c (load c p2) = [(3, 10); (9, 20)] /\ size_of c (load c p2) = 2.
Proof. exact bidi_size_order_independent_refuted. Qed.
Print Assumptions C12_bidi_size_refuted.

(* "every document pair is stored or conflicts with a STORED pair" is false: *)
Theorem C12_bidi_cover_refuted : exists c kvs p e,
  BidiProofs.bidi c /\ Permutation p (sort_entries kvs) /\ In e (sort_entries kvs) /\
  ~ In e (entries_of c (load c p)) /\
  forall r, In r (entries_of c (load c p)) -> ~ conflict (BidiProofs.bk c) (BidiProofs.bv c) e r.
Proof. exact bidi_stored_cover_refuted. Qed.
Print Assumptions C12_bidi_cover_refuted.

(* TreeMap, RedBlackTree, AVLTree, BTree agree: the last member of a class survives, with ITS key *)
Theorem C12_last_member_wins :
  let p := [(4, 2); (9, 1); (5, 3); (3, 1)] in
  let q := [(3, 1); (5, 3); (9, 1); (4, 2)] in
  (forall k, In k [TreeMap; RedBlackTree; AVLTree; BTree] ->
     entries_of (JsonProofs.mkc k CDiv3 CNat 3 3) (load (JsonProofs.mkc k CDiv3 CNat 3 3) p) = [(3, 1); (9, 1)] /\
     entries_of (JsonProofs.mkc k CDiv3 CNat 3 3) (load (JsonProofs.mkc k CDiv3 CNat 3 3) q) = [(4, 2); (9, 1)]).
Proof. exact last_member_wins_example. Qed.
Print Assumptions C12_last_member_wins.

(* ---------- examples (non-vacuity): ALL orders of concrete documents, by computation ---------- *)
Fixpoint ex_inserts {A} (x : A) (l : list A) : list (list A) :=
  match l with [] => [[x]] | y :: l' => (x :: l) :: map (cons y) (ex_inserts x l') end.
Fixpoint ex_perms {A} (l : list A) : list (list A) :=
  match l with [] => [[]] | x :: l' => flat_map (ex_inserts x) (ex_perms l') end.
Definition ex_doc : list (Z * Z) := [(3, 1); (4, 2); (5, 3); (9, 1)].
Definition mkc := JsonProofs.mkc.

(* keys 3, 4, 5 tie under x/3 (two classes): all 24 orders are accepted; three different contents occur *)
Example C12r_ex_btree_div3 :
  let c := mkc BTree CDiv3 CNat 3 3 in
  sort_entries ex_doc = ex_doc /\ length (ex_perms ex_doc) = 24%nat /\
  nclasses (kc c) (map fst ex_doc) = 2%nat /\
  forallb (fun p => valid_resolutionb c ex_doc (entries_of c (load c p))) (ex_perms ex_doc) = true /\
  forallb (fun p => size_of c (load c p) =? 2) (ex_perms ex_doc) = true /\
  entries_of c (load c [(3, 1); (4, 2); (5, 3); (9, 1)]) = [(5, 3); (9, 1)] /\
  entries_of c (load c [(9, 1); (5, 3); (3, 1); (4, 2)]) = [(4, 2); (9, 1)] /\
  entries_of c (load c [(4, 2); (9, 1); (5, 3); (3, 1)]) = [(3, 1); (9, 1)].
Proof. vm_compute. repeat split. Qed.

(* the same for the other kinds; |x| identifies -2 with 2 and -1 with 1 *)
Example C12r_ex_all_kinds :
  let doc := [(-2, 1); (-1, 4); (1, 3); (2, 2)] in
  sort_entries doc = doc /\
  forallb (fun k => forallb (fun p => valid_resolutionb (mkc k CAbs CNat 3 3) doc
                                        (entries_of (mkc k CAbs CNat 3 3) (load (mkc k CAbs CNat 3 3) p)))
                            (ex_perms doc))
          [TreeMap; RedBlackTree; AVLTree; BTree; HashMap; HashBidiMap; TreeBidiMap] = true /\
  entries_of (mkc AVLTree CAbs CNat 3 3) (load (mkc AVLTree CAbs CNat 3 3) doc) = [(1, 3); (2, 2)] /\
  entries_of (mkc AVLTree CAbs CNat 3 3) (load (mkc AVLTree CAbs CNat 3 3) (rev doc)) = [(-1, 4); (-2, 1)] /\
  entries_of (mkc HashMap CAbs CNat 3 3) (load (mkc HashMap CAbs CNat 3 3) (rev doc)) = doc.
Proof. vm_compute. repeat split. Qed.

(* TreeBidiMap with values compared by x/3: values 1, 2, 1 tie (class 0), 3 is alone.  All 24 orders
   accepted; the pair (5, 3) conflicts with no other pair and is always stored; sizes are all 2 here *)
Example C12r_ex_treebidi_div3 :
  let c := mkc TreeBidiMap CNat CDiv3 3 3 in
  forallb (fun p => valid_resolutionb c ex_doc (entries_of c (load c p))) (ex_perms ex_doc) = true /\
  forallb (fun p => memb (5, 3) (entries_of c (load c p))) (ex_perms ex_doc) = true /\
  entries_of c (load c ex_doc) = [(5, 3); (9, 1)] /\ values_of c (load c ex_doc) = [1; 3] /\
  entries_of c (load c [(3, 1); (5, 3); (9, 1); (4, 2)]) = [(4, 2); (5, 3)] /\
  entries_of c (load c [(4, 2); (5, 3); (9, 1); (3, 1)]) = [(3, 1); (5, 3)] /\
  getkey_of c (load c [(4, 2); (5, 3); (9, 1); (3, 1)]) 2 = oopt (Some 3).
Proof. vm_compute. repeat split. Qed.

(* key ties and value ties together (keys by x/3): sizes 1 and 2 both occur, all 6 orders accepted *)
Example C12r_ex_treebidi_sizes :
  let c := mkc TreeBidiMap CDiv3 CNat 3 3 in
  let doc := [(3, 10); (4, 20); (9, 20)] in
  forallb (fun p => valid_resolutionb c doc (entries_of c (load c p))) (ex_perms doc) = true /\
  map (fun p => size_of c (load c p)) (ex_perms doc) = [1; 2; 2; 1; 1; 1] /\
  fst (from_json c (DObj doc) (init c)) = load c doc /\ size_of c (load c doc) = 1.
Proof. vm_compute. repeat split. Qed.

(* the checker rejects: a pair that is not in the document (value changed), two stored keys that tie,
   a class without representative, a representative too many, an unsorted result *)
Example C12r_ex_checker_rejects :
  let c := mkc RedBlackTree CDiv3 CNat 3 3 in
  valid_resolutionb c ex_doc [(5, 3); (9, 1)] = true /\
  valid_resolutionb c ex_doc [(5, 2); (9, 1)] = false /\
  valid_resolutionb c ex_doc [(3, 1); (5, 3); (9, 1)] = false /\
  valid_resolutionb c ex_doc [(5, 3)] = false /\
  valid_resolutionb c ex_doc [(9, 1); (5, 3)] = false /\
  valid_resolutionb c ex_doc [] = false /\
  valid_resolutionb c [] [] = true.
Proof. vm_compute. repeat split. Qed.

(* bidirectional checker: two stored values that tie, a foreign pair, a conflict-free pair missing, empty *)
Example C12r_ex_bidi_checker_rejects :
  let c := mkc TreeBidiMap CNat CDiv3 3 3 in
  valid_resolutionb c ex_doc [(5, 3); (9, 1)] = true /\
  valid_resolutionb c ex_doc [(3, 1); (4, 2); (5, 3)] = false /\
  valid_resolutionb c ex_doc [(5, 3); (9, 2)] = false /\
  valid_resolutionb c ex_doc [(9, 1)] = false /\
  valid_resolutionb c ex_doc [] = false.
Proof. vm_compute. repeat split. Qed.

(* prior content does not survive, whatever the order; the continuation is that of the fresh load *)
Example C12r_ex_prior :
  let c := mkc TreeMap CDiv3 CNat 3 3 in
  let prior := [Put 40 1; Put 44 2; Put 50 3; Remove 44] in
  let p := [(9, 1); (5, 3); (3, 1); (4, 2)] in
  entries_of c (run c prior) = [(40, 1); (50, 3)] /\
  run c (prior ++ Clear :: JsonProofs.put_ops p) = load c p /\
  entries_of c (run c (prior ++ Clear :: JsonProofs.put_ops p ++ [Put 10 7; Remove 4])) = [(10, 7)].
Proof. vm_compute. repeat split. Qed.
