(* Property C11 ("JSON serialization round-trips every container state").

   "For every container type and every reachable state whose elements are JSON-representable,
    ToJSON() returns valid JSON (an array for value containers, an object for key-value containers)
    identical - up to element order for the unordered hash containers - to what json.Marshal of the
    container returns. Loading that output with FromJSON/json.Unmarshal into a fresh container of
    the same type and configuration yields an equivalent container: same Size, same contents, same
    iteration order for ordered containers, and the same subsequent Pop/Dequeue sequence."

   Reading.  The byte level is Go's encoding/json, a trusted oracle outside the model (the harness
   compares the bytes of ToJSON with those of json.Marshal and decodes documents for the model).
   [to_json c s] is the CONTENT of the document ToJSON writes: [OL [OZ 0; ozs vs]] is the array vs,
   [OL [OZ 1; opairs es]] the object with the members es in document order.  Hash containers are
   modelled in canonical (ascending) form, so "up to element order" is plain equality here.
   [decode_of] is what such a document denotes ([DArr vs] / [DObj es]); [from_json c d s] is
   FromJSON on a document denoting d.  [run c ops] is the state after ANY operation list, [init c]
   the fresh container; [config_ok c] excludes exactly the two documented constructor panics (B-tree
   order < 3, circular buffer capacity < 1).

   [equivalent c s s'] = [equiv_content] (Size, Values, Keys, entries, ToJSON, Get / GetKey /
   Contains for ALL arguments, Peek, Full) and [equiv_iter] (the forward walk [each_of] of a fresh
   iterator - what Each/Any/All/Find/Select/Map range over - and the backward walk [each_back]).

   Where it is true the reloaded STATE is the very same state ([C11_state_equal]: lists, stacks,
   queues, hash and linked sets and maps, HashBidiMap, heap, priority queue).  It is false for the
   search trees (other shape: [C11_state_equal_tree_refuted]) and the ring (reloaded unwrapped:
   [C11_state_equal_ring_refuted], [C11_ring]); for these the observations are proved equal.

   [C11_roundtrip] and [C11_same_future_all] are the full statements for all 21 kinds, with no
   premise.  The iteration clause for BTree rests on the machine-level B-tree iterator theorems of
   Proofs/IterTreeMachine.v ([C11_bt_iter_ok], [C11_bt_script_ok]).  The earlier partial forms are kept
   under their names: [C11_roundtrip_partial] (BTree excluded from [equiv_iter] only),
   [C11_roundtrip_content] (all kinds, without the clause), [C11_roundtrip_given_bt_iter] and
   [C11_same_future_all_partial] (from the premises [bt_iter_ok] / [bt_script_ok], now theorems). *)
From Coq Require Import ZArith List Bool.
From Gods Require Import Common.Cmp Common.ListAux Model.Ops Model.Machine Proofs.JsonProofs.
From Gods Require Model.Ring.
Import ListNotations.
Local Open Scope Z_scope.

(* ---------- the document ---------- *)
(* an array for value containers, an object for key-value containers *)
Theorem C11_to_json_shape : forall c s,
  ((exists vs, to_json c s = OL [OZ 0; ozs vs]) <-> is_kv (ckind c) = false) /\
  ((exists es, to_json c s = OL [OZ 1; opairs es]) <-> is_kv (ckind c) = true).
Proof. exact to_json_shape. Qed.
Print Assumptions C11_to_json_shape.

(* what the document denotes: the elements in Values() order (backing order for stacks and heap) /
   the members ascending by key (insertion order for LinkedHashMap) *)
Theorem C11_decode_to_json : forall c s,
  decode_of (to_json c s) = if is_kv (ckind c) then DObj (json_members c s) else DArr (json_values c s).
Proof. exact decode_to_json. Qed.
Print Assumptions C11_decode_to_json.

(* ---------- the round trip ---------- *)
(* the property as worded, all 21 kinds: the reloaded container is equivalent to the original -
   same Size / Values / Keys / entries / ToJSON / Get / GetKey / Contains / Peek / Full
   ([equiv_content]) and same forward and backward iteration ([equiv_iter]) *)
Theorem C11_roundtrip : forall c ops, config_ok c ->
  let s := run c ops in
  let '(s', ok) := from_json c (decode_of (to_json c s)) (init c) in
  ok = true /\ equivalent c s s'.
Proof. exact C11_roundtrip_all_proof. Qed.
Print Assumptions C11_roundtrip.

(* the B-tree iterator theorems it rests on *)
Theorem C11_bt_iter_ok : forall c ops, ckind c = BTree -> 3 <= corder c ->
  each_of c (run c ops) = Some (entries_of c (run c ops)) /\
  each_back c (run c ops) = Some (rev (entries_of c (run c ops))).
Proof. exact bt_iter_ok_proof. Qed.
Print Assumptions C11_bt_iter_ok.

Theorem C11_bt_script_ok : forall c ops1 ops2 cs, ckind c = BTree -> 3 <= corder c ->
  entries_of c (run c ops1) = entries_of c (run c ops2) ->
  run_iter c (run c ops1) cs = run_iter c (run c ops2) cs.
Proof. exact bt_script_ok_proof. Qed.
Print Assumptions C11_bt_script_ok.

(* the weaker forms proved before the B-tree iterator theorem existed (kept under their names) *)
Theorem C11_roundtrip_partial : forall c ops, config_ok c ->
  let s := run c ops in
  let '(s', ok) := from_json c (decode_of (to_json c s)) (init c) in
  ok = true /\ equiv_content c s s' /\ (ckind c <> BTree -> equiv_iter c s s').
Proof. exact C11_roundtrip_partial_proof. Qed.
Print Assumptions C11_roundtrip_partial.

(* the same, as the property is worded, for every kind but BTree *)
Theorem C11_roundtrip_not_btree : forall c ops, config_ok c -> ckind c <> BTree ->
  let s := run c ops in
  let '(s', ok) := from_json c (decode_of (to_json c s)) (init c) in
  ok = true /\ equivalent c s s'.
Proof. exact C11_roundtrip_proof. Qed.
Print Assumptions C11_roundtrip_not_btree.

(* all 21 kinds (BTree included), without the iteration clause *)
Theorem C11_roundtrip_content : forall c ops, config_ok c ->
  let s := run c ops in
  let '(s', ok) := from_json c (decode_of (to_json c s)) (init c) in
  ok = true /\ equiv_content c s s'.
Proof. exact C11_roundtrip_content_proof. Qed.
Print Assumptions C11_roundtrip_content.

(* the full statement for every kind, given the B-tree iterator theorem [bt_iter_ok]:
     forall c ops, ckind c = BTree -> 3 <= corder c ->
       each_of c (run c ops) = Some (entries_of c (run c ops)) /\
       each_back c (run c ops) = Some (rev (entries_of c (run c ops))) *)
Theorem C11_roundtrip_given_bt_iter : bt_iter_ok -> forall c ops, config_ok c ->
  let s := run c ops in
  let '(s', ok) := from_json c (decode_of (to_json c s)) (init c) in
  ok = true /\ equivalent c s s'.
Proof. exact C11_roundtrip_full_proof. Qed.
Print Assumptions C11_roundtrip_given_bt_iter.

(* 14 kinds: the reloaded container is in the very same state *)
Theorem C11_state_equal : forall c ops, config_ok c -> state_equal_kind (ckind c) = true ->
  from_json c (decode_of (to_json c (run c ops))) (init c) = (run c ops, true).
Proof. exact C11_state_equal_proof. Qed.
Print Assumptions C11_state_equal.

(* the circular buffer: same logical content, size, capacity, Full, Peek; the reloaded ring is unwrapped *)
Theorem C11_ring : forall c ops, ckind c = CircularBuffer -> 1 <= ccap c ->
  exists r r', run c ops = StRing r /\
    from_json c (decode_of (to_json c (run c ops))) (init c) = (StRing r', true) /\
    Ring.rvalues r' = Ring.rvalues r /\ Ring.rsize r' = Ring.rsize r /\ Ring.rmax r' = Ring.rmax r /\
    Ring.rfullb r' = Ring.rfullb r /\ Ring.rpeek r' = Ring.rpeek r /\ Ring.rstart r' = 0%nat.
Proof. exact C11_ring_proof. Qed.
Print Assumptions C11_ring.

(* the reloaded container is itself a reachable state, so every other property applies to it *)
Theorem C11_reloaded_reachable : forall c s, config_ok c ->
  fst (from_json c (decode_of (to_json c s)) (init c)) = run c [FromJSON (decode_of (to_json c s))].
Proof. exact reload_reachable. Qed.
Print Assumptions C11_reloaded_reachable.

(* ---------- the same future ---------- *)
(* [results_from c s more]: the answers of the operations [more] executed from s.  For the kinds
   where the order of removal matters (stacks, queues, ring, heap, priority queue - and all other
   state-equal kinds) ANY further operation sequence gets the same answers from the reloaded
   container, and the two containers stay equivalent. *)
Theorem C11_same_future : forall c ops more, config_ok c -> future_kind (ckind c) = true ->
  let s := run c ops in
  let s' := fst (from_json c (decode_of (to_json c s)) (init c)) in
  results_from c s' more = results_from c s more /\
  equivalent c (run_from c s more) (run_from c s' more).
Proof. exact C11_same_future_proof. Qed.
Print Assumptions C11_same_future.

(* Every kind: [oeq c s1 s2] is the observational equivalence "same state (14 kinds) / same logical
   queue (ring) / same entries (search trees, TreeSet, TreeBidiMap)" between states satisfying the
   reachable-state invariant [jinv]; it is preserved by EVERY operation with equal answers
   ([C11_oeq_step]), the reloaded container is [oeq] to the original, hence all futures agree.
   For BTree the answers of [Iter] scripts need the B-tree iterator theorem ([C11_bt_script_ok]), in
   the form [bt_script_ok]: forall c ops1 ops2 cs, ckind c = BTree -> 3 <= corder c ->
     entries_of c (run c ops1) = entries_of c (run c ops2) ->
     run_iter c (run c ops1) cs = run_iter c (run c ops2) cs. *)
Theorem C11_oeq_step : forall c s1 s2 o, config_ok c -> oeq c s1 s2 -> iter_eq c s1 s2 ->
  snd (fst (step c s1 o)) = snd (fst (step c s2 o)) /\
  oeq c (fst (fst (step c s1 o))) (fst (fst (step c s2 o))).
Proof. exact oeq_step. Qed.
Print Assumptions C11_oeq_step.

Theorem C11_same_future_all_partial : forall c ops more, config_ok c -> (ckind c <> BTree \/ bt_script_ok) ->
  let s := run c ops in
  let s' := fst (from_json c (decode_of (to_json c s)) (init c)) in
  results_from c s' more = results_from c s more /\
  oeq c (run_from c s more) (run_from c s' more) /\
  equiv_content c (run_from c s more) (run_from c s' more) /\
  (ckind c <> BTree -> equiv_iter c (run_from c s more) (run_from c s' more)).
Proof. exact C11_same_future_all_proof. Qed.
Print Assumptions C11_same_future_all_partial.

(* every kind, no premise: ANY further operation sequence gets the same answers from the reloaded
   container, and the two containers stay equivalent (iteration order included) *)
Theorem C11_same_future_all : forall c ops more, config_ok c ->
  let s := run c ops in
  let s' := fst (from_json c (decode_of (to_json c s)) (init c)) in
  results_from c s' more = results_from c s more /\
  oeq c (run_from c s more) (run_from c s' more) /\
  equivalent c (run_from c s more) (run_from c s' more).
Proof. exact C11_same_future_unconditional_proof. Qed.
Print Assumptions C11_same_future_all.

(* "the same subsequent Pop/Dequeue sequence" *)
Theorem C11_same_removals : forall c ops n, config_ok c -> future_kind (ckind c) = true ->
  let s := run c ops in
  results_from c (fst (from_json c (decode_of (to_json c s)) (init c))) (repeat (remove_op_of (ckind c)) n) =
  results_from c s (repeat (remove_op_of (ckind c)) n).
Proof. exact C11_same_removals_proof. Qed.
Print Assumptions C11_same_removals.

(* ---------- what is not true ---------- *)
Theorem C11_state_equal_tree_false : exists c ops, config_ok c /\ ckind c = RedBlackTree /\
  fst (from_json c (decode_of (to_json c (run c ops))) (init c)) <> run c ops.
Proof. exact C11_state_equal_tree_refuted. Qed.
Print Assumptions C11_state_equal_tree_false.

Theorem C11_state_equal_ring_false : exists c ops, config_ok c /\ ckind c = CircularBuffer /\
  fst (from_json c (decode_of (to_json c (run c ops))) (init c)) <> run c ops.
Proof. exact C11_state_equal_ring_refuted. Qed.
Print Assumptions C11_state_equal_ring_false.

(* ---------- non-vacuity ---------- *)
Definition ex_puts : list op := map (fun k => Put k (k * k)) [5; 3; 9; 1; 12; 7; 2; 8; 11; 4; 6; 10; 13; 0; 3].

(* a B-tree of order 3 holding 12 keys after removals: 12 members printed ascending, 12 entries reloaded *)
Example C11_ex_btree :
  let c := mkc BTree CNat CNat 3 3 in
  let s := run c (ex_puts ++ [Remove 5; Remove 9]) in
  let '(s', ok) := from_json c (decode_of (to_json c s)) (init c) in
  ok = true /\ size_of c s = 12 /\ entries_of c s' = entries_of c s /\ s' <> s /\
  decode_of (to_json c s) = DObj [(0, 0); (1, 1); (2, 4); (3, 9); (4, 16); (6, 36); (7, 49); (8, 64);
                                  (10, 100); (11, 121); (12, 144); (13, 169)].
Proof. vm_compute. repeat split; discriminate. Qed.

(* TreeBidiMap whose comparators identify keys (x / 3): three entries survive, the round trip keeps them *)
Example C11_ex_treebidi :
  let c := mkc TreeBidiMap CDiv3 CDiv3 3 3 in
  let s := run c (ex_puts ++ [Remove 5; Remove 9]) in
  let '(s', ok) := from_json c (decode_of (to_json c s)) (init c) in
  ok = true /\ entries_of c s = [(0, 0); (6, 36); (13, 169)] /\ entries_of c s' = entries_of c s /\
  values_of c s' = values_of c s.
Proof. vm_compute. repeat split. Qed.

(* a wrapped ring of capacity 3 (start = 1): the reloaded ring has start = 0 and answers alike *)
Example C11_ex_ring :
  let c := mkc CircularBuffer CNat CNat 3 3 in
  let s := run c (map Enqueue [1; 2; 3; 4; 5] ++ [Dequeue]) in
  let s' := fst (from_json c (decode_of (to_json c s)) (init c)) in
  let more := [Dequeue; Enqueue 9; Enqueue 8; Iter [CNext; CNext]; Dequeue; Dequeue; Dequeue; Dequeue] in
  values_of c s = [4; 5] /\ s' <> s /\ values_of c s' = [4; 5] /\
  results_from c s' more = results_from c s more /\
  results_from c s more = [OL [OZ 4]; OL []; OL []; OL [OL [OZ 1; OZ 0; OZ 5]; OL [OZ 1; OZ 1; OZ 9]];
                           OL [OZ 5]; OL [OZ 9]; OL [OZ 8]; OL []].
Proof. vm_compute. repeat split; discriminate. Qed.

(* a TreeMap: the reloaded tree has another shape but answers every later operation alike *)
Example C11_ex_treemap_future :
  let c := mkc TreeMap CNat CNat 3 3 in
  let s := run c ex_puts in
  let s' := fst (from_json c (decode_of (to_json c s)) (init c)) in
  let more := [Remove 7; Iter [CNext; CNext; CLast; CPrev]; FindP (PValLt 5); Put 20 1; Each; SelectP (PIdxMod 2 0)] in
  s' <> s /\ results_from c s' more = results_from c s more.
Proof. vm_compute. split; [discriminate|reflexivity]. Qed.

(* LinkedHashMap keeps its insertion order through the round trip (5 was removed and re-inserted: last) *)
Example C11_ex_linkedmap :
  let c := mkc LinkedHashMap CNat CNat 3 3 in
  let s := run c (ex_puts ++ [Remove 5; Remove 9; Put 5 1]) in
  from_json c (decode_of (to_json c s)) (init c) = (s, true) /\
  keys_of c s = [3; 1; 12; 7; 2; 8; 11; 4; 6; 10; 13; 0; 5].
Proof. vm_compute. split; reflexivity. Qed.

(* a priority queue (reverse comparator): same backing array, same dequeue sequence *)
Example C11_ex_pq :
  let c := mkc PriorityQueue CRev CNat 3 3 in
  let s := run c (map Enqueue [5; 3; 9; 1; 12; 7; 2] ++ [Dequeue]) in
  let s' := fst (from_json c (decode_of (to_json c s)) (init c)) in
  s' = s /\ results_from c s' (repeat Dequeue 7) =
            [OL [OZ 9]; OL [OZ 7]; OL [OZ 5]; OL [OZ 3]; OL [OZ 2]; OL [OZ 1]; OL []].
Proof. vm_compute. split; reflexivity. Qed.
