(* Property C17, model part.  Every operation returns normally for every argument.

   "Every exported operation of every container and iterator (used as documented: containers made by
    their constructors, iterator values read only after a successful move), for any argument values -
    any index including negative and huge ones, absent keys, empty variadic lists, empty containers,
    any byte string given to FromJSON, any interleaving - returns normally: it does not panic and it
    terminates. The only exceptions are the two documented constructor preconditions (circular buffer
    capacity below 1, B-tree order below 3). No operation writes to the process's standard output or
    standard error."

   Reading.  The uniform machine (Model/Machine.v) models a Go panic - a nil dereference in the tree
   and linked-list algorithms ([None] of the per-structure functions), an index out of range, a
   panicking constructor - as the state [StCrash] and the result [ocrash]; once crashed, every later
   operation reports [ocrash] ([C17_crash_absorbing]).  The operation alphabet [op] carries unbounded
   integer arguments ([Z]: any index, negative and huge), arbitrary argument lists (empty ones
   included) and, for FromJSON, every possible decoding [decoded] of a byte string (error, null,
   array, object with duplicate members).  [run c ops] is the state after ANY list of operations.

   The only hypothesis is [config_ok c]: B-tree order >= 3 and ring capacity >= 1, which is exactly
   "the constructor did not panic" ([C17_config_ok_iff], [C17_constructor_preconditions]).

   Termination is by construction: [step] is a total Coq function (the fuel-bounded loops of the model
   - iterator NextTo/PrevTo, the walks of the enumerable functions, B-tree descent - answer [ocrash]
   when the fuel runs out, so "does not crash" includes "terminates within the fuel").
   What is NOT covered here: the silence part (stdout / stderr) and the Go-level panics that are not
   nil dereferences or index errors of the modelled algorithms; both are checked dynamically by the
   harness, which also checks after every operation that the Go container and this machine agree. *)
From Coq Require Import ZArith List Bool.
From Gods Require Import Common.Cmp Model.Ops Model.Machine Proofs.MachineInv.
From Gods Require Proofs.C06Proofs.
Import ListNotations.
Local Open Scope Z_scope.

(* no reachable state is the crash state *)
Theorem C17_never_crash : forall c ops, config_ok c -> run c ops <> StCrash.
Proof. exact MachineInv.C17_never_crash. Qed.
Print Assumptions C17_never_crash.

(* one more operation - any operation, any arguments - from any reachable state: the result is not
   the crash marker and the new state is not the crash state *)
Theorem C17_step_total : forall c ops o, config_ok c ->
  snd (fst (step c (run c ops) o)) <> ocrash /\ fst (fst (step c (run c ops) o)) <> StCrash.
Proof. exact MachineInv.C17_step_total. Qed.
Print Assumptions C17_step_total.

(* iterators: the result of an [Iter] script is the list of the results of its calls (Next, Prev,
   First, Last, Begin, End, NextTo, PrevTo, in any order, any number of them); a call that would
   follow a nil pointer would end that list with the crash marker.  It never does. *)
Theorem C17_iter_total : forall c ops cs, config_ok c ->
  ~ In ocrash (run_iter c (run c ops) cs).
Proof. exact MachineInv.C17_iter_total. Qed.
Print Assumptions C17_iter_total.

(* the enumerable functions (Each, Any, All, Find, Select, Map): the walk they loop over exists *)
Theorem C17_each_total : forall c ops, config_ok c -> has_enumerable (ckind c) = true ->
  each_of c (run c ops) <> None.
Proof. intros c ops Hc He. apply ginv_each_of; [|exact He]. apply run_ginv. exact Hc. Qed.
Print Assumptions C17_each_total.

(* the two documented panics, and no other constructor panic *)
Theorem C17_constructor_preconditions : forall c,
  init c = StCrash <-> (ckind c = BTree /\ corder c < 3) \/ (ckind c = CircularBuffer /\ ccap c < 1).
Proof. exact MachineInv.C17_constructor_preconditions. Qed.
Print Assumptions C17_constructor_preconditions.

Theorem C17_config_ok_iff : forall c, config_ok c <-> init c <> StCrash.
Proof. exact MachineInv.C17_config_ok_iff. Qed.
Print Assumptions C17_config_ok_iff.

(* a panicked constructor leaves nothing usable *)
Theorem C17_crash_absorbing : forall c o, step c StCrash o = (StCrash, ocrash, onone).
Proof. exact MachineInv.C17_crash_absorbing. Qed.
Print Assumptions C17_crash_absorbing.

(* ---------- concrete histories ---------- *)
Definition cfg (k : kind) (cap order : Z) : config :=
  {| ckind := k; kcmp := CNat; vcmp := CNat; ccap := cap; corder := order; cuni := 4 |}.

Lemma cfg_ok : forall k, config_ok (cfg k 2 3).
Proof. intros k. split; intros _; cbn; discriminate. Qed.

(* the results of a history, one per operation *)
Definition results (c : config) (ops : list op) : list obs := C06Proofs.results_from c (init c) ops.

(* the documented panics *)
Example ex_constructors :
  init (cfg BTree 2 2) = StCrash /\ init (cfg CircularBuffer 0 3) = StCrash /\
  init (cfg CircularBuffer (-7) 3) = StCrash /\
  init (cfg BTree 2 3) = StBT None 0 /\
  results (cfg BTree 2 2) [Put 1 1; Clear] = [ocrash; ocrash].
Proof. vm_compute. repeat split; reflexivity. Qed.

(* unfriendly arguments on a SinglyLinkedList: negative and huge indices, empty variadic lists
   (Insert(0) with no values on a non-empty list), operations on the empty list, FromJSON of a
   document that does not decode - every call returns, the content is what the valid calls built *)
Example ex_list :
  let c := cfg SinglyLinkedList 2 3 in
  let ops := [RemoveAt 0; Swap 0 0; Add []; Add [1; 2; 3]; Insert 0 []; Insert (-5) [9];
              Insert 1000000000000000000000 [9]; RemoveAt (-1); SetAt 99 4; Swap 2 (-2);
              FromJSON DErr; FromJSON (DObj [(1, 1)]); Insert 3 [4]; Sort CRev [4; 3; 2; 1]; Iter [CPrev; CLast; CNext; CNext]] in
  run c ops = StSeq [4; 3; 2; 1] /\
  results c ops = [ounit; ounit; ounit; ounit; ounit; ounit; ounit; ounit; ounit; ounit;
                   obool false; obool false; ounit; obool true;
                   OL [ounsupported; ounsupported; OL [OZ 1; OZ 0; OZ 4]; OL [OZ 1; OZ 1; OZ 3]]].
Proof. vm_compute. repeat split; reflexivity. Qed.

(* HashMap: Put after FromJSON(null); removal of absent keys; an empty object *)
Example ex_hashmap :
  let c := cfg HashMap 2 3 in
  let ops := [Remove 3; FromJSON DNull; Put 1 10; Remove 2; FromJSON (DObj []); Put 2 20; FromJSON (DArr [1])] in
  run c ops = StHMap [(2, 20)] /\
  results c ops = [ounit; obool true; ounit; ounit; obool true; ounit; obool false].
Proof. vm_compute. repeat split; reflexivity. Qed.

(* a CircularBuffer of capacity 2: dequeue from empty, overflow, reload from a longer array *)
Example ex_ring :
  let c := cfg CircularBuffer 2 3 in
  let ops := [Dequeue; Enqueue 1; Enqueue 2; Enqueue 3; FromJSON (DArr [4; 5; 6; 7]); Dequeue; Dequeue; Dequeue;
              Iter [CLast; CNextTo PTrue]] in
  values_of c (run c ops) = [] /\
  results c ops = [OL []; ounit; ounit; ounit; obool true; OL [OZ 6]; OL [OZ 7]; OL [];
                   OL [OL [OZ 0]; OL [OZ 0]]].
Proof. vm_compute. repeat split; reflexivity. Qed.

(* an empty red-black tree, AVL tree and B-tree: removals and iterator moves on nothing *)
Example ex_empty_trees :
  let ops := [Remove 1; Iter [CNext; CPrev; CLast; CFirst; CEnd; CPrev]; Remove (-1)] in
  results (cfg RedBlackTree 2 3) ops =
    [ounit; OL [OL [OZ 0]; OL [OZ 0]; OL [OZ 0]; OL [OZ 0]; ounit; OL [OZ 0]]; ounit] /\
  results (cfg AVLTree 2 3) ops = results (cfg RedBlackTree 2 3) ops /\
  results (cfg BTree 2 3) ops = results (cfg RedBlackTree 2 3) ops /\
  run (cfg BTree 2 3) ops = StBT None 0.
Proof. vm_compute. repeat split; reflexivity. Qed.

(* operations a kind does not offer are answered [ounsupported] (never generated by the harness)
   and change nothing *)
Example ex_unsupported :
  step (cfg BinaryHeap 2 3) (StHeap [1; 2]) (Put 1 1) = (StHeap [1; 2], ounsupported, onone).
Proof. reflexivity. Qed.
