(* Property C13.

   "Set algebra is exact and free of side effects.  For two sets a and b of the same kind (and, for
    TreeSet, the same comparator), Intersection, Union and Difference return a new set whose members
    are exactly those in both, in either, and in a but not b.  Neither a nor b is changed, the result
    shares no state with them (later changes to any of the three do not affect the others), and a
    TreeSet result is ordered by the operands' comparator.  The laws hold when a and b are the same
    object, when either is empty, and for either relative size."

   Reading.  [a := run c opsA] and [b := run c opsB] are the states of the uniform machine after ANY two
   lists of operations under the same configuration [c] (same kind, same comparator [kc c]), so they
   range over all pairs of reachable sets: disjoint, overlapping, nested, equal, empty, either one the
   larger.  [set_algebra c o a b] (o = AInter | AUnion | ADiff) is the observation the machine returns
   for a.Intersection(b) / a.Union(b) / a.Difference(b): the member list of the result - for the two
   hash-table kinds in ascending order (the Go order is unspecified, the harness sorts), for TreeSet the
   in-order key sequence of the fresh tree the model builds with Add.  The machine operations
   [Inter bs | Union bs | Diff bs] apply it to the current state and the fresh set [set_of c bs]
   (= [run c [Add bs]], C13_ops); [InterSelf | UnionSelf | DiffSelf] pass the same state twice
   (identical object).

   Membership.  [member c s x] (Proofs/SetsProofs.v) is Contains(x): [smem] on the hash table, a
   [RB.lookup (kc c)] on the tree; [contains_of c s [x] = obool (member c s x)] for every reachable
   state (C13_new_set, C04).  [sequiv c x y] is the equivalence the kind identifies elements by:
   [x = y] for HashSet / LinkedHashSet ([Z.compare x y = Eq]), [kc c x y = Eq] for TreeSet, and
   [InA (sequiv c) x l] is "l has an element equivalent to x".  C13_inter / C13_union / C13_diff state
   the law both against Values() of the operands and against Contains; C13_*_hash restate it with plain
   [In] / [NoDup] / [StronglySorted Z.lt] for the hash kinds.  [alg_spec o p q] is the Boolean law
   (p && q, p || q, p && negb q); [alg_result c o a b] is the new set as a machine state - for TreeSet
   the very state the model builds ([ts_inter]/[ts_union]/[ts_diff]: a fresh tree from [init c] filled
   by [add_values]); for the hash kinds, where the model keeps only the member list of the result, the
   state holding exactly that list.  [set_inv c s] is the invariant of all reachable set states
   (canonical duplicate-free table; table and ordering list in step; red-black + search tree with cached
   size = node count): "a new set".  [canon c s] is the ascending member list of a state: Values() for
   HashSet and TreeSet, the hash table (a permutation of Values()) for LinkedHashSet.

   Representatives (comparators that identify distinct integers: CDiv3, CAbs).  The law holds modulo
   [kc c x y = Eq] - that is the strongest true form: which of two equivalent integers the result stores
   depends on the implementation, and C13_treeset_representatives pins it down exactly:
   the intersection stores the representatives of the operand it iterates, the one with the SMALLER
   Size() (a on a tie); the difference those of a; the union all of b's and those of a with no
   equivalent in b (Add overwrites the stored key).  So under CDiv3, {0,4,8,9} ∩ {5,7,20,30} is [4;8]
   but {5,7,20,30} ∩ {0,4,8,9} is [5;7] (ex_treeset_div3_sizes): equal as sets modulo the comparator,
   different as lists.  C13_sizes proves the two branches of the size test equivalent.

   No shared state.  The model is purely functional: operands and result are values, so "later changes
   to any of the three do not affect the others" holds in it by construction; C13_independence makes
   that explicit (each of a, b and the result evolves from its own value only, following the history
   scan of C04; the original values and the algebra on them are what they were) and
   C13_operands_unchanged / C13_history_unchanged say that the six operations return the state they
   were given, for every configuration and state.  That the Go result really shares no memory with its
   operands is NOT established by this model: it is established by the harness's independence probes
   (mutate a, b and the result after the call and re-observe all three) and by the effect analysis
   (Properties/C16.v, C18.v). *)
From Coq Require Import ZArith List Bool Sorted Permutation SetoidList.
From Gods Require Import Common.Cmp Spec.SetSpec Model.Ops Model.Machine Proofs.RBInv Proofs.RBMap
  Proofs.SetsProofs Proofs.SetAlgProofs.
Import ListNotations.
Local Open Scope Z_scope.

(* ---------- the three laws: every pair of reachable operands, all three kinds ---------- *)
Theorem C13_inter : forall c opsA opsB, is_set_kind (ckind c) = true ->
  let a := run c opsA in let b := run c opsB in
  exists r, set_algebra c AInter a b = ozs r /\
    (forall x, InA (sequiv c) x r <-> InA (sequiv c) x (values_of c a) /\ InA (sequiv c) x (values_of c b)) /\
    (forall x, InA (sequiv c) x r <-> member c a x = true /\ member c b x = true) /\
    NoDupA (sequiv c) r /\
    StronglySorted (fun u v => set_cmp c u v = Lt) r.
Proof. intros c opsA opsB K. exact (C13_inter_proof c K opsA opsB). Qed.
Print Assumptions C13_inter.

Theorem C13_union : forall c opsA opsB, is_set_kind (ckind c) = true ->
  let a := run c opsA in let b := run c opsB in
  exists r, set_algebra c AUnion a b = ozs r /\
    (forall x, InA (sequiv c) x r <-> InA (sequiv c) x (values_of c a) \/ InA (sequiv c) x (values_of c b)) /\
    (forall x, InA (sequiv c) x r <-> member c a x = true \/ member c b x = true) /\
    NoDupA (sequiv c) r /\
    StronglySorted (fun u v => set_cmp c u v = Lt) r.
Proof. intros c opsA opsB K. exact (C13_union_proof c K opsA opsB). Qed.
Print Assumptions C13_union.

Theorem C13_diff : forall c opsA opsB, is_set_kind (ckind c) = true ->
  let a := run c opsA in let b := run c opsB in
  exists r, set_algebra c ADiff a b = ozs r /\
    (forall x, InA (sequiv c) x r <-> InA (sequiv c) x (values_of c a) /\ ~ InA (sequiv c) x (values_of c b)) /\
    (forall x, InA (sequiv c) x r <-> member c a x = true /\ member c b x <> true) /\
    NoDupA (sequiv c) r /\
    StronglySorted (fun u v => set_cmp c u v = Lt) r.
Proof. intros c opsA opsB K. exact (C13_diff_proof c K opsA opsB). Qed.
Print Assumptions C13_diff.

(* HashSet / LinkedHashSet in plain terms: members, no duplicates, ascending (canonical) *)
Theorem C13_inter_hash : forall c opsA opsB, ckind c = HashSet \/ ckind c = LinkedHashSet ->
  let a := run c opsA in let b := run c opsB in
  exists r, set_algebra c AInter a b = ozs r /\
    (forall x, In x r <-> In x (values_of c a) /\ In x (values_of c b)) /\ NoDup r /\ StronglySorted Z.lt r.
Proof. exact C13_inter_hash_proof. Qed.
Print Assumptions C13_inter_hash.

Theorem C13_union_hash : forall c opsA opsB, ckind c = HashSet \/ ckind c = LinkedHashSet ->
  let a := run c opsA in let b := run c opsB in
  exists r, set_algebra c AUnion a b = ozs r /\
    (forall x, In x r <-> In x (values_of c a) \/ In x (values_of c b)) /\ NoDup r /\ StronglySorted Z.lt r.
Proof. exact C13_union_hash_proof. Qed.
Print Assumptions C13_union_hash.

Theorem C13_diff_hash : forall c opsA opsB, ckind c = HashSet \/ ckind c = LinkedHashSet ->
  let a := run c opsA in let b := run c opsB in
  exists r, set_algebra c ADiff a b = ozs r /\
    (forall x, In x r <-> In x (values_of c a) /\ ~ In x (values_of c b)) /\ NoDup r /\ StronglySorted Z.lt r.
Proof. exact C13_diff_hash_proof. Qed.
Print Assumptions C13_diff_hash.

(* ---------- "a new set": a valid set state; its Contains obeys the law, its Values() is the observation ---------- *)
Theorem C13_new_set : forall c opsA opsB o, is_set_kind (ckind c) = true ->
  let a := run c opsA in let b := run c opsB in
  let res := alg_result c o a b in
  set_algebra c o a b = ozs (values_of c res) /\
  set_inv c res /\
  size_of c res = Z.of_nat (length (values_of c res)) /\
  (forall x, member c res x = alg_spec o (member c a x) (member c b x)) /\
  (forall x, contains_of c res [x] = obool (alg_spec o (member c a x) (member c b x))) /\
  (forall x, contains_of c a [x] = obool (member c a x)) /\
  (forall x, contains_of c b [x] = obool (member c b x)).
Proof. intros c opsA opsB o K. exact (C13_new_set_proof c K opsA opsB o). Qed.
Print Assumptions C13_new_set.

(* TreeSet: the state the model builds is a red-black search tree under the operands' comparator with the
   right cached size; the observation is its in-order key sequence, strictly ascending under [kc c] *)
Theorem C13_treeset_tree : forall c o opsA opsB, ckind c = TreeSet ->
  let a := run c opsA in let b := run c opsB in
  exists t n, alg_result c o a b = StRB t n /\
    rbt t /\ bst (kc c) t /\ n = Z.of_nat (RBTree.count t) /\
    set_algebra c o a b = ozs (RB.keys t) /\
    StronglySorted (fun u v => kc c u v = Lt) (RB.keys t) /\
    (forall x, probe (kc c) t x = alg_spec o (member c a x) (member c b x)).
Proof. exact C13_treeset_tree_proof. Qed.
Print Assumptions C13_treeset_tree.

(* TreeSet: exactly which representatives the result stores *)
Theorem C13_treeset_representatives : forall c opsA opsB, ckind c = TreeSet ->
  let a := run c opsA in let b := run c opsB in
  values_of c (alg_result c AInter a b) =
    (if size_of c a <=? size_of c b then filter (member c b) (values_of c a) else filter (member c a) (values_of c b)) /\
  values_of c (alg_result c ADiff a b) = filter (fun x => negb (member c b x)) (values_of c a) /\
  (forall z, In z (values_of c (alg_result c AUnion a b)) <->
             In z (values_of c b) \/ (In z (values_of c a) /\ member c b z = false)).
Proof. exact C13_treeset_representatives_proof. Qed.
Print Assumptions C13_treeset_representatives.

(* ---------- neither operand is changed; the result is a function of the operands only ---------- *)
Theorem C13_operands_unchanged : forall c s o, is_alg_op o = true ->
  fst (fst (step c s o)) = s /\ snd (step c s o) = onone.
Proof. exact C13_operands_unchanged_proof. Qed.
Print Assumptions C13_operands_unchanged.

Theorem C13_history_unchanged : forall c ops o more, is_alg_op o = true ->
  run c (ops ++ o :: more) = run c (ops ++ more).
Proof. exact C13_history_unchanged_proof. Qed.
Print Assumptions C13_history_unchanged.

Theorem C13_result_function : forall c s bs, s <> StCrash ->
  snd (fst (step c s (Inter bs))) = set_algebra c AInter s (set_of c bs) /\
  snd (fst (step c s (Union bs))) = set_algebra c AUnion s (set_of c bs) /\
  snd (fst (step c s (Diff bs))) = set_algebra c ADiff s (set_of c bs) /\
  snd (fst (step c s InterSelf)) = set_algebra c AInter s s /\
  snd (fst (step c s UnionSelf)) = set_algebra c AUnion s s /\
  snd (fst (step c s DiffSelf)) = set_algebra c ADiff s s.
Proof. exact C13_result_function_proof. Qed.
Print Assumptions C13_result_function.

(* the six machine operations on a reachable set: the laws above apply with opsB := [Add bs] *)
Theorem C13_ops : forall c ops bs, is_set_kind (ckind c) = true ->
  let a := run c ops in let b := run c [Add bs] in
  step c a (Inter bs) = (a, set_algebra c AInter a b, onone) /\
  step c a (Union bs) = (a, set_algebra c AUnion a b, onone) /\
  step c a (Diff bs) = (a, set_algebra c ADiff a b, onone) /\
  step c a InterSelf = (a, set_algebra c AInter a a, onone) /\
  step c a UnionSelf = (a, set_algebra c AUnion a a, onone) /\
  step c a DiffSelf = (a, set_algebra c ADiff a a, onone) /\
  (forall x, member c b x = eqvb (set_cmp c) x bs).
Proof. exact C13_ops_proof. Qed.
Print Assumptions C13_ops.

(* ---------- identical object ---------- *)
Theorem C13_same_object : forall c ops, is_set_kind (ckind c) = true ->
  let a := run c ops in
  snd (fst (step c a InterSelf)) = ozs (canon c a) /\
  snd (fst (step c a UnionSelf)) = ozs (canon c a) /\
  snd (fst (step c a DiffSelf)) = ozs [] /\
  Permutation (canon c a) (values_of c a) /\
  StronglySorted (fun u v => set_cmp c u v = Lt) (canon c a) /\
  (ckind c <> LinkedHashSet -> canon c a = values_of c a) /\
  (forall x, InA (sequiv c) x (canon c a) <-> member c a x = true).
Proof. exact C13_same_object_proof. Qed.
Print Assumptions C13_same_object.

(* ---------- either operand empty ---------- *)
Theorem C13_empty : forall c ops, is_set_kind (ckind c) = true ->
  let a := run c ops in
  set_of c [] = init c /\ run c [] = init c /\
  set_algebra c AInter a (init c) = ozs [] /\
  set_algebra c AInter (init c) a = ozs [] /\
  set_algebra c AUnion a (init c) = ozs (canon c a) /\
  set_algebra c AUnion (init c) a = ozs (canon c a) /\
  set_algebra c ADiff a (init c) = ozs (canon c a) /\
  set_algebra c ADiff (init c) a = ozs [] /\
  snd (fst (step c a (Inter []))) = ozs [] /\
  snd (fst (step c a (Union []))) = ozs (canon c a) /\
  snd (fst (step c a (Diff []))) = ozs (canon c a).
Proof. exact C13_empty_proof. Qed.
Print Assumptions C13_empty.

(* ---------- either relative size: both branches of the TreeSet size test are valid and equivalent ---------- *)
Theorem C13_sizes : forall c opsA opsB, ckind c = TreeSet ->
  let a := run c opsA in let b := run c opsB in
  exists ta tb,
    a = StRB ta (size_of c a) /\ b = StRB tb (size_of c b) /\
    let r1 := ts_inter_iter c (ta, size_of c a) (tb, size_of c b) in     (* iterate a, probe b *)
    let r2 := ts_inter_iter c (tb, size_of c b) (ta, size_of c a) in     (* iterate b, probe a *)
    alg_result c AInter a b = (if size_of c a <=? size_of c b then r1 else r2) /\
    set_inv c r1 /\ set_inv c r2 /\
    values_of c r1 = filter (member c b) (values_of c a) /\
    values_of c r2 = filter (member c a) (values_of c b) /\
    (forall x, member c r1 x = member c a x && member c b x) /\
    (forall x, member c r2 x = member c a x && member c b x) /\
    size_of c r1 = size_of c r2.
Proof. exact C13_sizes_proof. Qed.
Print Assumptions C13_sizes.

(* ---------- commutativity, (a \ b) ∩ b = ∅, (a ∩ b) ∪ (a \ b) = a ---------- *)
Theorem C13_corollaries : forall c opsA opsB, is_set_kind (ckind c) = true ->
  let a := run c opsA in let b := run c opsB in
  let I := alg_result c AInter in let U := alg_result c AUnion in let D := alg_result c ADiff in
  (forall x, member c (U a b) x = member c (U b a) x) /\ size_of c (U a b) = size_of c (U b a) /\
  (forall x, member c (I a b) x = member c (I b a) x) /\ size_of c (I a b) = size_of c (I b a) /\
  set_algebra c AInter (D a b) b = ozs [] /\
  (forall x, member c (U (I a b) (D a b)) x = member c a x) /\
  size_of c (U (I a b) (D a b)) = size_of c a /\
  (ckind c = HashSet \/ ckind c = LinkedHashSet ->
     set_algebra c AInter a b = set_algebra c AInter b a /\ set_algebra c AUnion a b = set_algebra c AUnion b a).
Proof. exact C13_corollaries_proof. Qed.
Print Assumptions C13_corollaries.

(* ---------- the result is a fully fledged set of its own (model level; see the header) ---------- *)
Theorem C13_independence : forall c o opsA opsB moreA moreB moreR, is_set_kind (ckind c) = true ->
  let a := run c opsA in let b := run c opsB in
  let res := alg_result c o a b in
  let a' := run_from c a moreA in let b' := run_from c b moreB in let res' := run_from c res moreR in
  a' = run c (opsA ++ moreA) /\ b' = run c (opsB ++ moreB) /\
  set_inv c res' /\
  (forall x, member c res' x = live_from (set_cmp c) (rev (set_hist c moreR)) (member c res) x) /\
  (forall x, member c a' x = live_from (set_cmp c) (rev (set_hist c moreA)) (member c a) x) /\
  (forall x, member c b' x = live_from (set_cmp c) (rev (set_hist c moreB)) (member c b) x) /\
  run c opsA = a /\ run c opsB = b /\ alg_result c o (run c opsA) (run c opsB) = res /\
  set_algebra c o a b = ozs (values_of c res).
Proof. exact C13_independence_proof. Qed.
Print Assumptions C13_independence.

(* ================= Examples (non-vacuity) ================= *)
Definition cfg (k : kind) (kc : cmp_id) : config :=
  {| ckind := k; kcmp := kc; vcmp := CNat; ccap := 0; corder := 3; cuni := 8 |}.

(* a = {1, 3, 5, 9} under the natural order, built by a history with a removal and a repeated Add *)
Definition hA : list op := [Add [5; 1; 3; 7]; RemoveVals [7]; Add [9; 3]].

(* Intersection / Union / Difference with the fresh set holding bs; and with the same object *)
Definition algs (c : config) (s : state) (bs : list Z) : list obs :=
  map (fun o => snd (fst (step c s o))) [Inter bs; Union bs; Diff bs].
Definition selfs (c : config) (s : state) : list obs :=
  map (fun o => snd (fst (step c s o))) [InterSelf; UnionSelf; DiffSelf].

Example ex_hashset : let c := cfg HashSet CNat in let a := run c hA in
  values_of c a = [1; 3; 5; 9] /\
  algs c a [2; 4] = [ozs []; ozs [1; 2; 3; 4; 5; 9]; ozs [1; 3; 5; 9]] /\                      (* disjoint *)
  algs c a [3; 4; 6; 5; 7; 8] = [ozs [3; 5]; ozs [1; 3; 4; 5; 6; 7; 8; 9]; ozs [1; 9]] /\      (* overlapping, |a| < |b| *)
  algs c a [4; 3] = [ozs [3]; ozs [1; 3; 4; 5; 9]; ozs [1; 5; 9]] /\                           (* overlapping, |a| > |b| *)
  algs c a [3; 1] = [ozs [1; 3]; ozs [1; 3; 5; 9]; ozs [5; 9]] /\                              (* b nested in a *)
  algs c a [0; 1; 3; 5; 9; 11] = [ozs [1; 3; 5; 9]; ozs [0; 1; 3; 5; 9; 11]; ozs []] /\        (* a nested in b *)
  algs c a [9; 5; 3; 1] = [ozs [1; 3; 5; 9]; ozs [1; 3; 5; 9]; ozs []] /\                      (* equal *)
  selfs c a = [ozs [1; 3; 5; 9]; ozs [1; 3; 5; 9]; ozs []] /\                                  (* identical object *)
  algs c a [] = [ozs []; ozs [1; 3; 5; 9]; ozs [1; 3; 5; 9]] /\                                (* b empty *)
  algs c (init c) [1; 2] = [ozs []; ozs [1; 2]; ozs []] /\                                     (* a empty *)
  map (fun o => fst (fst (step c a o))) [Inter [3; 4]; Union [3; 4]; Diff [3; 4]; InterSelf; UnionSelf; DiffSelf]
    = [a; a; a; a; a; a].                                                                      (* a unchanged *)
Proof. vm_compute. repeat split; reflexivity. Qed.

(* LinkedHashSet: Values() is in insertion order, the algebra results are compared in ascending order *)
Example ex_linkedhashset : let c := cfg LinkedHashSet CNat in let a := run c hA in
  values_of c a = [5; 1; 3; 9] /\ canon c a = [1; 3; 5; 9] /\
  algs c a [2; 4] = [ozs []; ozs [1; 2; 3; 4; 5; 9]; ozs [1; 3; 5; 9]] /\
  algs c a [3; 4; 6; 5; 7; 8] = [ozs [3; 5]; ozs [1; 3; 4; 5; 6; 7; 8; 9]; ozs [1; 9]] /\
  algs c a [4; 3] = [ozs [3]; ozs [1; 3; 4; 5; 9]; ozs [1; 5; 9]] /\
  algs c a [3; 1] = [ozs [1; 3]; ozs [1; 3; 5; 9]; ozs [5; 9]] /\
  algs c a [0; 1; 3; 5; 9; 11] = [ozs [1; 3; 5; 9]; ozs [0; 1; 3; 5; 9; 11]; ozs []] /\
  algs c a [9; 5; 3; 1] = [ozs [1; 3; 5; 9]; ozs [1; 3; 5; 9]; ozs []] /\
  selfs c a = [ozs [1; 3; 5; 9]; ozs [1; 3; 5; 9]; ozs []] /\
  algs c a [] = [ozs []; ozs [1; 3; 5; 9]; ozs [1; 3; 5; 9]] /\
  algs c (init c) [1; 2] = [ozs []; ozs [1; 2]; ozs []] /\
  alg_result c AInter a (run c [Add [4; 3; 5]]) = StLSet [3; 5] [3; 5] /\
  map (fun o => fst (fst (step c a o))) [Inter [3; 4]; Union [3; 4]; Diff [3; 4]; InterSelf; UnionSelf; DiffSelf]
    = [a; a; a; a; a; a].
Proof. vm_compute. repeat split; reflexivity. Qed.

(* TreeSet under the reversed order: the result is ordered by the operands' comparator *)
Example ex_treeset_rev : let c := cfg TreeSet CRev in let a := run c hA in
  values_of c a = [9; 5; 3; 1] /\
  algs c a [2; 4] = [ozs []; ozs [9; 5; 4; 3; 2; 1]; ozs [9; 5; 3; 1]] /\
  algs c a [3; 4; 6; 5; 7; 8] = [ozs [5; 3]; ozs [9; 8; 7; 6; 5; 4; 3; 1]; ozs [9; 1]] /\
  algs c a [4; 3] = [ozs [3]; ozs [9; 5; 4; 3; 1]; ozs [9; 5; 1]] /\
  algs c a [3; 1] = [ozs [3; 1]; ozs [9; 5; 3; 1]; ozs [9; 5]] /\
  algs c a [0; 1; 3; 5; 9; 11] = [ozs [9; 5; 3; 1]; ozs [11; 9; 5; 3; 1; 0]; ozs []] /\
  algs c a [9; 5; 3; 1] = [ozs [9; 5; 3; 1]; ozs [9; 5; 3; 1]; ozs []] /\
  selfs c a = [ozs [9; 5; 3; 1]; ozs [9; 5; 3; 1]; ozs []] /\
  algs c a [] = [ozs []; ozs [9; 5; 3; 1]; ozs [9; 5; 3; 1]] /\
  algs c (init c) [1; 2] = [ozs []; ozs [2; 1]; ozs []] /\
  map (fun o => fst (fst (step c a o))) [Inter [3; 4]; Union [3; 4]; Diff [3; 4]; InterSelf; UnionSelf; DiffSelf]
    = [a; a; a; a; a; a].
Proof. vm_compute. repeat split; reflexivity. Qed.

(* TreeSet under x / 3 (3, 4, 5 are one element): a = {1, 3, 9} = classes 0, 1, 3 *)
Example ex_treeset_div3 : let c := cfg TreeSet CDiv3 in let a := run c hA in
  values_of c a = [1; 3; 9] /\
  algs c a [6; 8; 13] = [ozs []; ozs [1; 3; 8; 9; 13]; ozs [1; 3; 9]] /\         (* disjoint: 6 ~ 8 *)
  algs c a [2; 4] = [ozs [2; 4]; ozs [2; 4; 9]; ozs [9]] /\                      (* b nested, |b| < |a|: b's representatives *)
  algs c a [5; 7; 8; 11; 14] = [ozs [3; 9]; ozs [1; 5; 8; 11; 14]; ozs [1]] /\   (* overlapping, |a| < |b|: a's representatives *)
  algs c a [0; 1; 3; 5; 9; 11] = [ozs [1; 3; 9]; ozs [1; 5; 11]; ozs []] /\      (* equal modulo x / 3: union keeps b's *)
  selfs c a = [ozs [1; 3; 9]; ozs [1; 3; 9]; ozs []] /\
  algs c a [] = [ozs []; ozs [1; 3; 9]; ozs [1; 3; 9]] /\
  algs c (init c) [1; 2] = [ozs []; ozs [2]; ozs []] /\
  map (fun o => fst (fst (step c a o))) [Inter [3; 4]; Union [3; 4]; Diff [3; 4]; InterSelf; UnionSelf; DiffSelf]
    = [a; a; a; a; a; a].
Proof. vm_compute. repeat split; reflexivity. Qed.

(* which representative survives depends on the relative sizes: a ∩ b and b ∩ a are equal modulo the
   comparator but not as lists when |a| = |b|; the smaller operand supplies the elements otherwise *)
Example ex_treeset_div3_sizes : let c := cfg TreeSet CDiv3 in
  let a := run c [Add [0; 4; 8; 9]] in
  let b := run c [Add [5; 7; 12]; RemoveVals [12]; Add [20; 30]] in      (* |b| = |a| = 4 *)
  let bs := run c [Add [5; 7; 12]; RemoveVals [12]] in                   (* |bs| = 2 *)
  let bl := run c [Add [5; 7; 12; 20; 30]] in                            (* |bl| = 5 *)
  set_algebra c AInter a b = ozs [4; 8] /\ set_algebra c AInter b a = ozs [5; 7] /\
  set_algebra c AInter a bs = ozs [5; 7] /\ set_algebra c AInter bs a = ozs [5; 7] /\
  set_algebra c AInter a bl = ozs [4; 8] /\ set_algebra c AInter bl a = ozs [4; 8] /\
  set_algebra c AUnion a b = ozs [0; 5; 7; 9; 20; 30] /\ set_algebra c AUnion b a = ozs [0; 4; 8; 9; 20; 30] /\
  set_algebra c ADiff a b = ozs [0; 9] /\ set_algebra c ADiff b a = ozs [20; 30] /\
  contains_of c (alg_result c AInter a b) [3] = obool true /\ contains_of c (alg_result c AInter b a) [3] = obool true /\
  contains_of c (alg_result c AInter a b) [0] = obool false /\
  size_of c (alg_result c AInter a b) = 2.
Proof. vm_compute. repeat split; reflexivity. Qed.

Example ex_treeset_abs : let c := cfg TreeSet CAbs in
  let a := run c [Add [-1; 2; -3]] in let b := run c [Add [1; -2; 4; 5]] in
  set_algebra c AInter a b = ozs [-1; 2] /\ set_algebra c AInter b a = ozs [-1; 2] /\
  set_algebra c AUnion a b = ozs [1; -2; -3; 4; 5] /\ set_algebra c AUnion b a = ozs [-1; 2; -3; 4; 5] /\
  set_algebra c ADiff a b = ozs [-3].
Proof. vm_compute. repeat split; reflexivity. Qed.

(* an algebra call in the middle of a history is invisible to everything that follows; the result keeps
   living on its own: adding to it does not touch a *)
Example ex_no_side_effect : let c := cfg TreeSet CNat in
  run c (hA ++ Union [100; 200] :: [Add [4]]) = run c (hA ++ [Add [4]]) /\
  let a := run c hA in let res := alg_result c AUnion a (run c [Add [100; 200]]) in
  values_of c res = [1; 3; 5; 9; 100; 200] /\
  values_of c (run_from c res [RemoveVals [1]; Add [7]]) = [3; 5; 7; 9; 100; 200] /\
  values_of c a = [1; 3; 5; 9].
Proof. vm_compute. repeat split; reflexivity. Qed.
