(* Property C10.

   "Bidirectional maps are always one-to-one in both directions.
    For HashBidiMap and TreeBidiMap after any history, Get(k) = (v, true) exactly when
    GetKey(v) = (k, true), and no two keys share a value. Put(k, v) first removes the pair previously
    held by k and the pair previously holding v, then adds (k, v); Remove(k) removes the pair in both
    directions. Size() = len(Keys()) = len(Values()) = number of pairs, and no lookup ever returns a
    pair that was displaced."

   Reading.  [run c ops] is the state of the uniform machine after ANY list of operations (Put, Remove,
   Clear, FromJSON, observers, operations the kind does not offer), [bidi c] says that [c] configures
   one of the two bidirectional kinds.  [get_of c s k] / [getkey_of c s v] are Get(k) / GetKey(v) as
   observations: [oopt (Some x)] is (x, true), [oopt None] is (_, false).  [entries_of c s] is the list
   of stored (key, value) pairs in Keys() order, [keys_of] = Keys(), [values_of] = Values(),
   [size_of] = Size().

   "The same key" is [bk c a b = Eq] and "the same value" is [bv c a b = Eq]: for HashBidiMap both are
   plain equality (C10_eq_hash), for TreeBidiMap they are the key comparator [kc c] and the value
   comparator [vc c] (C10_eq_tree) - every pair of comparators of the executed family, including the
   many-to-one CDiv3 and CAbs under which distinct integers are ONE key (or one value).  All statements
   are at that generality; for the hash kind "modulo Eq" is "exactly".

   The history-based reading (C10_history, C10_live): [hist c ops] (Proofs/MachineMaps.v) is the list
   of mutating operations of the history - Put k v / Remove k / Clear; FromJSON of an object is a Clear
   followed by the Puts of [sort_entries kvs] in that order, FromJSON null is a Clear, a failing
   FromJSON and every observer contribute nothing - and [spec c ops] folds it over a plain list of
   pairs:  put k v = (k, v) :: the pairs whose key is not the same as k and whose value is not the same
   as v;  remove k = the pairs whose key is not the same as k;  clear = [].  No container state occurs
   in [spec c ops]; Get, GetKey and Size of the real state are the answers of that list, so a pair
   that was displaced (filtered out) is never returned again.  [live] says the same newest-first. *)
From Coq Require Import ZArith List Bool Sorted.
From Gods Require Import Common.Cmp Spec.SeqSpec Spec.MapSpec Model.Ops Model.Machine.
From Gods Require Import Proofs.MachineMaps Proofs.BidiProofs.
Import ListNotations.
Local Open Scope Z_scope.

(* ---------- how to read "the same key" / "the same value" ---------- *)
Theorem C10_eq_hash : forall c a b, ckind c = HashBidiMap ->
  (bk c a b = Eq <-> a = b) /\ (bv c a b = Eq <-> a = b).
Proof. exact bidi_eq_hash. Qed.
Print Assumptions C10_eq_hash.

Theorem C10_eq_tree : forall c, ckind c = TreeBidiMap -> bk c = kc c /\ bv c = vc c.
Proof. exact bidi_eq_tree. Qed.
Print Assumptions C10_eq_tree.

(* ---------- 1. the invariant of every reachable state ---------- *)
(* no history crashes a bidirectional map; forward and inverse dictionaries are sorted and duplicate-
   free (hash kind: canonical association lists; tree kind: red-black + search-tree invariants of both
   trees, cached sizes = node counts) and they are EXACT mutual inverses: (k, v) is stored forward iff
   (v, k) is stored backward - with the very same representatives, also under many-to-one comparators *)
Theorem C10_invariant : forall c ops, bidi c ->
  run c ops <> StCrash /\ bidi_inv c (run c ops).
Proof. exact C10_invariant_proof. Qed.
Print Assumptions C10_invariant.

(* ---------- 2. Get(k) = (v, true) exactly when GetKey(v) = (k, true) ---------- *)
Theorem C10_get_getkey : forall c ops k v, bidi c ->
  let s := run c ops in
  (exists v', bv c v v' = Eq /\ get_of c s k = oopt (Some v')) <->
  (exists k', bk c k k' = Eq /\ getkey_of c s v = oopt (Some k')).
Proof. exact C10_get_getkey_proof. Qed.
Print Assumptions C10_get_getkey.

(* HashBidiMap: literally *)
Theorem C10_get_getkey_hash : forall c ops k v, ckind c = HashBidiMap ->
  let s := run c ops in
  get_of c s k = oopt (Some v) <-> getkey_of c s v = oopt (Some k).
Proof. exact C10_get_getkey_hash_proof. Qed.
Print Assumptions C10_get_getkey_hash.

(* the sharp round trips (both kinds): the answers are the stored representatives and they point at
   each other *)
Theorem C10_get_then_getkey : forall c ops k v, bidi c ->
  let s := run c ops in
  get_of c s k = oopt (Some v) ->
  exists k0, bk c k k0 = Eq /\ getkey_of c s v = oopt (Some k0) /\ get_of c s k0 = oopt (Some v).
Proof. exact C10_get_then_getkey_proof. Qed.
Print Assumptions C10_get_then_getkey.

Theorem C10_getkey_then_get : forall c ops v k, bidi c ->
  let s := run c ops in
  getkey_of c s v = oopt (Some k) ->
  exists v0, bv c v v0 = Eq /\ get_of c s k = oopt (Some v0) /\ getkey_of c s v0 = oopt (Some k).
Proof. exact C10_getkey_then_get_proof. Qed.
Print Assumptions C10_getkey_then_get.

(* lookups in terms of the stored pairs *)
Theorem C10_pairs_get : forall c ops k v, bidi c ->
  let s := run c ops in
  get_of c s k = oopt (Some v) <-> exists k0, In (k0, v) (entries_of c s) /\ bk c k k0 = Eq.
Proof. exact C10_pairs_get_proof. Qed.
Print Assumptions C10_pairs_get.

Theorem C10_pairs_getkey : forall c ops v k, bidi c ->
  let s := run c ops in
  getkey_of c s v = oopt (Some k) <-> exists v0, In (k, v0) (entries_of c s) /\ bv c v v0 = Eq.
Proof. exact C10_pairs_getkey_proof. Qed.
Print Assumptions C10_pairs_getkey.

Theorem C10_pairs_get_none : forall c ops k, bidi c ->
  let s := run c ops in
  get_of c s k = oopt None <-> forall a b, In (a, b) (entries_of c s) -> bk c k a <> Eq.
Proof. exact C10_pairs_get_none_proof. Qed.
Print Assumptions C10_pairs_get_none.

Theorem C10_pairs_getkey_none : forall c ops v, bidi c ->
  let s := run c ops in
  getkey_of c s v = oopt None <-> forall a b, In (a, b) (entries_of c s) -> bv c v b <> Eq.
Proof. exact C10_pairs_getkey_none_proof. Qed.
Print Assumptions C10_pairs_getkey_none.

(* the same key (value) as a probe gives the same answer *)
Theorem C10_probe_congruence : forall c ops, bidi c ->
  let s := run c ops in
  (forall k k', bk c k k' = Eq -> get_of c s k = get_of c s k') /\
  (forall v v', bv c v v' = Eq -> getkey_of c s v = getkey_of c s v').
Proof. exact C10_probe_congruence_proof. Qed.
Print Assumptions C10_probe_congruence.

(* ---------- 3. no two keys share a value (and no two values share a key) ---------- *)
Theorem C10_injective : forall c ops k1 k2 v1 v2, bidi c ->
  let s := run c ops in
  get_of c s k1 = oopt (Some v1) -> get_of c s k2 = oopt (Some v2) ->
  bv c v1 v2 = Eq -> bk c k1 k2 = Eq /\ v1 = v2.
Proof. exact C10_injective_proof. Qed.
Print Assumptions C10_injective.

Theorem C10_injective_inv : forall c ops v1 v2 k1 k2, bidi c ->
  let s := run c ops in
  getkey_of c s v1 = oopt (Some k1) -> getkey_of c s v2 = oopt (Some k2) ->
  bk c k1 k2 = Eq -> bv c v1 v2 = Eq /\ k1 = k2.
Proof. exact C10_injective_inv_proof. Qed.
Print Assumptions C10_injective_inv.

(* the stored pairs: no repetition, one pair per key class, one pair per value class *)
Theorem C10_pairs_one_to_one : forall c ops, bidi c ->
  one_to_one (bk c) (bv c) (entries_of c (run c ops)).
Proof. exact C10_pairs_one_to_one_proof. Qed.
Print Assumptions C10_pairs_one_to_one.

(* ---------- 4. Put and Remove, from any reachable state ---------- *)
(* the pairs after Put k v: (k, v), and every old pair whose key is not k's and whose value is not v's *)
Theorem C10_put_pairs : forall c ops k v a b, bidi c ->
  In (a, b) (entries_of c (run c (ops ++ [Put k v]))) <->
  (a, b) = (k, v) \/
  (In (a, b) (entries_of c (run c ops)) /\ bk c a k <> Eq /\ bv c b v <> Eq).
Proof. exact C10_put_pairs_proof. Qed.
Print Assumptions C10_put_pairs.

(* Get after Put k v: k has v; a different key that held (a value the same as) v is now absent;
   every other key keeps its value; absent keys stay absent *)
Theorem C10_put : forall c ops k v, bidi c ->
  let s := run c ops in
  let s' := run c (ops ++ [Put k v]) in
  (forall k', bk c k' k = Eq -> get_of c s' k' = oopt (Some v)) /\
  (forall k' v', bk c k' k <> Eq -> get_of c s k' = oopt (Some v') -> bv c v' v = Eq ->
                 get_of c s' k' = oopt None) /\
  (forall k' v', bk c k' k <> Eq -> get_of c s k' = oopt (Some v') -> bv c v' v <> Eq ->
                 get_of c s' k' = oopt (Some v')) /\
  (forall k', bk c k' k <> Eq -> get_of c s k' = oopt None -> get_of c s' k' = oopt None).
Proof. exact C10_put_get_proof. Qed.
Print Assumptions C10_put.

(* GetKey after Put k v: the mirror image *)
Theorem C10_put_getkey : forall c ops k v, bidi c ->
  let s := run c ops in
  let s' := run c (ops ++ [Put k v]) in
  (forall v', bv c v' v = Eq -> getkey_of c s' v' = oopt (Some k)) /\
  (forall v' k', bv c v' v <> Eq -> getkey_of c s v' = oopt (Some k') -> bk c k' k = Eq ->
                 getkey_of c s' v' = oopt None) /\
  (forall v' k', bv c v' v <> Eq -> getkey_of c s v' = oopt (Some k') -> bk c k' k <> Eq ->
                 getkey_of c s' v' = oopt (Some k')) /\
  (forall v', bv c v' v <> Eq -> getkey_of c s v' = oopt None -> getkey_of c s' v' = oopt None).
Proof. exact C10_put_getkey_proof. Qed.
Print Assumptions C10_put_getkey.

Theorem C10_remove_pairs : forall c ops k a b, bidi c ->
  In (a, b) (entries_of c (run c (ops ++ [Remove k]))) <->
  In (a, b) (entries_of c (run c ops)) /\ bk c a k <> Eq.
Proof. exact C10_remove_pairs_proof. Qed.
Print Assumptions C10_remove_pairs.

(* Remove k: k is gone, every other key keeps its answer ... *)
Theorem C10_remove : forall c ops k, bidi c ->
  let s := run c ops in
  let s' := run c (ops ++ [Remove k]) in
  (forall k', bk c k' k = Eq -> get_of c s' k' = oopt None) /\
  (forall k', bk c k' k <> Eq -> get_of c s' k' = get_of c s k').
Proof. exact C10_remove_get_proof. Qed.
Print Assumptions C10_remove.

(* ... and in the other direction the value k held is gone, every other value keeps its answer *)
Theorem C10_remove_getkey : forall c ops k, bidi c ->
  let s := run c ops in
  let s' := run c (ops ++ [Remove k]) in
  (forall v0 v', get_of c s k = oopt (Some v0) -> bv c v' v0 = Eq -> getkey_of c s' v' = oopt None) /\
  (forall v', (forall v0, get_of c s k = oopt (Some v0) -> bv c v' v0 <> Eq) ->
              getkey_of c s' v' = getkey_of c s v').
Proof. exact C10_remove_getkey_proof. Qed.
Print Assumptions C10_remove_getkey.

(* removing an absent key changes nothing at all: the same state (trees, colours, sizes) *)
Theorem C10_remove_absent : forall c ops k, bidi c ->
  get_of c (run c ops) k = oopt None -> run c (ops ++ [Remove k]) = run c ops.
Proof. exact C10_remove_absent_proof. Qed.
Print Assumptions C10_remove_absent.

(* ---------- 5. Size() = len(Keys()) = len(Values()) = number of pairs ---------- *)
(* both enumerations are strictly ascending (so duplicate-free, also modulo the comparators), Keys()
   lists exactly the stored keys and Values() exactly the stored values *)
Theorem C10_size : forall c ops, bidi c ->
  let s := run c ops in
  size_of c s = zlen (entries_of c s) /\
  zlen (keys_of c s) = size_of c s /\
  zlen (values_of c s) = size_of c s /\
  StronglySorted (fun a b => bk c a b = Lt) (keys_of c s) /\
  StronglySorted (fun a b => bv c a b = Lt) (values_of c s) /\
  (forall k, In k (keys_of c s) <-> exists v, In (k, v) (entries_of c s)) /\
  (forall v, In v (values_of c s) <-> exists k, In (k, v) (entries_of c s)).
Proof. exact C10_size_proof. Qed.
Print Assumptions C10_size.

(* ---------- 6. no lookup ever returns a pair that was displaced ---------- *)
Theorem C10_history : forall c ops, bidi c ->
  let s := run c ops in
  let P := spec c ops in
  (forall k, get_of c s k = oopt (sget (bk c) P k)) /\
  (forall v, getkey_of c s v = oopt (sgetkey (bv c) P v)) /\
  size_of c s = zlen P /\
  (forall e, In e (entries_of c s) <-> In e P) /\
  one_to_one (bk c) (bv c) P.
Proof. exact C10_history_proof. Qed.
Print Assumptions C10_history.

(* newest-first: a pair is stored iff it was put and since then there was no Put of the same key, no
   Put of the same value, no Remove of the same key and no Clear / FromJSON *)
Theorem C10_live : forall c ops e, bidi c ->
  In e (entries_of c (run c ops)) <-> live (bk c) (bv c) (rev (hist c ops)) e.
Proof. exact C10_live_proof. Qed.
Print Assumptions C10_live.

(* ---------- concrete colliding histories ---------- *)
Definition cfg (k : kind) (kcm vcm : cmp_id) : config :=
  {| ckind := k; kcmp := kcm; vcmp := vcm; ccap := 0; corder := 3; cuni := 8 |}.

Example ex_bidi : bidi (cfg HashBidiMap CNat CNat) /\ bidi (cfg TreeBidiMap CDiv3 CAbs).
Proof. split; [left|right]; reflexivity. Qed.

(* Put 2 10 displaces (1, 10); Put 4 30 displaces (3, 30); Put 4 20 displaces both (1, 20) and (4, 30) *)
Definition h1 : list op :=
  [Put 1 10; Put 2 10; Put 1 20; Put 3 30; Put 4 30; Remove 9; Put 4 20; Each; Add [7]].

Example ex_hash :
  let c := cfg HashBidiMap CNat CNat in
  let s := run c h1 in
  entries_of c s = [(2, 10); (4, 20)] /\ values_of c s = [10; 20] /\ size_of c s = 2 /\
  map (get_of c s) [1; 2; 3; 4] = [oopt None; oopt (Some 10); oopt None; oopt (Some 20)] /\
  map (getkey_of c s) [10; 20; 30] = [oopt (Some 2); oopt (Some 4); oopt None] /\
  spec c h1 = [(4, 20); (2, 10)].
Proof. vm_compute. repeat split; reflexivity. Qed.

Example ex_tree_nat :
  let c := cfg TreeBidiMap CNat CNat in
  let s := run c h1 in
  entries_of c s = [(2, 10); (4, 20)] /\ values_of c s = [10; 20] /\ size_of c s = 2 /\
  map (get_of c s) [1; 2; 3; 4] = [oopt None; oopt (Some 10); oopt None; oopt (Some 20)] /\
  map (getkey_of c s) [10; 20; 30] = [oopt (Some 2); oopt (Some 4); oopt None] /\
  spec c h1 = [(4, 20); (2, 10)].
Proof. vm_compute. repeat split; reflexivity. Qed.

(* many-to-one comparators on both sides: 3 ~ 4 as keys, 10 ~ 11 and 20 ~ 18 and 21 ~ 22 as values.
   Put 4 30 replaces the pair of key class {3,4,5}; Put 9 11 displaces it again through the value
   class of 10 ... nothing displaced is ever returned, and the probes 10 / 20 find the stored
   representatives 11 / 20 *)
Definition h2 : list op :=
  [Put 3 10; Put 7 20; Put 4 30; Put 9 11; Put 1 21; Remove 5; Put 12 40; Put 13 22].

Example ex_tree_div3 :
  let c := cfg TreeBidiMap CDiv3 CDiv3 in
  let s := run c h2 in
  entries_of c s = [(7, 20); (9, 11); (13, 22)] /\ values_of c s = [11; 20; 22] /\ size_of c s = 3 /\
  map (get_of c s) [3; 4; 1; 6; 8; 12; 14] =
    [oopt None; oopt None; oopt None; oopt (Some 20); oopt (Some 20); oopt (Some 22); oopt (Some 22)] /\
  map (getkey_of c s) [10; 18; 21; 30; 40] =
    [oopt (Some 9); oopt (Some 7); oopt (Some 13); oopt None; oopt None] /\
  spec c h2 = [(13, 22); (9, 11); (7, 20)].
Proof. vm_compute. repeat split; reflexivity. Qed.

(* the same history when only the values collapse *)
Example ex_tree_nat_div3 :
  let c := cfg TreeBidiMap CNat CDiv3 in
  let s := run c h2 in
  entries_of c s = [(4, 30); (7, 20); (9, 11); (12, 40); (13, 22)] /\
  values_of c s = [11; 20; 22; 30; 40] /\ size_of c s = 5 /\
  map (get_of c s) [1; 3; 4] = [oopt None; oopt None; oopt (Some 30)] /\
  map (getkey_of c s) [10; 21] = [oopt (Some 9); oopt (Some 13)].
Proof. vm_compute. repeat split; reflexivity. Qed.

(* CAbs keys: -2 is the key 2, -3 is the key 3 *)
Example ex_tree_abs :
  let c := cfg TreeBidiMap CAbs CNat in
  let ops := [Put 2 5; Put (-2) 6; Put 3 6; Put (-3) 7; Remove 2] in
  let s := run c ops in
  entries_of c s = [(-3, 7)] /\ size_of c s = 1 /\
  get_of c s 3 = oopt (Some 7) /\ get_of c s 2 = oopt None /\
  map (getkey_of c s) [5; 6; 7] = [oopt None; oopt None; oopt (Some (-3))] /\
  spec c ops = [(-3, 7)].
Proof. vm_compute. repeat split; reflexivity. Qed.

(* FromJSON: clear, then the members in ascending key order, last duplicate wins - and the members
   displace each other like any other Put: 6 -> 50 is displaced by 7 -> 50 *)
Definition h3 : list op :=
  [Put 1 10; Put 2 20; FromJSON (DObj [(5, 50); (6, 50); (5, 60); (7, 50)]); Put 8 60; FromJSON DErr;
   Put 9 90; Remove 8].

Example ex_json :
  hist (cfg HashBidiMap CNat CNat) h3 =
    [MPut 1 10; MPut 2 20; MClear; MPut 5 60; MPut 6 50; MPut 7 50; MPut 8 60; MPut 9 90; MRemove 8] /\
  entries_of (cfg HashBidiMap CNat CNat) (run (cfg HashBidiMap CNat CNat) h3) = [(7, 50); (9, 90)] /\
  entries_of (cfg TreeBidiMap CNat CNat) (run (cfg TreeBidiMap CNat CNat) h3) = [(7, 50); (9, 90)] /\
  spec (cfg TreeBidiMap CNat CNat) h3 = [(9, 90); (7, 50)] /\
  getkey_of (cfg HashBidiMap CNat CNat) (run (cfg HashBidiMap CNat CNat) h3) 60 = oopt None.
Proof. vm_compute. repeat split; reflexivity. Qed.

(* the invariant on a concrete state: the two trees of the CDiv3 run are exact mirror images *)
Example ex_inverse :
  match run (cfg TreeBidiMap CDiv3 CDiv3) h2 with
  | StTBidi f fn i inn =>
    RB.inorder f = [(7, 20); (9, 11); (13, 22)] /\ RB.inorder i = [(11, 9); (20, 7); (22, 13)] /\
    fn = 3 /\ inn = 3
  | _ => False
  end.
Proof. vm_compute. repeat split; reflexivity. Qed.
