(* Property C14.

   "Enumerable functions agree with iteration and leave the receiver unchanged.
    On the three lists, TreeSet, LinkedHashSet, TreeMap, LinkedHashMap and TreeBidiMap, Each visits
    exactly the (index or key, value) pairs of the iterator, in iterator order, once each; Any, All and
    Find equal exists, for-all and first-match over that sequence, Find returning (-1, zero) or
    (zero, zero) when nothing matches. Select returns a new container of the same kind and ordering
    discipline holding exactly the matching elements in their original relative order; Map returns a new
    container built by inserting the mapped elements in iteration order (so sets deduplicate and
    re-sort, and maps resolve colliding keys or values as repeated Put would). The receiver is never
    modified and shares no state with the result."

   Reading.  [run c ops] is the state of the uniform machine (Model/Machine.v) after ANY list of
   operations; the only hypothesis is on the configuration: [has_enumerable (ckind c) = true], i.e. one
   of the eight kinds above, with ANY comparators [kcmp c] / [vcmp c] of the family.  The statements
   quantify over all predicates [p : pred] and mapping functions [f : mapf] of Model/Ops.v
   ([holds p e = pred_eval p (fst e) (snd e)], [apply_f f e = mapf_eval f (fst e) (snd e)]).

   [step c s o = (s', result, cost)].  [each_of c s] is the forward walk of a fresh iterator of the
   container ([None] = the Go code would crash); the enumerable functions of the machine range over
   it.  [enum_seq c s] is the sequence that walk is PROVED to produce: (key, value) in Keys() order
   for the three maps ([entries_of]), (index, element) with index 0..n-1 for the lists and the two
   sets ([C14_enum_seq_index], [C14_enum_seq_kv]).  [run_iter c s script] is the stateful iterator
   driven by a script of calls; [rep e] is what a successful Next reports, [at_end] what the failing
   one reports.

   [select_of] / [map_of] are the containers Select / Map return, [content_obs] their observable
   content.  [built c es] is the container both build from a list of pairs (Select: the kept pairs,
   Map: the mapped pairs); [build_ops c es] is the list of machine operations - one [Put k v] per pair
   on the maps, one [Add [v]] per pair on lists and sets - that a caller would issue on a FRESH
   container: [built c es = run c (build_ops c es)] says "same kind, same comparators, elements
   inserted one at a time in iteration order", and makes every theorem about reachable states
   (C01-C04, C09, ...) applicable to the result.  [wellformed] spells out the ordering discipline.

   Map on the index-addressed kinds uses only the value component of the mapping function.

   "Shares no state with the result": the model is purely functional (states are immutable values),
   so aliasing cannot be expressed in it; what is stated here is that the receiver component of the
   step is the old state, and that the result is a function of the walked sequence only, rebuilt
   from [init c].  (Absence of shared mutable storage in the Go code is the business of the
   source-level effect analysis, properties C16-C18.)

   Finding while proving: on a TreeSet (and as key of the tree maps) an inserted element that
   compares Eq to a present one REPLACES the stored representative (red-black Put overwrites key and
   value), so under a non-injective comparator Map keeps the LAST of several equivalent mapped
   elements, not the first: [C14_map] (TreeSet clause) and [C14_map_treeset_keeps_first_refuted]. *)
From Coq Require Import ZArith List Bool Sorted SetoidList Permutation.
From Gods Require Import Common.Cmp Spec.SeqSpec Spec.MapSpec Model.Ops Model.Machine.
From Gods Require Import Proofs.MachineMaps Proofs.IterLinear Proofs.EnumProofs.
Import ListNotations.
Local Open Scope Z_scope.

(* ---------- Each and the iterator ---------- *)
(* the walk never crashes; it yields [enum_seq]; Size() is its length; n+1 Next calls on a fresh
   iterator report exactly these pairs, once each, in this order, then the end *)
Theorem C14_each_total : forall c ops, has_enumerable (ckind c) = true ->
  let s := run c ops in
  each_of c s = Some (enum_seq c s) /\
  size_of c s = zlen (enum_seq c s) /\
  run_iter c s (repeat CNext (S (length (enum_seq c s)))) = map rep (enum_seq c s) ++ [at_end].
Proof. exact C14_each_total_proof. Qed.
Print Assumptions C14_each_total.

(* lists, TreeSet, LinkedHashSet: index 0..n-1 paired with Values() *)
Theorem C14_enum_seq_index : forall c s, is_kv (ckind c) = false ->
  enum_seq c s = combine (zrange 0 (length (values_of c s))) (values_of c s) /\
  map fst (enum_seq c s) = zrange 0 (length (values_of c s)) /\
  map snd (enum_seq c s) = values_of c s.
Proof. exact C14_enum_seq_index_proof. Qed.
Print Assumptions C14_enum_seq_index.

(* TreeMap, LinkedHashMap, TreeBidiMap: the entries in Keys() order (Values() is aligned with Keys()
   on the first two; TreeBidiMap lists its values in value order) *)
Theorem C14_enum_seq_kv : forall c ops, has_enumerable (ckind c) = true -> is_kv (ckind c) = true ->
  let s := run c ops in
  enum_seq c s = entries_of c s /\
  keys_of c s = map fst (enum_seq c s) /\
  (ckind c <> TreeBidiMap -> values_of c s = map snd (enum_seq c s)) /\
  (ckind c = TreeBidiMap -> forall k v, In (k, v) (enum_seq c s) -> In v (values_of c s)).
Proof. exact C14_enum_seq_kv_proof. Qed.
Print Assumptions C14_enum_seq_kv.

Theorem C14_each : forall c ops, has_enumerable (ckind c) = true ->
  let s := run c ops in step c s Each = (s, opairs (enum_seq c s), onone).
Proof. exact C14_each_proof. Qed.
Print Assumptions C14_each.

(* ---------- Any, All, Find ---------- *)
Theorem C14_any : forall c ops p, has_enumerable (ckind c) = true ->
  let s := run c ops in step c s (AnyP p) = (s, obool (existsb (holds p) (enum_seq c s)), onone).
Proof. exact C14_any_proof. Qed.
Print Assumptions C14_any.

Theorem C14_all : forall c ops p, has_enumerable (ckind c) = true ->
  let s := run c ops in step c s (AllP p) = (s, obool (forallb (holds p) (enum_seq c s)), onone).
Proof. exact C14_all_proof. Qed.
Print Assumptions C14_all.

(* [find_none c] is (0, 0) on the maps and (-1, 0) on the index-addressed kinds *)
Theorem C14_find : forall c ops p, has_enumerable (ckind c) = true ->
  let s := run c ops in
  step c s (FindP p) =
    (s, match find (holds p) (enum_seq c s) with Some (i, v) => opair i v | None => find_none c end, onone).
Proof. exact C14_find_proof. Qed.
Print Assumptions C14_find.

(* ... and [find] is the FIRST match *)
Theorem C14_find_first : forall p es,
  (forall e, find (holds p) es = Some e <->
             exists l1 l2, es = l1 ++ e :: l2 /\ holds p e = true /\ existsb (holds p) l1 = false) /\
  (find (holds p) es = None <-> existsb (holds p) es = false).
Proof. exact C14_find_first_proof. Qed.
Print Assumptions C14_find_first.

(* ---------- Select ---------- *)
(* the result holds exactly the matching pairs in their original relative order: the entries of the
   maps (TreeBidiMap: a sub-map of a one-to-one map is one-to-one, nothing is displaced), the elements
   of lists and sets, whose indices are renumbered 0..m-1 (last clause: what iterating the RESULT gives) *)
Theorem C14_select : forall c ops p, has_enumerable (ckind c) = true ->
  let s := run c ops in
  let kept := filter (holds p) (enum_seq c s) in
  let r := select_of c p (enum_seq c s) in
  step c s (SelectP p) = (s, content_obs c r, onone) /\
  r = run c (build_ops c kept) /\
  (if is_kv (ckind c) then entries_of c r = kept else values_of c r = map snd kept) /\
  each_of c r = Some (if is_kv (ckind c) then kept else indexed (map snd kept)).
Proof. exact C14_select_proof. Qed.
Print Assumptions C14_select.

(* ---------- Map ---------- *)
(* lists: position by position.  LinkedHashSet: first occurrences, in order ([uniq_first]).
   TreeSet: the sorted set of the map spec; of several mapped elements that compare Eq the LAST one
   survives (scanning the mapped values backwards, the first element equivalent to x is x itself).
   TreeMap: the map spec [mrun] of the Puts (last value wins, key replaced).  LinkedHashMap: keys in
   first-occurrence order, each with the value of its last Put.  TreeBidiMap: the fold of the
   bidirectional Put [bidi_step], whose meaning is [C14_bidi_put_meaning]. *)
Theorem C14_map : forall c ops f, has_enumerable (ckind c) = true ->
  let s := run c ops in
  let mapped := map (apply_f f) (enum_seq c s) in
  let r := map_of c f (enum_seq c s) in
  step c s (MapF f) = (s, content_obs c r, onone) /\
  r = run c (build_ops c mapped) /\
  match ckind c with
  | ArrayList | SinglyLinkedList | DoublyLinkedList => values_of c r = map snd mapped
  | LinkedHashSet => values_of c r = uniq_first [] (map snd mapped)
  | TreeSet => values_of c r = map fst (mrun (kc c) (puts (emb0 (map snd mapped)))) /\
               forall x, In x (values_of c r) <->
                         find (fun y => is_eq (kc c x y)) (rev (map snd mapped)) = Some x
  | TreeMap => entries_of c r = mrun (kc c) (puts mapped)
  | LinkedHashMap =>
      keys_of c r = uniq_first [] (map fst mapped) /\
      entries_of c r = map (fun k => (k, lmap_value (mrun Z.compare (puts mapped)) k)) (keys_of c r) /\
      Permutation (entries_of c r) (mrun Z.compare (puts mapped))
  | TreeBidiMap => entries_of c r = fst (fold_left (bidi_step (kc c) (vc c)) mapped ([], []))
  | _ => True
  end.
Proof. exact C14_map_proof. Qed.
Print Assumptions C14_map.

(* one bidirectional Put on a one-to-one pair of lists (forward ascending by key, inverse ascending by
   value): the new pair enters, every old pair with an equivalent key OR an equivalent value leaves *)
Theorem C14_bidi_put_meaning : forall c s e,
  bipair (kc c) (vc c) (fst s) (snd s) ->
  bipair (kc c) (vc c) (fst (bidi_step (kc c) (vc c) s e)) (snd (bidi_step (kc c) (vc c) s e)) /\
  forall a b, In (a, b) (fst (bidi_step (kc c) (vc c) s e)) <->
              (a, b) = e \/ (In (a, b) (fst s) /\ kc c a (fst e) <> Eq /\ vc c b (snd e) <> Eq).
Proof. exact C14_bidi_put_meaning_proof. Qed.
Print Assumptions C14_bidi_put_meaning.

(* ---------- the result: same kind, same comparators, a valid state ---------- *)
(* for ANY list of pairs the built container is the run of the same machine, same configuration,
   from a fresh container; it satisfies the invariant of the reachable states of its kind and is
   not a crash *)
Theorem C14_same_config : forall c es, has_enumerable (ckind c) = true ->
  built c es = run c (build_ops c es) /\ einv c (built c es) /\ built c es <> StCrash.
Proof. exact C14_same_config_proof. Qed.
Print Assumptions C14_same_config.

(* the ordering discipline of receiver and result alike: TreeSet strictly ascending under the same
   comparator, one element per equivalence class; LinkedHashSet / LinkedHashMap duplicate-free in
   insertion order; TreeMap / TreeBidiMap strictly ascending keys; TreeBidiMap one-to-one *)
Theorem C14_wellformed : forall c, has_enumerable (ckind c) = true ->
  (forall ops, wellformed c (run c ops)) /\ (forall es, wellformed c (built c es)).
Proof. exact C14_wellformed_proof. Qed.
Print Assumptions C14_wellformed.

(* ---------- the receiver ---------- *)
Theorem C14_receiver_unchanged : forall c ops o, has_enumerable (ckind c) = true -> is_enum_op o = true ->
  fst (fst (step c (run c ops) o)) = run c ops /\ snd (step c (run c ops) o) = onone.
Proof. exact C14_receiver_unchanged_proof. Qed.
Print Assumptions C14_receiver_unchanged.

Theorem C14_no_crash : forall c ops o, has_enumerable (ckind c) = true -> is_enum_op o = true ->
  run c ops <> StCrash /\ snd (fst (step c (run c ops) o)) <> ocrash.
Proof. exact C14_no_crash_proof. Qed.
Print Assumptions C14_no_crash.

(* ---------- concrete histories ---------- *)
Definition cfg (k : kind) (kcm vcm : cmp_id) : config :=
  {| ckind := k; kcmp := kcm; vcmp := vcm; ccap := 0; corder := 3; cuni := 8 |}.
Definition res (c : config) (ops : list op) (o : op) : obs := snd (fst (step c (run c ops) o)).

(* "repeated Add keeps the first of several equivalent elements" is FALSE: under x/3, Map(v -> v/2)
   sends the members 1, 5, 7 to 0, 2, 3; 0 and 2 are one element of the result, and 2 is kept *)
Theorem C14_map_treeset_keeps_first_refuted :
  exists c ops f x,
    let mapped := map (apply_f f) (enum_seq c (run c ops)) in
    ckind c = TreeSet /\
    In x (values_of c (map_of c f (enum_seq c (run c ops)))) /\
    find (fun y => is_eq (kc c x y)) (map snd mapped) <> Some x.
Proof.
  exists (cfg TreeSet CDiv3 CNat), [Add [4; 7; 1; 10; 5]; RemoveVals [9]], (FValDiv 2), 2.
  vm_compute. split; [reflexivity|]. split; [left; reflexivity|discriminate].
Qed.
Print Assumptions C14_map_treeset_keeps_first_refuted.

(* the three lists, index-dependent predicates and functions *)
Definition hl : list op := [Add [5; 6; 7]; Insert 1 [9; 4]; RemoveAt 0; Add [8; 6]].

Example ex_lists : forall k, In k [ArrayList; SinglyLinkedList; DoublyLinkedList] ->
  let c := cfg k CNat CNat in
  values_of c (run c hl) = [9; 4; 6; 7; 8; 6] /\
  res c hl Each = opairs [(0, 9); (1, 4); (2, 6); (3, 7); (4, 8); (5, 6)] /\
  res c hl (SelectP (PIdxMod 2 1)) = ozs [4; 7; 6] /\
  res c hl (FindP (PIdxMod 3 2)) = opair 2 6 /\
  res c hl (FindP (PValLt 0)) = opair (-1) 0 /\
  res c hl (AnyP (PSumMod 5 0)) = obool true /\
  res c hl (AllP (PValLt 9)) = obool false /\
  res c hl (MapF FIdxPlusVal) = ozs [9; 5; 8; 10; 12; 11] /\
  res c hl (MapF (FConst 3)) = ozs [3; 3; 3; 3; 3; 3] /\
  run_iter c (run c hl) (repeat CNext 7) =
    map rep [(0, 9); (1, 4); (2, 6); (3, 7); (4, 8); (5, 6)] ++ [at_end].
Proof.
  intros k [<-|[<-|[<-|[]]]]; vm_compute; repeat split; reflexivity.
Qed.

(* TreeMap under the reversed order; i -> i/2 makes keys collide: the later pair (in iteration
   order) wins, as repeated Put would *)
Definition hm : list op := [Put 1 10; Put 2 20; Put 3 30; Put 4 40; Put 5 50; Remove 3; Put 2 21].

Example ex_treemap :
  let c := cfg TreeMap CRev CNat in
  res c hm Each = opairs [(5, 50); (4, 40); (2, 21); (1, 10)] /\
  res c hm (MapF (FKeyDiv 2)) = OL [ozs [2; 1; 0]; ozs [40; 21; 10]] /\
  res c hm (MapF (FConst 7)) = OL [ozs [7]; ozs [7]] /\
  res c hm (SelectP (PValMod 20 10)) = OL [ozs [5; 1]; ozs [50; 10]] /\
  res c hm (FindP (PValLt 30)) = opair 2 21 /\
  res c hm (FindP PFalse) = opair 0 0 /\
  run_iter c (run c hm) (repeat CNext 5) = map rep [(5, 50); (4, 40); (2, 21); (1, 10)] ++ [at_end] /\
  fst (fst (step c (run c hm) (MapF (FKeyDiv 2)))) = run c hm.
Proof. vm_compute. repeat split; reflexivity. Qed.

(* TreeSet under x/3 (4 and 5 are one element; Remove 9 removes 10); a constant function collapses
   the set to one element; Select renumbers *)
Definition hs : list op := [Add [4; 7; 1; 10; 5]; RemoveVals [9]].

Example ex_treeset :
  let c := cfg TreeSet CDiv3 CNat in
  values_of c (run c hs) = [1; 5; 7] /\
  res c hs Each = opairs [(0, 1); (1, 5); (2, 7)] /\
  res c hs (MapF (FConst 2)) = ozs [2] /\
  res c hs (MapF (FValDiv 2)) = ozs [2; 3] /\
  res c hs (MapF (FValPlus 1)) = ozs [2; 8] /\
  res c hs (SelectP (PIdxMod 2 0)) = ozs [1; 7] /\
  each_of c (select_of c (PIdxMod 2 0) (enum_seq c (run c hs))) = Some [(0, 1); (1, 7)].
Proof. vm_compute. repeat split; reflexivity. Qed.

(* TreeBidiMap: swapping keys and values, a constant function (one pair survives), and a
   many-to-one value function (later pairs displace earlier keys) *)
Definition hb : list op := [Put 4 10; Put 2 20; Put 3 30; Put 1 40; Put 5 20].

Example ex_treebidi :
  let c := cfg TreeBidiMap CNat CNat in
  res c hb Each = opairs [(1, 40); (3, 30); (4, 10); (5, 20)] /\
  res c hb (MapF FSwapKV) = OL [ozs [10; 20; 30; 40]; ozs [1; 3; 4; 5]] /\
  res c hb (MapF (FConst 2)) = OL [ozs [2]; ozs [2]] /\
  entries_of c (map_of c (FValDiv 25) (enum_seq c (run c hb))) = [(3, 1); (5, 0)] /\
  res c hb (SelectP (PValLt 35)) = OL [ozs [3; 4; 5]; ozs [10; 20; 30]] /\
  entries_of c (select_of c (PValLt 35) (enum_seq c (run c hb))) = [(3, 30); (4, 10); (5, 20)].
Proof. vm_compute. repeat split; reflexivity. Qed.

(* the two linked kinds: insertion order is kept by Select; Map de-duplicates at first occurrence
   (set) / keeps the position of the first and the value of the last colliding key (map) *)
Example ex_linked :
  let cs := cfg LinkedHashSet CNat CNat in
  let hs' := [Add [5; 3; 9; 3; 1]; RemoveVals [3]; Add [3]] in
  let cm := cfg LinkedHashMap CNat CNat in
  let hm' := [Put 4 10; Put 2 20; Put 3 30; Put 1 40; Put 2 21] in
  res cs hs' Each = opairs [(0, 5); (1, 9); (2, 1); (3, 3)] /\
  res cs hs' (MapF (FValDiv 2)) = ozs [2; 4; 0; 1] /\
  res cs hs' (SelectP (PValLt 6)) = ozs [5; 1; 3] /\
  res cm hm' Each = opairs [(4, 10); (2, 21); (3, 30); (1, 40)] /\
  res cm hm' (MapF (FKeyDiv 2)) = OL [ozs [2; 1; 0]; ozs [10; 30; 40]] /\
  res cm hm' (SelectP (PIdxMod 2 0)) = OL [ozs [4; 2]; ozs [10; 21]].
Proof. vm_compute. repeat split; reflexivity. Qed.
