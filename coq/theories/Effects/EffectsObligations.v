(* EffectsObligations.v -- definitions shared by EffectsCheck.v (the theorems) and EffectsReport.v
   (the offender lists): the closure of the generated table, computed once, and one boolean
   predicate + one finite domain per obligation.  Definitions only: this file compiles whatever the
   generated table contains.  Recompiled on every run (it depends on the generated EffectsGen.v). *)

From Coq Require Import List String Bool Arith PArith FMapPositive DecimalString.
From Gods Require Import Effects.EffectModel Effects.EffectsGen.
Import ListNotations.
Local Open Scope list_scope.

(* the transitive effects of every function: computed here once, by the virtual machine; that the
   literal is the closure, and that it is a fixpoint of [step], are theorems of EffectsCheck.v *)
Definition cl : sums := Eval vm_compute in closure_table effects.

Definition closure (f : positive) : effect_record := lookup cl f.

Definition entry (f : positive) : fn_entry :=
  match entry_of effects f with
  | Some e => e
  | None => mkFn 0 [] [] empty_eff [] empty_eff
  end.

Definition in_ids (f : positive) (l : list positive) : bool := existsb (Pos.eqb f) l.

(* ---------- one predicate per obligation ---------- *)

(* C18.  No write to non-fresh ordinary memory, no I/O; iterator state is written only in iterators
   the operation created itself or, for an iterator method, in its receiver (iter_write_ok). *)
Definition readonly_pure (f : positive) : bool :=
  no_shared_write (closure f) && no_io (closure f) &&
  iter_writes_ok (f_iter_params (entry f)) (in_ids f iterator_api) (closure f).

(* C16 *)
Definition snapshot_fresh (f : positive) : bool := returns_only_fresh (closure f).
Definition variadic_copied (f : positive) : bool := captures_none (f_slice_params (entry f)) (closure f).

(* C17 *)
Definition silent (f : positive) : bool := no_io (closure f).

Definition known_callees (f : positive) : bool := no_unknown (closure f).

(* rule (I): a type that is not itself an iterator type mentions no iterator type *)
Definition rule_I_ok (p : string * list string) : bool :=
  smem (fst p) iterator_types || forallb (fun t => negb (smem t iterator_types)) (snd p).

Definition agrees_with_tool (p : positive * fn_entry) : bool :=
  agrees (lookup cl (fst p)) (f_summary (snd p)).

Definition stable_at (p : positive * fn_entry) : bool :=
  eff_eqb (step_fn cl (snd p)) (lookup cl (fst p)).

Definition edges_ok (p : positive * fn_entry) : bool := forallb (edge_consistent cl) (f_calls (snd p)).

Definition silent_domain : list positive := exported_api ++ package_inits.

(* ---------- rendering (for EffectsReport.v) ---------- *)
Local Open Scope string_scope.

Definition show_nat (n : nat) : string := NilZero.string_of_uint (Nat.to_uint n).

Definition show_origin (o : origin) : string :=
  match o with
  | Fresh => "Fresh"
  | Global => "Global"
  | ParamObj i => "ParamObj " ++ show_nat i
  | ParamDeep i => "ParamDeep " ++ show_nat i
  end.

Fixpoint join (sep : string) (l : list string) : string :=
  match l with
  | [] => ""
  | [x] => x
  | x :: rest => x ++ sep ++ join sep rest
  end.

Definition show_origins (l : list origin) : string := "[" ++ join "," (map show_origin l) ++ "]".
Definition show_caps (l : list (origin * origin)) : string :=
  "[" ++ join "," (map (fun c => show_origin (fst c) ++ "<-" ++ show_origin (snd c)) l) ++ "]".

Definition show_eff (e : effect_record) : string :=
  "writes=" ++ show_origins (e_writes e) ++ " iter_writes=" ++ show_origins (e_iter_writes e) ++
  " captures=" ++ show_caps (e_captures e) ++ " returns=" ++ show_origins (e_returns e) ++
  " fresh_content=" ++ show_origins (e_fresh_content e) ++ " io=[" ++ join "," (e_io e) ++ "]" ++
  " unknown=[" ++ join "," (e_unknown e) ++ "]".

Definition fn_name (f : positive) : string := name_of names f.

(* "OBL|<obligation>|<domain size>|<offender>;<offender>;..." and one
   "DET|<obligation>|<offender>|<its closure>" line per offender *)
Definition obl_line (name : string) (domain_size : nat) (offenders : list string) : string :=
  "OBL|" ++ name ++ "|" ++ show_nat domain_size ++ "|" ++ join ";" offenders.

(* details for the first 12 offenders only: a change low in the call graph can make hundreds of
   functions offend, and the report is one printed string *)
Definition det_lines (name : string) (offenders : list positive) : list string :=
  map (fun f => "DET|" ++ name ++ "|" ++ fn_name f ++ "|" ++ show_eff (closure f)) (firstn 12 offenders).

Definition offenders_of {A} (ok : A -> bool) (domain : list A) : list A := filter (fun x => negb (ok x)) domain.

Definition report_ids (name : string) (ok : positive -> bool) (domain : list positive) : list string :=
  let off := offenders_of ok domain in
  obl_line name (List.length domain) (map fn_name off) :: det_lines name off.

Definition report_entries (name : string) (ok : positive * fn_entry -> bool) : list string :=
  let off := map fst (offenders_of ok effects) in
  obl_line name (List.length effects) (map fn_name off) :: det_lines name off.

Definition info_line (name : string) (items : list string) : string :=
  "INFO|" ++ name ++ "|" ++ show_nat (List.length items) ++ "|" ++ join ";" items.
