(* EffectsCheck.v -- the finite obligations of the source-derived effect model (DESIGN.md 3.4),
   re-proved on every run over the table EffectsGen.v that the translator regenerated from the Go
   source.  Every obligation is a boolean computation over a finite generated domain, closed by
   [vm_compute; reflexivity]; when the source changes so that an obligation no longer holds, this
   file stops compiling and EffectsReport.v names the offending functions.

   Generic theorems these obligations feed (EffectModel.v): readers_noninterfere (C18),
   fresh_return_independent / uncaptured_arg_independent (C16), stable_io_sound (C17 silence). *)

From Coq Require Import List String Bool PArith FMapPositive.
From Gods Require Import Effects.EffectModel Effects.EffectsGen Effects.EffectsObligations.
Import ListNotations.

(* ---------- the table and its closure ---------- *)

(* ids are 1..n, every callee exists, every edge supplies the callee's parameters, indices in range *)
Theorem table_wellformed_ok : table_wellformed effects = true.
Proof. vm_compute. reflexivity. Qed.
Print Assumptions table_wellformed_ok.

(* the literal [cl] of EffectsObligations.v is the closure computed by EffectModel.closure_table *)
Theorem cl_is_closure : cl = closure_table effects.
Proof. vm_compute. reflexivity. Qed.
Print Assumptions cl_is_closure.

(* ... and it is a fixpoint of [step] (this is what makes recursion in the call graph harmless) *)
Theorem closure_stable : stable effects cl = true.
Proof. vm_compute. reflexivity. Qed.
Print Assumptions closure_stable.

(* the closure Coq computes from the direct effects and call edges equals the summary the translator
   computed itself, on writes, iterator writes, captures, io, user-function calls, unknown callees *)
Theorem closure_agrees : forallb agrees_with_tool effects = true.
Proof. vm_compute. reflexivity. Qed.
Print Assumptions closure_agrees.

(* what each caller assumed about a call's result (origins, fresh content) covers what the callee's
   closure says it returns, under the edge's substitution *)
Theorem edges_consistent : forallb edges_ok effects = true.
Proof. vm_compute. reflexivity. Qed.
Print Assumptions edges_consistent.

(* ---------- C18: read-only operations write no shared state and do no I/O ---------- *)
Theorem readonly_api_pure : forallb readonly_pure readonly_api = true.
Proof. vm_compute. reflexivity. Qed.
Print Assumptions readonly_api_pure.

Theorem no_unknown_callees_in_readonly : forallb known_callees readonly_api = true.
Proof. vm_compute. reflexivity. Qed.
Print Assumptions no_unknown_callees_in_readonly.

(* typing rule (I): no type other than an iterator type has a field (element, ...) of an iterator type *)
Theorem iterator_rule_I : forallb rule_I_ok type_mentions = true.
Proof. vm_compute. reflexivity. Qed.
Print Assumptions iterator_rule_I.

(* ---------- C16: results are snapshots, argument slices are copied ---------- *)
Theorem values_keys_fresh : forallb snapshot_fresh snapshot_api = true.
Proof. vm_compute. reflexivity. Qed.
Print Assumptions values_keys_fresh.

Theorem variadic_args_copied : forallb variadic_copied variadic_api = true.
Proof. vm_compute. reflexivity. Qed.
Print Assumptions variadic_args_copied.

(* ---------- C17: no operation (and no package initialiser) writes to stdout / stderr ---------- *)
Theorem whole_api_silent : forallb silent silent_domain = true.
Proof. vm_compute. reflexivity. Qed.
Print Assumptions whole_api_silent.

(* ... and none reaches a callee the translator has no summary for (which could do anything) *)
Theorem no_unknown_callees_in_api : forallb known_callees silent_domain = true.
Proof. vm_compute. reflexivity. Qed.
Print Assumptions no_unknown_callees_in_api.

(* ---------- consequence, through the generic theorem ---------- *)

Lemma forallb_In : forall {A} (f : A -> bool) l x, forallb f l = true -> In x l -> f x = true.
Proof. intros A f l x H Hin. rewrite forallb_forall in H. apply H; exact Hin. Qed.

Lemma effects_keys_nodup : keys_nodup effects.
Proof.
  unfold keys_nodup.
  assert (H : forall (tbl : table) p, ids_from p tbl = true ->
                NoDup (map fst tbl) /\ forall k, In k (map fst tbl) -> (p <= k)%positive).
  { induction tbl as [|[id f] tbl IH]; intros p Hp; simpl in *.
    - split; [constructor | intros k []].
    - apply andb_true_iff in Hp. destruct Hp as [Hid Hrest]. apply Pos.eqb_eq in Hid; subst id.
      destruct (IH (Pos.succ p) Hrest) as [Hnd Hge]. split.
      + constructor; [|exact Hnd]. intro Hin. apply Hge in Hin.
        apply Pos.le_succ_l in Hin. apply Pos.lt_irrefl in Hin. exact Hin.
      + intros k [<- | Hin]; [apply Pos.le_refl|].
        apply Hge in Hin. apply Pos.le_succ_l in Hin. apply Pos.lt_le_incl. exact Hin. }
  pose proof table_wellformed_ok as Hwf. unfold table_wellformed in Hwf.
  apply andb_true_iff in Hwf. destruct Hwf as [Hids _].
  apply (H effects 1%positive Hids).
Qed.

(* C17 silence, as a statement about call paths: no function reachable through call edges from an
   exported function (or a package initialiser) performs I/O directly. *)
Theorem whole_api_silent_paths :
  forall f g fe ge x,
    In f silent_domain -> In (f, fe) effects -> reaches effects f g -> In (g, ge) effects ->
    ~ In x (e_io (f_direct ge)).
Proof.
  intros f g fe ge x Hf Hfe Hr Hge Hx.
  assert (Hio : In x (e_io (lookup cl f))).
  { apply (stable_io_sound effects cl effects_keys_nodup closure_stable f g Hr x); eauto. }
  pose proof (forallb_In silent silent_domain f whole_api_silent Hf) as Hs.
  unfold silent, no_io, closure in Hs. destruct (e_io (lookup cl f)); [destruct Hio | discriminate].
Qed.
Print Assumptions whole_api_silent_paths.
