(* EffectModel.v -- the generic, once-proved half of the source-derived effect model
   (DESIGN.md section 3.4; properties C16, C17-silence, C18).

   Part 1  an abstract event semantics for threads and the theorem [readers_noninterfere]
   Part 2  a heap with slice identities and the theorems [fresh_return_independent],
           [uncaptured_arg_independent]
   Part 3  the effect-record types of the generated table (EffectsGen.v), the transitive
           [closure] of the direct effects along the call edges (with origin substitution), the
           decidable predicates used by the finite obligations of EffectsCheck.v, and a soundness
           theorem for the union-propagated components ([stable_io_sound]).

   Standard library only; every theorem is closed under the global context. *)

From Coq Require Import List String Bool Arith PArith Lia FMapPositive.
Import ListNotations.
Local Open Scope list_scope.

(* ================================================================================================ *)
(** * Part 1: events, threads, interleavings                                                        *)
(* ================================================================================================ *)

Definition loc := nat.
Definition val := nat.

Inductive event :=
| Read (l : loc)
| Write (l : loc) (v : val)
| IO
| Alloc (l : loc).

Notation thread := (list event) (only parsing).
Definition store := loc -> val.
(* a global trace: which thread performed which event, in the order of the interleaving *)
Notation trace := (list (nat * event)) (only parsing).

Definition upd (s : store) (l : loc) (v : val) : store :=
  fun l' => if Nat.eqb l' l then v else s l'.

Definition exec1 (s : store) (e : event) : store :=
  match e with Write l v => upd s l v | _ => s end.

Fixpoint exec (s : store) (tr : trace) : store :=
  match tr with
  | [] => s
  | (_, e) :: tr' => exec (exec1 s e) tr'
  end.

Fixpoint set_nth {A} (l : list A) (i : nat) (x : A) : list A :=
  match l, i with
  | [], _ => []
  | _ :: t, O => x :: t
  | h :: t, S i' => h :: set_nth t i' x
  end.

(* [interleave ts tr]: tr is a complete interleaving of the threads ts (thread i = nth i ts):
   repeatedly some thread performs its next event, until all threads are finished. *)
Inductive interleave : list thread -> trace -> Prop :=
| il_done : forall ts, Forall (fun t => t = []) ts -> interleave ts []
| il_step : forall ts i e t tr,
    nth_error ts i = Some (e :: t) ->
    interleave (set_nth ts i t) tr ->
    interleave ts ((i, e) :: tr).

(* the events of thread i in a trace, in order *)
Definition proj (i : nat) (tr : trace) : trace := filter (fun p => Nat.eqb (fst p) i) tr.

Definition allocs (t : thread) (l : loc) : Prop := In (Alloc l) t.
Definition writes_to (e : event) (l : loc) : Prop := exists v, e = Write l v.
Definition accesses (e : event) (l : loc) : Prop := e = Read l \/ writes_to e l.
Definition touches (t : thread) (l : loc) : Prop :=
  exists e, In e t /\ (accesses e l \/ e = Alloc l).

(* a location is shared when no thread allocated it itself: it existed before the threads started *)
Definition shared (ts : list thread) (l : loc) : Prop := forall t, In t ts -> ~ allocs t l.

(* "all events of the thread on locations it did not allocate itself are Reads":
   every Write hits a location the thread allocated *)
Definition writes_own_only (t : thread) : Prop := forall l v, In (Write l v) t -> allocs t l.

(* "allocation gives each thread disjoint fresh locations": a location allocated by one thread is
   not allocated, read or written by any other thread (a reader cannot publish what it allocates,
   because publishing would be a write to a shared location) *)
Definition private_allocs (ts : list thread) : Prop :=
  forall i j ti tj l, i <> j -> nth_error ts i = Some ti -> nth_error ts j = Some tj ->
                      allocs ti l -> ~ touches tj l.

(* two accesses to the same location, at least one of them a write *)
Definition conflict (e1 e2 : event) : Prop :=
  exists l, (writes_to e1 l /\ accesses e2 l) \/ (accesses e1 l /\ writes_to e2 l).

(* ---------- lists ---------- *)

Lemma nth_error_set_nth_eq : forall {A} (l : list A) i x y,
  nth_error l i = Some y -> nth_error (set_nth l i x) i = Some x.
Proof.
  intros A l; induction l as [|h t IH]; intros i x y H; destruct i as [|i']; simpl in *;
    try discriminate; auto.
  eapply IH; eauto.
Qed.

Lemma nth_error_set_nth_neq : forall {A} (l : list A) i j x,
  i <> j -> nth_error (set_nth l i x) j = nth_error l j.
Proof.
  intros A l; induction l as [|h t IH]; intros i j x Hne; simpl.
  - reflexivity.
  - destruct i as [|i']; destruct j as [|j']; simpl; try reflexivity; try congruence.
    apply IH; congruence.
Qed.

(* ---------- the store only changes where somebody writes ---------- *)

Lemma exec_ext_at : forall tr s1 s2 l, s1 l = s2 l -> exec s1 tr l = exec s2 tr l.
Proof.
  intros tr; induction tr as [|[i e] tr IH]; intros s1 s2 l H; simpl; auto.
  apply IH. destruct e as [l'|l' v| |l']; simpl; auto.
  unfold upd. destruct (Nat.eqb l l'); auto.
Qed.

Lemma exec_no_write : forall tr s l,
  (forall i v, ~ In (i, Write l v) tr) -> exec s tr l = s l.
Proof.
  intros tr; induction tr as [|[i e] tr IH]; intros s l H; simpl; auto.
  rewrite IH.
  - destruct e as [l'|l' v| |l']; simpl; auto.
    unfold upd. destruct (Nat.eqb l l') eqn:E; auto.
    apply Nat.eqb_eq in E; subst l'. exfalso. apply (H i v). left; reflexivity.
  - intros j v Hin. apply (H j v). right; exact Hin.
Qed.

(* if only thread i writes l in tr, the value of l after tr is the value after thread i's events alone *)
Lemma exec_proj : forall tr s l i,
  (forall j v, In (j, Write l v) tr -> j = i) -> exec s tr l = exec s (proj i tr) l.
Proof.
  intros tr; induction tr as [|[j e] tr IH]; intros s l i H; simpl; auto.
  assert (Htl : forall j0 v, In (j0, Write l v) tr -> j0 = i).
  { intros j0 v Hin. apply (H j0 v). right; exact Hin. }
  destruct (Nat.eqb j i) eqn:E; simpl.
  - apply IH; exact Htl.
  - rewrite <- (IH s l i Htl). apply exec_ext_at.
    destruct e as [l'|l' v| |l']; simpl; auto.
    unfold upd. destruct (Nat.eqb l l') eqn:E2; auto.
    apply Nat.eqb_eq in E2; subst l'.
    assert (j = i) by (apply (H j v); left; reflexivity).
    subst j. rewrite Nat.eqb_refl in E. discriminate.
Qed.

(* ---------- interleavings only contain events of the threads (induction on the interleaving) ---- *)

Lemma interleave_in : forall ts tr, interleave ts tr ->
  forall i e, In (i, e) tr -> exists t, nth_error ts i = Some t /\ In e t.
Proof.
  intros ts tr H; induction H as [ts Hall | ts i0 e0 t0 tr Hnth Hil IH]; intros i e Hin.
  - destruct Hin.
  - destruct Hin as [Heq | Hin].
    + inversion Heq; subst. exists (e :: t0). split; [exact Hnth | left; reflexivity].
    + destruct (IH i e Hin) as [t [Ht Hie]].
      destruct (Nat.eq_dec i0 i) as [E | Hne].
      * subst i0. rewrite (nth_error_set_nth_eq ts i t0 (e0 :: t0) Hnth) in Ht.
        inversion Ht; subst t. exists (e0 :: t0). split; [exact Hnth | right; exact Hie].
      * rewrite nth_error_set_nth_neq in Ht by exact Hne. exists t. split; assumption.
Qed.

(* the events of thread i appear in the interleaving exactly as in the thread, in order *)
Lemma interleave_proj : forall ts tr, interleave ts tr ->
  forall i t, nth_error ts i = Some t -> map snd (proj i tr) = t.
Proof.
  intros ts tr H; induction H as [ts Hall | ts i0 e0 t0 tr Hnth Hil IH]; intros i t Ht.
  - simpl. apply nth_error_In in Ht. rewrite Forall_forall in Hall. symmetry. apply Hall; exact Ht.
  - unfold proj; simpl. destruct (Nat.eqb i0 i) eqn:E.
    + apply Nat.eqb_eq in E; subst i0. rewrite Hnth in Ht. inversion Ht; subst t. simpl. f_equal.
      apply IH. eapply nth_error_set_nth_eq; eauto.
    + apply Nat.eqb_neq in E. apply IH. rewrite nth_error_set_nth_neq by exact E. exact Ht.
Qed.

Lemma in_app_mid : forall {A} (pre post : list A) x y, In y pre -> In y (pre ++ x :: post).
Proof. intros. apply in_or_app. left; assumption. Qed.

(** ** Theorem readers_noninterfere (C18)

   Take any number of threads such that
     - every write of a thread hits a location that thread allocated itself, i.e. on shared
       locations (those no thread allocated) a thread only performs Reads   [writes_own_only], and
     - what one thread allocates is not touched by any other thread               [private_allocs].
   Then for EVERY interleaving tr of the threads, from every initial store s0:
     (a) tr contains no two conflicting accesses of different threads (same location, at least one a
         Write) -- hence there is no data race, whatever synchronisation is or is not used;
     (b) every shared location has the same value in the final store as in the initial store;
     (c) every Read of a shared location sees the initial store's value;
     (d) more generally, whenever thread i accesses a location, the value it finds there is the value
         produced by thread i's own earlier events alone, run sequentially from s0 -- and by
         [interleave_proj] those are exactly the events of the thread, in program order.  So each
         call returns what it returns when run alone. *)
Theorem readers_noninterfere :
  forall (ts : list thread) (s0 : store) (tr : trace),
    Forall writes_own_only ts ->
    private_allocs ts ->
    interleave ts tr ->
    (forall i j e1 e2, In (i, e1) tr -> In (j, e2) tr -> i <> j -> ~ conflict e1 e2)
    /\ (forall l, shared ts l -> exec s0 tr l = s0 l)
    /\ (forall pre i l post, tr = pre ++ (i, Read l) :: post -> shared ts l -> exec s0 pre l = s0 l)
    /\ (forall pre i e post l, tr = pre ++ (i, e) :: post -> accesses e l ->
                               exec s0 pre l = exec s0 (proj i pre) l).
Proof.
  intros ts s0 tr Hown Hpriv Hil.
  rewrite Forall_forall in Hown.
  (* a write in the trace comes from a thread that allocated the location *)
  assert (Hw : forall i l v, In (i, Write l v) tr ->
                             exists t, nth_error ts i = Some t /\ allocs t l).
  { intros i l v Hin. destruct (interleave_in ts tr Hil i _ Hin) as [t [Ht Hie]].
    exists t. split; [exact Ht|]. apply (Hown t (nth_error_In _ _ Ht) l v Hie). }
  (* hence a write by one thread and an access by another never meet *)
  assert (Hwa : forall i j l v e, In (i, Write l v) tr -> In (j, e) tr -> i <> j -> ~ accesses e l).
  { intros i j l v e Hi Hj Hne Hacc.
    destruct (Hw i l v Hi) as [ti [Hti Hal]].
    destruct (interleave_in ts tr Hil j e Hj) as [tj [Htj Hje]].
    apply (Hpriv i j ti tj l Hne Hti Htj Hal). exists e. split; [exact Hje | left; exact Hacc]. }
  assert (Hsh : forall l, shared ts l -> forall i v, ~ In (i, Write l v) tr).
  { intros l Hl i v Hin. destruct (Hw i l v Hin) as [t [Ht Hal]].
    apply (Hl t (nth_error_In _ _ Ht) Hal). }
  split; [|split; [|split]].
  - (* a *)
    intros i j e1 e2 Hi Hj Hne [l [[[v Hv] Hacc] | [Hacc [v Hv]]]]; subst.
    + exact (Hwa i j l v e2 Hi Hj Hne Hacc).
    + apply (Hwa j i l v e1 Hj Hi); auto.
  - (* b *)
    intros l Hl. apply exec_no_write. apply Hsh; exact Hl.
  - (* c *)
    intros pre i l post Heq Hl. apply exec_no_write.
    intros j v Hin. apply (Hsh l Hl j v). subst tr. apply in_app_mid; exact Hin.
  - (* d *)
    intros pre i e post l Heq Hacc. apply exec_proj.
    intros j v Hin. destruct (Nat.eq_dec j i) as [E | Hne]; [exact E | exfalso].
    apply (Hwa j i l v e); auto.
    + subst tr. apply in_app_mid; exact Hin.
    + subst tr. apply in_or_app. right; left; reflexivity.
Qed.

Print Assumptions readers_noninterfere.

(* ================================================================================================ *)
(** * Part 2: a heap with slice identities                                                          *)
(* ================================================================================================ *)

(* A slice (or any object) is identified by its backing block; a cell of the heap is (block, index)
   and holds a scalar or a reference to a block.  [reach h root] is the set of blocks reachable from
   the container [root] by following references. *)
Definition block := nat.
Inductive hval := HInt (n : nat) | HRef (b : block).
Definition heap := block -> nat -> hval.

Definition hwrite (h : heap) (b : block) (i : nat) (v : hval) : heap :=
  fun b' i' => if Nat.eqb b' b && Nat.eqb i' i then v else h b' i'.

Inductive reach (h : heap) (root : block) : block -> Prop :=
| reach_root : reach h root root
| reach_step : forall b i b', reach h root b -> h b i = HRef b' -> reach h root b'.

(* a sequence of writes through the slice whose backing block is r: (index, value) pairs *)
Fixpoint write_through (h : heap) (r : block) (ws : list (nat * hval)) : heap :=
  match ws with
  | [] => h
  | (i, v) :: ws' => write_through (hwrite h r i v) r ws'
  end.

(* a sequence of arbitrary writes (block, index, value) *)
Fixpoint write_all (h : heap) (ws : list (block * nat * hval)) : heap :=
  match ws with
  | [] => h
  | (b, i, v) :: ws' => write_all (hwrite h b i v) ws'
  end.

Lemma hwrite_other_block : forall h r i v b j, b <> r -> hwrite h r i v b j = h b j.
Proof.
  intros h r i v b j Hne. unfold hwrite.
  destruct (Nat.eqb b r) eqn:E; simpl; auto. apply Nat.eqb_eq in E. contradiction.
Qed.

Lemma reach_neq : forall h root r b, ~ reach h root r -> reach h root b -> b <> r.
Proof. intros h root r b Hn Hb E. subst. contradiction. Qed.

(* writing into an unreachable block changes neither the reachable set nor any reachable cell *)
Lemma write_unreachable : forall h root r i v,
  ~ reach h root r ->
  (forall b, reach (hwrite h r i v) root b <-> reach h root b).
Proof.
  intros h root r i v Hn b. split; intro H.
  - induction H as [|b i0 b' Hb IH Hc].
    + constructor.
    + rewrite hwrite_other_block in Hc by (eapply reach_neq; eauto).
      eapply reach_step; eauto.
  - induction H as [|b i0 b' Hb IH Hc].
    + constructor.
    + eapply reach_step; [exact IH|].
      rewrite hwrite_other_block by (eapply reach_neq; eauto). exact Hc.
Qed.

Lemma write_through_unreachable : forall ws h root r,
  ~ reach h root r ->
  (forall b, reach (write_through h r ws) root b <-> reach h root b)
  /\ (forall b j, reach h root b -> write_through h r ws b j = h b j).
Proof.
  intros ws; induction ws as [|[i v] ws IH]; intros h root r Hn; simpl.
  - split; [tauto | auto].
  - assert (Hn' : ~ reach (hwrite h r i v) root r).
    { intro H. apply Hn. apply (write_unreachable h root r i v Hn). exact H. }
    destruct (IH (hwrite h r i v) root r Hn') as [IH1 IH2].
    split.
    + intro b. rewrite IH1. apply write_unreachable; exact Hn.
    + intros b j Hb. rewrite IH2 by (apply write_unreachable; assumption).
      apply hwrite_other_block. exact (reach_neq h root r b Hn Hb).
Qed.

Lemma write_all_other_block : forall ws h r j,
  Forall (fun w => fst (fst w) <> r) ws -> write_all h ws r j = h r j.
Proof.
  intros ws; induction ws as [|[[b i] v] ws IH]; intros h r j Hall; simpl; auto.
  inversion Hall as [|w ws' Hb Hrest]; subst. simpl in Hb.
  rewrite IH by exact Hrest. apply hwrite_other_block. congruence.
Qed.

(* a block is unreachable as soon as it is not the root and no reachable cell refers to it *)
Lemma not_stored_unreachable : forall h root r,
  r <> root ->
  (forall b i, reach h root b -> h b i <> HRef r) ->
  ~ reach h root r.
Proof.
  intros h root r Hne Hns H. inversion H as [Heq | b i b' Hb Hc Heq]; subst.
  - apply Hne; reflexivity.
  - exact (Hns b i Hb Hc).
Qed.

(** ** Theorem fresh_return_independent (C16, results)

   h is the heap when the operation returns, root the container, r the backing block of the returned
   slice.  "The result is Fresh and captured nowhere" means: r is not the container and no cell
   reachable from the container refers to r.  Then
     (1) any sequence of writes through the result leaves every cell of every block reachable from
         the container unchanged,
     (2) and leaves the set of blocks reachable from the container unchanged;
     (3) any sequence of later writes to blocks of the container leaves every cell of the result
         unchanged. *)
Theorem fresh_return_independent :
  forall (h : heap) (root r : block),
    r <> root ->
    (forall b i, reach h root b -> h b i <> HRef r) ->
    (forall ws b j, reach h root b -> write_through h r ws b j = h b j)
    /\ (forall ws b, reach (write_through h r ws) root b <-> reach h root b)
    /\ (forall ws j, Forall (fun w => reach h root (fst (fst w))) ws -> write_all h ws r j = h r j).
Proof.
  intros h root r Hne Hns.
  pose proof (not_stored_unreachable h root r Hne Hns) as Hn.
  split; [|split].
  - intros ws b j Hb. apply (write_through_unreachable ws h root r Hn); exact Hb.
  - intros ws b. apply (write_through_unreachable ws h root r Hn).
  - intros ws j Hall. apply write_all_other_block.
    rewrite Forall_forall in *. intros w Hw. eapply reach_neq; eauto.
Qed.

Print Assumptions fresh_return_independent.

(** ** Theorem uncaptured_arg_independent (C16, arguments)

   h is the heap when the operation returns, root the container, a the backing block of a slice the
   caller passed as an argument.  "The operation captured no argument origin" means: a is not the
   container and no cell reachable from the container refers to a.  Then whatever the caller writes
   through its slice afterwards, every cell reachable from the container, and the reachable set
   itself, stay as they are. *)
Theorem uncaptured_arg_independent :
  forall (h : heap) (root a : block),
    a <> root ->
    (forall b i, reach h root b -> h b i <> HRef a) ->
    forall ws,
      (forall b j, reach h root b -> write_through h a ws b j = h b j)
      /\ (forall b, reach (write_through h a ws) root b <-> reach h root b).
Proof.
  intros h root a Hne Hns ws.
  pose proof (not_stored_unreachable h root a Hne Hns) as Hn.
  destruct (write_through_unreachable ws h root a Hn) as [H1 H2]. split; assumption.
Qed.

Print Assumptions uncaptured_arg_independent.

(* ================================================================================================ *)
(** * Part 3: effect records, closure, decidable predicates                                         *)
(* ================================================================================================ *)

(* Abstract origins of a reference inside one function activation (DESIGN.md 3.4):
   Fresh       allocated in this activation (or returned fresh by a callee)
   ParamObj i  the object parameter i refers to (parameters: formals, then free variables)
   ParamDeep i anything reachable from that object
   Global      globals and unknown memory *)
Inductive origin := Fresh | ParamObj (i : nat) | ParamDeep (i : nat) | Global.

Definition origin_eqb (a b : origin) : bool :=
  match a, b with
  | Fresh, Fresh => true
  | Global, Global => true
  | ParamObj i, ParamObj j => Nat.eqb i j
  | ParamDeep i, ParamDeep j => Nat.eqb i j
  | _, _ => false
  end.

Lemma origin_eqb_eq : forall a b, origin_eqb a b = true <-> a = b.
Proof.
  intros a b; destruct a, b; simpl; split; intro H; try discriminate; try reflexivity;
    try (apply Nat.eqb_eq in H; subst; reflexivity);
    try (inversion H; subst; apply Nat.eqb_refl).
Qed.

Definition pair_eqb (a b : origin * origin) : bool :=
  origin_eqb (fst a) (fst b) && origin_eqb (snd a) (snd b).

Record effect_record := mkEff {
  e_writes : list origin;                (* non-fresh origins written (ordinary memory) *)
  e_iter_writes : list origin;           (* non-fresh origins written as iterator state (rule I) *)
  e_captures : list (origin * origin);   (* (into, from): a reference of origin from stored into non-fresh into *)
  e_returns : list origin;               (* origins of returned references *)
  e_fresh_content : list origin;         (* non-fresh origins reachable from returned fresh objects *)
  e_io : list string;                    (* I/O primitives reached (fmt.Println, os.Stdout, ...) *)
  e_userfn : bool;                       (* calls a function value (comparator, callback): assumed pure *)
  e_unknown : list string                (* callees without a summary *)
}.

Definition empty_eff : effect_record := mkEff [] [] [] [] [] [] false [].

Inductive edge_kind := KCall | KInvoke | KGo | KDefer | KClosure | KFuncValue.

(* per callee parameter: the origin sets P(arg) and deep(P(arg)) of the actual, in the caller *)
Record arg_sub := mkArg { a_obj : list origin; a_deep : list origin }.

Record edge := mkEdge {
  c_callee : positive;
  c_kind : edge_kind;
  c_args : list arg_sub;
  c_res_used : bool;             (* the caller tracks a reference-typed result of this call *)
  c_res : list origin;           (* origins of that result in the caller (Fresh = used as a fresh site) *)
  c_res_deep : list origin       (* origins reachable from that result in the caller *)
}.

Record fn_entry := mkFn {
  f_nparams : nat;
  f_slice_params : list nat;     (* indices of the slice-typed parameters *)
  f_iter_params : list nat;      (* indices of the parameters whose static type mentions an iterator type *)
  f_direct : effect_record;            (* effects of the function's own instructions *)
  f_calls : list edge;
  f_summary : effect_record            (* the translator's own fixpoint, compared by closure_agrees *)
}.

(* ---------- finite sets as lists ---------- *)
Section SetOps.
  Context {A : Type} (eqb : A -> A -> bool).
  Definition mem (x : A) (l : list A) : bool := existsb (eqb x) l.
  Definition add (x : A) (l : list A) : list A := if mem x l then l else l ++ [x].
  Definition union (l1 l2 : list A) : list A := fold_left (fun acc x => add x acc) l2 l1.
  Definition subset (l1 l2 : list A) : bool := forallb (fun x => mem x l2) l1.
  Definition seteq (l1 l2 : list A) : bool := subset l1 l2 && subset l2 l1.
End SetOps.

Definition omem := mem origin_eqb.
Definition ounion := union origin_eqb.
Definition osubset := subset origin_eqb.
Definition oseteq := seteq origin_eqb.
Definition smem := mem String.eqb.
Definition sunion := union String.eqb.
Definition ssubset := subset String.eqb.
Definition sseteq := seteq String.eqb.
Definition cunion := union pair_eqb.
Definition cseteq := seteq pair_eqb.

Definition is_nil {A} (l : list A) : bool := match l with [] => true | _ => false end.
Definition nonfresh (o : origin) : bool := negb (origin_eqb o Fresh).

(* ---------- origin substitution at a call edge ---------- *)
Definition subst (args : list arg_sub) (o : origin) : list origin :=
  match o with
  | Fresh => [Fresh]
  | Global => [Global]
  | ParamObj i => match nth_error args i with Some a => a_obj a | None => [] end
  | ParamDeep i => match nth_error args i with Some a => a_deep a | None => [] end
  end.

Definition subst_set (args : list arg_sub) (l : list origin) : list origin := flat_map (subst args) l.

(* a structure storing (parts of) itself into itself is not a capture *)
Definition own_part (into from : origin) : bool :=
  origin_eqb into from ||
  match from, into with
  | ParamDeep n, ParamObj m => Nat.eqb n m
  | ParamDeep n, ParamDeep m => Nat.eqb n m
  | _, _ => false
  end.

Definition subst_caps (args : list arg_sub) (caps : list (origin * origin)) : list (origin * origin) :=
  flat_map (fun c =>
    let intos := filter nonfresh (subst args (fst c)) in
    let froms := subst args (snd c) in
    flat_map (fun i => flat_map (fun f => if own_part i f then [] else [(i, f)]) froms) intos) caps.

(* the effect of one call, seen from the caller: callee ParamObj i / ParamDeep i are mapped through
   the edge's origin sets, Fresh stays Fresh (a write to it is not an effect), Global stays Global;
   io / userfn / unknown propagate by union; returns / fresh_content are intra-procedural facts of
   the caller (they are checked against the callee by [edge_consistent]) *)
Definition apply_edge (cs : effect_record) (e : edge) (acc : effect_record) : effect_record :=
  let args := c_args e in
  mkEff (ounion (e_writes acc) (filter nonfresh (subst_set args (e_writes cs))))
        (ounion (e_iter_writes acc) (filter nonfresh (subst_set args (e_iter_writes cs))))
        (cunion (e_captures acc) (subst_caps args (e_captures cs)))
        (e_returns acc)
        (e_fresh_content acc)
        (sunion (e_io acc) (e_io cs))
        (e_userfn acc || e_userfn cs)
        (sunion (e_unknown acc) (e_unknown cs)).

Definition sums := PositiveMap.t effect_record.
Definition table := list (positive * fn_entry).

Definition lookup (T : sums) (f : positive) : effect_record :=
  match PositiveMap.find f T with Some e => e | None => empty_eff end.

Definition step_fn (T : sums) (f : fn_entry) : effect_record :=
  fold_left (fun acc e => apply_edge (lookup T (c_callee e)) e acc) (f_calls f) (f_direct f).

Definition step (tbl : table) (T : sums) : sums :=
  fold_left (fun m p => PositiveMap.add (fst p) (step_fn T (snd p)) m) tbl (PositiveMap.empty effect_record).

Definition eff_eqb (a b : effect_record) : bool :=
  oseteq (e_writes a) (e_writes b) && oseteq (e_iter_writes a) (e_iter_writes b) &&
  cseteq (e_captures a) (e_captures b) && oseteq (e_returns a) (e_returns b) &&
  oseteq (e_fresh_content a) (e_fresh_content b) && sseteq (e_io a) (e_io b) &&
  Bool.eqb (e_userfn a) (e_userfn b) && sseteq (e_unknown a) (e_unknown b).

Definition sums_eqb (tbl : table) (A B : sums) : bool :=
  forallb (fun p => eff_eqb (lookup A (fst p)) (lookup B (fst p))) tbl.

(* iterate the monotone step until nothing changes, at most fuel times.  For an acyclic call graph
   length tbl + 2 rounds suffice; with recursion the result is whatever the fuel allows, and
   EffectsCheck.closure_stable checks by computation that it is a fixpoint of [step]. *)
Fixpoint iterate (fuel : nat) (tbl : table) (T : sums) : sums :=
  match fuel with
  | O => T
  | S k => let T' := step tbl T in if sums_eqb tbl T' T then T' else iterate k tbl T'
  end.

Definition closure_table (tbl : table) : sums :=
  iterate (List.length tbl + 2) tbl (PositiveMap.empty effect_record).

Definition stable (tbl : table) (T : sums) : bool := sums_eqb tbl (step tbl T) T.

(* ---------- decidable predicates of the obligations ---------- *)
Definition no_shared_write (e : effect_record) : bool := is_nil (e_writes e).
Definition no_io (e : effect_record) : bool := is_nil (e_io e).
Definition no_unknown (e : effect_record) : bool := is_nil (e_unknown e).
(* Iterator-state writes (typing rule I) of a read-only operation.  The written object has a type
   named Iterator.  Origin by origin:
   - Fresh: an iterator the operation allocated itself (not recorded at all);
   - Global: an iterator kept in a global would be shared between callers: never allowed;
   - ParamObj i / ParamDeep i where the static type of parameter i mentions no iterator type: by
     obligation iterator_rule_I no iterator object is statically reachable from that parameter, so
     this is an artefact of ParamDeep over-approximating "reachable from a fresh iterator that
     points into the container": allowed;
   - ParamObj i / ParamDeep i of an iterator-typed parameter: allowed only for an iterator method
     writing its own receiver (i = 0): that is what Next/Prev/Begin/... are for. *)
Definition iter_write_ok (iter_params : list nat) (own_receiver : bool) (o : origin) : bool :=
  match o with
  | Fresh => true
  | Global => false
  | ParamObj i | ParamDeep i =>
      negb (existsb (Nat.eqb i) iter_params) || (own_receiver && Nat.eqb i 0)
  end.

Definition iter_writes_ok (iter_params : list nat) (own_receiver : bool) (e : effect_record) : bool :=
  forallb (iter_write_ok iter_params own_receiver) (e_iter_writes e).
(* the returned references are fresh, the fresh objects contain nothing non-fresh, and no fresh
   object was also stored into non-fresh memory (which could then alias the result) *)
Definition returns_only_fresh (e : effect_record) : bool :=
  osubset (e_returns e) [Fresh] && is_nil (e_fresh_content e) &&
  forallb (fun c => nonfresh (snd c)) (e_captures e).

Definition of_slice_param (sp : list nat) (o : origin) : bool :=
  match o with
  | ParamObj i | ParamDeep i => existsb (Nat.eqb i) sp
  | _ => false
  end.

(* no reference to (the backing array of) a slice-typed parameter is stored into non-fresh memory,
   kept inside a returned fresh object, or returned *)
Definition captures_none (sp : list nat) (e : effect_record) : bool :=
  forallb (fun c => negb (of_slice_param sp (snd c))) (e_captures e) &&
  forallb (fun o => negb (of_slice_param sp o)) (e_fresh_content e) &&
  forallb (fun o => negb (of_slice_param sp o)) (e_returns e).

(* components on which the Coq closure is compared with the translator's own summary
   (returns / fresh_content are copied, hence not a comparison) *)
Definition agrees (a b : effect_record) : bool :=
  oseteq (e_writes a) (e_writes b) && oseteq (e_iter_writes a) (e_iter_writes b) &&
  cseteq (e_captures a) (e_captures b) && sseteq (e_io a) (e_io b) &&
  Bool.eqb (e_userfn a) (e_userfn b) && sseteq (e_unknown a) (e_unknown b).

(* what the caller assumed about the result of a call is justified by the callee's closure *)
Definition edge_consistent (T : sums) (e : edge) : bool :=
  negb (c_res_used e) ||
  (let cs := lookup T (c_callee e) in
   osubset (subst_set (c_args e) (e_returns cs)) (c_res e) &&
   (negb (omem Fresh (e_returns cs)) ||
    osubset (subst_set (c_args e) (e_fresh_content cs)) (c_res_deep e))).

Definition origin_in_range (n : nat) (o : origin) : bool :=
  match o with ParamObj i | ParamDeep i => Nat.ltb i n | _ => true end.

Definition eff_in_range (n : nat) (e : effect_record) : bool :=
  forallb (origin_in_range n) (e_writes e) && forallb (origin_in_range n) (e_iter_writes e) &&
  forallb (fun c => origin_in_range n (fst c) && origin_in_range n (snd c)) (e_captures e) &&
  forallb (origin_in_range n) (e_returns e) && forallb (origin_in_range n) (e_fresh_content e).

(* the generated table is well formed: ids are 1..n in order, every callee exists and every edge
   supplies exactly the callee's parameters, all parameter indices are in range *)
Fixpoint ids_from (p : positive) (tbl : table) : bool :=
  match tbl with
  | [] => true
  | (id, _) :: rest => Pos.eqb id p && ids_from (Pos.succ p) rest
  end.

Definition entry_of (tbl : table) (f : positive) : option fn_entry :=
  match find (fun p => Pos.eqb (fst p) f) tbl with Some p => Some (snd p) | None => None end.

Definition table_wellformed (tbl : table) : bool :=
  ids_from 1%positive tbl &&
  forallb (fun p =>
    let f := snd p in
    eff_in_range (f_nparams f) (f_direct f) && eff_in_range (f_nparams f) (f_summary f) &&
    forallb (fun e =>
      match entry_of tbl (c_callee e) with
      | Some g => Nat.eqb (List.length (c_args e)) (f_nparams g)
      | None => false
      end) (f_calls f)) tbl.

(* ---------- names ---------- *)
Definition name_of (names : list (positive * string)) (f : positive) : string :=
  match find (fun p => Pos.eqb (fst p) f) names with Some p => snd p | None => "?"%string end.

(* ================================================================================================ *)
(** * Soundness of the union-propagated components                                                  *)
(* ================================================================================================ *)

(* If T is a fixpoint of [step] (checked by computation: closure_stable), then a function whose
   closure has no I/O cannot reach, along any path of call edges, a function with direct I/O.
   The same holds for the unknown-callee component. *)

Lemma mem_In : forall {A} (eqb : A -> A -> bool),
  (forall a b, eqb a b = true <-> a = b) -> forall x l, mem eqb x l = true <-> In x l.
Proof.
  intros A eqb Heq x l. unfold mem. rewrite existsb_exists. split.
  - intros [y [Hy E]]. apply Heq in E. subst; assumption.
  - intro H. exists x. split; [assumption | apply Heq; reflexivity].
Qed.

Lemma add_In : forall {A} (eqb : A -> A -> bool),
  (forall a b, eqb a b = true <-> a = b) -> forall x y l, In y (add eqb x l) <-> y = x \/ In y l.
Proof.
  intros A eqb Heq x y l. unfold add. destruct (mem eqb x l) eqn:E.
  - apply (mem_In eqb Heq) in E. split; [auto | intros [-> | H]; assumption].
  - rewrite in_app_iff. simpl. split.
    + intros [H | [H | []]]; auto.
    + intros [-> | H]; auto.
Qed.

Lemma union_In : forall {A} (eqb : A -> A -> bool),
  (forall a b, eqb a b = true <-> a = b) -> forall l2 l1 y, In y (union eqb l1 l2) <-> In y l1 \/ In y l2.
Proof.
  intros A eqb Heq l2. unfold union. induction l2 as [|x l2 IH]; intros l1 y; simpl.
  - tauto.
  - rewrite IH. rewrite (add_In eqb Heq). intuition (subst; auto).
Qed.

Lemma subset_In : forall {A} (eqb : A -> A -> bool),
  (forall a b, eqb a b = true <-> a = b) -> forall l1 l2, subset eqb l1 l2 = true -> forall x, In x l1 -> In x l2.
Proof.
  intros A eqb Heq l1 l2 H x Hx. unfold subset in H. rewrite forallb_forall in H.
  apply (mem_In eqb Heq). apply H; assumption.
Qed.

Lemma string_eqb_iff : forall a b : string, String.eqb a b = true <-> a = b.
Proof. intros. apply String.eqb_eq. Qed.

Lemma sunion_In : forall l1 l2 y, In y (sunion l1 l2) <-> In y l1 \/ In y l2.
Proof. intros. apply (union_In String.eqb string_eqb_iff). Qed.

(* step_fn keeps the direct I/O and adds the I/O of every callee's current summary *)
Lemma fold_apply_io : forall T es acc x,
  In x (e_io (fold_left (fun a e => apply_edge (lookup T (c_callee e)) e a) es acc)) <->
  In x (e_io acc) \/ exists e, In e es /\ In x (e_io (lookup T (c_callee e))).
Proof.
  intros T es; induction es as [|e es IH]; intros acc x; simpl.
  - split; [auto | intros [H | [e [[] _]]]; exact H].
  - rewrite IH. simpl. rewrite sunion_In. split.
    + intros [[H | H] | [e' [He' Hx]]]; eauto.
    + intros [H | [e' [[-> | He'] Hx]]]; eauto.
Qed.

Lemma step_fn_io : forall T f x,
  In x (e_io (step_fn T f)) <->
  In x (e_io (f_direct f)) \/ exists e, In e (f_calls f) /\ In x (e_io (lookup T (c_callee e))).
Proof. intros. unfold step_fn. apply fold_apply_io. Qed.

Lemma fold_apply_unknown : forall T es acc x,
  In x (e_unknown (fold_left (fun a e => apply_edge (lookup T (c_callee e)) e a) es acc)) <->
  In x (e_unknown acc) \/ exists e, In e es /\ In x (e_unknown (lookup T (c_callee e))).
Proof.
  intros T es; induction es as [|e es IH]; intros acc x; simpl.
  - split; [auto | intros [H | [e [[] _]]]; exact H].
  - rewrite IH. simpl. rewrite sunion_In. split.
    + intros [[H | H] | [e' [He' Hx]]]; eauto.
    + intros [H | [e' [[-> | He'] Hx]]]; eauto.
Qed.

Lemma step_fn_unknown : forall T f x,
  In x (e_unknown (step_fn T f)) <->
  In x (e_unknown (f_direct f)) \/ exists e, In e (f_calls f) /\ In x (e_unknown (lookup T (c_callee e))).
Proof. intros. unfold step_fn. apply fold_apply_unknown. Qed.

Lemma find_app' : forall {A} (f : A -> bool) l1 l2,
  find f (l1 ++ l2) = match find f l1 with Some x => Some x | None => find f l2 end.
Proof.
  intros A f l1; induction l1 as [|a l1 IH]; intros l2; simpl; auto.
  destruct (f a); auto.
Qed.

(* what [step] stores for a function of a table with distinct ids *)
Lemma step_fold_find : forall (T : sums) (tbl : table) (m : sums) id,
  PositiveMap.find id (fold_left (fun m p => PositiveMap.add (fst p) (step_fn T (snd p)) m) tbl m) =
  match find (fun p => Pos.eqb (fst p) id) (rev tbl) with
  | Some p => Some (step_fn T (snd p))
  | None => PositiveMap.find id m
  end.
Proof.
  intros T tbl; induction tbl as [|[k f] tbl IH]; intros m id; simpl.
  - reflexivity.
  - rewrite IH. rewrite find_app'.
    destruct (find (fun p => Pos.eqb (fst p) id) (rev tbl)) as [p|]; [reflexivity|].
    simpl. destruct (Pos.eqb k id) eqn:E.
    + apply Pos.eqb_eq in E; subst. rewrite PositiveMap.gss. reflexivity.
    + apply Pos.eqb_neq in E. rewrite PositiveMap.gso by congruence. reflexivity.
Qed.

Definition keys_nodup (tbl : table) : Prop := NoDup (map fst tbl).

Lemma nodup_key_eq : forall (tbl : table) k f g,
  keys_nodup tbl -> In (k, f) tbl -> In (k, g) tbl -> f = g.
Proof.
  intros tbl k f g Hnd Hin Hin'. unfold keys_nodup in Hnd.
  induction tbl as [|[k0 h] tbl IH]; simpl in *; [contradiction|].
  inversion Hnd as [|x xs Hnotin Hnd']; subst.
  destruct Hin as [E1 | Hin]; destruct Hin' as [E2 | Hin'].
  - congruence.
  - inversion E1; subst. exfalso. apply Hnotin. apply (in_map fst) in Hin'. exact Hin'.
  - inversion E2; subst. exfalso. apply Hnotin. apply (in_map fst) in Hin. exact Hin.
  - apply IH; assumption.
Qed.

Lemma find_rev_nodup : forall (tbl : table) id f,
  keys_nodup tbl -> In (id, f) tbl ->
  find (fun p => Pos.eqb (fst p) id) (rev tbl) = Some (id, f).
Proof.
  intros tbl id f Hnd Hin.
  destruct (find (fun p => Pos.eqb (fst p) id) (rev tbl)) as [[k g]|] eqn:E.
  - apply find_some in E. destruct E as [Hin' Hk]. simpl in Hk. apply Pos.eqb_eq in Hk; subst k.
    apply in_rev in Hin'. rewrite (nodup_key_eq tbl id f g Hnd Hin Hin'). reflexivity.
  - assert (Hr : In (id, f) (rev tbl)) by (apply in_rev; rewrite rev_involutive; exact Hin).
    pose proof (find_none _ _ E (id, f) Hr) as Hf. simpl in Hf.
    rewrite Pos.eqb_refl in Hf. discriminate.
Qed.

Lemma lookup_step : forall tbl T id f,
  keys_nodup tbl -> In (id, f) tbl -> lookup (step tbl T) id = step_fn T f.
Proof.
  intros tbl T id f Hnd Hin. unfold lookup, step. rewrite step_fold_find.
  rewrite (find_rev_nodup tbl id f Hnd Hin). reflexivity.
Qed.

(* the call graph of a table *)
Inductive calls (tbl : table) : positive -> positive -> Prop :=
| calls_edge : forall id f e, In (id, f) tbl -> In e (f_calls f) -> calls tbl id (c_callee e).

Inductive reaches (tbl : table) : positive -> positive -> Prop :=
| reaches_refl : forall f, reaches tbl f f
| reaches_step : forall f g h, calls tbl f g -> reaches tbl g h -> reaches tbl f h.

Lemma seteq_subset_l : forall {A} (eqb : A -> A -> bool) l1 l2, seteq eqb l1 l2 = true -> subset eqb l1 l2 = true.
Proof. intros A eqb l1 l2 H. unfold seteq in H. apply andb_true_iff in H. tauto. Qed.

Lemma stable_io_le : forall tbl T id f,
  stable tbl T = true -> In (id, f) tbl ->
  forall x, In x (e_io (lookup (step tbl T) id)) -> In x (e_io (lookup T id)).
Proof.
  intros tbl T id f Hst Hin x Hx. unfold stable, sums_eqb in Hst. rewrite forallb_forall in Hst.
  specialize (Hst (id, f) Hin). simpl in Hst. unfold eff_eqb in Hst.
  repeat (apply andb_true_iff in Hst; destruct Hst as [Hst ?]).
  match goal with H : sseteq (e_io _) (e_io _) = true |- _ =>
    apply (subset_In String.eqb string_eqb_iff _ _ (seteq_subset_l _ _ _ H)) end. exact Hx.
Qed.

Lemma stable_unknown_le : forall tbl T id f,
  stable tbl T = true -> In (id, f) tbl ->
  forall x, In x (e_unknown (lookup (step tbl T) id)) -> In x (e_unknown (lookup T id)).
Proof.
  intros tbl T id f Hst Hin x Hx. unfold stable, sums_eqb in Hst. rewrite forallb_forall in Hst.
  specialize (Hst (id, f) Hin). simpl in Hst. unfold eff_eqb in Hst.
  repeat (apply andb_true_iff in Hst; destruct Hst as [Hst ?]).
  match goal with H : sseteq (e_unknown _) (e_unknown _) = true |- _ =>
    apply (subset_In String.eqb string_eqb_iff _ _ (seteq_subset_l _ _ _ H)) end. exact Hx.
Qed.

(** ** Theorem stable_io_sound
   In a table with distinct ids, let T be stable under [step].  If the summary T assigns to f has no
   I/O, then no function g reachable from f through call edges performs I/O directly.  (The finite
   obligations check [no_io (lookup T f)] for every exported function f, and stability of T, by
   computation; this theorem turns that into a statement about every call path.) *)
Theorem stable_io_sound :
  forall tbl T, keys_nodup tbl -> stable tbl T = true ->
  forall f g, reaches tbl f g ->
  forall x, (exists fe, In (g, fe) tbl /\ In x (e_io (f_direct fe))) ->
  (exists fe, In (f, fe) tbl) -> In x (e_io (lookup T f)).
Proof.
  intros tbl T Hnd Hst f g Hr. induction Hr as [f | f g h Hc Hr IH]; intros x Hg Hf.
  - destruct Hg as [fe [Hin Hx]].
    apply (stable_io_le tbl T f fe Hst Hin). rewrite (lookup_step tbl T f fe Hnd Hin).
    apply step_fn_io. left; exact Hx.
  - destruct Hf as [fe Hin].
    apply (stable_io_le tbl T f fe Hst Hin). rewrite (lookup_step tbl T f fe Hnd Hin).
    apply step_fn_io. right.
    inversion Hc as [id f0 e Hin0 He Heq1]; subst.
    assert (f0 = fe) by (eapply nodup_key_eq; eauto).
    subst f0. exists e. split; [exact He|].
    (* the callee either is in the table (induction) or has the empty summary and reaches nothing *)
    inversion Hr as [g0 | g0 g1 h0 Hc' Hr']; subst.
    + destruct Hg as [ge [Hgin Hgx]]. apply IH; eauto.
    + inversion Hc' as [id' f1 e' Hin1 He' Heq']; subst. apply IH; eauto.
Qed.

Print Assumptions stable_io_sound.

Theorem stable_unknown_sound :
  forall tbl T, keys_nodup tbl -> stable tbl T = true ->
  forall f g, reaches tbl f g ->
  forall x, (exists fe, In (g, fe) tbl /\ In x (e_unknown (f_direct fe))) ->
  (exists fe, In (f, fe) tbl) -> In x (e_unknown (lookup T f)).
Proof.
  intros tbl T Hnd Hst f g Hr. induction Hr as [f | f g h Hc Hr IH]; intros x Hg Hf.
  - destruct Hg as [fe [Hin Hx]].
    apply (stable_unknown_le tbl T f fe Hst Hin). rewrite (lookup_step tbl T f fe Hnd Hin).
    apply step_fn_unknown. left; exact Hx.
  - destruct Hf as [fe Hin].
    apply (stable_unknown_le tbl T f fe Hst Hin). rewrite (lookup_step tbl T f fe Hnd Hin).
    apply step_fn_unknown. right.
    inversion Hc as [id f0 e Hin0 He Heq1]; subst.
    assert (f0 = fe) by (eapply nodup_key_eq; eauto).
    subst f0. exists e. split; [exact He|].
    inversion Hr as [g0 | g0 g1 h0 Hc' Hr']; subst.
    + destruct Hg as [ge [Hgin Hgx]]. apply IH; eauto.
    + inversion Hc' as [id' f1 e' Hin1 He' Heq']; subst. apply IH; eauto.
Qed.

Print Assumptions stable_unknown_sound.
