(* EffectsReport.v -- not part of the theorems.  Evaluates, per obligation of EffectsCheck.v, the
   list of offending functions (empty when the obligation holds) and prints it in a line format that
   /verif/effects/run.sh turns into JSON.  It contains no theorem, so it compiles whatever the
   generated table says; it uses the same predicates and domains as EffectsCheck.v (both come from
   EffectsObligations.v), so "no offenders" here is "the theorem there checks". *)

From Coq Require Import List String Ascii Bool PArith FMapPositive.
From Gods Require Import Effects.EffectModel Effects.EffectsGen Effects.EffectsObligations.
Import ListNotations.
Local Open Scope string_scope.

Set Printing Width 100000.
Set Printing Depth 1000000.

Definition whole_table_line (name : string) (ok : bool) : list string :=
  [obl_line name (List.length effects) (if ok then [] else ["<the generated table>"])].

Definition report : list string :=
  whole_table_line "table_wellformed_ok" (table_wellformed effects) ++
  report_entries "closure_stable" stable_at ++
  report_entries "closure_agrees" agrees_with_tool ++
  report_entries "edges_consistent" edges_ok ++
  report_ids "readonly_api_pure" readonly_pure readonly_api ++
  report_ids "no_unknown_callees_in_readonly" known_callees readonly_api ++
  (let off := offenders_of rule_I_ok type_mentions in
   [obl_line "iterator_rule_I" (List.length type_mentions) (map fst off)]) ++
  report_ids "values_keys_fresh" snapshot_fresh snapshot_api ++
  report_ids "variadic_args_copied" variadic_copied variadic_api ++
  report_ids "whole_api_silent" silent silent_domain ++
  report_ids "no_unknown_callees_in_api" known_callees silent_domain ++
  (* informational *)
  [ info_line "functions" (map snd names);
    info_line "unclassified" (map fn_name unclassified);
    info_line "hook_api" (map fn_name hook_api);
    info_line "stdlib_summaries_used" stdlib_summaries_used;
    info_line "readonly_calling_user_function"
              (map fn_name (filter (fun f => e_userfn (closure f)) readonly_api));
    info_line "mutators_without_any_write"
              (map fn_name (filter (fun f => no_shared_write (closure f)) mutator_api)) ].

(* one string per line, between markers *)
Definition report_text : string := "BEGIN-REPORT" ++ String "010"%char (join (String "010"%char "") report) ++ String "010"%char "END-REPORT".

Eval vm_compute in report_text.
