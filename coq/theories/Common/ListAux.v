(* List helpers shared by the models: arrays as lists, positional edits. *)
From Coq Require Import ZArith List Lia Bool Arith.
Import ListNotations.

(* ---------- array helpers ---------- *)
Definition get (l : list Z) (i : nat) : Z := nth i l 0%Z.
Fixpoint set (l : list Z) (i : nat) (x : Z) : list Z :=
  match l, i with
  | [], _ => []
  | _ :: t, O => x :: t
  | h :: t, S j => h :: set t j x
  end.
Definition swap (l : list Z) (i j : nat) : list Z :=
  if (i <? length l) && (j <? length l) then set (set l i (get l j)) j (get l i) else l.


Definition last_opt {A} (l : list A) : option A := nth_error l (length l - 1).
(* the last n elements of l *)
Definition lastn {A} (n : nat) (l : list A) : list A := skipn (length l - n) l.
