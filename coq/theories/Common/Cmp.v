(* Comparators: the executed family and the strict-weak-order hypothesis all ordered-container
   theorems are proved under. *)
From Coq Require Import ZArith List Lia.
Local Open Scope Z_scope.

Definition cmpf := Z -> Z -> comparison.

(* cmp is a three-way comparison inducing a strict weak order: [Eq] is an equivalence that is a
   congruence for cmp, [Lt] is transitive, and swapping the arguments flips the answer. *)
Record SWO (cmp : cmpf) : Prop := {
  swo_refl  : forall x, cmp x x = Eq;
  swo_sym   : forall x y, cmp y x = CompOpp (cmp x y);
  swo_trans : forall x y z, cmp x y = Lt -> cmp y z = Lt -> cmp x z = Lt;
  swo_eq_l  : forall x y z, cmp x y = Eq -> cmp x z = cmp y z
}.

Definition cmp_by (f : Z -> Z) : cmpf := fun x y => Z.compare (f x) (f y).

(* identifiers of the comparators the harness executes (Appendix B.3 of DESIGN.md) *)
Inductive cmp_id := CNat | CRev | CDiv3 | CAbs.

Definition cmp_key (c : cmp_id) : Z -> Z :=
  match c with
  | CNat => fun x => x
  | CRev => fun x => - x
  | CDiv3 => fun x => x / 3        (* floor division: the Go side uses the same floor division *)
  | CAbs => Z.abs
  end.

Definition cmp_of (c : cmp_id) : cmpf := cmp_by (cmp_key c).

Definition is_gt (c : comparison) := match c with Gt => true | _ => false end.
Definition is_lt (c : comparison) := match c with Lt => true | _ => false end.
Definition is_eq (c : comparison) := match c with Eq => true | _ => false end.
