(* Property oracles evaluated on the IMPLEMENTATION's own observations (DESIGN.md 3.5 step 3).
   When the exact-structure tie of C07 breaks, the question "does the property itself fail?" is
   decided by decoding the structure the Go code exported and running the boolean checkers that
   are proved equivalent to the invariants (rb_okb_spec, avl_okb_spec, btree_okb_spec, heap_okb_spec),
   not by comparing with the L1 model.  Definitions only; extracted into coq/ocaml/oracle. *)
From Coq Require Import ZArith List Bool Lia.
From Gods Require Import Common.Cmp Common.ListAux Spec.MapSpec Model.Ops Model.Machine.
From Gods Require Import Proofs.RBInv Proofs.AVLInv Proofs.HeapProofs.
From Gods Require Model.RBTree Model.AVLTree Model.BTree.
Import ListNotations.
Local Open Scope Z_scope.

Fixpoint rb_of (o : obs) : option RBTree.tree :=
  match o with
  | OL [] => Some RBTree.E
  | OL [OZ c; OZ k; OZ v; l; r] =>
    match rb_of l, rb_of r with
    | Some tl, Some tr => Some (RBTree.T (if c =? 0 then RBTree.Red else RBTree.Black) tl k v tr)
    | _, _ => None
    end
  | _ => None
  end.

Fixpoint avl_of (o : obs) : option AVLTree.tree :=
  match o with
  | OL [] => Some AVLTree.E
  | OL [OZ b; OZ k; OZ v; l; r] =>
    match avl_of l, avl_of r with
    | Some tl, Some tr => Some (AVLTree.T b tl k v tr)
    | _, _ => None
    end
  | _ => None
  end.

Definition entry_of (o : obs) : option (Z * Z) :=
  match o with OL [OZ k; OZ v] => Some (k, v) | _ => None end.
Fixpoint all_some {A} (l : list (option A)) : option (list A) :=
  match l with
  | [] => Some []
  | Some x :: l' => match all_some l' with Some r => Some (x :: r) | None => None end
  | None :: _ => None
  end.
Fixpoint bt_of (o : obs) : option BTree.node :=
  match o with
  | OL [OL es; OL cs] =>
    match all_some (map entry_of es), all_some (map bt_of cs) with
    | Some es', Some cs' => Some (BTree.N es' cs')
    | _, _ => None
    end
  | _ => None
  end.

Definition zs_of (o : obs) : option (list Z) :=
  match o with
  | OL l => all_some (map (fun x => match x with OZ z => Some z | _ => None end) l)
  | _ => None
  end.

(* keys strictly ascending under cmp *)
Fixpoint ksortedb (cmp : cmpf) (l : list (Z * Z)) : bool :=
  match l with
  | [] => true
  | a :: l' => forallb (fun b => is_lt (cmp (fst a) (fst b))) l' && ksortedb cmp l'
  end.

(* C07, red-black: valid red-black colouring, black root, search-tree order, node count = Size(),
   and (stated separately in the property) no path more than twice as long as another *)
Definition rb_shape_ok (cmp : cmpf) (size : Z) (o : obs) : bool :=
  match rb_of o with
  | None => false
  | Some t =>
    rb_okb t && ksortedb cmp (RBTree.inorder t) && (Z.of_nat (RBTree.count t) =? size)
    && (RBTree.height t <=? 2 * RBTree.minheight t)%nat
  end.

Definition avl_shape_ok (cmp : cmpf) (size : Z) (o : obs) : bool :=
  match avl_of o with
  | None => false
  | Some t => avl_okb t && ksortedb cmp (AVLTree.inorder t) && (Z.of_nat (AVLTree.count t) =? size)
  end.

Definition heap_raw_ok (cmp : cmpf) (o : obs) : bool :=
  match zs_of o with Some l => heap_okb cmp l | None => false end.
