(* Property oracles evaluated on the IMPLEMENTATION's own observations (DESIGN.md 3.5 step 3).
   When the exact-structure tie of C07 breaks, the question "does the property itself fail?" is
   decided by decoding the structure the Go code exported and running the boolean checkers that
   are proved equivalent to the invariants (rb_okb_spec, avl_okb_spec, btree_okb_spec, heap_okb_spec),
   not by comparing with the L1 model.  The definitions are extracted into coq/ocaml/oracle
   (extract/ExtractOracle.v, entry points oracle_vector / oracle_cost / oracle_cost_op); the lemmas
   state what each checker means (no axioms; see coq/ocaml/ORACLE.md). *)
From Coq Require Import ZArith List Bool Lia.
From Gods Require Import Common.Cmp Common.ListAux Spec.MapSpec Model.Ops Model.Machine.
From Gods Require Import Proofs.RBInv Proofs.AVLInv Proofs.HeapProofs Proofs.BTreeInv.
From Gods Require Model.RBTree Model.AVLTree Model.BTree.
Import ListNotations.
Local Open Scope Z_scope.

Fixpoint rb_of (o : obs) : option RBTree.tree :=
  match o with
  | OL [] => Some RBTree.E
  | OL [OZ c; OZ k; OZ v; l; r] =>
    match rb_of l, rb_of r with
    | Some tl, Some tr => Some (RBTree.T (if c =? 0 then RBTree.Red else RBTree.Black) tl k v tr)
    | _, _ => None
    end
  | _ => None
  end.

Fixpoint avl_of (o : obs) : option AVLTree.tree :=
  match o with
  | OL [] => Some AVLTree.E
  | OL [OZ b; OZ k; OZ v; l; r] =>
    match avl_of l, avl_of r with
    | Some tl, Some tr => Some (AVLTree.T b tl k v tr)
    | _, _ => None
    end
  | _ => None
  end.

Definition entry_of (o : obs) : option (Z * Z) :=
  match o with OL [OZ k; OZ v] => Some (k, v) | _ => None end.
Fixpoint all_some {A} (l : list (option A)) : option (list A) :=
  match l with
  | [] => Some []
  | Some x :: l' => match all_some l' with Some r => Some (x :: r) | None => None end
  | None :: _ => None
  end.
Fixpoint bt_of (o : obs) : option BTree.node :=
  match o with
  | OL [OL es; OL cs] =>
    match all_some (map entry_of es), all_some (map bt_of cs) with
    | Some es', Some cs' => Some (BTree.N es' cs')
    | _, _ => None
    end
  | _ => None
  end.

Definition zs_of (o : obs) : option (list Z) :=
  match o with
  | OL l => all_some (map (fun x => match x with OZ z => Some z | _ => None end) l)
  | _ => None
  end.

(* keys strictly ascending under cmp *)
Fixpoint ksortedb (cmp : cmpf) (l : list (Z * Z)) : bool :=
  match l with
  | [] => true
  | a :: l' => forallb (fun b => is_lt (cmp (fst a) (fst b))) l' && ksortedb cmp l'
  end.

(* C07, red-black: valid red-black colouring, black root, search-tree order, node count = Size(),
   and (stated separately in the property) no path more than twice as long as another *)
Definition rb_shape_ok (cmp : cmpf) (size : Z) (o : obs) : bool :=
  match rb_of o with
  | None => false
  | Some t =>
    rb_okb t && ksortedb cmp (RBTree.inorder t) && (Z.of_nat (RBTree.count t) =? size)
    && (RBTree.height t <=? 2 * RBTree.minheight t)%nat
  end.

Definition avl_shape_ok (cmp : cmpf) (size : Z) (o : obs) : bool :=
  match avl_of o with
  | None => false
  | Some t => avl_okb t && ksortedb cmp (AVLTree.inorder t) && (Z.of_nat (AVLTree.count t) =? size)
  end.

Definition heap_raw_ok (cmp : cmpf) (o : obs) : bool :=
  match zs_of o with Some l => heap_okb cmp l | None => false end.

(* ------------------------------------------------------------------------------------------ *)
(* B-tree shape                                                                                *)
(* ------------------------------------------------------------------------------------------ *)
(* C07, B-tree: at most m children / m-1 keys per node, at least ceil(m/2)-1 keys in every non-root
   node, k children <-> k-1 keys, all leaves at the same depth (btree_okb, equivalent to btree_inv by
   BTreeInv.btree_okb_spec); keys strictly ascending; entry count = Size(); Height() = number of
   levels.  The empty tree is exported as () with size 0 and height 0. *)
Definition bt_shape_ok (m : nat) (cmp : cmpf) (size height : Z) (o : obs) : bool :=
  match o with
  | OL [] => (size =? 0) && (height =? 0)
  | _ =>
    match bt_of o with
    | None => false
    | Some n =>
      btree_okb m (Some n) && ksortedb cmp (BTree.inorder n) && (Z.of_nat (BTree.count n) =? size)
      && (Z.of_nat (BTree.height n) =? height)
    end
  end.

(* ------------------------------------------------------------------------------------------ *)
(* The numeric bounds of C07 as exact integer inequalities (no floating point)                 *)
(* ------------------------------------------------------------------------------------------ *)

(* 2^k <= x for x > 0, decided without building 2^k (k is an untrusted number from a trace) *)
Definition pow2_le (k x : Z) : bool := k <=? Z.log2 x.
Lemma pow2_le_spec : forall k x, 0 < x -> (pow2_le k x = true <-> 2 ^ k <= x).
Proof.
  intros k x Hx. unfold pow2_le. rewrite Z.leb_le. symmetry. apply Z.log2_le_pow2. exact Hx.
Qed.

(* 2^k <= b^e for b >= 1, e >= 1: the same test, but b^e is only built when the answer does not
   already follow from floor(log2 b):  e*fl <= log2(b^e) < e*(fl+1) *)
Definition pow_ge_pow2 (k b e : Z) : bool :=
  let fl := Z.log2 b in
  if k <=? e * fl then true
  else if e * (fl + 1) <=? k then false
  else pow2_le k (b ^ e).
Lemma pow_ge_pow2_eq : forall k b e, 1 <= b -> 1 <= e -> pow_ge_pow2 k b e = pow2_le k (b ^ e).
Proof.
  intros k b e Hb He. unfold pow_ge_pow2, pow2_le. cbn zeta.
  pose proof (Z.log2_nonneg b) as Hfl.
  assert (Hpos : 0 < b ^ e) by (apply Z.pow_pos_nonneg; lia).
  destruct (Z.log2_spec b ltac:(lia)) as [Hlo Hhi].
  assert (H1 : e * Z.log2 b <= Z.log2 (b ^ e)).
  { apply Z.log2_le_pow2; [exact Hpos|]. rewrite Z.mul_comm, Z.pow_mul_r by lia.
    apply Z.pow_le_mono_l. split; [apply Z.pow_nonneg; lia|exact Hlo]. }
  assert (H2 : Z.log2 (b ^ e) < e * (Z.log2 b + 1)).
  { apply Z.log2_lt_pow2; [exact Hpos|]. rewrite Z.mul_comm, Z.pow_mul_r by lia.
    apply Z.pow_lt_mono_l; [lia|]. split; [lia|]. exact Hhi. }
  destruct (k <=? e * Z.log2 b) eqn:Ha.
  - apply Z.leb_le in Ha. symmetry. apply Z.leb_le. lia.
  - destruct (e * (Z.log2 b + 1) <=? k) eqn:Hc; [|reflexivity].
    apply Z.leb_le in Hc. symmetry. apply Z.leb_gt. lia.
Qed.
Lemma pow_ge_pow2_spec : forall k b e, 1 <= b -> 1 <= e -> (pow_ge_pow2 k b e = true <-> 2 ^ k <= b ^ e).
Proof.
  intros k b e Hb He. rewrite pow_ge_pow2_eq by assumption.
  apply pow2_le_spec. apply Z.pow_pos_nonneg; lia.
Qed.

(* red-black: q <= 2*log2(n+1) + 2 over the reals
   <-> (q-2)/2 <= log2(n+1) <-> 2^((q-2)/2) <= n+1 <-> 2^(q-2) <= (n+1)^2   (q >= 2; trivially true
   for q < 2 because log2(n+1) >= 0 for n >= 0).  A negative size satisfies nothing. *)
Definition rb_cost_ok (n q : Z) : bool :=
  (0 <=? n) && ((q <? 2) || pow_ge_pow2 (q - 2) (n + 1) 2).

(* AVL: q <= 1.45*log2(n+2) + 2 <-> 20*(q-2) <= 29*log2(n+2) <-> 2^(20*(q-2)) <= (n+2)^29 *)
Definition avl_cost_ok (n q : Z) : bool :=
  (0 <=? n) && ((q <? 2) || pow_ge_pow2 (20 * (q - 2)) (n + 2) 29).

(* the least L >= 0 with x < c^(L+1), i.e. floor(log_c x), for c >= 2 and x >= 1 *)
Fixpoint ilog_aux (fuel : nat) (c p x : Z) : Z :=
  match fuel with
  | O => 0
  | S f => if x <? p then 0 else 1 + ilog_aux f c (p * c) x
  end.
Definition ilog (c x : Z) : Z := ilog_aux (S (Z.to_nat (Z.log2 x))) c c x.

(* B-tree of order m: q <= 4*(floor(log2 m)+1)*(L+1) where L is the least L with
   n+1 < ceil(m/2)^(L+1), i.e. L = floor(log_ceil(m/2)(n+1)).  This is the reading of the property's
   real-valued "4*(log2(m)+1)*(log_ceil(m/2)(n+1)+1)" with both logarithms rounded DOWN: it is the
   bound proved for the model (Properties/C07_btcost.v, C07_bt_cost_n) and it implies the
   real-valued one, so a count accepted here satisfies the property as written; a count rejected
   here exceeds the proved bound.  Order < 3 is rejected by the constructor, never reaches here. *)
Definition bt_bound (m n : Z) : Z := 4 * (Z.log2 m + 1) * (ilog ((m + 1) / 2) (n + 1) + 1).
Definition bt_cost_ok (m n q : Z) : bool := (0 <=? n) && (3 <=? m) && (q <=? bt_bound m n).

Lemma rb_cost_ok_spec : forall n q,
  rb_cost_ok n q = true <-> (0 <= n /\ (q < 2 \/ 2 ^ (q - 2) <= (n + 1) ^ 2)).
Proof.
  intros n q. unfold rb_cost_ok. rewrite andb_true_iff, orb_true_iff, Z.leb_le, Z.ltb_lt.
  split; intros [Hn H]; (split; [exact Hn|]).
  - destruct H as [H|H]; [left; exact H|right]. apply pow_ge_pow2_spec; [lia|lia|exact H].
  - destruct H as [H|H]; [left; exact H|right]. apply pow_ge_pow2_spec; [lia|lia|exact H].
Qed.

Lemma avl_cost_ok_spec : forall n q,
  avl_cost_ok n q = true <-> (0 <= n /\ (q < 2 \/ 2 ^ (20 * (q - 2)) <= (n + 2) ^ 29)).
Proof.
  intros n q. unfold avl_cost_ok. rewrite andb_true_iff, orb_true_iff, Z.leb_le, Z.ltb_lt.
  split; intros [Hn H]; (split; [exact Hn|]).
  - destruct H as [H|H]; [left; exact H|right]. apply pow_ge_pow2_spec; [lia|lia|exact H].
  - destruct H as [H|H]; [left; exact H|right]. apply pow_ge_pow2_spec; [lia|lia|exact H].
Qed.

(* the floor form of the red-black bound (the one proved for the model, RBBounds.C07_rb_cost, is
   q <= 2*floor(log2(n+1)) + 1) implies the real-valued one *)
Lemma rb_cost_ok_floor : forall n q, 0 <= n -> q <= 2 * Z.log2 (n + 1) + 2 -> rb_cost_ok n q = true.
Proof.
  intros n q Hn Hq. apply rb_cost_ok_spec. split; [exact Hn|].
  destruct (Z_lt_ge_dec q 2) as [Hlt|Hge]; [left; exact Hlt|right].
  pose proof (Z.log2_nonneg (n + 1)) as Hl.
  apply Z.le_trans with (2 ^ (2 * Z.log2 (n + 1))).
  - apply Z.pow_le_mono_r; lia.
  - rewrite Z.mul_comm, Z.pow_mul_r by lia.
    apply Z.pow_le_mono_l. split; [apply Z.pow_nonneg; lia|].
    apply Z.log2_spec. lia.
Qed.

Lemma ilog_aux_spec : forall c x, 2 <= c -> forall fuel k p,
  0 <= k -> p = c ^ (k + 1) -> c ^ k <= x -> x < c ^ (k + 1 + Z.of_nat fuel) ->
  let L := k + ilog_aux fuel c p x in k <= L /\ c ^ L <= x < c ^ (L + 1).
Proof.
  intros c x Hc. induction fuel as [|f IH]; intros k p Hk Hp Hlo Hhi; cbn [ilog_aux].
  - cbn zeta. cbn [Z.of_nat] in Hhi. rewrite !Z.add_0_r in *. lia.
  - destruct (x <? p) eqn:Hxp.
    + apply Z.ltb_lt in Hxp. cbn zeta. rewrite Z.add_0_r. subst p. lia.
    + apply Z.ltb_ge in Hxp. cbn zeta.
      assert (Hp' : p * c = c ^ (k + 1 + 1)).
      { subst p. rewrite (Z.pow_add_r c (k + 1) 1) by lia. rewrite Z.pow_1_r. reflexivity. }
      assert (Hhi' : x < c ^ (k + 1 + 1 + Z.of_nat f)).
      { replace (k + 1 + 1 + Z.of_nat f) with (k + 1 + Z.of_nat (S f)) by lia. exact Hhi. }
      assert (Hlo' : c ^ (k + 1) <= x) by (subst p; exact Hxp).
      specialize (IH (k + 1) (p * c) ltac:(lia) Hp' Hlo' Hhi'). cbn zeta in IH.
      replace (k + (1 + ilog_aux f c (p * c) x)) with (k + 1 + ilog_aux f c (p * c) x) by lia.
      lia.
Qed.

Lemma ilog_spec : forall c x, 2 <= c -> 1 <= x ->
  0 <= ilog c x /\ c ^ (ilog c x) <= x < c ^ (ilog c x + 1).
Proof.
  intros c x Hc Hx. unfold ilog.
  pose proof (Z.log2_nonneg x) as Hl.
  pose proof (ilog_aux_spec c x Hc (S (Z.to_nat (Z.log2 x))) 0 c) as H. cbn zeta in H.
  rewrite !Z.add_0_l in H. apply H.
  - lia.
  - rewrite Z.pow_1_r. reflexivity.
  - rewrite Z.pow_0_r. exact Hx.
  - rewrite Nat2Z.inj_succ, Z2Nat.id by exact Hl.
    apply Z.lt_le_trans with (2 ^ Z.succ (Z.log2 x)).
    + apply Z.log2_spec. lia.
    + apply Z.le_trans with (c ^ Z.succ (Z.log2 x)).
      * apply Z.pow_le_mono_l. lia.
      * apply Z.pow_le_mono_r; lia.
Qed.

(* L = ilog c x is THE least exponent with x < c^(L+1) *)
Lemma ilog_least : forall c x L, 2 <= c -> 1 <= x -> 0 <= L -> x < c ^ (L + 1) -> ilog c x <= L.
Proof.
  intros c x L Hc Hx HL Hlt. destruct (ilog_spec c x Hc Hx) as (H0 & Hlo & _).
  destruct (Z_le_gt_dec (ilog c x) L) as [Hle|Hgt]; [exact Hle|exfalso].
  assert (c ^ (L + 1) <= c ^ ilog c x) by (apply Z.pow_le_mono_r; lia). lia.
Qed.

Lemma bt_cost_ok_spec : forall m n q,
  bt_cost_ok m n q = true <->
  (0 <= n /\ 3 <= m /\ q <= 4 * (Z.log2 m + 1) * (ilog ((m + 1) / 2) (n + 1) + 1)).
Proof.
  intros m n q. unfold bt_cost_ok, bt_bound. rewrite !andb_true_iff, !Z.leb_le. tauto.
Qed.

(* the same with the meaning of ilog spelled out *)
Lemma bt_cost_ok_meaning : forall m n q, 0 <= n -> 3 <= m ->
  (bt_cost_ok m n q = true <->
   exists L, 0 <= L /\ ((m + 1) / 2) ^ L <= n + 1 < ((m + 1) / 2) ^ (L + 1) /\
             q <= 4 * (Z.log2 m + 1) * (L + 1)).
Proof.
  intros m n q Hn Hm.
  assert (Hc : 2 <= (m + 1) / 2) by (apply Z.div_le_lower_bound; lia).
  destruct (ilog_spec ((m + 1) / 2) (n + 1) Hc ltac:(lia)) as (H0 & Hlo & Hhi).
  rewrite bt_cost_ok_spec. split.
  - intros (_ & _ & Hq). exists (ilog ((m + 1) / 2) (n + 1)). repeat split; assumption.
  - intros (L & HL & [HLlo HLhi] & Hq). split; [exact Hn|split; [exact Hm|]].
    assert (HleL : ilog ((m + 1) / 2) (n + 1) <= L) by (apply ilog_least; lia).
    assert (Hpos : 0 <= 4 * (Z.log2 m + 1)) by (pose proof (Z.log2_nonneg m); lia).
    apply Z.le_trans with (4 * (Z.log2 m + 1) * (L + 1)); [exact Hq|].
    assert (HgeL : L <= ilog ((m + 1) / 2) (n + 1)).
    { destruct (Z_le_gt_dec L (ilog ((m + 1) / 2) (n + 1))) as [Hle|Hgt]; [exact Hle|exfalso].
      assert (((m + 1) / 2) ^ (ilog ((m + 1) / 2) (n + 1) + 1) <= ((m + 1) / 2) ^ L)
        by (apply Z.pow_le_mono_r; lia). lia. }
    apply Z.mul_le_mono_nonneg_l; lia.
Qed.

(* ------------------------------------------------------------------------------------------ *)
(* Failure codes                                                                               *)
(*   1 undecodable component   2 shape invariant violated   3 keys not strictly ascending       *)
(*   4 node / entry count <> Size()   5 red-black path ratio   6 B-tree Height() mismatch       *)
(*   7 Get cost above bound   8 Put/Remove cost above bound   9 heap order violated             *)
(* ------------------------------------------------------------------------------------------ *)
Definition flag (b : bool) (code : Z) : list Z := if b then [] else [code].

Definition rb_codes (cmp : cmpf) (size : Z) (o : obs) : list Z :=
  match rb_of o with
  | None => [1]
  | Some t =>
    flag (rb_okb t) 2 ++ flag (ksortedb cmp (RBTree.inorder t)) 3 ++
    flag (Z.of_nat (RBTree.count t) =? size) 4 ++
    flag (RBTree.height t <=? 2 * RBTree.minheight t)%nat 5
  end.

Definition avl_codes (cmp : cmpf) (size : Z) (o : obs) : list Z :=
  match avl_of o with
  | None => [1]
  | Some t =>
    flag (avl_okb t) 2 ++ flag (ksortedb cmp (AVLTree.inorder t)) 3 ++
    flag (Z.of_nat (AVLTree.count t) =? size) 4
  end.

Definition bt_codes (m : nat) (cmp : cmpf) (size height : Z) (o : obs) : list Z :=
  match o with
  | OL [] => flag (size =? 0) 4 ++ flag (height =? 0) 6
  | _ =>
    match bt_of o with
    | None => [1]
    | Some n =>
      flag (btree_okb m (Some n)) 2 ++ flag (ksortedb cmp (BTree.inorder n)) 3 ++
      flag (Z.of_nat (BTree.count n) =? size) 4 ++ flag (Z.of_nat (BTree.height n) =? height) 6
    end
  end.

Definition heap_codes (cmp : cmpf) (size : Z) (o : obs) : list Z :=
  match zs_of o with
  | None => [1]
  | Some l => flag (heap_okb cmp l) 9 ++ flag (Z.of_nat (length l) =? size) 4
  end.

Lemma flag_nil : forall b c, flag b c = [] <-> b = true.
Proof. intros [|] c; cbn; split; intros H; try reflexivity; discriminate. Qed.
Lemma app_nil_iff : forall (a b : list Z), a ++ b = [] <-> (a = [] /\ b = []).
Proof.
  intros a b. split.
  - intros H. apply app_eq_nil in H. exact H.
  - intros [Ha Hb]. subst. reflexivity.
Qed.

(* no code <-> the boolean shape checkers above *)
Lemma rb_codes_nil : forall cmp size o, rb_codes cmp size o = [] <-> rb_shape_ok cmp size o = true.
Proof.
  intros cmp size o. unfold rb_codes, rb_shape_ok. destruct (rb_of o) as [t|].
  - rewrite !app_nil_iff, !flag_nil, !andb_true_iff. tauto.
  - split; discriminate.
Qed.
Lemma avl_codes_nil : forall cmp size o, avl_codes cmp size o = [] <-> avl_shape_ok cmp size o = true.
Proof.
  intros cmp size o. unfold avl_codes, avl_shape_ok. destruct (avl_of o) as [t|].
  - rewrite !app_nil_iff, !flag_nil, !andb_true_iff. tauto.
  - split; discriminate.
Qed.
Lemma bt_codes_nil : forall m cmp size height o,
  bt_codes m cmp size height o = [] <-> bt_shape_ok m cmp size height o = true.
Proof.
  intros m cmp size height o. unfold bt_codes, bt_shape_ok.
  assert (Hgen : match bt_of o with
                 | None => [1]
                 | Some n => flag (btree_okb m (Some n)) 2 ++ flag (ksortedb cmp (BTree.inorder n)) 3 ++
                             flag (Z.of_nat (BTree.count n) =? size) 4 ++ flag (Z.of_nat (BTree.height n) =? height) 6
                 end = [] <->
                 match bt_of o with
                 | None => false
                 | Some n => btree_okb m (Some n) && ksortedb cmp (BTree.inorder n) && (Z.of_nat (BTree.count n) =? size)
                             && (Z.of_nat (BTree.height n) =? height)
                 end = true).
  { destruct (bt_of o) as [n|].
    - rewrite !app_nil_iff, !flag_nil, !andb_true_iff. tauto.
    - split; discriminate. }
  destruct o as [z|[|x l]]; [exact Hgen| |exact Hgen].
  rewrite app_nil_iff, !flag_nil, andb_true_iff. tauto.
Qed.
Lemma heap_codes_nil : forall cmp size o,
  heap_codes cmp size o = [] <-> (heap_raw_ok cmp o = true /\ exists l, zs_of o = Some l /\ Z.of_nat (length l) = size).
Proof.
  intros cmp size o. unfold heap_codes, heap_raw_ok. destruct (zs_of o) as [l|].
  - rewrite app_nil_iff, !flag_nil, Z.eqb_eq. split.
    + intros [H1 H2]. split; [exact H1|]. exists l. split; [reflexivity|exact H2].
    + intros [H1 (l' & Hl' & H2)]. inversion Hl'; subst l'. split; assumption.
  - split; [discriminate|]. intros [H _]. discriminate.
Qed.

(* the meaning of a clean B-tree verdict, through btree_okb_spec *)
Lemma bt_shape_ok_inv : forall m cmp size height o n, bt_of o = Some n ->
  bt_shape_ok m cmp size height o = true ->
  btree_inv m (Some n) /\ Z.of_nat (BTree.count n) = size /\ Z.of_nat (BTree.height n) = height.
Proof.
  intros m cmp size height o n Hn H. unfold bt_shape_ok in H.
  destruct o as [z|[|x l]]; [cbn in Hn; discriminate|cbn in Hn; discriminate|].
  rewrite Hn in H. rewrite !andb_true_iff, !Z.eqb_eq in H. destruct H as [[[H1 _] H3] H4].
  split; [apply btree_okb_spec; exact H1|split; assumption].
Qed.

(* ------------------------------------------------------------------------------------------ *)
(* Entry points over what the harness recorded                                                 *)
(* ------------------------------------------------------------------------------------------ *)
Definition tag_num (t : tag) : Z :=
  match t with
  | TSize => 0 | TEmpty => 1 | TValues => 2 | TKeys => 3 | TGet => 4 | TGetKey => 5 | TContains => 6
  | TIndexOf => 7 | TGetIdx => 8 | TPeek => 9 | TFull => 10 | TLeft => 11 | TRight => 12 | TFloor => 13
  | TCeiling => 14 | THeight => 15 | TShape => 16 | TRaw => 17 | TJson => 18 | TIterF => 19
  | TIterB => 20 | TCost => 21 | TSane => 22
  end.
Definition vfind (t : tag) (v : list (tag * obs)) : option obs :=
  match find (fun e => tag_num (fst e) =? tag_num t) v with Some e => Some (snd e) | None => None end.

(* every entry of a cost vector within the bound, else [code]; [1] when it is not a list of integers *)
Definition cost_codes (ok : Z -> bool) (code : Z) (o : obs) : list Z :=
  match zs_of o with
  | None => [1]
  | Some qs => flag (forallb ok qs) code
  end.

Definition on_tag (t : tag) (v : list (tag * obs)) (f : obs -> list Z) : list Z :=
  match vfind t v with Some o => f o | None => [] end.

(* One observation vector of the implementation.  Components that are absent are not judged (after a
   panic the vector is the single line "sane ((()))"); a vector that has structure but no integer
   size is undecodable. *)
Definition oracle_vector (c : config) (v : list (tag * obs)) : list Z :=
  match vfind TSize v with
  | Some (OZ n) =>
    match ckind c with
    | RedBlackTree =>
      on_tag TShape v (rb_codes (kc c) n) ++ on_tag TCost v (cost_codes (rb_cost_ok n) 7)
    | TreeMap | TreeSet => on_tag TShape v (rb_codes (kc c) n)
    | TreeBidiMap =>
      on_tag TShape v (fun o => match o with
                                | OL [f; i] => rb_codes (kc c) n f ++ rb_codes (vc c) n i
                                | _ => [1]
                                end)
    | AVLTree =>
      on_tag TShape v (avl_codes (kc c) n) ++ on_tag TCost v (cost_codes (avl_cost_ok n) 7)
    | BTree =>
      on_tag TShape v (fun o => match vfind THeight v with
                                | Some (OZ h) => bt_codes (bt_m c) (kc c) n h o
                                | _ => [1]
                                end)
      ++ on_tag TCost v (cost_codes (bt_cost_ok (corder c) n) 7)
    | BinaryHeap | PriorityQueue => on_tag TRaw v (heap_codes (kc c) n)
    | _ => []
    end
  | Some (OL _) => [1]
  | None =>
    match vfind TShape v, vfind TRaw v, vfind TCost v with
    | None, None, None => []
    | _, _, _ => [1]
    end
  end.

(* The X line of one operation: comparator calls made by a Put or Remove on a tree that had
   [size_before] keys.  "A tree with n keys": for Put both readings of n (before / after the
   insertion, n and n+1) are accepted; the bounds are monotone in n, so that is the bound at n+1. *)
Definition cost_bound_ok (c : config) (n q : Z) : bool :=
  match ckind c with
  | RedBlackTree => rb_cost_ok n q
  | AVLTree => avl_cost_ok n q
  | BTree => bt_cost_ok (corder c) n q
  | _ => true
  end.
Definition oracle_cost_op (c : config) (is_put : bool) (size_before : Z) (x : obs) : list Z :=
  match x with
  | OL [OZ q] =>
    flag (cost_bound_ok c size_before q || (is_put && cost_bound_ok c (size_before + 1) q)) 8
  | _ => []
  end.
(* without knowing the operation: the lenient reading *)
Definition oracle_cost (c : config) (size_before : Z) (x : obs) : list Z :=
  oracle_cost_op c true size_before x.

Lemma oracle_cost_nil : forall c n q,
  oracle_cost c n (OL [OZ q]) = [] <-> (cost_bound_ok c n q = true \/ cost_bound_ok c (n + 1) q = true).
Proof.
  intros c n q. unfold oracle_cost, oracle_cost_op. rewrite flag_nil, orb_true_iff. cbn [andb]. tauto.
Qed.

(* ---------- sanity runs ---------- *)
Example rb_cost_ok_run :
  (rb_cost_ok 0 2, rb_cost_ok 0 3, rb_cost_ok 7 8, rb_cost_ok 7 9, rb_cost_ok 10 8, rb_cost_ok 10 9,
   rb_cost_ok 5 1000000000000) = (true, false, true, false, true, false, false).
Proof. vm_compute. reflexivity. Qed.
Example avl_cost_ok_run :
  (* 1.45*log2(9)+2 = 6.596..   1.45*log2(1024)+2 = 16.5 *)
  (avl_cost_ok 7 6, avl_cost_ok 7 7, avl_cost_ok 1022 16, avl_cost_ok 1022 17) = (true, false, true, false).
Proof. vm_compute. reflexivity. Qed.
Example bt_cost_ok_run :
  (ilog 2 1, ilog 2 11, ilog 3 26, ilog 3 27, bt_bound 4 10, bt_cost_ok 4 10 48, bt_cost_ok 4 10 49)
  = (0, 3, 2, 3, 48, true, false).
Proof. vm_compute. reflexivity. Qed.

Print Assumptions rb_cost_ok_spec.
Print Assumptions avl_cost_ok_spec.
Print Assumptions rb_cost_ok_floor.
Print Assumptions ilog_spec.
Print Assumptions bt_cost_ok_meaning.
Print Assumptions rb_codes_nil.
Print Assumptions avl_codes_nil.
Print Assumptions bt_codes_nil.
Print Assumptions heap_codes_nil.
Print Assumptions bt_shape_ok_inv.
Print Assumptions oracle_cost_nil.
