(* In-Coq cross-check of the extraction (thorough tier).
   The replay driver runs the OCaml code extracted from Machine.init / step / observe.  Here the very
   same Gallina is evaluated inside Coq by vm_compute on cases written out as Gallina literals
   (coq/ocaml/oracle --emit-coq) and every result / extra / observation-vector component is compared
   with what was recorded.  [mismatches cases = []] means that the two evaluations agree on all of
   them.  Definitions only; nothing here is extracted. *)
From Coq Require Import ZArith List Bool.
From Gods Require Import Common.Cmp Model.Ops Model.Machine.
Import ListNotations.
Local Open Scope Z_scope.

Fixpoint obs_eqb (a b : obs) : bool :=
  match a, b with
  | OZ x, OZ y => x =? y
  | OL la, OL lb =>
    (fix go (la lb : list obs) {struct la} : bool :=
       match la, lb with
       | [], [] => true
       | x :: la', y :: lb' => obs_eqb x y && go la' lb'
       | _, _ => false
       end) la lb
  | _, _ => false
  end.

Definition tag_num (t : tag) : Z :=
  match t with
  | TSize => 0 | TEmpty => 1 | TValues => 2 | TKeys => 3 | TGet => 4 | TGetKey => 5 | TContains => 6
  | TIndexOf => 7 | TGetIdx => 8 | TPeek => 9 | TFull => 10 | TLeft => 11 | TRight => 12 | TFloor => 13
  | TCeiling => 14 | THeight => 15 | TShape => 16 | TRaw => 17 | TJson => 18 | TIterF => 19
  | TIterB => 20 | TCost => 21 | TSane => 22
  end.
Definition tag_eqb (a b : tag) : bool := tag_num a =? tag_num b.

(* one recorded operation: the O line, its R and X lines, the V lines that follow *)
Record rstep := { s_op : op; s_res : obs; s_extra : obs; s_vec : list (tag * obs) }.
(* one recorded case: the H line (configuration and observation level), the V lines of the freshly
   constructed container, the operations *)
Record rcase := { r_cfg : config; r_lvl : Z; r_init : list (tag * obs); r_steps : list rstep }.

Definition vfind (t : tag) (v : list (tag * obs)) : option obs :=
  match find (fun e => tag_eqb (fst e) t) v with Some e => Some (snd e) | None => None end.

(* what differs: 0 = the R line, 1 = the X line, 2 + tag_num t = component t of the vector *)
Definition what_res : Z := 0.
Definition what_extra : Z := 1.
Definition what_tag (t : tag) : Z := 2 + tag_num t.

(* as driver.ml: every recorded component must equal the model's component of the same tag (the
   order of the V lines is free), and every component the model has must have been recorded *)
Definition vec_mismatches (model recorded : list (tag * obs)) : list Z :=
  flat_map (fun e => match vfind (fst e) model with
                     | Some o => if obs_eqb o (snd e) then [] else [what_tag (fst e)]
                     | None => [what_tag (fst e)]
                     end) recorded ++
  flat_map (fun e => match vfind (fst e) recorded with
                     | Some _ => []
                     | None => [what_tag (fst e)]
                     end) model.

(* (operation index, what); the vector of the constructor has index -1, as in the driver's reports *)
Fixpoint replay (c : config) (lvl : Z) (s : state) (i : Z) (steps : list rstep) : list (Z * Z) :=
  match steps with
  | [] => []
  | st :: rest =>
    let '(s', r, x) := step c s (s_op st) in
    (if obs_eqb r (s_res st) then [] else [(i, what_res)]) ++
    (if obs_eqb x (s_extra st) then [] else [(i, what_extra)]) ++
    map (fun w => (i, w)) (vec_mismatches (observe c lvl s') (s_vec st)) ++
    replay c lvl s' (i + 1) rest
  end.

Definition case_mismatches (rc : rcase) : list (Z * Z) :=
  let c := r_cfg rc in
  let s := init c in
  map (fun w => (-1, w)) (vec_mismatches (observe c (r_lvl rc) s) (r_init rc)) ++
  replay c (r_lvl rc) s 0 (r_steps rc).

Fixpoint mismatches_from (k : nat) (cases : list rcase) : list (nat * Z * Z) :=
  match cases with
  | [] => []
  | rc :: rest => map (fun p => (k, fst p, snd p)) (case_mismatches rc) ++ mismatches_from (S k) rest
  end.
(* (case position, operation index or -1, what) for every difference *)
Definition mismatches (cases : list rcase) : list (nat * Z * Z) := mismatches_from 0 cases.

(* the model agrees with itself, and a wrong record is noticed *)
Definition self_case (c : config) (lvl : Z) (ops : list op) : rcase :=
  let fix go (s : state) (ops : list op) : list rstep :=
    match ops with
    | [] => []
    | o :: ops' => let '(s', r, x) := step c s o in
                   {| s_op := o; s_res := r; s_extra := x; s_vec := observe c lvl s' |} :: go s' ops'
    end in
  {| r_cfg := c; r_lvl := lvl; r_init := observe c lvl (init c); r_steps := go (init c) ops |}.
Definition ex_cfg : config :=
  {| ckind := RedBlackTree; kcmp := CNat; vcmp := CNat; ccap := 1; corder := 3; cuni := 4 |}.
Example mismatches_self :
  mismatches [self_case ex_cfg 1 [Put 1 2; Put 3 4; Remove 1; Put 0 0; Clear]] = [].
Proof. vm_compute. reflexivity. Qed.
Example mismatches_wrong :
  mismatches [{| r_cfg := ex_cfg; r_lvl := 0; r_init := [(TSize, OZ 0); (TShape, OL []); (TSane, all_sane)];
                 r_steps := [{| s_op := Put 1 2; s_res := OL []; s_extra := OL [OZ 7];
                                s_vec := [(TSize, OZ 1); (TShape, OL [OZ 0; OZ 1; OZ 2; OL []; OL []])] |}] |}]
  = [(0%nat, -1, what_tag TCost); (0%nat, 0, what_extra); (0%nat, 0, what_tag TShape);
     (0%nat, 0, what_tag TCost); (0%nat, 0, what_tag TSane)].
Proof. vm_compute. reflexivity. Qed.
