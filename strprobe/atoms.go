package main

// Atom types: everything the JSON layer and the reports need to know about an element / key /
// value type, behind one descriptor.  Go types: string ("string", "tstring"), int ("int", "tint",
// "rank"), float64 ("float"), S ("struct"), *int ("ptr"), Dur ("dur"), time.Duration ("duration").

import (
	"cmp"
	"encoding/json"
	"fmt"
	"math"
	"reflect"
	"sort"
	"strconv"
	"strings"
	"time"
)

// S: a struct element whose zero fields are omitted from its JSON form
type S struct {
	A int    `json:"a,omitempty"`
	B string `json:"b,omitempty"`
}

// Dur: a named integer key type with a String method (encoding/json must still write decimal keys)
type Dur int64

func (d Dur) String() string { return time.Duration(d).String() }

type atomType struct {
	name        string
	class       string // "str", "int", "float", "struct", "ptr"
	goType      reflect.Type
	text        func(r int) string
	fromNode    func(n *jnode) (int, error)          // a decoded JSON value -> rank
	fromKey     func(k string) (int, error)          // an object member name -> rank (nil: not a key type)
	decode      func(dec *json.Decoder) (int, error) // encoding/json's typed decoding of the next value
	decodeArray func(doc []byte) ([]int, error)      // encoding/json's decoding of a whole []T
	lit         func(c *docGen, r int) string        // a JSON literal denoting the atom
	keyLit      func(c *docGen, r int) string        // ... as a member name
	zero        int                                  // rank of the zero value (what null denotes)
	bad         []string                             // literals of the wrong JSON type
	rankCmp     func(rev bool, tie string) func(a, b int) int
	ties        []string
	jsonable    func(r int) bool // JSON-representable (finite floats)
}

var atomTypes = map[string]*atomType{}

func atomOf(typ string) *atomType {
	a := atomTypes[typ]
	if a == nil {
		panic("strprobe: unknown atom type " + typ)
	}
	return a
}

func isStr(typ string) bool { return atomOf(typ).class == "str" }

func notInPool(what string) error { return fmt.Errorf("%s is not an atom of the pool", what) }

// mkAtom derives the generic part of a descriptor from a codec
func mkAtom[T comparable](c *codec[T], class string, fromNode func(n *jnode) (T, error), fromKey func(k string) (T, error),
	lit func(g *docGen, x T) string, keyLit func(g *docGen, x T) string, bad []string) *atomType {
	rank := func(x T) (int, error) {
		if r, ok := c.rankOf(x); ok {
			return r, nil
		}
		return 0, notInPool(c.show(x))
	}
	var zero T
	zr, _ := c.rankOf(zero)
	a := &atomType{name: c.name, class: class, goType: reflect.TypeOf((*T)(nil)).Elem(), zero: zr, bad: bad}
	a.text = func(r int) string { return c.show(c.pool[r]) }
	a.fromNode = func(n *jnode) (int, error) {
		x, err := fromNode(n)
		if err != nil {
			return 0, err
		}
		return rank(x)
	}
	if fromKey != nil {
		a.fromKey = func(k string) (int, error) {
			x, err := fromKey(k)
			if err != nil {
				return 0, err
			}
			return rank(x)
		}
		a.keyLit = func(g *docGen, r int) string { return keyLit(g, c.pool[r]) }
	}
	a.decode = func(dec *json.Decoder) (int, error) {
		var x T // null leaves the zero value
		if err := dec.Decode(&x); err != nil {
			return 0, err
		}
		return rank(x)
	}
	a.decodeArray = func(doc []byte) ([]int, error) {
		var xs []T
		if err := json.Unmarshal(doc, &xs); err != nil {
			return nil, err
		}
		out := []int{}
		for _, x := range xs {
			r, err := rank(x)
			if err != nil {
				return nil, err
			}
			out = append(out, r)
		}
		return out, nil
	}
	a.lit = func(g *docGen, r int) string { return lit(g, c.pool[r]) }
	a.rankCmp = c.rankCmp
	for t := range c.ties {
		a.ties = append(a.ties, t)
	}
	sort.Strings(a.ties)
	a.jsonable = func(int) bool { return true }
	atomTypes[c.name] = a
	return a
}

func wrongType(n *jnode, want string) error {
	return fmt.Errorf("JSON %s where %s is expected", kindName(n.kind), want)
}

func parseIntText(s string) (int64, error) {
	v, err := strconv.ParseInt(s, 10, 64)
	if err != nil {
		return 0, fmt.Errorf("%q is not an integer", s)
	}
	return v, nil
}

func registerStr(c *codec[string]) {
	mkAtom(c, "str",
		func(n *jnode) (string, error) {
			if n.kind != 's' {
				return "", wrongType(n, "a string")
			}
			return n.str, nil
		},
		func(k string) (string, error) { return k, nil },
		func(g *docGen, s string) string { return g.strLit(s) },
		func(g *docGen, s string) string { return g.strLit(s) },
		[]string{"1", "true", "false", "{}", "[]", `{"a":"b"}`, `["a"]`, "1.5", "-0", "0"})
}

var badForInt = []string{`"1"`, `"a"`, `""`, "true", "false", "1.5", "{}", "[1]", "1e2", "0.0", "9223372036854775808", "-9223372036854775809"}

// registerInt: int-like atoms (decimal in values and in member names); plain = ranks of the twin
func registerInt[T comparable](c *codec[T], conv func(int64) T, back func(T) int64, plain bool) {
	mkAtom(c, "int",
		func(n *jnode) (T, error) {
			if n.kind != 'n' {
				var z T
				return z, wrongType(n, "an integer")
			}
			v, err := parseIntText(n.str)
			return conv(v), err
		},
		func(k string) (T, error) { v, err := parseIntText(k); return conv(v), err },
		func(g *docGen, x T) string {
			if back(x) == 0 && !plain && g.style >= 2 && g.g.chance(20) {
				return "-0"
			}
			return strconv.FormatInt(back(x), 10)
		},
		func(g *docGen, x T) string {
			v := back(x)
			s := strconv.FormatInt(v, 10)
			if !plain && g.style >= 2 && v >= 0 {
				switch r := g.g.intn(100); {
				case r < 4:
					s = "0" + s // strconv.ParseInt accepts leading zeros
				case r < 8:
					s = "+" + s // and an explicit sign
				}
			}
			return `"` + s + `"`
		},
		badForInt)
}

// ---------- float64 ----------

var floatCodec *codec[float64]

func floatBits(x float64) uint64 {
	if x != x {
		return math.Float64bits(math.NaN())
	}
	return math.Float64bits(x)
}

func showFloat(x float64) string {
	if x == 0 && math.Signbit(x) {
		return "-0"
	}
	return strconv.FormatFloat(x, 'g', -1, 64)
}

func initFloat() {
	negZero := math.Copysign(0, -1)
	pool := []float64{math.NaN(), math.Inf(-1), -math.MaxFloat64, -1e300, -1e15, -100, -2.5, -1, -0.5, -5e-324, negZero, 0,
		5e-324, 1e-300, 0.1, 0.5, 1, 1.5, 2, 2.5, 3, 10, 100, 1e6, 1e15, 1 << 53, 1<<53 + 2, 1e16, float64(math.MaxInt64), 1e19,
		1e21, 1e22, 1e100, 1e300, math.MaxFloat64, math.Inf(1), -3, -10, 7, 0.25}
	sort.SliceStable(pool, func(i, j int) bool { return cmp.Compare(pool[i], pool[j]) < 0 })
	if len(pool) != poolN {
		panic(fmt.Sprintf("strprobe: the float pool has %d atoms, want %d", len(pool), poolN))
	}
	byBits := map[uint64]int{}
	for i, x := range pool {
		if _, dup := byBits[floatBits(x)]; dup {
			panic("strprobe: duplicate float " + showFloat(x))
		}
		byBits[floatBits(x)] = i
	}
	floatCodec = &codec[float64]{name: "float", pool: pool, nat: cmp.Compare[float64], show: showFloat,
		find: func(x float64) (int, bool) { r, ok := byBits[floatBits(x)]; return r, ok }}
	a := mkAtom(floatCodec, "float",
		func(n *jnode) (float64, error) {
			if n.kind != 'n' {
				return 0, wrongType(n, "a number")
			}
			return strconv.ParseFloat(n.str, 64)
		},
		nil,
		func(g *docGen, x float64) string {
			if g.style >= 2 && g.g.chance(40) {
				return strconv.FormatFloat(x, 'e', -1, 64)
			}
			b, _ := json.Marshal(x)
			return string(b)
		},
		nil,
		[]string{`"1"`, `"a"`, "true", "false", "{}", "[1]", "1e999", `""`})
	a.jsonable = func(r int) bool { x := pool[r]; return !math.IsNaN(x) && !math.IsInf(x, 0) }
}

// ---------- struct ----------

var structCodec *codec[S]

func cmpS(x, y S) int {
	if c := cmp.Compare(x.A, y.A); c != 0 {
		return c
	}
	return cmp.Compare(x.B, y.B)
}

func initStruct() {
	var pool []S
	for _, a := range []int{0, 1, 2, -1, 7} {
		for _, b := range []string{"", "a", "b", "x", `q"`, "é", "0", "null"} {
			pool = append(pool, S{a, b})
		}
	}
	structCodec = newCodec("struct", pool, cmpS, func(s S) string { return fmt.Sprintf("{A:%d B:%s}", s.A, strconv.Quote(s.B)) })
	mkAtom(structCodec, "struct",
		func(n *jnode) (S, error) {
			var s S
			switch n.kind {
			case 'z':
				return s, nil
			case 'o':
			default:
				return s, wrongType(n, "an object {a, b}")
			}
			for i, k := range n.keys {
				e := n.elems[i]
				switch {
				case k == "a" && e.kind == 'n':
					v, err := parseIntText(e.str)
					if err != nil {
						return s, err
					}
					s.A = int(v)
				case k == "b" && e.kind == 's':
					s.B = e.str
				case (k == "a" || k == "b") && e.kind == 'z':
				default:
					return s, fmt.Errorf("unexpected member %s: %s in a struct element", strconv.Quote(k), kindName(e.kind))
				}
			}
			return s, nil
		},
		nil,
		func(g *docGen, s S) string {
			var fields []string
			if s.A != 0 || (g.style >= 2 && g.g.chance(15)) {
				fields = append(fields, g.ws()+`"a"`+g.ws()+":"+g.ws()+strconv.Itoa(s.A)+g.ws())
			}
			if s.B != "" || (g.style >= 2 && g.g.chance(15)) {
				fields = append(fields, g.ws()+`"b"`+g.ws()+":"+g.ws()+g.strLit(s.B)+g.ws())
			}
			if len(fields) == 2 && g.g.chance(40) {
				fields[0], fields[1] = fields[1], fields[0]
			}
			return "{" + strings.Join(fields, ",") + "}"
		},
		nil,
		[]string{"1", `"x"`, "[]", "true", `{"a":"x"}`, `{"b":1}`, `{"a":1.5}`, `{"a":1,"b":{}}`, `[{"a":1}]`})
}

// ---------- *int ----------

var ptrCodec *codec[*int]

func initPtr() {
	vals := append(append([]int{}, intCodec.pool[:20]...), intCodec.pool[21:]...) // 39 ints ascending
	pool := []*int{nil}
	byVal := map[int]int{}
	for i := range vals {
		pool = append(pool, &vals[i])
		byVal[vals[i]] = i + 1
	}
	ptrCodec = &codec[*int]{name: "ptr", pool: pool,
		nat: func(a, b *int) int {
			switch {
			case a == nil && b == nil:
				return 0
			case a == nil:
				return -1
			case b == nil:
				return 1
			}
			return cmp.Compare(*a, *b)
		},
		show: func(p *int) string {
			if p == nil {
				return "nil"
			}
			return "&" + strconv.Itoa(*p)
		},
		find: func(p *int) (int, bool) {
			if p == nil {
				return 0, true
			}
			r, ok := byVal[*p]
			return r, ok
		},
		// a fresh pointer per use: a container that decodes INTO existing elements must not be able to
		// write through to the pool (or to the pointers another goroutine's container holds)
		mk: func(r int) *int {
			if r == 0 {
				return nil
			}
			v := vals[r-1]
			return &v
		}}
	mkAtom(ptrCodec, "ptr",
		func(n *jnode) (*int, error) {
			switch n.kind {
			case 'z':
				return nil, nil
			case 'n':
				v, err := parseIntText(n.str)
				x := int(v)
				return &x, err
			}
			return nil, wrongType(n, "an integer or null")
		},
		nil,
		func(g *docGen, p *int) string {
			if p == nil {
				return "null"
			}
			return strconv.Itoa(*p)
		},
		nil,
		[]string{`"1"`, "true", "1.5", "{}", "[1]", `""`, "1e2"})
}

// ---------- Dur, time.Duration ----------

var (
	durCodec      *codec[Dur]
	durationCodec *codec[time.Duration]
)

func initDur() {
	var dp []Dur
	var tp []time.Duration
	for _, v := range intCodec.pool {
		dp = append(dp, Dur(v))
		tp = append(tp, time.Duration(v))
	}
	durCodec = newCodec("dur", dp, cmp.Compare[Dur], func(d Dur) string { return strconv.FormatInt(int64(d), 10) })
	durationCodec = newCodec("duration", tp, cmp.Compare[time.Duration], func(d time.Duration) string { return strconv.FormatInt(int64(d), 10) })
	registerInt(durCodec, func(v int64) Dur { return Dur(v) }, func(d Dur) int64 { return int64(d) }, false)
	registerInt(durationCodec, func(v int64) time.Duration { return time.Duration(v) }, func(d time.Duration) int64 { return int64(d) }, false)
}

func initAtoms() {
	registerStr(strCodec)
	registerStr(tstrCodec)
	intConv, intBack := func(v int64) int { return int(v) }, func(x int) int64 { return int64(x) }
	registerInt(intCodec, intConv, intBack, false)
	registerInt(tintCodec, intConv, intBack, false)
	registerInt(rankCodec, intConv, intBack, true)
	initFloat()
	initStruct()
	initPtr()
	initDur()
}
