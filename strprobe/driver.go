package main

// The driver: a record of capabilities (closures over a real container) that speaks RANKS on
// its whole surface.  The same record is bound to the string-instantiated container (ranks are
// translated to / from the pool atoms inside the closures) and to its int twin (which stores the
// ranks themselves), so the two can be driven and compared by one generic piece of code.
// A nil capability is not offered by the kind.

import (
	"encoding/json"
	"fmt"
	"sort"
	"strings"

	"github.com/emirpasic/gods/v2/containers"
)

type Config struct {
	Kind    string
	KT, VT  string // atom types of the string side: "string" / "int" (value kinds: KT only)
	KRev    bool   // key / element comparator reversed (comparator-taking kinds)
	VRev    bool   // value comparator reversed (TreeBidiMap)
	Default bool   // construct with New() (default comparator of a cmp.Ordered type) instead of NewWith
	KTie    string // relational cases: tying key / element comparator ("" = natural order)
	VTie    string // relational cases: tying value comparator of TreeBidiMap
	Cap     int    // CircularBuffer
	Order   int    // BTree
}

func (c Config) String() string {
	var b strings.Builder
	if isKVKind(c.Kind) {
		fmt.Fprintf(&b, "K=%s V=%s", c.KT, c.VT)
	} else {
		fmt.Fprintf(&b, "T=%s", c.KT)
	}
	if takesComparator(c.Kind) && c.Default {
		b.WriteString(" ctor=New")
	} else if takesComparator(c.Kind) {
		b.WriteString(" cmp=" + cmpName(c.KRev, c.KTie))
	}
	if c.Kind == "TreeBidiMap" && !c.Default {
		b.WriteString(" vcmp=" + cmpName(c.VRev, c.VTie))
	}
	if c.Kind == "CircularBuffer" {
		fmt.Fprintf(&b, " cap=%d", c.Cap)
	}
	if c.Kind == "BTree" {
		fmt.Fprintf(&b, " order=%d", c.Order)
	}
	return b.String()
}

func cmpName(rev bool, tie string) string {
	if tie == "" {
		return revName(rev)
	}
	if rev {
		return tie + "-reversed"
	}
	return tie
}

func revName(rev bool) string {
	if rev {
		return "reverse"
	}
	return "natural"
}

var allKinds = []string{
	"ArrayList", "SinglyLinkedList", "DoublyLinkedList",
	"HashSet", "TreeSet", "LinkedHashSet",
	"ArrayStack", "LinkedListStack",
	"HashMap", "TreeMap", "LinkedHashMap", "HashBidiMap", "TreeBidiMap",
	"RedBlackTree", "AVLTree", "BTree", "BinaryHeap",
	"ArrayQueue", "LinkedListQueue", "CircularBuffer", "PriorityQueue",
}

func isKVKind(k string) bool {
	switch k {
	case "HashMap", "TreeMap", "LinkedHashMap", "HashBidiMap", "TreeBidiMap", "RedBlackTree", "AVLTree", "BTree":
		return true
	}
	return false
}
func isListKind(k string) bool {
	return k == "ArrayList" || k == "SinglyLinkedList" || k == "DoublyLinkedList"
}
func isSetKind(k string) bool  { return k == "HashSet" || k == "TreeSet" || k == "LinkedHashSet" }
func isHashKind(k string) bool { return k == "HashSet" || k == "HashMap" || k == "HashBidiMap" }
func isBidiKind(k string) bool { return k == "HashBidiMap" || k == "TreeBidiMap" }
func isHeapKind(k string) bool { return k == "BinaryHeap" || k == "PriorityQueue" }
func takesComparator(k string) bool {
	switch k {
	case "TreeSet", "TreeMap", "TreeBidiMap", "RedBlackTree", "AVLTree", "BTree", "BinaryHeap", "PriorityQueue":
		return true
	}
	return false
}

// key-value kinds whose members are kept in comparator order
func isSortedKVKind(k string) bool {
	switch k {
	case "TreeMap", "TreeBidiMap", "RedBlackTree", "AVLTree", "BTree":
		return true
	}
	return false
}

type drv struct {
	cfg   Config
	twin  bool
	label string // "string side" / "int twin"
	kt    string // atom type names of this driver (the twin: "rank")
	vt    string

	foreign []string // atoms that came out of the container and are not in the pool

	size   func() int
	empty  func() bool
	values func() []int
	clear  func()
	str    func() string

	container        any                    // the container itself
	goMapJSON        func() ([]byte, error) // key-value kinds: json.Marshal of the equivalent Go map
	sortedValues     func() []int           // float elements: containers.GetSortedValues
	sortedValuesFunc func(rev bool) []int   // ... GetSortedValuesFunc with cmp.Compare / reversed

	toJSON    func() ([]byte, error)
	fromJSON  func([]byte) error
	marshal   func() ([]byte, error) // json.Marshal(container)
	unmarshal func([]byte) error     // json.Unmarshal(bytes, container)

	// key-value kinds
	keys   func() []int
	get    func(k int) (int, bool)
	getKey func(v int) (int, bool)
	put    func(k, v int)
	remove func(k int)

	// lists (add, contains also sets)
	add      func(vs ...int)
	appendF  func(vs ...int)
	prepend  func(vs ...int)
	insert   func(i int, vs ...int)
	set      func(i, v int)
	removeAt func(i int)
	swap     func(i, j int)
	sortBy   func(rev bool)
	getIdx   func(i int) (int, bool)
	indexOf  func(v int) int
	contains func(vs ...int) bool

	removeVals func(vs ...int)

	push    func(v int)
	pushAll func(vs ...int)
	pop     func() (int, bool)
	enqueue func(v int)
	dequeue func() (int, bool)
	peek    func() (int, bool)
	full    func() bool
	raw     func() []int // BinaryHeap, PriorityQueue: the backing array (hook)

	// iteration: (index or key rank, value rank) pairs of a fresh iterator walked forward with
	// Next / backward from End with Prev (nil when not offered)
	iterF func() [][2]int
	iterB func() [][2]int

	// deep state through the verif hooks (in ranks): twin-comparable while only the common
	// history has been applied (shapeful), and the "nothing changed" witness of failed loads
	fingerprint func() string
	links       func() bool
}

type baseAPI[T any] interface {
	containers.Container[T]
	containers.JSONSerializer
	containers.JSONDeserializer
}

// dec translates an atom coming out of the container to its rank
func dec[T comparable](d *drv, c *codec[T], x T) int {
	if r, ok := c.rankOf(x); ok {
		return r
	}
	if len(d.foreign) < 8 {
		d.foreign = append(d.foreign, c.show(x))
	}
	return foreignRank
}

func decs[T comparable](d *drv, c *codec[T], xs []T) []int {
	out := make([]int, len(xs))
	for i, x := range xs {
		out[i] = dec(d, c, x)
	}
	return out
}

func bindBase[T comparable](d *drv, c baseAPI[T], cv *codec[T]) {
	d.size, d.empty, d.clear, d.str = c.Size, c.Empty, c.Clear, c.String
	d.container = c
	d.values = func() []int { return decs(d, cv, c.Values()) }
	d.toJSON, d.fromJSON = c.ToJSON, c.FromJSON
	d.marshal = func() ([]byte, error) { return json.Marshal(c) }
	d.unmarshal = func(b []byte) error { return json.Unmarshal(b, c) }
}

// goName: the Go type behind an atom type
func goName(typ string) string {
	switch typ {
	case "tstring":
		return "string"
	case "tint", "rank":
		return "int"
	}
	return typ
}

// newDrv constructs the container described by cfg: the string side, or its int twin.
func newDrv(cfg Config, twin bool) *drv {
	d := &drv{cfg: cfg, twin: twin}
	kv := isKVKind(cfg.Kind)
	if twin {
		d.label, d.kt, d.vt = "int twin", "rank", "rank"
		build(d, rankCodec, rankCodec, nil)
	} else {
		d.label, d.kt, d.vt = "string side", cfg.KT, cfg.VT
		if !kv {
			d.vt = cfg.KT
		}
		dispatch(d, kv)
	}
	if !kv && cfg.KT == "ptr" { // pointer identity: Contains / IndexOf are meaningless after a reload
		d.contains, d.indexOf = nil, nil
	}
	if cc, ok := d.container.(containers.Container[float64]); ok && !twin {
		d.sortedValues = func() []int { return decs(d, floatCodec, containers.GetSortedValues(cc)) }
		d.sortedValuesFunc = func(rev bool) []int {
			return decs(d, floatCodec, containers.GetSortedValuesFunc(cc, floatCodec.cmpFn(rev)))
		}
	}
	return d
}

func dispatch(d *drv, kv bool) {
	cfg := d.cfg
	if !kv {
		switch goName(cfg.KT) {
		case "string":
			build(d, strOf(cfg.KT), strOf(cfg.KT), nil)
		case "int":
			build(d, intOf(cfg.KT), intOf(cfg.KT), nil)
		case "struct":
			build(d, structCodec, structCodec, nil)
		case "ptr":
			build(d, ptrCodec, ptrCodec, nil)
		case "float":
			var ct *ctors[float64, float64]
			if cfg.Default {
				ct = defaultCtors[float64, float64]()
			}
			build(d, floatCodec, floatCodec, ct)
		default:
			panic("strprobe: unknown element type " + cfg.KT)
		}
		return
	}
	switch goName(cfg.KT) + "/" + goName(cfg.VT) {
	case "string/string":
		build(d, strOf(cfg.KT), strOf(cfg.VT), nil)
	case "int/string":
		build(d, intOf(cfg.KT), strOf(cfg.VT), nil)
	case "string/int":
		build(d, strOf(cfg.KT), intOf(cfg.VT), nil)
	case "int/int":
		build(d, intOf(cfg.KT), intOf(cfg.VT), nil)
	case "string/struct":
		build(d, strOf(cfg.KT), structCodec, nil)
	case "int/struct":
		build(d, intOf(cfg.KT), structCodec, nil)
	case "string/ptr":
		build(d, strOf(cfg.KT), ptrCodec, nil)
	case "int/ptr":
		build(d, intOf(cfg.KT), ptrCodec, nil)
	case "dur/string":
		build(d, durCodec, strOf(cfg.VT), nil)
	case "dur/struct":
		build(d, durCodec, structCodec, nil)
	case "duration/int":
		build(d, durationCodec, intOf(cfg.VT), nil)
	case "duration/string":
		build(d, durationCodec, strOf(cfg.VT), nil)
	case "float/string":
		var ct *ctors[float64, string]
		if cfg.Default {
			ct = defaultCtors[float64, string]()
		}
		build(d, floatCodec, strOf(cfg.VT), ct)
	case "float/float":
		var ct *ctors[float64, float64]
		if cfg.Default {
			ct = defaultCtors[float64, float64]()
		}
		build(d, floatCodec, floatCodec, ct)
	default:
		panic("strprobe: unknown instantiation " + cfg.KT + "/" + cfg.VT)
	}
}

func build[K comparable, V comparable](d *drv, ck *codec[K], cv *codec[V], ct *ctors[K, V]) {
	if ct == nil {
		ct = &ctors[K, V]{}
	}
	switch d.cfg.Kind {
	case "ArrayList", "SinglyLinkedList", "DoublyLinkedList":
		constructList(d, ck)
	case "HashSet", "TreeSet", "LinkedHashSet":
		constructSet(d, ck, ct.treeSet)
	case "ArrayStack", "LinkedListStack", "ArrayQueue", "LinkedListQueue", "CircularBuffer", "BinaryHeap", "PriorityQueue":
		constructLinear(d, ck, ct.heap, ct.pq)
	default:
		constructMap(d, ck, cv, ct)
	}
}

// ---------- iteration ----------

const walkLimit = 1 << 16

func walkIdxF[T comparable](d *drv, it containers.IteratorWithIndex[T], c *codec[T]) [][2]int {
	out := [][2]int{}
	for n := 0; it.Next() && n < walkLimit; n++ {
		out = append(out, [2]int{it.Index(), dec(d, c, it.Value())})
	}
	return out
}

func walkIdxB[T comparable](d *drv, it containers.ReverseIteratorWithIndex[T], c *codec[T]) [][2]int {
	out := [][2]int{}
	it.End()
	for n := 0; it.Prev() && n < walkLimit; n++ {
		out = append(out, [2]int{it.Index(), dec(d, c, it.Value())})
	}
	return out
}

func walkKeyF[K, V comparable](d *drv, it containers.IteratorWithKey[K, V], ck *codec[K], cv *codec[V]) [][2]int {
	out := [][2]int{}
	for n := 0; it.Next() && n < walkLimit; n++ {
		out = append(out, [2]int{dec(d, ck, it.Key()), dec(d, cv, it.Value())})
	}
	return out
}

func walkKeyB[K, V comparable](d *drv, it containers.ReverseIteratorWithKey[K, V], ck *codec[K], cv *codec[V]) [][2]int {
	out := [][2]int{}
	it.End()
	for n := 0; it.Prev() && n < walkLimit; n++ {
		out = append(out, [2]int{dec(d, ck, it.Key()), dec(d, cv, it.Value())})
	}
	return out
}

func sortedInts(l []int) []int {
	out := append([]int{}, l...)
	sort.Ints(out)
	return out
}

func optVal(v int, ok bool) string {
	if !ok {
		return "none"
	}
	return fmt.Sprint(v)
}
