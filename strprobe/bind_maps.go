package main

// Bindings of the five maps and the three key-value trees, and the tree shapes (in ranks).

import (
	"cmp"
	"encoding/json"
	"fmt"
	"sort"
	"strconv"
	"strings"

	"github.com/emirpasic/gods/v2/maps/hashbidimap"
	"github.com/emirpasic/gods/v2/maps/hashmap"
	"github.com/emirpasic/gods/v2/maps/linkedhashmap"
	"github.com/emirpasic/gods/v2/maps/treebidimap"
	"github.com/emirpasic/gods/v2/maps/treemap"
	"github.com/emirpasic/gods/v2/queues/priorityqueue"
	"github.com/emirpasic/gods/v2/sets/treeset"
	"github.com/emirpasic/gods/v2/trees/avltree"
	"github.com/emirpasic/gods/v2/trees/binaryheap"
	"github.com/emirpasic/gods/v2/trees/btree"
	rbt "github.com/emirpasic/gods/v2/trees/redblacktree"
)

const maxNodes = 1 << 20

// (c k v left right), () for nil, c = 1 black / 0 red
func rbShape[K comparable, V any](root *rbt.Node[K, V], key func(K) int, val func(V) int) string {
	var b strings.Builder
	budget := maxNodes
	var rec func(n *rbt.Node[K, V])
	rec = func(n *rbt.Node[K, V]) {
		if n == nil || budget <= 0 {
			b.WriteString("()")
			return
		}
		budget--
		if n.VerifIsRed() {
			b.WriteString("(0 ")
		} else {
			b.WriteString("(1 ")
		}
		b.WriteString(strconv.Itoa(key(n.Key)))
		b.WriteByte(' ')
		b.WriteString(strconv.Itoa(val(n.Value)))
		b.WriteByte(' ')
		rec(n.Left)
		b.WriteByte(' ')
		rec(n.Right)
		b.WriteByte(')')
	}
	rec(root)
	return b.String()
}

func rbLinks[K comparable, V any](root *rbt.Node[K, V], size int) bool {
	if root == nil {
		return size == 0
	}
	if root.Parent != nil {
		return false
	}
	count := 0
	ok := true
	var rec func(n *rbt.Node[K, V])
	rec = func(n *rbt.Node[K, V]) {
		count++
		if count > size+1 || count > maxNodes {
			ok = false
			return
		}
		for _, ch := range []*rbt.Node[K, V]{n.Left, n.Right} {
			if ch != nil && ok {
				if ch.Parent != n {
					ok = false
					return
				}
				rec(ch)
			}
		}
	}
	rec(root)
	return ok && count == size
}

// (b k v left right)
func avlShape[K comparable, V any](root *avltree.Node[K, V], key func(K) int, val func(V) int) string {
	var b strings.Builder
	budget := maxNodes
	var rec func(n *avltree.Node[K, V])
	rec = func(n *avltree.Node[K, V]) {
		if n == nil || budget <= 0 {
			b.WriteString("()")
			return
		}
		budget--
		fmt.Fprintf(&b, "(%d %d %d ", n.VerifBalance(), key(n.Key), val(n.Value))
		rec(n.Children[0])
		b.WriteByte(' ')
		rec(n.Children[1])
		b.WriteByte(')')
	}
	rec(root)
	return b.String()
}

func avlLinks[K comparable, V any](root *avltree.Node[K, V], size int) bool {
	if root == nil {
		return size == 0
	}
	if root.Parent != nil {
		return false
	}
	count := 0
	ok := true
	var rec func(n *avltree.Node[K, V])
	rec = func(n *avltree.Node[K, V]) {
		count++
		if count > size+1 || count > maxNodes {
			ok = false
			return
		}
		for _, ch := range n.Children {
			if ch != nil && ok {
				if ch.Parent != n {
					ok = false
					return
				}
				rec(ch)
			}
		}
	}
	rec(root)
	return ok && count == size
}

// (((k v) ...) (children...)), () for the empty tree
func btShape[K comparable, V any](root *btree.Node[K, V], key func(K) int, val func(V) int) string {
	if root == nil {
		return "()"
	}
	var b strings.Builder
	budget := maxNodes
	var rec func(n *btree.Node[K, V])
	rec = func(n *btree.Node[K, V]) {
		if n == nil || budget <= 0 {
			b.WriteString("()")
			return
		}
		budget--
		b.WriteString("((")
		for i, e := range n.Entries {
			if i > 0 {
				b.WriteByte(' ')
			}
			if e == nil {
				b.WriteString("()")
				continue
			}
			fmt.Fprintf(&b, "(%d %d)", key(e.Key), val(e.Value))
		}
		b.WriteString(") (")
		for i, ch := range n.Children {
			if i > 0 {
				b.WriteByte(' ')
			}
			rec(ch)
		}
		b.WriteString("))")
	}
	rec(root)
	return b.String()
}

func btLinks[K comparable, V any](root *btree.Node[K, V], size int) bool {
	if root == nil {
		return size == 0
	}
	if root.Parent != nil {
		return false
	}
	count := 0
	ok := true
	var rec func(n *btree.Node[K, V])
	rec = func(n *btree.Node[K, V]) {
		count += len(n.Entries)
		if count > size+1 || count > maxNodes {
			ok = false
			return
		}
		for _, ch := range n.Children {
			if !ok {
				return
			}
			if ch == nil || ch.Parent != n {
				ok = false
				return
			}
			rec(ch)
		}
	}
	rec(root)
	return ok && count == size
}

// ---------- maps ----------

type mapAPI[K comparable, V comparable] interface {
	baseAPI[V]
	Put(key K, value V)
	Get(key K) (V, bool)
	Remove(key K)
	Keys() []K
}

func bindMapCommon[K, V comparable](d *drv, m mapAPI[K, V], ck *codec[K], cv *codec[V]) {
	bindBase[V](d, m, cv)
	d.keys = func() []int { return decs(d, ck, m.Keys()) }
	d.put = func(k, v int) { m.Put(ck.enc(k), cv.enc(v)) }
	d.remove = func(k int) { m.Remove(ck.enc(k)) }
	d.goMapJSON = func() ([]byte, error) {
		mm := map[K]V{}
		for _, k := range m.Keys() {
			mm[k], _ = m.Get(k)
		}
		return json.Marshal(mm)
	}
	d.get = func(k int) (int, bool) {
		v, ok := m.Get(ck.enc(k))
		if !ok {
			return 0, false
		}
		return dec(d, cv, v), true
	}
}

// entries of a hashmap.Map ascending by key rank
func hashMapEntries[K, V comparable](d *drv, m *hashmap.Map[K, V], ck *codec[K], cv *codec[V]) [][2]int {
	out := [][2]int{}
	for _, k := range m.Keys() {
		v, _ := m.Get(k)
		out = append(out, [2]int{dec(d, ck, k), dec(d, cv, v)})
	}
	sort.Slice(out, func(i, j int) bool { return out[i][0] < out[j][0] })
	return out
}

func constructMap[K, V comparable](d *drv, ck *codec[K], cv *codec[V], ct *ctors[K, V]) {
	if ct == nil {
		ct = &ctors[K, V]{}
	}
	key := func(k K) int { return dec(d, ck, k) }
	val := func(v V) int { return dec(d, cv, v) }
	kcmp := ck.cmpCfg(d.cfg.KRev, d.cfg.KTie)
	switch d.cfg.Kind {
	case "HashMap":
		m := hashmap.New[K, V]()
		bindMapCommon[K, V](d, m, ck, cv)
		d.links = func() bool { return true }
		d.fingerprint = func() string { return "HM" + fmt.Sprint(hashMapEntries(d, m, ck, cv)) }
	case "TreeMap":
		m := treemap.NewWith[K, V](kcmp)
		if ct.treeMap != nil {
			m = ct.treeMap()
		}
		bindMapCommon[K, V](d, m, ck, cv)
		d.iterF = func() [][2]int { return walkKeyF[K, V](d, m.Iterator(), ck, cv) }
		d.iterB = func() [][2]int { return walkKeyB[K, V](d, m.Iterator(), ck, cv) }
		d.links = func() bool { t := m.VerifInner(); return rbLinks(t.Root, t.Size()) }
		d.fingerprint = func() string {
			t := m.VerifInner()
			return fmt.Sprintf("TM%s size=%d", rbShape(t.Root, key, val), t.Size())
		}
	case "LinkedHashMap":
		m := linkedhashmap.New[K, V]()
		bindMapCommon[K, V](d, m, ck, cv)
		d.iterF = func() [][2]int { return walkKeyF[K, V](d, m.Iterator(), ck, cv) }
		d.iterB = func() [][2]int { return walkKeyB[K, V](d, m.Iterator(), ck, cv) }
		tableEntries := func() [][2]int {
			out := [][2]int{}
			for k, v := range m.VerifTable() {
				out = append(out, [2]int{key(k), val(v)})
			}
			sort.Slice(out, func(i, j int) bool { return out[i][0] < out[j][0] })
			return out
		}
		d.links = func() bool {
			ord := m.VerifOrdering()
			if !dllLinks(ord) {
				return false
			}
			f, _, _, _ := ord.VerifChain(walkLimit)
			tbl := m.VerifTable()
			seen := map[K]bool{}
			for _, k := range f { // compared with ==: -0 and +0 are the same key
				if _, ok := tbl[k]; !ok || seen[k] {
					return false
				}
				seen[k] = true
			}
			return len(tbl) == len(f)
		}
		d.fingerprint = func() string { return "LHM" + fmt.Sprint(tableEntries()) + dllFP(d, m.VerifOrdering(), ck) }
	case "HashBidiMap":
		m := hashbidimap.New[K, V]()
		bindMapCommon[K, V](d, m, ck, cv)
		d.getKey = func(v int) (int, bool) {
			k, ok := m.GetKey(cv.enc(v))
			if !ok {
				return 0, false
			}
			return key(k), true
		}
		d.links = func() bool { return true }
		d.fingerprint = func() string {
			return "HBM" + fmt.Sprint(hashMapEntries(d, m.VerifInner(), ck, cv)) + fmt.Sprint(hashMapEntries(d, m.VerifInverse(), cv, ck))
		}
	case "TreeBidiMap":
		m := treebidimap.NewWith[K, V](kcmp, cv.cmpCfg(d.cfg.VRev, d.cfg.VTie))
		if ct.treeBidi != nil {
			m = ct.treeBidi()
		}
		bindMapCommon[K, V](d, m, ck, cv)
		d.getKey = func(v int) (int, bool) {
			k, ok := m.GetKey(cv.enc(v))
			if !ok {
				return 0, false
			}
			return key(k), true
		}
		d.iterF = func() [][2]int { return walkKeyF[K, V](d, m.Iterator(), ck, cv) }
		d.iterB = func() [][2]int { return walkKeyB[K, V](d, m.Iterator(), ck, cv) }
		d.links = func() bool {
			f, i := m.VerifInner(), m.VerifInverse()
			return rbLinks(f.Root, f.Size()) && rbLinks(i.Root, i.Size())
		}
		d.fingerprint = func() string {
			f, i := m.VerifInner(), m.VerifInverse()
			return fmt.Sprintf("TBM%s size=%d %s size=%d", rbShape(f.Root, key, val), f.Size(), rbShape(i.Root, val, key), i.Size())
		}
	case "RedBlackTree":
		t := rbt.NewWith[K, V](kcmp)
		if ct.rbt != nil {
			t = ct.rbt()
		}
		bindMapCommon[K, V](d, t, ck, cv)
		d.iterF = func() [][2]int { return walkKeyF[K, V](d, t.Iterator(), ck, cv) }
		d.iterB = func() [][2]int { return walkKeyB[K, V](d, t.Iterator(), ck, cv) }
		d.links = func() bool { return rbLinks(t.Root, t.Size()) }
		d.fingerprint = func() string { return fmt.Sprintf("RB%s size=%d", rbShape(t.Root, key, val), t.Size()) }
	case "AVLTree":
		t := avltree.NewWith[K, V](kcmp)
		if ct.avl != nil {
			t = ct.avl()
		}
		bindMapCommon[K, V](d, t, ck, cv)
		d.iterF = func() [][2]int { return walkKeyF[K, V](d, t.Iterator(), ck, cv) }
		d.iterB = func() [][2]int { return walkKeyB[K, V](d, t.Iterator(), ck, cv) }
		d.links = func() bool { return avlLinks(t.Root, t.Size()) }
		d.fingerprint = func() string { return fmt.Sprintf("AVL%s size=%d", avlShape(t.Root, key, val), t.Size()) }
	case "BTree":
		t := btree.NewWith[K, V](d.cfg.Order, kcmp)
		if ct.btree != nil {
			t = ct.btree(d.cfg.Order)
		}
		bindMapCommon[K, V](d, t, ck, cv)
		d.iterF = func() [][2]int { return walkKeyF[K, V](d, t.Iterator(), ck, cv) }
		d.iterB = func() [][2]int { return walkKeyB[K, V](d, t.Iterator(), ck, cv) }
		d.links = func() bool { return btLinks(t.Root, t.Size()) && t.VerifOrder() == d.cfg.Order }
		d.fingerprint = func() string {
			return fmt.Sprintf("BT%s size=%d m=%d", btShape(t.Root, key, val), t.Size(), t.VerifOrder())
		}
	}
}

// ctors: constructors that replace NewWith (the DEFAULT constructors of the cmp.Ordered types)
type ctors[K comparable, V comparable] struct {
	treeSet  func() *treeset.Set[K]
	treeMap  func() *treemap.Map[K, V]
	treeBidi func() *treebidimap.Map[K, V]
	rbt      func() *rbt.Tree[K, V]
	avl      func() *avltree.Tree[K, V]
	btree    func(order int) *btree.Tree[K, V]
	heap     func() *binaryheap.Heap[K]
	pq       func() *priorityqueue.Queue[K]
}

func defaultCtors[K, V cmp.Ordered]() *ctors[K, V] {
	return &ctors[K, V]{
		treeSet:  func() *treeset.Set[K] { return treeset.New[K]() },
		treeMap:  treemap.New[K, V],
		treeBidi: treebidimap.New[K, V],
		rbt:      rbt.New[K, V],
		avl:      avltree.New[K, V],
		btree:    btree.New[K, V],
		heap:     binaryheap.New[K],
		pq:       priorityqueue.New[K],
	}
}
