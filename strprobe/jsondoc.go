package main

// JSON documents: the order-preserving token decoder, what a document denotes (computed with
// encoding/json only, independently of the containers), and the generators of valid and
// malformed documents for a given atom typing.

import (
	"bytes"
	"encoding/json"
	"errors"
	"fmt"
	"io"
	"reflect"
	"sort"
	"strconv"
	"strings"
	"unicode/utf16"
	"unicode/utf8"
)

// ---------- order-preserving decoder ----------

type jnode struct {
	kind  byte // 'a' array, 'o' object, 's' string, 'n' number, 't' true, 'f' false, 'z' null
	str   string
	keys  []string
	elems []*jnode
}

func parseValue(dec *json.Decoder) (*jnode, error) {
	tok, err := dec.Token()
	if err != nil {
		return nil, err
	}
	switch t := tok.(type) {
	case json.Delim:
		switch t {
		case '[':
			n := &jnode{kind: 'a'}
			for dec.More() {
				e, err := parseValue(dec)
				if err != nil {
					return nil, err
				}
				n.elems = append(n.elems, e)
			}
			if _, err := dec.Token(); err != nil {
				return nil, err
			}
			return n, nil
		case '{':
			n := &jnode{kind: 'o'}
			for dec.More() {
				kt, err := dec.Token()
				if err != nil {
					return nil, err
				}
				k, ok := kt.(string)
				if !ok {
					return nil, fmt.Errorf("object key is not a string: %v", kt)
				}
				e, err := parseValue(dec)
				if err != nil {
					return nil, err
				}
				n.keys = append(n.keys, k)
				n.elems = append(n.elems, e)
			}
			if _, err := dec.Token(); err != nil {
				return nil, err
			}
			return n, nil
		}
		return nil, fmt.Errorf("unexpected delimiter %v", t)
	case string:
		return &jnode{kind: 's', str: t}, nil
	case json.Number:
		return &jnode{kind: 'n', str: string(t)}, nil
	case bool:
		if t {
			return &jnode{kind: 't'}, nil
		}
		return &jnode{kind: 'f'}, nil
	case nil:
		return &jnode{kind: 'z'}, nil
	}
	return nil, fmt.Errorf("unexpected token %v", tok)
}

func parseDoc(data []byte) (*jnode, error) {
	if !json.Valid(data) {
		return nil, errors.New("not valid JSON")
	}
	dec := json.NewDecoder(bytes.NewReader(data))
	dec.UseNumber()
	n, err := parseValue(dec)
	if err != nil {
		return nil, err
	}
	if _, err := dec.Token(); err != io.EOF {
		return nil, errors.New("trailing data after the top-level value")
	}
	return n, nil
}

// ---------- content: a document in ranks ----------

type content struct {
	kv  bool
	arr []int
	mem [][2]int // members in document order, duplicates included
}

func (c content) text(kt, vt string) string {
	if !c.kv {
		return atomsText(kt, c.arr)
	}
	parts := make([]string, len(c.mem))
	for i, m := range c.mem {
		parts[i] = atomText(kt, m[0]) + ": " + atomText(vt, m[1])
	}
	return "{" + strings.Join(parts, ", ") + "}"
}

func (c content) ranks() string {
	if !c.kv {
		return fmt.Sprint(c.arr)
	}
	return pairsText(c.mem)
}

func (c content) empty() bool { return len(c.arr) == 0 && len(c.mem) == 0 }

// sorted: array ascending / members ascending by key (stable)
func (c content) sorted() content {
	out := content{kv: c.kv, arr: sortedInts(c.arr), mem: append([][2]int{}, c.mem...)}
	sort.SliceStable(out.mem, func(i, j int) bool { return out.mem[i][0] < out.mem[j][0] })
	return out
}

func (c content) dupKey() (int, bool) {
	seen := map[int]bool{}
	for _, m := range c.mem {
		if seen[m[0]] {
			return m[0], true
		}
		seen[m[0]] = true
	}
	return 0, false
}

func scalarRank(n *jnode, typ string) (int, error) { return atomOf(typ).fromNode(n) }

func keyRank(k, typ string) (int, error) {
	a := atomOf(typ)
	if a.fromKey == nil {
		return 0, errors.New(typ + " is not a key type")
	}
	r, err := a.fromKey(k)
	if err != nil {
		return 0, fmt.Errorf("key %s: %v", showString(k), err)
	}
	return r, nil
}

func kindName(k byte) string {
	return map[byte]string{'a': "array", 'o': "object", 's': "string", 'n': "number", 't': "true", 'f': "false", 'z': "null"}[k]
}

// docContent maps a decoded document through rank
func docContent(n *jnode, kv bool, kt, vt string) (content, error) {
	c := content{kv: kv}
	if kv {
		if n.kind != 'o' {
			return c, fmt.Errorf("top-level JSON %s where an object is expected", kindName(n.kind))
		}
		for i, k := range n.keys {
			kr, err := keyRank(k, kt)
			if err != nil {
				return c, fmt.Errorf("member %d: %v", i, err)
			}
			vr, err := scalarRank(n.elems[i], vt)
			if err != nil {
				return c, fmt.Errorf("member %d (key %s): %v", i, showString(k), err)
			}
			c.mem = append(c.mem, [2]int{kr, vr})
		}
		return c, nil
	}
	if n.kind != 'a' {
		return c, fmt.Errorf("top-level JSON %s where an array is expected", kindName(n.kind))
	}
	for i, e := range n.elems {
		r, err := scalarRank(e, kt)
		if err != nil {
			return c, fmt.Errorf("element %d: %v", i, err)
		}
		c.arr = append(c.arr, r)
	}
	return c, nil
}

// ---------- denotation with encoding/json only ----------

// denote: what encoding/json says the document denotes for []T / an ordered member list of
// (K, V); an error when it is not a valid document of that type.
func denote(doc []byte, kv bool, kt, vt string) (content, error) {
	c := content{kv: kv}
	if !json.Valid(doc) {
		return c, errors.New("invalid JSON")
	}
	if !kv {
		arr, err := atomOf(kt).decodeArray(doc)
		c.arr = arr
		return c, err
	}
	dec := json.NewDecoder(bytes.NewReader(doc))
	tok, err := dec.Token()
	if err != nil {
		return c, err
	}
	if tok == nil {
		return c, nil // null
	}
	if tok != json.Delim('{') {
		return c, fmt.Errorf("top-level %v where an object is expected", tok)
	}
	for dec.More() {
		ktok, err := dec.Token()
		if err != nil {
			return c, err
		}
		ks, _ := ktok.(string)
		kr, err := keyRank(ks, kt)
		if err != nil {
			return c, err
		}
		vr, err := atomOf(vt).decode(dec)
		if err != nil {
			return c, err
		}
		c.mem = append(c.mem, [2]int{kr, vr})
	}
	return c, nil
}

// typedDecodeFails: does encoding/json reject the document for []T / map[K]V?
func typedDecodeFails(doc []byte, kv bool, kt, vt string) bool {
	var target reflect.Value
	if kv {
		target = reflect.New(reflect.MapOf(atomOf(kt).goType, atomOf(vt).goType))
	} else {
		target = reflect.New(reflect.SliceOf(atomOf(kt).goType))
	}
	return json.Unmarshal(doc, target.Interface()) != nil
}

// ---------- rendering ----------

type docGen struct {
	g      *rng
	kv     bool
	kt, vt string
	style  int // 0 plain encoding/json, 1 no HTML escaping, 2 random per-character escapes, 3 every character escaped
	wsPct  int
}

func (c *docGen) ws() string {
	if !c.g.chance(c.wsPct) {
		return ""
	}
	return c.g.pick([]string{" ", "  ", "\n", "\t", " \n ", "\r\n"})
}

var shortEscape = map[rune]string{'"': `\"`, '\\': `\\`, '/': `\/`, '\b': `\b`, '\f': `\f`, '\n': `\n`, '\r': `\r`, '\t': `\t`}

func (c *docGen) uEscape(r rune) string {
	hex := "%04x"
	if c.g.chance(50) {
		hex = "%04X"
	}
	if r >= 0x10000 {
		r1, r2 := utf16.EncodeRune(r)
		return fmt.Sprintf(`\u`+hex+`\u`+hex, r1, r2)
	}
	return fmt.Sprintf(`\u`+hex, r)
}

// strLit writes a JSON string literal denoting s
func (c *docGen) strLit(s string) string {
	switch c.style {
	case 0:
		b, _ := json.Marshal(s)
		return string(b)
	case 1:
		var buf bytes.Buffer
		enc := json.NewEncoder(&buf)
		enc.SetEscapeHTML(false)
		enc.Encode(s)
		return strings.TrimSuffix(buf.String(), "\n")
	}
	var b strings.Builder
	b.WriteByte('"')
	for _, r := range s {
		mustEscape := r == '"' || r == '\\' || r < 0x20
		short, hasShort := shortEscape[r]
		switch {
		case c.style == 3:
			b.WriteString(c.uEscape(r))
		case mustEscape || c.g.chance(35):
			if hasShort && c.g.chance(60) {
				b.WriteString(short)
			} else {
				b.WriteString(c.uEscape(r))
			}
		default:
			b.WriteRune(r)
		}
	}
	b.WriteByte('"')
	return b.String()
}

func (c *docGen) lit(typ string, r int) string { return atomOf(typ).lit(c, r) }

func (c *docGen) keyLit(typ string, r int) string {
	if f := atomOf(typ).keyLit; f != nil {
		return f(c, r)
	}
	return `"k` + strconv.Itoa(r) + `"` // not a key type (only used in malformed documents)
}

// nullAt >= 0: that element / member value is written as null (denotes the zero value)
func (c *docGen) render(ct content, nullAt int) []byte {
	var b bytes.Buffer
	b.WriteString(c.ws())
	if !ct.kv {
		b.WriteByte('[')
		for i, r := range ct.arr {
			if i > 0 {
				b.WriteByte(',')
			}
			b.WriteString(c.ws())
			if i == nullAt {
				b.WriteString("null")
			} else {
				b.WriteString(c.lit(c.kt, r))
			}
			b.WriteString(c.ws())
		}
		if len(ct.arr) == 0 {
			b.WriteString(c.ws())
		}
		b.WriteByte(']')
	} else {
		b.WriteByte('{')
		for i, m := range ct.mem {
			if i > 0 {
				b.WriteByte(',')
			}
			b.WriteString(c.ws())
			b.WriteString(c.keyLit(c.kt, m[0]))
			b.WriteString(c.ws())
			b.WriteByte(':')
			b.WriteString(c.ws())
			if i == nullAt {
				b.WriteString("null")
			} else {
				b.WriteString(c.lit(c.vt, m[1]))
			}
			b.WriteString(c.ws())
		}
		if len(ct.mem) == 0 {
			b.WriteString(c.ws())
		}
		b.WriteByte('}')
	}
	b.WriteString(c.ws())
	return b.Bytes()
}

func zeroRank(typ string) int { return atomOf(typ).zero }

// plainDoc renders a content for the int twin (ranks as decimals, no decoration)
func plainDoc(ct content) []byte {
	c := &docGen{g: newRng(0), kv: ct.kv, kt: "rank", vt: "rank"}
	return c.render(ct, -1)
}

// ---------- malformed documents ----------

var syntaxErrors = []string{
	`["a","b"`, `["a" "b"]`, `{"a":}`, `]`, ``, `tru`, `["a",]`, `{"a":"b",}`, `{a:"b"}`, `['a']`, `["a"]]`,
	`{"a":"b"}}`, `["a"]x`, `nul`, `{"a" "b"}`, `[`, `{`, `{"a"`, `{"a":`, `["a",,"b"]`, ` `, `["a";"b"]`,
	`["a"]["b"]`, `{"a":"b"}{"c":"d"}`, `["\x"]`, `["\u12"]`, "[\"a\nb\"]", "[\"a\tb\"]", `["a]`, `{"a":"b","c"}`,
	`["\ud83d\u"]`, `{"a":"\"}`, `{"\":"a"}`, "[\"\x00\"]", `[1,2`, `{"1":2,}`, `[01]`, `[1,,2]`, `{"1":2 "2":3}`,
	`{"a":1}}`, `[1]]`, `null]`, `{} }`, `[] ]`, `null}`, `{}}`, `[]]`, `null null`, `{"a":"b"} ]`, `["a"] }`, `[],`, `{},`, `null,`,
	`[-]`, `[+1]`, `[.5]`, "\xef\xbb\xbf[]", `{"a":"b"]`, `["a"}`, `{"a":"b":"c"}`, `{"a"}`, `[:]`, `{,}`,
}

func (c *docGen) malformed(atom func() int, validDoc func() []byte) (doc []byte, what string) {
	g := c.g
	badFor := func(typ string) string { return g.pick(atomOf(typ).bad) }
	switch g.intn(6) {
	case 0:
		return []byte(g.pick(syntaxErrors)), "syntactically invalid"
	case 1:
		d := bytes.TrimSpace(validDoc())
		for tries := 0; len(d) < 3 && tries < 8; tries++ {
			d = bytes.TrimSpace(validDoc())
		}
		if len(d) == 0 {
			return d, "empty input"
		}
		return d[:g.intn(len(d))], "truncated"
	case 2, 3:
		n := g.between(1, 5)
		at := g.pick([]string{"first", "middle", "last"})
		pos := map[string]int{"first": 0, "middle": n / 2, "last": n - 1}[at]
		var parts []string
		used := map[int]bool{}
		keyBad := c.kv && atomOf(c.kt).class == "int" && g.chance(35)
		for i := 0; i < n; i++ {
			if !c.kv {
				if i == pos {
					parts = append(parts, badFor(c.kt))
				} else {
					parts = append(parts, c.lit(c.kt, atom()))
				}
				continue
			}
			k := atom()
			for tries := 0; used[k] && tries < 20; tries++ {
				k = g.intn(poolN)
			}
			used[k] = true
			key, val := c.keyLit(c.kt, k), c.lit(c.vt, atom())
			if i == pos {
				if keyBad {
					key = g.pick([]string{`"a"`, `""`, `"1.5"`, `" 1"`, `"1 "`, `"0x1"`, `"9223372036854775808"`, `"1e1"`, `"--1"`, `"true"`})
				} else {
					val = badFor(c.vt)
				}
			}
			parts = append(parts, key+":"+val)
		}
		if c.kv {
			return []byte("{" + strings.Join(parts, ",") + "}"), "wrongly typed at the " + at + " member"
		}
		return []byte("[" + strings.Join(parts, ",") + "]"), "wrongly typed at the " + at + " element"
	case 4:
		if g.chance(30) {
			return []byte(g.pick([]string{`"a"`, "1", "true", "false", `""`, "0", "-1", `"null"`, "1.5"})), "top-level scalar"
		}
		a, b := atom(), atom()
		if c.kv {
			return []byte(g.pick([]string{"[]", "[" + c.lit(c.vt, a) + "]", "[" + c.lit(c.vt, a) + "," + c.lit(c.vt, b) + "]",
				"[{" + c.keyLit(c.kt, a) + ":" + c.lit(c.vt, b) + "}]", "[[" + c.keyLit(c.kt, a) + "," + c.lit(c.vt, b) + "]]"})), "array for an object kind"
		}
		return []byte(g.pick([]string{"{}", "{" + c.strLit("0") + ":" + c.lit(c.kt, a) + "}",
			"{" + c.keyLit(c.kt, a) + ":" + c.lit(c.kt, b) + "}", `{"0":` + c.lit(c.kt, a) + `,"1":` + c.lit(c.kt, b) + "}"})), "object for an array kind"
	}
	d := validDoc()
	return append(append([]byte{}, d...), []byte(g.pick([]string{"x", ",", "]", "}", "[]", "{}", "1", "null", `""`, `"a"`}))...), "valid document followed by garbage"
}

func docText(doc []byte) string {
	if len(doc) > 700 {
		return fmt.Sprintf("%s...(%d bytes)", safeText(doc[:160]), len(doc))
	}
	return safeText(doc)
}

// safeText keeps documents readable in histories: printable bytes stay, the rest is shown Go-escaped
func safeText(b []byte) string {
	if utf8.Valid(b) {
		printable := true
		for _, r := range string(b) {
			if r < 0x20 || r == 0x7f || r == 0x2028 || r == 0x2029 || r == utf8.RuneError {
				printable = false
				break
			}
		}
		if printable {
			return "`" + string(b) + "`"
		}
	}
	return strconv.QuoteToASCII(string(b))
}
