package main

// Random generator, operations (in ranks), their application to a driver, and the observation
// vector used for every comparison (twin agreement, reload equality, unchanged-after-error).

import (
	"fmt"
	"sort"
	"strings"
)

// ---------- deterministic random numbers (splitmix64) ----------

type rng struct{ s uint64 }

func newRng(parts ...uint64) *rng {
	g := &rng{s: 0x9E3779B97F4A7C15}
	for _, p := range parts {
		g.s ^= p + 0x9E3779B97F4A7C15 + (g.s << 6) + (g.s >> 2)
		g.next()
	}
	return g
}

func (g *rng) next() uint64 {
	g.s += 0x9E3779B97F4A7C15
	z := g.s
	z = (z ^ (z >> 30)) * 0xBF58476D1CE4E5B9
	z = (z ^ (z >> 27)) * 0x94D049BB133111EB
	return z ^ (z >> 31)
}

func (g *rng) intn(n int) int {
	if n <= 0 {
		return 0
	}
	return int(g.next() % uint64(n))
}
func (g *rng) between(lo, hi int) int { return lo + g.intn(hi-lo+1) }
func (g *rng) chance(pct int) bool    { return g.intn(100) < pct }
func (g *rng) pick(l []string) string { return l[g.intn(len(l))] }

// ---------- operations ----------

type Op struct {
	Name string
	I, J int
	Vs   []int // ranks (Put: key, value)
	Rev  bool
}

func (o Op) text(cfg Config) string {
	kt, vt := cfg.KT, cfg.VT
	switch o.Name {
	case "Add", "Append", "Prepend", "RemoveVals", "PushAll":
		return o.Name + " " + atomsText(kt, o.Vs)
	case "Insert":
		return fmt.Sprintf("Insert %d %s", o.I, atomsText(kt, o.Vs))
	case "Set":
		return fmt.Sprintf("Set %d %s", o.I, atomText(kt, o.Vs[0]))
	case "RemoveAt":
		return fmt.Sprintf("RemoveAt %d", o.I)
	case "Swap":
		return fmt.Sprintf("Swap %d %d", o.I, o.J)
	case "Sort":
		return "Sort " + revName(o.Rev)
	case "Push", "Enqueue":
		return o.Name + " " + atomText(kt, o.Vs[0])
	case "Put":
		return fmt.Sprintf("Put %s %s", atomText(kt, o.Vs[0]), atomText(vt, o.Vs[1]))
	case "Remove":
		return "Remove " + atomText(kt, o.Vs[0])
	}
	return o.Name // Pop, Dequeue, Clear
}

// apply runs the operation and returns its result as text
func apply(d *drv, o Op) string {
	switch o.Name {
	case "Add":
		d.add(o.Vs...)
	case "Append":
		d.appendF(o.Vs...)
	case "Prepend":
		d.prepend(o.Vs...)
	case "Insert":
		d.insert(o.I, o.Vs...)
	case "Set":
		d.set(o.I, o.Vs[0])
	case "RemoveAt":
		d.removeAt(o.I)
	case "Swap":
		d.swap(o.I, o.J)
	case "Sort":
		d.sortBy(o.Rev)
	case "RemoveVals":
		d.removeVals(o.Vs...)
	case "Push":
		d.push(o.Vs[0])
	case "PushAll":
		d.pushAll(o.Vs...)
	case "Pop":
		return optVal(d.pop())
	case "Enqueue":
		d.enqueue(o.Vs[0])
	case "Dequeue":
		return optVal(d.dequeue())
	case "Put":
		d.put(o.Vs[0], o.Vs[1])
	case "Remove":
		d.remove(o.Vs[0])
	case "Clear":
		d.clear()
	default:
		panic("strprobe: unknown operation " + o.Name)
	}
	return "()"
}

type opGen struct {
	g   *rng
	cfg Config
	uni []int // the case's preferred atoms (ranks)

	forbid map[int]bool // atoms that must not be generated (NaN for the Go-map backed kinds)
}

func (c *opGen) atom() int {
	for {
		r := c.g.intn(poolN)
		if c.g.chance(80) {
			r = c.uni[c.g.intn(len(c.uni))]
		}
		if !c.forbid[r] {
			return r
		}
	}
}

func (c *opGen) atoms(lo, hi int) []int {
	n := c.g.between(lo, hi)
	out := make([]int, n)
	for i := range out {
		out[i] = c.atom()
	}
	return out
}

func (c *opGen) index(size int) int {
	switch x := c.g.intn(100); {
	case x < 5:
		return -1
	case x < 10:
		return size + 1
	case x < 25:
		return size // valid for Insert, just outside for the others
	}
	if size == 0 {
		return 0
	}
	return c.g.intn(size)
}

// next generates one mutator of the kind; size = current Size()
func (c *opGen) next(size int) Op {
	g := c.g
	kind := c.cfg.Kind
	if g.chance(4) {
		return Op{Name: "Clear"}
	}
	switch {
	case isListKind(kind):
		linked := kind != "ArrayList"
		switch x := g.intn(100); {
		case x < 30:
			return Op{Name: "Add", Vs: c.atoms(0, 3)}
		case x < 40 && linked:
			return Op{Name: "Append", Vs: c.atoms(0, 2)}
		case x < 50 && linked:
			return Op{Name: "Prepend", Vs: c.atoms(0, 3)}
		case x < 62:
			return Op{Name: "Insert", I: c.index(size), Vs: c.atoms(0, 3)}
		case x < 72:
			return Op{Name: "Set", I: c.index(size), Vs: []int{c.atom()}}
		case x < 86:
			return Op{Name: "RemoveAt", I: c.index(size)}
		case x < 94:
			return Op{Name: "Swap", I: c.index(size), J: c.index(size)}
		default:
			return Op{Name: "Sort", Rev: g.chance(50)}
		}
	case isSetKind(kind):
		if g.chance(65) {
			return Op{Name: "Add", Vs: c.atoms(0, 3)}
		}
		return Op{Name: "RemoveVals", Vs: c.atoms(0, 3)}
	case kind == "ArrayStack" || kind == "LinkedListStack":
		if g.chance(62) {
			return Op{Name: "Push", Vs: []int{c.atom()}}
		}
		return Op{Name: "Pop"}
	case kind == "BinaryHeap":
		switch x := g.intn(100); {
		case x < 45:
			return Op{Name: "Push", Vs: []int{c.atom()}}
		case x < 62:
			return Op{Name: "PushAll", Vs: c.atoms(0, 4)}
		default:
			return Op{Name: "Pop"}
		}
	case isKVKind(kind):
		if g.chance(65) {
			return Op{Name: "Put", Vs: []int{c.atom(), c.atom()}}
		}
		return Op{Name: "Remove", Vs: []int{c.atom()}}
	default: // the four queues
		pct := 62
		if kind == "CircularBuffer" {
			pct = 70 // overfill the ring (wrap-around)
		}
		if g.chance(pct) {
			return Op{Name: "Enqueue", Vs: []int{c.atom()}}
		}
		return Op{Name: "Dequeue"}
	}
}

// ---------- observation ----------

type comp struct{ name, val string }

func pairsText(ps [][2]int) string {
	var b strings.Builder
	b.WriteByte('[')
	for i, p := range ps {
		if i > 0 {
			b.WriteByte(' ')
		}
		fmt.Fprintf(&b, "%d:%d", p[0], p[1])
	}
	b.WriteByte(']')
	return b.String()
}

// observe produces the complete observable state in ranks.  Hash-ordered outputs are made
// canonical: HashSet values ascending; HashMap / HashBidiMap keys ascending and values in
// ascending key order (the raw Values() multiset is checked against them).
func observe(d *drv) []comp {
	kind := d.cfg.Kind
	var out []comp
	add := func(n, v string) { out = append(out, comp{n, v}) }
	size := d.size()
	add("size", fmt.Sprint(size))
	add("empty", fmt.Sprint(d.empty()))
	vals := d.values()
	wellFormed := len(vals) == size && d.empty() == (size == 0) && size >= 0
	if isKVKind(kind) {
		keys := d.keys()
		if len(keys) != size {
			wellFormed = false
		}
		if isHashKind(kind) {
			keys = sortedInts(keys)
			byKey := make([]int, 0, len(keys))
			for _, k := range keys {
				v, ok := d.get(k)
				if !ok {
					v = -2
				}
				byKey = append(byKey, v)
			}
			if fmt.Sprint(sortedInts(byKey)) != fmt.Sprint(sortedInts(vals)) {
				wellFormed = false
			}
			vals = byKey
		}
		add("keys", fmt.Sprint(keys))
		add("values", fmt.Sprint(vals))
		gets := make([]string, poolN)
		for k := 0; k < poolN; k++ {
			gets[k] = optVal(d.get(k))
		}
		add("get", strings.Join(gets, " "))
		if d.getKey != nil {
			for v := 0; v < poolN; v++ {
				gets[v] = optVal(d.getKey(v))
			}
			add("getkey", strings.Join(gets, " "))
		}
	} else {
		if kind == "HashSet" {
			vals = sortedInts(vals)
		}
		add("values", fmt.Sprint(vals))
	}
	if d.contains != nil {
		var b strings.Builder
		for v := 0; v < poolN; v++ {
			if d.contains(v) {
				b.WriteByte('1')
			} else {
				b.WriteByte('0')
			}
		}
		add("contains", b.String())
	}
	if d.indexOf != nil {
		idx := make([]int, poolN)
		for v := 0; v < poolN; v++ {
			idx[v] = d.indexOf(v)
		}
		add("indexof", fmt.Sprint(idx))
	}
	if d.getIdx != nil {
		var parts []string
		for i := -1; i <= size; i++ {
			parts = append(parts, optVal(d.getIdx(i)))
		}
		add("getidx", strings.Join(parts, " "))
	}
	if d.peek != nil {
		add("peek", optVal(d.peek()))
	}
	if d.full != nil {
		add("full", fmt.Sprint(d.full()))
	}
	if d.raw != nil {
		add("raw_array", fmt.Sprint(d.raw()))
	}
	if d.iterF != nil {
		add("iteration_forward", pairsText(d.iterF()))
	}
	if d.iterB != nil {
		add("iteration_backward", pairsText(d.iterB()))
	}
	add("well_formed", fmt.Sprint(wellFormed && d.links()))
	if len(d.foreign) > 0 {
		add("foreign_atoms", strings.Join(d.foreign, " "))
	}
	return out
}

// firstDiff returns the first component in which two observations differ
func firstDiff(a, b []comp) (name, av, bv string, differ bool) {
	for i := 0; i < len(a) || i < len(b); i++ {
		switch {
		case i >= len(a):
			return b[i].name, "<absent>", b[i].val, true
		case i >= len(b):
			return a[i].name, a[i].val, "<absent>", true
		case a[i].name != b[i].name:
			return a[i].name + "/" + b[i].name, a[i].val, b[i].val, true
		case a[i].val != b[i].val:
			return a[i].name, a[i].val, b[i].val, true
		}
	}
	return "", "", "", false
}

func obsText(o []comp) string {
	var b strings.Builder
	for _, c := range o {
		fmt.Fprintf(&b, "    %-19s %s\n", c.name, c.val)
	}
	return b.String()
}

// drain pops / dequeues until the container is empty
func drain(d *drv) []int {
	f := d.pop
	if f == nil {
		f = d.dequeue
	}
	out := []int{}
	if f == nil {
		return out
	}
	for n := d.size() + 8; n > 0; n-- {
		v, ok := f()
		if !ok {
			break
		}
		out = append(out, v)
	}
	return out
}

func sortedByCmp(l []int, rev bool) []int {
	out := append([]int{}, l...)
	if rev {
		sort.Sort(sort.Reverse(sort.IntSlice(out)))
	} else {
		sort.Ints(out)
	}
	return out
}
