package main

// The atom pools.  Every instantiation draws its elements / keys / values from a pool of N
// pairwise different atoms sorted ascending in the natural order of the type; rank(x) = index
// of x in that pool is an order-preserving bijection pool <-> 0..N-1.  The int twin of a
// container stores the ranks themselves.

import (
	"cmp"
	"fmt"
	"math"
	"sort"
	"strconv"
	"strings"
)

var long300 = strings.Repeat("0123456789", 29) + "abcdefghié" // 300 characters

// the string pool (40 strings, all valid UTF-8)
var stringPoolRaw = []string{
	"", "a", "b", "c", "aa", "A", "1", "10", "2", "-1", "true", "null", "key",
	`"`, `\`, `a"b\c`,
	"<", ">", "&", "/",
	"a b", "\t", "\n", "\r",
	"\a", "\v", "\x00", "\x1f", "\x7f",
	"é", "日本語", "\U0001F600", "\u2028", "\u2029",
	`{"a":1}`, `","`, `":"`, `[1,2]`, `\u00e9`,
	long300,
}

type codec[T comparable] struct {
	name string // "string", "int", "rank", "tstring", "tint"
	pool []T
	idx  map[T]int
	nat  func(a, b T) int
	show func(T) string
	ties map[string]func(a, b T) int // tying comparators (total preorders coarser than equality)
	find func(T) (int, bool)         // custom lookup (floats by bits, pointers by pointee); nil: idx
	mk   func(r int) T               // custom construction (a FRESH pointer per use); nil: pool[r]
}

// rankOf: the rank of an atom coming out of a container or a document
func (c *codec[T]) rankOf(x T) (int, bool) {
	if c.find != nil {
		return c.find(x)
	}
	r, ok := c.idx[x]
	return r, ok
}

func newCodec[T comparable](name string, pool []T, nat func(a, b T) int, show func(T) string) *codec[T] {
	p := append([]T{}, pool...)
	sort.Slice(p, func(i, j int) bool { return nat(p[i], p[j]) < 0 })
	c := &codec[T]{name: name, pool: p, idx: map[T]int{}, nat: nat, show: show}
	for i, x := range p {
		if _, dup := c.idx[x]; dup {
			panic("strprobe: duplicate atom in pool " + name + ": " + show(x))
		}
		c.idx[x] = i
	}
	return c
}

func (c *codec[T]) enc(r int) T {
	if c.mk != nil {
		return c.mk(r)
	}
	return c.pool[r]
}

func (c *codec[T]) encs(rs []int) []T {
	out := make([]T, len(rs))
	for i, r := range rs {
		out[i] = c.enc(r)
	}
	return out
}

// foreign atoms (not in the pool) get rank -1; the driver remembers their text
const foreignRank = -1

func (c *codec[T]) cmpFn(rev bool) func(a, b T) int { return c.cmpCfg(rev, "") }

// cmpCfg: the natural order or the named tying comparator, possibly reversed
func (c *codec[T]) cmpCfg(rev bool, tie string) func(a, b T) int {
	f := c.nat
	if tie != "" {
		f = c.ties[tie]
		if f == nil {
			panic("strprobe: no comparator " + tie + " for " + c.name)
		}
	}
	if rev {
		return func(a, b T) int { return f(b, a) }
	}
	return f
}

// rankCmp: the same comparator on ranks (for the reference model)
func (c *codec[T]) rankCmp(rev bool, tie string) func(a, b int) int {
	f := c.cmpCfg(rev, tie)
	return func(a, b int) int { return f(c.pool[a], c.pool[b]) }
}

func showString(s string) string {
	if len(s) > 40 {
		return strconv.Quote(s[:12]) + fmt.Sprintf("...(%d bytes)", len(s))
	}
	return strconv.Quote(s)
}

var (
	strCodec  *codec[string]
	intCodec  *codec[int]
	rankCodec *codec[int]
	tstrCodec *codec[string] // pools of the relational (tying comparator) cases
	tintCodec *codec[int]
	poolN     int
)

// the string pool of the tying-comparator cases: many case variants, equal lengths, equal first bytes
var tieStringPoolRaw = []string{
	"", "a", "A", "b", "B", "c", "aa", "aA", "Aa", "AA", "ab", "AB", "id", "ID", "Id", "iD",
	"key", "Key", "KEY", "kEy", "1", "10", "2", "-1", "é", "É", "true", "TRUE", "True", "null", "NULL",
	"a b", "A B", "A b", `"`, `\`, "<", "日本語", "\n", "\u2028",
}

var stringTies = map[string]func(a, b string) int{
	"casefold":  func(a, b string) int { return cmp.Compare(strings.ToLower(a), strings.ToLower(b)) },
	"length":    func(a, b string) int { return cmp.Compare(len(a), len(b)) },
	"firstbyte": func(a, b string) int { return cmp.Compare(firstByte(a), firstByte(b)) },
}

var intTies = map[string]func(a, b int) int{
	"div3": func(a, b int) int { return cmp.Compare(a/3, b/3) },
	"abs":  func(a, b int) int { return cmp.Compare(absInt(a), absInt(b)) },
}

func firstByte(s string) int {
	if s == "" {
		return -1
	}
	return int(s[0])
}

func absInt(x int) int {
	if x < 0 {
		return -x
	}
	return x
}

func strOf(typ string) *codec[string] {
	if typ == "tstring" {
		return tstrCodec
	}
	return strCodec
}

func intOf(typ string) *codec[int] {
	switch typ {
	case "tint":
		return tintCodec
	case "rank":
		return rankCodec
	}
	return intCodec
}

// tieNames of an atom type, sorted
func tieNames(typ string) []string { return atomOf(typ).ties }

// rankCmpOf: comparator on the ranks of the given atom type
func rankCmpOf(typ string, rev bool, tie string) func(a, b int) int {
	return atomOf(typ).rankCmp(rev, tie)
}

func init() {
	strCodec = newCodec("string", stringPoolRaw, cmp.Compare[string], showString)
	poolN = len(strCodec.pool)
	// the int pool: the same number of integers with awkward decimal texts
	ints := []int{math.MinInt64, -1000000, -10, -2, -1, 0, 1, 2, 3, 9, 10, 11, 12, 19, 20, 21, 99, 100, 101,
		1000, 65535, 65536, 1 << 31, 1<<31 + 1, 1 << 32, 1<<53 + 1, math.MaxInt64 - 1, math.MaxInt64}
	seen := map[int]bool{}
	var ip []int
	for _, x := range ints {
		if !seen[x] && len(ip) < poolN {
			seen[x] = true
			ip = append(ip, x)
		}
	}
	for x := 4; len(ip) < poolN; x++ {
		if !seen[x] {
			seen[x] = true
			ip = append(ip, x)
		}
	}
	intCodec = newCodec("int", ip, cmp.Compare[int], strconv.Itoa)
	rk := make([]int, poolN)
	for i := range rk {
		rk[i] = i
	}
	rankCodec = newCodec("rank", rk, cmp.Compare[int], strconv.Itoa)
	strCodec.ties, intCodec.ties, rankCodec.ties = stringTies, intTies, intTies
	if len(tieStringPoolRaw) != poolN {
		panic(fmt.Sprintf("strprobe: the tie string pool has %d strings, want %d", len(tieStringPoolRaw), poolN))
	}
	tstrCodec = newCodec("tstring", tieStringPoolRaw, cmp.Compare[string], showString)
	tstrCodec.ties = stringTies
	ti := make([]int, poolN)
	for i := range ti {
		ti[i] = i - poolN/2 // -20..19
	}
	tintCodec = newCodec("tint", ti, cmp.Compare[int], strconv.Itoa)
	tintCodec.ties = intTies
	initAtoms()
}

// atomText renders the atom of the given rank for histories and details
func atomText(typ string, r int) string {
	if r < 0 || r >= poolN {
		return fmt.Sprintf("<foreign %d>", r)
	}
	return atomOf(typ).text(r)
}

func atomsText(typ string, rs []int) string {
	parts := make([]string, len(rs))
	for i, r := range rs {
		parts[i] = atomText(typ, r)
	}
	return "[" + strings.Join(parts, ", ") + "]"
}
