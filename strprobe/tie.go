package main

// The RELATIONAL cases: comparator-taking kinds (TreeSet, TreeMap, TreeBidiMap incl. its value
// comparator, RedBlackTree, AVLTree, BTree) under TYING comparators - total preorders in which
// different atoms compare equal (strings: case-insensitive, by length, by first byte; ints: x/3,
// |x|).  There is no int twin here.  The history is checked exactly against a small reference
// model (association lists under the comparator's equivalence; a tying Put / Add replaces key and
// value).  FromJSON documents whose member names / elements / values tie have no unique result
// (the implementations range over a Go map), so after such a load only order-independent facts
// are checked ("valid resolution", checks tie_load_*).

import (
	"fmt"
	"sort"
	"strings"
)

var tieKinds = []string{"TreeSet", "TreeMap", "TreeBidiMap", "RedBlackTree", "AVLTree", "BTree"}

// ---------- reference model ----------

// assoc: entries pairwise non-tying, kept ascending under cmp
type assoc struct {
	cmp        func(a, b int) int
	ents       [][2]int
	insertion  bool // linked hash kinds: insertion order instead of ascending
	keepOldKey bool // linked hash kinds: a tying Put keeps the first spelling of the key (new value)
}

func (a *assoc) find(k int) int {
	for i, e := range a.ents {
		if a.cmp(e[0], k) == 0 {
			return i
		}
	}
	return -1
}

func (a *assoc) get(k int) (int, int, bool) { // stored key, value
	if i := a.find(k); i >= 0 {
		return a.ents[i][0], a.ents[i][1], true
	}
	return 0, 0, false
}

// put replaces key AND value of a tying entry (what every tree of the library does)
func (a *assoc) put(k, v int) {
	if i := a.find(k); i >= 0 {
		if a.keepOldKey {
			k = a.ents[i][0]
		}
		a.ents[i] = [2]int{k, v}
		return
	}
	a.ents = append(a.ents, [2]int{k, v})
	if a.insertion {
		return
	}
	sort.SliceStable(a.ents, func(i, j int) bool { return a.cmp(a.ents[i][0], a.ents[j][0]) < 0 })
}

func (a *assoc) remove(k int) {
	if i := a.find(k); i >= 0 {
		a.ents = append(a.ents[:i:i], a.ents[i+1:]...)
	}
}

func (a *assoc) keys() []int {
	out := make([]int, len(a.ents))
	for i, e := range a.ents {
		out[i] = e[0]
	}
	return out
}

func (a *assoc) vals() []int {
	out := make([]int, len(a.ents))
	for i, e := range a.ents {
		out[i] = e[1]
	}
	return out
}

// tieModel: fwd for every kind (TreeSet: values 0); inv for TreeBidiMap (value -> key)
type tieModel struct {
	kind     string
	fwd, inv *assoc
}

func newTieModel(cfg Config) *tieModel {
	linked := cfg.Kind == "LinkedHashSet" || cfg.Kind == "LinkedHashMap"
	m := &tieModel{kind: cfg.Kind, fwd: &assoc{cmp: rankCmpOf(cfg.KT, cfg.KRev, cfg.KTie), insertion: linked, keepOldKey: linked}}
	if isBidiKind(cfg.Kind) {
		m.inv = &assoc{cmp: rankCmpOf(cfg.VT, cfg.VRev, cfg.VTie)}
	}
	return m
}

func (m *tieModel) put(k, v int) {
	if m.inv != nil {
		if _, v0, ok := m.fwd.get(k); ok {
			m.inv.remove(v0)
		}
		if _, k0, ok := m.inv.get(v); ok {
			m.fwd.remove(k0)
		}
		m.inv.put(v, k)
	}
	m.fwd.put(k, v)
}

func (m *tieModel) remove(k int) {
	if m.inv != nil {
		if _, v0, ok := m.fwd.get(k); ok {
			m.inv.remove(v0)
		}
	}
	m.fwd.remove(k)
}

func (m *tieModel) clear() {
	m.fwd.ents = nil
	if m.inv != nil {
		m.inv.ents = nil
	}
}

func (m *tieModel) apply(o Op) {
	switch o.Name {
	case "Add":
		for _, v := range o.Vs {
			m.put(v, 0)
		}
	case "RemoveVals":
		for _, v := range o.Vs {
			m.remove(v)
		}
	case "Put":
		m.put(o.Vs[0], o.Vs[1])
	case "Remove":
		m.remove(o.Vs[0])
	case "Clear":
		m.clear()
	}
}

// obs: the observation the container must show (same components as observe)
func (m *tieModel) obs() []comp {
	var out []comp
	add := func(n, v string) { out = append(out, comp{n, v}) }
	n := len(m.fwd.ents)
	add("size", fmt.Sprint(n))
	add("empty", fmt.Sprint(n == 0))
	hash := isHashKind(m.kind)
	if isSetKind(m.kind) {
		add("values", fmt.Sprint(m.fwd.keys()))
		var b strings.Builder
		for v := 0; v < poolN; v++ {
			if m.fwd.find(v) >= 0 {
				b.WriteByte('1')
			} else {
				b.WriteByte('0')
			}
		}
		add("contains", b.String())
		if hash {
			add("well_formed", "true")
			return out
		}
		f, bk := [][2]int{}, [][2]int{}
		for i, k := range m.fwd.keys() {
			f = append(f, [2]int{i, k})
		}
		for i := n - 1; i >= 0; i-- {
			bk = append(bk, f[i])
		}
		add("iteration_forward", pairsText(f))
		add("iteration_backward", pairsText(bk))
		add("well_formed", "true")
		return out
	}
	add("keys", fmt.Sprint(m.fwd.keys()))
	if m.kind == "TreeBidiMap" {
		add("values", fmt.Sprint(m.inv.keys()))
	} else {
		add("values", fmt.Sprint(m.fwd.vals()))
	}
	gets := make([]string, poolN)
	for k := 0; k < poolN; k++ {
		_, v, ok := m.fwd.get(k)
		gets[k] = optVal(v, ok)
	}
	add("get", strings.Join(gets, " "))
	if m.inv != nil {
		for v := 0; v < poolN; v++ {
			_, k, ok := m.inv.get(v)
			gets[v] = optVal(k, ok)
		}
		add("getkey", strings.Join(gets, " "))
	}
	if hash {
		add("well_formed", "true")
		return out
	}
	bk := [][2]int{}
	for i := n - 1; i >= 0; i-- {
		bk = append(bk, m.fwd.ents[i])
	}
	add("iteration_forward", pairsText(m.fwd.ents))
	add("iteration_backward", pairsText(bk))
	add("well_formed", "true")
	return out
}

// ---------- the relational case ----------

var floatKinds = []string{"TreeSet", "TreeMap", "TreeBidiMap", "RedBlackTree", "AVLTree", "BTree", "BinaryHeap", "PriorityQueue",
	"HashSet", "LinkedHashSet", "HashMap", "LinkedHashMap", "HashBidiMap"}

// tieMode: the flavour of a relational case
func tieMode(idx int) string {
	switch (idx / 5) % 8 {
	case 2, 6:
		return "float" // float64 with the default constructors
	case 3:
		return "samevalue" // bidirectional maps loading documents in which two keys carry the same value
	}
	return "tie"
}

func chooseTieConfig(g *rng, seed uint64, idx int) Config {
	n := idx / 5
	switch tieMode(idx) {
	case "float":
		kind := floatKinds[(n/8+int(seed%13))%len(floatKinds)]
		cfg := Config{Kind: kind, KT: "float", VT: "tstring", Cap: 1, Order: 3, Default: takesComparator(kind)}
		if !isKVKind(kind) || kind == "TreeBidiMap" || g.chance(35) {
			cfg.VT = "float"
		}
		if kind == "BTree" {
			cfg.Order = g.between(3, 8)
		}
		return cfg
	case "samevalue":
		cfg := Config{Kind: []string{"HashBidiMap", "TreeBidiMap"}[(n/8)%2], Cap: 1, Order: 3}
		t := [][2]string{{"tstring", "tstring"}, {"tint", "tstring"}, {"tstring", "tint"}, {"tint", "tint"}}[(n/16)%4]
		cfg.KT, cfg.VT = t[0], t[1]
		if cfg.Kind == "TreeBidiMap" {
			cfg.KRev, cfg.VRev = g.chance(30), g.chance(30)
		}
		return cfg
	}
	n = n/8*5 + map[int]int{0: 0, 1: 1, 4: 2, 5: 3, 7: 4}[n%8]
	kind := tieKinds[(n+int(seed%6))%len(tieKinds)]
	cfg := Config{Kind: kind, KT: "tstring", VT: "tstring", Cap: 1, Order: 3}
	switch (n / len(tieKinds)) % 4 {
	case 1:
		cfg.KT = "tint"
	case 2:
		cfg.VT = "tint"
	case 3:
		if kind == "TreeBidiMap" {
			cfg.KT, cfg.VT = "tint", "tint"
		}
	}
	if kind == "TreeSet" {
		cfg.VT = cfg.KT
	}
	cfg.KRev = g.chance(30)
	cfg.KTie = g.pick(tieNames(cfg.KT))
	if kind == "TreeBidiMap" {
		cfg.VRev = g.chance(30)
		switch x := g.intn(100); {
		case x < 55: // both sides tie
			cfg.VTie = g.pick(tieNames(cfg.VT))
		case x < 80: // only the values tie
			cfg.VTie = g.pick(tieNames(cfg.VT))
			cfg.KTie = ""
		}
	}
	if kind == "BTree" {
		cfg.Order = g.between(3, 8)
	}
	return cfg
}

// classOf: the atoms tying with r
func classOf(cmp func(a, b int) int, r int) []int {
	var out []int
	for x := 0; x < poolN; x++ {
		if cmp(x, r) == 0 {
			out = append(out, x)
		}
	}
	return out
}

func (c *caseCtx) compareModel(m *tieModel, check, stage string) {
	if m.inv != nil { // the model itself must be one-to-one
		ok := len(m.fwd.ents) == len(m.inv.ents)
		for _, e := range m.fwd.ents {
			if v, k, found := m.inv.get(e[1]); !found || v != e[1] || k != e[0] {
				ok = false
			}
		}
		c.check("tie_model_one_to_one", ok, "the Put / Remove algorithm of TreeBidiMap loses the one-to-one correspondence under tying comparators "+stage, func() string {
			return fmt.Sprintf("forward %s, inverse %s", pairsText(m.fwd.ents), pairsText(m.inv.ents))
		})
	}
	name, sv, mv, differ := firstDiff(observe(c.s), m.obs())
	c.check(check, !differ, "container disagrees with the reference model (association list under the comparator) on "+name+" "+stage, func() string {
		return fmt.Sprintf("%s (ranks): expected (model) %s, observed %s; String() = %q", name, mv, sv, clip(c.s.str(), 300))
	})
}

func (c *caseCtx) tieStep(m *tieModel, o Op, check string) {
	c.note(o.text(c.cfg))
	apply(c.s, o)
	m.apply(o)
	c.compareModel(m, check, "after "+o.text(c.cfg))
}

// tieAtom: an atom, often replaced by another member of its equivalence class
func (c *caseCtx) tieAtom(cmp func(a, b int) int) int {
	a := c.gen.atom()
	if c.g.chance(55) {
		cl := classOf(cmp, a)
		if b := cl[c.g.intn(len(cl))]; !c.gen.forbid[b] {
			a = b
		}
	}
	return a
}

// docAtom: a tying atom that can be written in a JSON document
func (c *caseCtx) docAtom(typ string, cmp func(a, b int) int) int {
	for tries := 0; ; tries++ {
		a := c.tieAtom(cmp)
		if atomOf(typ).jsonable(a) || tries > 50 {
			return a
		}
	}
}

func (c *caseCtx) docClassMember(typ string, cmp func(a, b int) int, of int) int {
	var cl []int
	for _, x := range classOf(cmp, of) {
		if atomOf(typ).jsonable(x) && !c.gen.forbid[x] {
			cl = append(cl, x)
		}
	}
	if len(cl) == 0 {
		return of
	}
	return cl[c.g.intn(len(cl))]
}

// tieContent draws a document whose names / elements / values tie
func (c *caseCtx) tieContent(kcmp, vcmp func(a, b int) int) content {
	g := c.g
	kt, vt := c.s.kt, c.s.vt
	ct := content{kv: c.kv}
	n := g.between(0, 9)
	if !c.kv {
		for i := 0; i < n; i++ {
			switch {
			case i > 0 && g.chance(45): // another spelling of an earlier element's class
				ct.arr = append(ct.arr, c.docClassMember(kt, kcmp, ct.arr[g.intn(len(ct.arr))]))
			default:
				ct.arr = append(ct.arr, c.docAtom(kt, kcmp))
			}
		}
		return ct
	}
	for i := 0; i < n; i++ {
		k, v := c.docAtom(kt, kcmp), c.docAtom(vt, vcmp)
		if i > 0 && g.chance(45) {
			k = c.docClassMember(kt, kcmp, ct.mem[g.intn(len(ct.mem))][0])
		}
		if i > 0 && g.chance(35) { // the same (or a tying) value under another key
			v = c.docClassMember(vt, vcmp, ct.mem[g.intn(len(ct.mem))][1])
		}
		ct.mem = append(ct.mem, [2]int{k, v})
	}
	return ct
}

func hasPair(mem [][2]int, k, v int) bool {
	for _, m := range mem {
		if m[0] == k && m[1] == v {
			return true
		}
	}
	return false
}

func pairwiseDistinct(l []int, cmp func(a, b int) int) bool {
	for i := range l {
		for j := 0; j < i; j++ {
			if cmp(l[i], l[j]) == 0 {
				return false
			}
		}
	}
	return true
}

// keysCanTie: do two different member names of the document tie under the key comparator?
func keysCanTie(final [][2]int, kcmp func(a, b int) int) bool {
	for i := range final {
		for j := 0; j < i; j++ {
			if final[i][0] != final[j][0] && kcmp(final[i][0], final[j][0]) == 0 {
				return true
			}
		}
	}
	return false
}

func strictlyAscending(l []int, cmp func(a, b int) int) bool {
	for i := 1; i < len(l); i++ {
		if cmp(l[i-1], l[i]) >= 0 {
			return false
		}
	}
	return true
}

// tieLoad: FromJSON of a tying document into the container with its prior content; returns
// the model re-synchronised with whatever valid resolution the container chose.
func (c *caseCtx) tieLoad() *tieModel {
	cfg := c.cfg
	bidi := isBidiKind(cfg.Kind)
	hash := isHashKind(cfg.Kind)
	sortedKind := !hash && cfg.Kind != "LinkedHashSet" && cfg.Kind != "LinkedHashMap"
	kcmp := rankCmpOf(cfg.KT, cfg.KRev, cfg.KTie)
	vcmp := rankCmpOf(cfg.VT, cfg.VRev, "")
	if bidi {
		vcmp = rankCmpOf(cfg.VT, cfg.VRev, cfg.VTie)
	}
	dg := c.newDocGen()
	ct := c.tieContent(kcmp, vcmp)
	doc := dg.render(ct, -1)
	den, err := denote(doc, c.kv, c.s.kt, c.s.vt)
	if err != nil || den.ranks() != ct.ranks() {
		c.probeBroken(fmt.Sprintf("generated document %s denotes %s (%v), intended %s", docText(doc), den.ranks(), err, ct.ranks()))
	}
	via := "FromJSON"
	if c.g.chance(30) {
		via = "json.Unmarshal"
	}
	c.note(fmt.Sprintf("%s %s   (denotes %s)", via, docText(doc), den.text(c.s.kt, c.s.vt)))
	c.inTieLoad = true
	if via == "FromJSON" {
		err = c.s.fromJSON(doc)
	} else {
		err = c.s.unmarshal(doc)
	}
	c.check("tie_load_accepted", err == nil, via+" rejected a valid document whose names tie under the comparator", func() string {
		return fmt.Sprintf("expected nil, observed %v", err)
	})

	// what the document denotes: the final (last value wins per exact name) members / the elements
	var final [][2]int
	if c.kv {
		final = finalMembers(den.mem)
	} else {
		for _, e := range den.arr {
			final = append(final, [2]int{e, 0})
		}
	}
	size, vals := c.s.size(), c.s.values()
	if hash { // canonical order
		vals = sortedInts(vals)
	}
	var keys []int
	stored := [][2]int{}
	if c.kv {
		keys = c.s.keys()
		if hash {
			keys = sortedInts(keys)
		}
		for _, k := range keys {
			v, ok := c.s.get(k)
			if !ok {
				v = foreignRank - 1
			}
			stored = append(stored, [2]int{k, v})
		}
	} else {
		keys = vals
		for _, k := range keys {
			stored = append(stored, [2]int{k, 0})
		}
	}
	state := func() string {
		return fmt.Sprintf("Size() %d, Keys() %s, Values() %s, (key, Get(key)) pairs %s", size, atomsText(c.s.kt, keys), atomsText(c.s.vt, vals), content{kv: c.kv, mem: stored, arr: keys}.text(c.s.kt, c.s.vt))
	}
	c.check("tie_load_sizes", size == len(keys) && size == len(vals) && c.s.empty() == (size == 0),
		"Size(), len(Keys()) and len(Values()) differ after loading a document whose names / values tie", func() string {
			return fmt.Sprintf("expected Size() == len(Keys()) == len(Values()), observed %d, %d, %d, Empty() %v; %s", size, len(keys), len(vals), c.s.empty(), state())
		})
	c.check("tie_load_keys_ascending", pairwiseDistinct(keys, kcmp) && (!sortedKind || strictlyAscending(keys, kcmp)),
		"keys are not strictly ascending under the comparator (two stored keys tie or are out of order) after loading", state)
	if bidi {
		c.check("tie_load_values_ascending", pairwiseDistinct(vals, vcmp) && (!sortedKind || strictlyAscending(vals, vcmp)),
			"Values() are not strictly ascending under the value comparator (two stored values tie) after loading", state)
	}
	fromDoc := true
	for _, p := range stored {
		if !hasPair(final, p[0], p[1]) {
			fromDoc = false
		}
	}
	c.check("tie_load_members_from_document", fromDoc, "a stored (key, value) pair is not a member of the loaded document (a prior element survived or key and value were mixed up)", func() string {
		return fmt.Sprintf("document members %s; %s", content{kv: c.kv, mem: final, arr: den.arr}.text(c.s.kt, c.s.vt), state())
	})
	if !bidi {
		ok := true
		for _, f := range final {
			n := 0
			for _, k := range keys {
				if kcmp(k, f[0]) == 0 {
					n++
				}
			}
			if n != 1 {
				ok = false
			}
		}
		c.check("tie_load_classes_represented", ok, "an equivalence class of document keys is not represented by exactly one stored key", func() string {
			return fmt.Sprintf("document %s; %s", den.text(c.s.kt, c.s.vt), state())
		})
	}
	if c.kv {
		ok, bad := true, ""
		for x := 0; x < poolN; x++ {
			want, found := 0, false
			for _, p := range stored {
				if kcmp(p[0], x) == 0 {
					want, found = p[1], true
				}
			}
			got, gfound := c.s.get(x)
			if gfound != found || (found && got != want) {
				ok, bad = false, fmt.Sprintf("Get(%s): expected %s, observed %s", atomText(c.s.kt, x), optVal(want, found), optVal(got, gfound))
			}
		}
		c.check("tie_load_get_tying", ok, "Get of a key tying with a stored key does not return that key's value", func() string { return bad + "; " + state() })
	} else {
		ok, bad := true, ""
		for x := 0; x < poolN; x++ {
			found := false
			for _, k := range keys {
				if kcmp(k, x) == 0 {
					found = true
				}
			}
			if c.s.contains(x) != found {
				ok, bad = false, fmt.Sprintf("Contains(%s): expected %v", atomText(c.s.kt, x), found)
			}
		}
		c.check("tie_load_get_tying", ok, "Contains of an element tying with a stored element is wrong", func() string { return bad + "; " + state() })
	}
	if bidi {
		ok, bad := true, ""
		for _, p := range stored { // Get(k) = v  =>  GetKey(v) ~ k (in fact the stored k)
			k, found := c.s.getKey(p[1])
			if !found || k != p[0] {
				ok, bad = false, fmt.Sprintf("Get(%s) = %s but GetKey of that value = %s", atomText(c.s.kt, p[0]), atomText(c.s.vt, p[1]), optVal(k, found))
			}
		}
		for _, v := range vals { // every value has a key that maps back to it
			k, found := c.s.getKey(v)
			vv, found2 := c.s.get(k)
			if !found || !found2 || vv != v {
				ok, bad = false, fmt.Sprintf("value %s: GetKey = %s, Get of that key = %s", atomText(c.s.vt, v), optVal(k, found), optVal(vv, found2))
			}
		}
		c.check("tie_load_bidi_one_to_one", ok, "bidirectional map is not one-to-one after loading a document whose names / values tie", func() string { return bad + "; " + state() })
	}
	if bidi && !keysCanTie(final, kcmp) {
		// no key collisions: every document value must be held by exactly one of the keys that carry it
		ok, bad := true, ""
		for _, f := range final {
			n := 0
			for _, p := range stored {
				if vcmp(p[1], f[1]) == 0 {
					n++
					carried := false
					for _, f2 := range final {
						if f2[0] == p[0] && vcmp(f2[1], f[1]) == 0 {
							carried = true
						}
					}
					if !carried {
						n = -99
					}
				}
			}
			if n != 1 {
				ok, bad = false, "value "+atomText(c.s.vt, f[1])
			}
		}
		c.check("tie_load_values_represented", ok, "a document value is not held by exactly one of the keys that carry it", func() string {
			return fmt.Sprintf("%s; document members %s; %s", bad, content{kv: true, mem: final}.text(c.s.kt, c.s.vt), state())
		})
	}
	if c.s.iterF != nil {
		it := c.s.iterF()
		want := stored
		if !c.kv {
			want = [][2]int{}
			for i, k := range keys {
				want = append(want, [2]int{i, k})
			}
		}
		back := [][2]int{}
		for i := len(want) - 1; i >= 0; i-- {
			back = append(back, want[i])
		}
		c.check("tie_load_iteration", pairsText(it) == pairsText(want) && pairsText(c.s.iterB()) == pairsText(back), "iteration disagrees with Keys() / Get after loading", func() string {
			return fmt.Sprintf("expected forward %s, observed %s, backward %s", pairsText(want), pairsText(it), pairsText(c.s.iterB()))
		})
	}
	c.check("tie_load_well_formed", c.s.links(), "internal structure inconsistent after loading", func() string { return c.s.fingerprint() })

	// re-synchronise the model with the resolution the container chose
	m := newTieModel(cfg)
	m.fwd.ents = append([][2]int{}, stored...)
	if bidi {
		for _, v := range vals {
			k, _ := c.s.getKey(v)
			m.inv.ents = append(m.inv.ents, [2]int{v, k})
		}
		sort.SliceStable(m.inv.ents, func(i, j int) bool { return vcmp(m.inv.ents[i][0], m.inv.ents[j][0]) < 0 })
	}
	c.compareModel(m, "tie_load_followup", "right after the load (re-synchronised model)")
	if c.g.chance(50) {
		for i := 0; i < 5; i++ {
			c.tieStep(m, c.tieOp(kcmp, vcmp), "tie_load_followup")
		}
	}

	// remove every key: nothing may stay behind
	rm := c.s.keys
	if !c.kv {
		rm = c.s.values
	}
	ks := rm()
	c.note("remove every key of Keys(): " + atomsText(c.s.kt, ks))
	for _, k := range ks {
		if c.kv {
			c.s.remove(k)
		} else {
			c.s.removeVals(k)
		}
	}
	m.clear()
	left := ""
	if c.s.getKey != nil {
		for _, f := range final {
			if k, found := c.s.getKey(f[1]); found {
				left = fmt.Sprintf("GetKey(%s) still returns %s", atomText(c.s.vt, f[1]), atomText(c.s.kt, k))
			}
		}
		for v := 0; v < poolN && left == ""; v++ {
			if k, found := c.s.getKey(v); found {
				left = fmt.Sprintf("GetKey(%s) still returns %s", atomText(c.s.vt, v), atomText(c.s.kt, k))
			}
		}
	}
	nk := 0
	if c.kv {
		nk = len(c.s.keys())
	}
	c.check("tie_load_remove_all", c.s.size() == 0 && c.s.empty() && len(c.s.values()) == 0 && nk == 0 && left == "",
		"after removing every key of Keys() the container is not empty (stale entries)", func() string {
			return fmt.Sprintf("expected Size() 0, Empty(), no Values(), no GetKey hit; observed Size() %d, Empty() %v, Values() %s, %d keys; %s", c.s.size(), c.s.empty(), atomsText(c.s.vt, c.s.values()), nk, left)
		})
	c.compareModel(m, "tie_load_remove_all", "after removing every key")
	for i := 0; i < 5; i++ {
		c.tieStep(m, c.tieOp(kcmp, vcmp), "tie_load_followup")
	}
	c.inTieLoad = false
	return m
}

// tieOp: a mutator with tying atoms
func (c *caseCtx) tieOp(kcmp, vcmp func(a, b int) int) Op {
	g := c.g
	if g.chance(4) {
		return Op{Name: "Clear"}
	}
	if !c.kv {
		n := g.between(0, 3)
		vs := make([]int, n)
		for i := range vs {
			vs[i] = c.tieAtom(kcmp)
		}
		if g.chance(65) {
			return Op{Name: "Add", Vs: vs}
		}
		return Op{Name: "RemoveVals", Vs: vs}
	}
	if g.chance(68) {
		return Op{Name: "Put", Vs: []int{c.tieAtom(kcmp), c.tieAtom(vcmp)}}
	}
	return Op{Name: "Remove", Vs: []int{c.tieAtom(kcmp)}}
}

func (c *caseCtx) runTieCase() {
	g := c.g
	cfg := c.cfg
	if cfg.KT == "float" {
		c.runFloatCase()
		return
	}
	kcmp := rankCmpOf(cfg.KT, cfg.KRev, cfg.KTie)
	vcmp := rankCmpOf(cfg.VT, cfg.VRev, cfg.VTie)

	// preferred atoms: a few whole equivalence classes plus some strays
	var uni []int
	for n := g.between(1, 3); n > 0; n-- {
		uni = append(uni, classOf(kcmp, g.intn(poolN))...)
	}
	for n := g.between(0, 3); n > 0; n-- {
		uni = append(uni, g.intn(poolN))
	}
	c.gen = &opGen{g: g, cfg: cfg, uni: uni}
	c.s = newDrv(cfg, false)
	m := newTieModel(cfg)
	c.compareModel(m, "tie_model_agreement", "after construction")
	length := 0
	if !g.chance(8) {
		length = g.between(1, 30)
	}
	for i := 0; i < length; i++ {
		c.tieStep(m, c.tieOp(kcmp, vcmp), "tie_model_agreement")
	}
	if c.pid == "C12" {
		for r := g.between(1, 2); r > 0; r-- {
			m = c.tieLoad()
			for i := g.between(0, 6); i > 0; i-- {
				c.tieStep(m, c.tieOp(kcmp, vcmp), "tie_model_agreement")
			}
		}
	}
	// the stored keys do not tie with each other: serialising and reloading is deterministic
	js := c.checkSerialize()
	c.checkReload(js)
}
