package main

// strprobe: ties the STRING instantiations of the 21 gods containers to their int
// instantiations (twin runs) and checks the JSON properties C11 / C12 on them directly.
// usage: strprobe -pid C11|C12 -tier quick|thorough -seed N [-only case] [-cases N] [-workers N]

import (
	"encoding/json"
	"flag"
	"fmt"
	"os"
	"runtime"
	"sort"
	"sync"
	"time"
)

type sample struct {
	Case    int      `json:"case"`
	Kind    string   `json:"kind"`
	Config  string   `json:"config"`
	History []string `json:"history"`
	Outcome string   `json:"outcome"`
}

type report struct {
	Property        string         `json:"property"`
	Tier            string         `json:"tier"`
	Seed            uint64         `json:"seed"`
	Evaluations     int            `json:"evaluations"`
	DistinctNontriv int            `json:"distinct_nontrivial"`
	PerKind         map[string]int `json:"per_kind"`
	Checks          map[string]int `json:"checks"`
	StringPool      []string       `json:"string_pool"`
	IntPool         []int          `json:"int_pool"`
	Samples         []sample       `json:"samples"`
	WallS           float64        `json:"wall_s"`
	ViolationsTotal int            `json:"violations_total"`
	Violations      []*Violation   `json:"violations"`
	ProbeErrors     []string       `json:"probe_errors,omitempty"`
}

const maxReported = 40

func main() {
	pid := flag.String("pid", "C11", "property: C11 or C12")
	tier := flag.String("tier", "quick", "quick or thorough")
	seed := flag.Uint64("seed", 1, "seed")
	only := flag.Int("only", -1, "rerun this one case verbosely")
	casesFlag := flag.Int("cases", 0, "override the number of cases")
	workers := flag.Int("workers", runtime.NumCPU(), "parallel workers")
	flag.Parse()
	if *pid != "C11" && *pid != "C12" {
		fmt.Fprintln(os.Stderr, "strprobe: -pid must be C11 or C12")
		os.Exit(2)
	}
	n := 10500
	switch *tier {
	case "quick":
	case "thorough":
		n = 315000
	default:
		fmt.Fprintln(os.Stderr, "strprobe: -tier must be quick or thorough")
		os.Exit(2)
	}
	if *casesFlag > 0 {
		n = *casesFlag
	}
	start := time.Now()
	rep := report{Property: *pid, Tier: *tier, Seed: *seed, PerKind: map[string]int{}, Checks: map[string]int{},
		StringPool: strCodec.pool, IntPool: intCodec.pool, Violations: []*Violation{}, Samples: []sample{}}

	first, last := 0, n
	if *only >= 0 {
		first, last = *only, *only+1
		*workers = 1
	}
	sampleAt := map[int]bool{first: true, first + (last-first)/3 + 10: true, first + 2*(last-first)/3 + 19: true}

	var mu sync.Mutex
	distinct := map[uint64]bool{}
	var viols []*Violation
	var probeErrs []string
	next := first
	var wg sync.WaitGroup
	for w := 0; w < *workers; w++ {
		wg.Add(1)
		go func() {
			defer wg.Done()
			local := map[string]int{}
			for {
				mu.Lock()
				i := next
				next++
				mu.Unlock()
				if i >= last {
					break
				}
				r := runCase(*pid, *seed, i, *only >= 0, local)
				mu.Lock()
				rep.Evaluations++
				rep.PerKind[r.kind]++
				if r.nontrivial {
					distinct[r.hash] = true
				}
				if r.viol != nil {
					viols = append(viols, r.viol)
				}
				if r.probeErr != "" && len(probeErrs) < 10 {
					probeErrs = append(probeErrs, fmt.Sprintf("case %d: %s", i, r.probeErr))
				}
				if sampleAt[i] {
					out := "no violation"
					if r.viol != nil {
						out = "violation: " + r.viol.Check
					}
					rep.Samples = append(rep.Samples, sample{i, r.kind, r.config, r.history, out})
				}
				if rep.Evaluations%20000 == 0 {
					fmt.Fprintf(os.Stderr, "strprobe: %d/%d cases, %d violations, %.1fs\n", rep.Evaluations, last-first, len(viols), time.Since(start).Seconds())
				}
				mu.Unlock()
			}
			mu.Lock()
			for k, v := range local {
				rep.Checks[k] += v
			}
			mu.Unlock()
		}()
	}
	wg.Wait()

	caseOf := func(v *Violation) int { return v.Replay["case"].(int) }
	sort.Slice(viols, func(i, j int) bool { return caseOf(viols[i]) < caseOf(viols[j]) })
	sort.Slice(rep.Samples, func(i, j int) bool { return rep.Samples[i].Case < rep.Samples[j].Case })
	rep.ViolationsTotal = len(viols)
	// report at most maxReported, preferring one per (kind, check) first
	seen := map[string]bool{}
	var rest []*Violation
	for _, v := range viols {
		key := v.Kind + "|" + v.Check
		if !seen[key] && len(rep.Violations) < maxReported {
			seen[key] = true
			rep.Violations = append(rep.Violations, v)
		} else {
			rest = append(rest, v)
		}
	}
	for _, v := range rest {
		if len(rep.Violations) >= maxReported {
			break
		}
		rep.Violations = append(rep.Violations, v)
	}
	sort.Slice(rep.Violations, func(i, j int) bool { return caseOf(rep.Violations[i]) < caseOf(rep.Violations[j]) })
	rep.DistinctNontriv = len(distinct)
	rep.ProbeErrors = probeErrs
	rep.WallS = float64(int(time.Since(start).Seconds()*1000)) / 1000
	enc := json.NewEncoder(os.Stdout)
	enc.SetEscapeHTML(false)
	if err := enc.Encode(rep); err != nil {
		fmt.Fprintln(os.Stderr, "strprobe:", err)
		os.Exit(2)
	}
	fmt.Fprintf(os.Stderr, "strprobe: %s %s seed %d: %d cases, %d distinct non-trivial, %d violations, %.1fs\n",
		*pid, *tier, *seed, rep.Evaluations, rep.DistinctNontriv, rep.ViolationsTotal, rep.WallS)
	if len(probeErrs) > 0 {
		fmt.Fprintln(os.Stderr, "strprobe: PROBE ERRORS:", probeErrs)
		os.Exit(2)
	}
}
