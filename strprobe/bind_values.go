package main

// Bindings of the value containers: 3 lists, 3 sets, 2 stacks, 4 queues, the heap.

import (
	"fmt"

	"github.com/emirpasic/gods/v2/lists/arraylist"
	"github.com/emirpasic/gods/v2/lists/doublylinkedlist"
	"github.com/emirpasic/gods/v2/lists/singlylinkedlist"
	"github.com/emirpasic/gods/v2/queues/arrayqueue"
	"github.com/emirpasic/gods/v2/queues/circularbuffer"
	"github.com/emirpasic/gods/v2/queues/linkedlistqueue"
	"github.com/emirpasic/gods/v2/queues/priorityqueue"
	"github.com/emirpasic/gods/v2/sets/hashset"
	"github.com/emirpasic/gods/v2/sets/linkedhashset"
	"github.com/emirpasic/gods/v2/sets/treeset"
	"github.com/emirpasic/gods/v2/stacks/arraystack"
	"github.com/emirpasic/gods/v2/stacks/linkedliststack"
	"github.com/emirpasic/gods/v2/trees/binaryheap"
	"github.com/emirpasic/gods/v2/utils"
)

// ---------- hook fingerprints ----------

func arrayListFP[T comparable](d *drv, l *arraylist.List[T], c *codec[T]) string {
	e, capacity, isNil := l.VerifRaw()
	return fmt.Sprintf("AL%v cap=%d nil=%v", decs(d, c, e), capacity, isNil)
}

func sllFP[T comparable](d *drv, l *singlylinkedlist.List[T], c *codec[T]) string {
	f, size, ok := l.VerifChain(walkLimit)
	return fmt.Sprintf("SLL%v size=%d ok=%v", decs(d, c, f), size, ok)
}

func sllLinks[T comparable](l *singlylinkedlist.List[T]) bool {
	_, _, ok := l.VerifChain(walkLimit)
	return ok
}

func dllFP[T comparable](d *drv, l *doublylinkedlist.List[T], c *codec[T]) string {
	f, b, size, ok := l.VerifChain(walkLimit)
	return fmt.Sprintf("DLL%v back=%v size=%d ok=%v", decs(d, c, f), decs(d, c, b), size, ok)
}

func dllLinks[T comparable](l *doublylinkedlist.List[T]) bool {
	f, b, _, ok := l.VerifChain(walkLimit)
	if !ok || len(f) != len(b) {
		return false
	}
	for i := range f {
		if f[i] != b[len(b)-1-i] {
			return false
		}
	}
	return true
}

// ---------- lists ----------

type listAPI[T comparable] interface {
	baseAPI[T]
	Add(values ...T)
	Insert(index int, values ...T)
	Set(index int, value T)
	Remove(index int)
	Swap(i, j int)
	Sort(comparator utils.Comparator[T])
	Get(index int) (T, bool)
	IndexOf(value T) int
	Contains(values ...T) bool
}

func bindListCommon[T comparable](d *drv, l listAPI[T], c *codec[T]) {
	bindBase[T](d, l, c)
	d.add = func(vs ...int) { l.Add(c.encs(vs)...) }
	d.insert = func(i int, vs ...int) { l.Insert(i, c.encs(vs)...) }
	d.set = func(i, v int) { l.Set(i, c.enc(v)) }
	d.removeAt, d.swap = l.Remove, l.Swap
	d.sortBy = func(rev bool) { l.Sort(c.cmpFn(rev)) }
	d.getIdx = func(i int) (int, bool) {
		v, ok := l.Get(i)
		if !ok {
			return 0, false
		}
		return dec(d, c, v), true
	}
	d.indexOf = func(v int) int { return l.IndexOf(c.enc(v)) }
	d.contains = func(vs ...int) bool { return l.Contains(c.encs(vs)...) }
}

func constructList[T comparable](d *drv, c *codec[T]) {
	switch d.cfg.Kind {
	case "ArrayList":
		l := arraylist.New[T]()
		bindListCommon[T](d, l, c)
		d.iterF = func() [][2]int { return walkIdxF[T](d, l.Iterator(), c) }
		d.iterB = func() [][2]int { return walkIdxB[T](d, l.Iterator(), c) }
		d.links = func() bool { e, capacity, _ := l.VerifRaw(); return len(e) <= capacity && len(e) == l.Size() }
		d.fingerprint = func() string { return arrayListFP(d, l, c) }
	case "SinglyLinkedList":
		l := singlylinkedlist.New[T]()
		bindListCommon[T](d, l, c)
		d.appendF = func(vs ...int) { l.Append(c.encs(vs)...) }
		d.prepend = func(vs ...int) { l.Prepend(c.encs(vs)...) }
		d.iterF = func() [][2]int { return walkIdxF[T](d, l.Iterator(), c) }
		d.links = func() bool { return sllLinks(l) }
		d.fingerprint = func() string { return sllFP(d, l, c) }
	case "DoublyLinkedList":
		l := doublylinkedlist.New[T]()
		bindListCommon[T](d, l, c)
		d.appendF = func(vs ...int) { l.Append(c.encs(vs)...) }
		d.prepend = func(vs ...int) { l.Prepend(c.encs(vs)...) }
		d.iterF = func() [][2]int { it := l.Iterator(); return walkIdxF[T](d, &it, c) }
		d.iterB = func() [][2]int { it := l.Iterator(); return walkIdxB[T](d, &it, c) }
		d.links = func() bool { return dllLinks(l) }
		d.fingerprint = func() string { return dllFP(d, l, c) }
	}
}

// ---------- sets ----------

type setAPI[T comparable] interface {
	baseAPI[T]
	Add(items ...T)
	Remove(items ...T)
	Contains(items ...T) bool
}

func bindSetCommon[T comparable](d *drv, s setAPI[T], c *codec[T]) {
	bindBase[T](d, s, c)
	d.add = func(vs ...int) { s.Add(c.encs(vs)...) }
	d.removeVals = func(vs ...int) { s.Remove(c.encs(vs)...) }
	d.contains = func(vs ...int) bool { return s.Contains(c.encs(vs)...) }
}

func constructSet[T comparable](d *drv, c *codec[T], newTreeSet func() *treeset.Set[T]) {
	switch d.cfg.Kind {
	case "HashSet":
		s := hashset.New[T]()
		bindSetCommon[T](d, s, c)
		d.links = func() bool { return true }
		d.fingerprint = func() string { return "HS" + fmt.Sprint(sortedInts(decs(d, c, s.Values()))) }
	case "TreeSet":
		s := treeset.NewWith[T](c.cmpCfg(d.cfg.KRev, d.cfg.KTie))
		if newTreeSet != nil {
			s = newTreeSet()
		}
		bindSetCommon[T](d, s, c)
		d.iterF = func() [][2]int { it := s.Iterator(); return walkIdxF[T](d, &it, c) }
		d.iterB = func() [][2]int { it := s.Iterator(); return walkIdxB[T](d, &it, c) }
		unit := func(struct{}) int { return 0 }
		key := func(k T) int { return dec(d, c, k) }
		d.links = func() bool { t := s.VerifInner(); return rbLinks(t.Root, t.Size()) }
		d.fingerprint = func() string {
			t := s.VerifInner()
			return fmt.Sprintf("TS%s size=%d", rbShape(t.Root, key, unit), t.Size())
		}
	case "LinkedHashSet":
		s := linkedhashset.New[T]()
		bindSetCommon[T](d, s, c)
		d.iterF = func() [][2]int { it := s.Iterator(); return walkIdxF[T](d, &it, c) }
		d.iterB = func() [][2]int { it := s.Iterator(); return walkIdxB[T](d, &it, c) }
		d.links = func() bool {
			ord := s.VerifOrdering()
			if !dllLinks(ord) {
				return false
			}
			f, _, _, _ := ord.VerifChain(walkLimit)
			tbl := map[T]bool{}
			for _, k := range s.VerifTable() {
				tbl[k] = true
			}
			seen := map[T]bool{}
			for _, k := range f { // compared with ==: -0 and +0 are the same element
				if !tbl[k] || seen[k] {
					return false
				}
				seen[k] = true
			}
			return len(tbl) == len(f)
		}
		d.fingerprint = func() string {
			return "LHS" + fmt.Sprint(sortedInts(decs(d, c, s.VerifTable()))) + dllFP(d, s.VerifOrdering(), c)
		}
	}
}

// ---------- stacks, queues, heap ----------

func wrapPop[T comparable](d *drv, c *codec[T], f func() (T, bool)) func() (int, bool) {
	return func() (int, bool) {
		v, ok := f()
		if !ok {
			return 0, false
		}
		return dec(d, c, v), true
	}
}

func constructLinear[T comparable](d *drv, c *codec[T], newHeap func() *binaryheap.Heap[T], newPQ func() *priorityqueue.Queue[T]) {
	switch d.cfg.Kind {
	case "ArrayStack":
		s := arraystack.New[T]()
		bindBase[T](d, s, c)
		d.push = func(v int) { s.Push(c.enc(v)) }
		d.pop, d.peek = wrapPop(d, c, s.Pop), wrapPop(d, c, s.Peek)
		d.iterF = func() [][2]int { return walkIdxF[T](d, s.Iterator(), c) }
		d.iterB = func() [][2]int { return walkIdxB[T](d, s.Iterator(), c) }
		d.links = func() bool { e, capacity, _ := s.VerifInner().VerifRaw(); return len(e) <= capacity }
		d.fingerprint = func() string { return "AS" + arrayListFP(d, s.VerifInner(), c) }
	case "LinkedListStack":
		s := linkedliststack.New[T]()
		bindBase[T](d, s, c)
		d.push = func(v int) { s.Push(c.enc(v)) }
		d.pop, d.peek = wrapPop(d, c, s.Pop), wrapPop(d, c, s.Peek)
		d.iterF = func() [][2]int { return walkIdxF[T](d, s.Iterator(), c) }
		d.links = func() bool { return sllLinks(s.VerifInner()) }
		d.fingerprint = func() string { return "LS" + sllFP(d, s.VerifInner(), c) }
	case "ArrayQueue":
		q := arrayqueue.New[T]()
		bindBase[T](d, q, c)
		d.enqueue = func(v int) { q.Enqueue(c.enc(v)) }
		d.dequeue, d.peek = wrapPop(d, c, q.Dequeue), wrapPop(d, c, q.Peek)
		d.iterF = func() [][2]int { return walkIdxF[T](d, q.Iterator(), c) }
		d.iterB = func() [][2]int { return walkIdxB[T](d, q.Iterator(), c) }
		d.links = func() bool { e, capacity, _ := q.VerifInner().VerifRaw(); return len(e) <= capacity }
		d.fingerprint = func() string { return "AQ" + arrayListFP(d, q.VerifInner(), c) }
	case "LinkedListQueue":
		q := linkedlistqueue.New[T]()
		bindBase[T](d, q, c)
		d.enqueue = func(v int) { q.Enqueue(c.enc(v)) }
		d.dequeue, d.peek = wrapPop(d, c, q.Dequeue), wrapPop(d, c, q.Peek)
		d.iterF = func() [][2]int { return walkIdxF[T](d, q.Iterator(), c) }
		d.links = func() bool { return sllLinks(q.VerifInner()) }
		d.fingerprint = func() string { return "LQ" + sllFP(d, q.VerifInner(), c) }
	case "CircularBuffer":
		q := circularbuffer.New[T](d.cfg.Cap)
		bindBase[T](d, q, c)
		d.enqueue = func(v int) { q.Enqueue(c.enc(v)) }
		d.dequeue, d.peek, d.full = wrapPop(d, c, q.Dequeue), wrapPop(d, c, q.Peek), q.Full
		d.iterF = func() [][2]int { return walkIdxF[T](d, q.Iterator(), c) }
		d.iterB = func() [][2]int { return walkIdxB[T](d, q.Iterator(), c) }
		d.links = func() bool {
			// representation-independent sanity only (exact ring indices are an implementation detail)
			vals, _, _, _, maxSize, size := q.VerifState()
			return len(vals) == maxSize && size >= 0 && size <= maxSize && size == len(q.Values())
		}
		d.fingerprint = func() string {
			// live slots only: a stale slot of the string ring keeps its old string, the
			// zero value of a never-written slot is "" / 0 - neither is observable
			vals, start, end, full, maxSize, size := q.VerifState()
			live := make([]string, len(vals))
			for i := range vals {
				live[i] = "_"
			}
			for j := 0; j < size && maxSize > 0; j++ {
				i := (start + j) % maxSize
				if i < len(vals) {
					live[i] = fmt.Sprint(dec(d, c, vals[i]))
				}
			}
			return fmt.Sprintf("CB%v %d %d %v %d %d", live, start, end, full, maxSize, size)
		}
	case "BinaryHeap":
		h := binaryheap.NewWith[T](c.cmpFn(d.cfg.KRev))
		if newHeap != nil {
			h = newHeap()
		}
		bindBase[T](d, h, c)
		d.push = func(v int) { h.Push(c.enc(v)) }
		d.pushAll = func(vs ...int) { h.Push(c.encs(vs)...) }
		d.pop, d.peek = wrapPop(d, c, h.Pop), wrapPop(d, c, h.Peek)
		d.iterF = func() [][2]int { return walkIdxF[T](d, h.Iterator(), c) }
		d.iterB = func() [][2]int { return walkIdxB[T](d, h.Iterator(), c) }
		d.links = func() bool { e, capacity, _ := h.VerifInner().VerifRaw(); return len(e) <= capacity }
		d.raw = func() []int { e, _, _ := h.VerifInner().VerifRaw(); return decs(d, c, e) }
		d.fingerprint = func() string { return "BH" + arrayListFP(d, h.VerifInner(), c) }
	case "PriorityQueue":
		q := priorityqueue.NewWith[T](c.cmpFn(d.cfg.KRev))
		if newPQ != nil {
			q = newPQ()
		}
		bindBase[T](d, q, c)
		d.enqueue = func(v int) { q.Enqueue(c.enc(v)) }
		d.dequeue, d.peek = wrapPop(d, c, q.Dequeue), wrapPop(d, c, q.Peek)
		d.iterF = func() [][2]int { return walkIdxF[T](d, q.Iterator(), c) }
		d.iterB = func() [][2]int { return walkIdxB[T](d, q.Iterator(), c) }
		d.links = func() bool { e, capacity, _ := q.VerifInner().VerifInner().VerifRaw(); return len(e) <= capacity }
		d.raw = func() []int { e, _, _ := q.VerifInner().VerifInner().VerifRaw(); return decs(d, c, e) }
		d.fingerprint = func() string { return "PQ" + arrayListFP(d, q.VerifInner().VerifInner(), c) }
	}
}
