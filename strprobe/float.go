package main

// Relational cases with float64 atoms and the DEFAULT constructors (New(), not NewWith) of the
// comparator-taking kinds: the reference order is cmp.Compare[float64] (NaN is the smallest value
// and equal to itself; -0 and +0 tie).  The Go-map backed kinds never see NaN (a Go map cannot
// find a NaN key - outside the properties' domain) but do see -0 / +0 and the infinities.

import (
	"fmt"
	"sort"
)

func (c *caseCtx) classes(rs []int, cmp func(a, b int) int) []int {
	out := make([]int, len(rs))
	for i, r := range rs {
		out[i] = classOf(cmp, r)[0]
	}
	return out
}

func (c *caseCtx) allJSONable(typ string, rs []int) bool {
	for _, r := range rs {
		if r < 0 || !atomOf(typ).jsonable(r) {
			return false
		}
	}
	return true
}

// checkSortedValues: containers.GetSortedValues / GetSortedValuesFunc against slices.Sort order
func (c *caseCtx) checkSortedValues(cmp func(a, b int) int) {
	if c.s.sortedValues == nil {
		return
	}
	vals := c.s.values()
	want := append([]int{}, vals...)
	sort.SliceStable(want, func(i, j int) bool { return cmp(want[i], want[j]) < 0 })
	rev := append([]int{}, vals...)
	sort.SliceStable(rev, func(i, j int) bool { return cmp(rev[i], rev[j]) > 0 })
	same := func(got, exp []int) bool {
		return fmt.Sprint(c.classes(got, cmp)) == fmt.Sprint(c.classes(exp, cmp)) && fmt.Sprint(sortedInts(got)) == fmt.Sprint(sortedInts(exp))
	}
	got := c.s.sortedValues()
	c.check("float_sorted_values", same(got, want), "containers.GetSortedValues is not in slices.Sort order (cmp.Compare: NaN first, -0 == +0)", func() string {
		return fmt.Sprintf("expected %s, observed %s", atomsText("float", want), atomsText("float", got))
	})
	got = c.s.sortedValuesFunc(false)
	c.check("float_sorted_values_func", same(got, want), "containers.GetSortedValuesFunc(cmp.Compare) is not sorted", func() string {
		return fmt.Sprintf("expected %s, observed %s", atomsText("float", want), atomsText("float", got))
	})
	got = c.s.sortedValuesFunc(true)
	c.check("float_sorted_values_func", same(got, rev), "containers.GetSortedValuesFunc(reversed cmp.Compare) is not sorted", func() string {
		return fmt.Sprintf("expected %s, observed %s", atomsText("float", rev), atomsText("float", got))
	})
	after := c.s.values()
	if isHashKind(c.cfg.Kind) { // Values() of the hash kinds has no fixed order
		after, vals = sortedInts(after), sortedInts(vals)
	}
	c.check("float_sorted_values_pure", fmt.Sprint(after) == fmt.Sprint(vals), "GetSortedValues changed the container", func() string {
		return fmt.Sprintf("Values() before %v, after %v (ranks)", vals, after)
	})
}

// floatHeap: BinaryHeap / PriorityQueue against a multiset
func (c *caseCtx) floatHeap(cmp func(a, b int) int, length int) {
	g := c.g
	ms := []int{}
	pushName, popName := "Push", "Pop"
	push, pop := c.s.push, c.s.pop
	if c.cfg.Kind == "PriorityQueue" {
		pushName, popName = "Enqueue", "Dequeue"
		push, pop = c.s.enqueue, c.s.dequeue
	}
	minimal := func(x int) bool {
		for _, y := range ms {
			if cmp(y, x) < 0 {
				return false
			}
		}
		return true
	}
	index := func(x int) int {
		for i, y := range ms {
			if y == x {
				return i
			}
		}
		return -1
	}
	state := func() string {
		return fmt.Sprintf("model multiset %s, backing array %s", atomsText("float", sortedInts(ms)), atomsText("float", c.s.raw()))
	}
	verify := func(stage string) {
		raw := c.s.raw()
		c.check("float_heap_content", c.s.size() == len(ms) && fmt.Sprint(sortedInts(raw)) == fmt.Sprint(sortedInts(ms)) && fmt.Sprint(sortedInts(c.s.values())) == fmt.Sprint(sortedInts(ms)),
			"heap content is not the multiset of pushed-and-not-popped values "+stage, state)
		ok := true
		for i := 1; i < len(raw); i++ {
			if cmp(raw[(i-1)/2], raw[i]) > 0 {
				ok = false
			}
		}
		c.check("float_heap_order", ok, "backing array violates the heap order under cmp.Compare "+stage, state)
		p, found := c.s.peek()
		c.check("float_heap_peek_minimal", found == (len(ms) > 0) && (!found || (index(p) >= 0 && minimal(p))), "Peek is not a minimal element under cmp.Compare "+stage, func() string {
			return fmt.Sprintf("Peek() = %s; %s", optVal(p, found), state())
		})
	}
	verify("after construction")
	for i := 0; i < length; i++ {
		switch x := g.intn(100); {
		case x < 4:
			c.note("Clear")
			c.s.clear()
			ms = ms[:0]
		case x < 50:
			v := c.gen.atom()
			c.note(pushName + " " + atomText("float", v))
			push(v)
			ms = append(ms, v)
		case x < 62 && c.s.pushAll != nil:
			vs := c.gen.atoms(0, 4)
			c.note("PushAll " + atomsText("float", vs))
			c.s.pushAll(vs...)
			ms = append(ms, vs...)
		default:
			c.note(popName)
			v, found := pop()
			j := -1
			if found {
				j = index(v)
			}
			c.check("float_heap_pop_minimal", found == (len(ms) > 0) && (!found || (j >= 0 && minimal(v))), popName+" did not return a minimal element under cmp.Compare", func() string {
				return fmt.Sprintf("%s() = %s; before the call: %s", popName, optVal(v, found), state())
			})
			if j >= 0 {
				ms = append(ms[:j:j], ms[j+1:]...)
			}
		}
		verify("after operation " + fmt.Sprint(i+1))
	}
}

func (c *caseCtx) runFloatCase() {
	g, cfg := c.g, c.cfg
	kind := cfg.Kind
	kcmp := rankCmpOf("float", false, "")
	vcmp := rankCmpOf(cfg.VT, false, "")
	nan, _ := floatCodec.rankOf(floatCodec.pool[0])
	negZero := classOf(kcmp, zeroRank("float"))[0]
	forbid := map[int]bool{}
	if isHashKind(kind) || kind == "LinkedHashSet" || kind == "LinkedHashMap" {
		forbid[nan] = true // a Go map cannot find a NaN key: outside the domain
	}
	uni := []int{nan, negZero, negZero + 1, 1, poolN - 1} // NaN, -0, +0, -Inf, +Inf
	for n := g.between(0, 5); n > 0; n-- {
		uni = append(uni, g.intn(poolN))
	}
	c.gen = &opGen{g: g, cfg: cfg, uni: uni, forbid: forbid}
	c.s = newDrv(cfg, false)
	length := 0
	if !g.chance(6) {
		length = g.between(1, 30)
	}
	var m *tieModel
	if isHeapKind(kind) {
		c.floatHeap(kcmp, length)
	} else {
		m = newTieModel(cfg)
		c.compareModel(m, "float_model_agreement", "after construction")
		for i := 0; i < length; i++ {
			c.tieStep(m, c.tieOp(kcmp, vcmp), "float_model_agreement")
		}
	}
	c.checkSortedValues(rankCmpOf("float", false, ""))

	// JSON: value containers whose elements are all JSON-representable (float keys cannot be member names)
	if !c.kv {
		if c.pid == "C12" && isSetKind(kind) {
			if c.allJSONable("float", c.s.values()) || g.chance(50) {
				m = c.tieLoad()
				for i := g.between(0, 5); i > 0; i-- {
					c.tieStep(m, c.tieOp(kcmp, vcmp), "float_model_agreement")
				}
				c.checkSortedValues(kcmp)
			}
		}
		if c.allJSONable("float", c.s.values()) {
			js := c.checkSerialize()
			c.checkReload(js)
		}
	}
	if isHeapKind(kind) {
		before := sortedInts(c.s.raw())
		got := drain(c.s)
		c.note("drain")
		c.check("float_heap_drain_sorted", fmt.Sprint(sortedInts(got)) == fmt.Sprint(before) && func() bool {
			for i := 1; i < len(got); i++ {
				if kcmp(got[i-1], got[i]) > 0 {
					return false
				}
			}
			return true
		}(), "draining the heap does not give the values in cmp.Compare order", func() string {
			return fmt.Sprintf("content %s, drained %s", atomsText("float", before), atomsText("float", got))
		})
	}
}
