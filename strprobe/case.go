package main

// One case: a configuration, a random history run on the string side and on the int twin in
// lock step, then the C11 checks (serialise, reload) or the C12 checks (load valid / malformed
// documents into the container with its prior content).

import (
	"bytes"
	"fmt"
	"hash/fnv"
	"os"
	"sort"
	"strings"
)

type Violation struct {
	What    string         `json:"what"`
	Kind    string         `json:"kind"`
	Config  string         `json:"config"`
	History []string       `json:"history"`
	Check   string         `json:"check"`
	Detail  string         `json:"detail"`
	Replay  map[string]any `json:"replay"`
}

type caseResult struct {
	idx        int
	kind       string
	config     string
	history    []string
	hash       uint64
	nontrivial bool
	viol       *Violation
	probeErr   string
}

type failSignal struct{}

type caseCtx struct {
	pid      string
	seed     uint64
	idx      int
	g        *rng
	cfg      Config
	kv       bool
	s, t     *drv
	gen      *opGen
	history  []string
	shapeful bool // only the common history has been applied: hook-level state is comparable
	checks   map[string]int
	verbose  bool
	viol     *Violation
	probeErr string

	inTieLoad bool // relational cases: inside the tie_load_* phase
}

func (c *caseCtx) logf(format string, args ...any) {
	if c.verbose {
		fmt.Fprintf(os.Stderr, format+"\n", args...)
	}
}

func (c *caseCtx) note(line string) {
	c.history = append(c.history, line)
	c.logf("  %s", line)
}

func (c *caseCtx) fail(check, what, detail string) {
	if len(detail) > 1600 {
		detail = detail[:1600] + "..."
	}
	c.viol = &Violation{
		What: fmt.Sprintf("%s (%s): %s", c.cfg.Kind, c.cfg, what), Kind: c.cfg.Kind, Config: c.cfg.String(),
		History: append([]string{}, c.history...), Check: check, Detail: detail,
		Replay: map[string]any{"seed": c.seed, "case": c.idx, "property": c.pid},
	}
	panic(failSignal{})
}

// check counts one evaluation of the named check and fails the case when it does not hold
func (c *caseCtx) check(name string, ok bool, what string, detail func() string) {
	c.checks[name]++
	if !ok {
		c.fail(name, what, detail())
	}
}

func (c *caseCtx) probeBroken(msg string) {
	c.probeErr = msg
	panic(failSignal{})
}

// ranksText renders an observation value for details: ranks plus the atoms they stand for
func (c *caseCtx) atomsOf(rs []int) string { return atomsText(c.s.vt, rs) }

func (c *caseCtx) compareTwins(stage string) {
	so, to := observe(c.s), observe(c.t)
	name, sv, tv, differ := firstDiff(so, to)
	c.check("twin_agreement", !differ, "string side and int twin disagree on "+name+" "+stage, func() string {
		return fmt.Sprintf("%s (ranks): expected (int twin) %s, observed (string side) %s; string side String() = %q", name, tv, sv, clip(c.s.str(), 300))
	})
	if !differ {
		c.checks["twin_components"] += len(so) - 1
	}
	if c.shapeful {
		sf, tf := c.s.fingerprint(), c.t.fingerprint()
		c.check("twin_structure", sf == tf, "hook-level structure differs between string side and int twin "+stage, func() string {
			return fmt.Sprintf("expected (int twin) %s, observed (string side, in ranks) %s", tf, sf)
		})
	}
}

func clip(s string, n int) string {
	if len(s) > n {
		return s[:n] + "..."
	}
	return s
}

// step applies one mutator to both twins and compares result and observation
func (c *caseCtx) step(o Op) {
	c.note(o.text(c.cfg))
	sr := apply(c.s, o)
	tr := apply(c.t, o)
	c.check("twin_result", sr == tr, "operation result differs between string side and int twin", func() string {
		return fmt.Sprintf("%s: expected (int twin, rank) %s, observed (string side, rank) %s", o.text(c.cfg), tr, sr)
	})
	c.compareTwins("after " + o.text(c.cfg))
}

func (c *caseCtx) mutators(n int) {
	for i := 0; i < n; i++ {
		c.step(c.gen.next(c.t.size()))
	}
}

// ---------- C11 (1): serialise ----------

func (c *caseCtx) canonical(ct content) content {
	switch {
	case c.cfg.Kind == "HashSet":
		return ct.sorted()
	case c.kv && c.cfg.Kind != "LinkedHashMap":
		return ct.sorted()
	}
	return ct
}

func firstNonSpace(b []byte) byte {
	t := bytes.TrimLeft(b, " \t\r\n")
	if len(t) == 0 {
		return 0
	}
	return t[0]
}

func (c *caseCtx) checkSerialize() []byte {
	kind := c.cfg.Kind
	js, err := c.s.toJSON()
	c.check("tojson_no_error", err == nil, "ToJSON returned an error", func() string { return fmt.Sprintf("expected nil, observed %v", err) })
	c.logf("  ToJSON = %s", docText(js))
	doc, perr := parseDoc(js)
	c.check("tojson_valid", perr == nil, "ToJSON output is not valid JSON", func() string {
		return fmt.Sprintf("expected a valid JSON document, observed %s (%v)", docText(js), perr)
	})
	want := byte('[')
	if c.kv {
		want = '{'
	}
	c.check("tojson_toplevel", firstNonSpace(js) == want, "ToJSON top-level value has the wrong JSON type", func() string {
		return fmt.Sprintf("expected top-level %q, observed %s", want, docText(js))
	})
	sc, cerr := docContent(doc, c.kv, c.s.kt, c.s.vt)
	c.check("tojson_elements", cerr == nil, "ToJSON output has an element that is not an atom of the right JSON type", func() string {
		return fmt.Sprintf("%v in %s", cerr, docText(js))
	})
	if c.kv {
		k, dup := sc.dupKey()
		c.check("tojson_unique_keys", !dup, "ToJSON object repeats a key", func() string {
			return fmt.Sprintf("key %s occurs twice in %s", atomText(c.s.kt, k), docText(js))
		})
	}

	// json.Marshal(container) denotes the same document
	mj, merr := c.s.marshal()
	c.check("marshal_no_error", merr == nil, "json.Marshal(container) returned an error", func() string {
		return fmt.Sprintf("expected nil, observed %v; ToJSON = %s", merr, docText(js))
	})
	mdoc, mperr := parseDoc(mj)
	var mc content
	if mperr == nil {
		mc, mperr = docContent(mdoc, c.kv, c.s.kt, c.s.vt)
	}
	a, b := sc, mc
	if isHashKind(kind) {
		a, b = sc.sorted(), mc.sorted()
	}
	c.check("marshal_same_document", mperr == nil && a.ranks() == b.ranks(), "json.Marshal(container) and ToJSON denote different documents", func() string {
		return fmt.Sprintf("ToJSON %s, json.Marshal %s (%v)", docText(js), docText(mj), mperr)
	})

	if c.t == nil { // relational cases have no twin
		return c.ownContent(js, sc)
	}
	// the document mapped through rank equals the int twin's ToJSON
	tj, terr := c.t.toJSON()
	var tc content
	if terr == nil {
		var tdoc *jnode
		if tdoc, terr = parseDoc(tj); terr == nil {
			tc, terr = docContent(tdoc, c.kv, "rank", "rank")
		}
	}
	c.check("tojson_twin", terr == nil && c.canonical(sc).ranks() == c.canonical(tc).ranks(), "ToJSON mapped through rank differs from the int twin's ToJSON", func() string {
		return fmt.Sprintf("expected (int twin) %s = %s, observed (string side) %s = %s (%v)", docText(tj), c.canonical(tc).text(c.s.kt, c.s.vt), docText(js), c.canonical(sc).text(c.s.kt, c.s.vt), terr)
	})

	return c.ownContent(js, sc)
}

// ownContent: the document is the container's own content
func (c *caseCtx) ownContent(js []byte, sc content) []byte {
	kind := c.cfg.Kind
	if c.kv && c.s.goMapJSON != nil {
		gm, gerr := c.s.goMapJSON()
		same := gerr == nil && bytes.Equal(js, gm) // the Go-map based encoders: byte for byte
		if gerr == nil && (kind == "LinkedHashMap" || !same) {
			// LinkedHashMap keeps its own member order; otherwise tolerate a different but equivalent spelling
			if gdoc, err := parseDoc(gm); err == nil {
				if gc, err := docContent(gdoc, true, c.s.kt, c.s.vt); err == nil {
					same = gc.sorted().ranks() == sc.sorted().ranks() && keyTexts(js) == keyTexts(gm)
				}
			}
		}
		c.check("tojson_equals_go_map", same, "ToJSON differs from json.Marshal of the equivalent Go map (member names / values)", func() string {
			return fmt.Sprintf("expected %s (%v), observed %s", docText(gm), gerr, docText(js))
		})
	}
	exp := content{kv: c.kv}
	if c.kv {
		for _, k := range c.s.keys() {
			v, _ := c.s.get(k)
			exp.mem = append(exp.mem, [2]int{k, v})
		}
	} else {
		exp.arr = c.s.values()
		if isHeapKind(kind) { // the document is the backing array; Values() is sorted level by level
			exp.arr = c.s.raw()
		}
		if kind == "ArrayStack" { // the document is the backing list, bottom first
			for i, j := 0, len(exp.arr)-1; i < j; i, j = i+1, j-1 {
				exp.arr[i], exp.arr[j] = exp.arr[j], exp.arr[i]
			}
		}
	}
	c.check("tojson_content", c.canonical(sc).ranks() == c.canonical(exp).ranks(), "ToJSON does not list the container's content", func() string {
		return fmt.Sprintf("expected (from Keys/Get/Values) %s, observed %s = %s", c.canonical(exp).text(c.s.kt, c.s.vt), docText(js), c.canonical(sc).text(c.s.kt, c.s.vt))
	})
	return js
}

// ---------- C11 (2): reload ----------

func (c *caseCtx) checkReload(js []byte) {
	orig := observe(c.s)
	for _, via := range []string{"FromJSON", "json.Unmarshal"} {
		f := newDrv(c.cfg, false)
		var err error
		if via == "FromJSON" {
			err = f.fromJSON(js)
		} else {
			err = f.unmarshal(js)
		}
		c.check("reload_no_error", err == nil, via+" of the container's own ToJSON output failed", func() string {
			return fmt.Sprintf("expected nil, observed %v for %s", err, docText(js))
		})
		name, fv, ov, differ := firstDiff(observe(f), orig)
		c.check("reload_equivalent", !differ, "container reloaded with "+via+" from its own ToJSON differs in "+name, func() string {
			return fmt.Sprintf("%s (ranks): expected (original) %s, observed (reloaded) %s; document %s", name, ov, fv, docText(js))
		})
		c.checks["reload_components"] += len(orig)
	}
}

// drains come last: they consume the original
func (c *caseCtx) checkDrain(js []byte) {
	if c.s.pop == nil && c.s.dequeue == nil {
		return
	}
	f := newDrv(c.cfg, false)
	if err := f.fromJSON(js); err != nil {
		c.check("reload_no_error", false, "second reload failed", func() string { return fmt.Sprint(err) })
	}
	fd, sd, td := drain(f), drain(c.s), drain(c.t)
	c.note("drain both")
	c.check("reload_drain", fmt.Sprint(fd) == fmt.Sprint(sd), "Pop/Dequeue sequence of the reloaded container differs from the original's", func() string {
		return fmt.Sprintf("expected (original) %s, observed (reloaded) %s; document %s", c.atomsOf(sd), c.atomsOf(fd), docText(js))
	})
	c.check("twin_drain", fmt.Sprint(sd) == fmt.Sprint(td), "Pop/Dequeue sequence differs between string side and int twin", func() string {
		return fmt.Sprintf("expected (int twin, ranks) %v, observed (string side, ranks) %v = %s", td, sd, c.atomsOf(sd))
	})
	c.check("drain_empties", c.s.size() == 0 && f.size() == 0, "container not empty after draining", func() string {
		return fmt.Sprintf("sizes %d / %d", c.s.size(), f.size())
	})
}

// ---------- C12 (a): valid documents ----------

// genContent draws what a valid document shall denote
func (c *caseCtx) genContent() (ct content, nullAt int) {
	g := c.g
	kind := c.cfg.Kind
	ct.kv, nullAt = c.kv, -1
	if !c.kv {
		max := 10
		if kind == "CircularBuffer" {
			max = c.cfg.Cap + 4
		}
		n := g.between(0, max)
		for i := 0; i < n; i++ {
			if i > 0 && g.chance(25) {
				ct.arr = append(ct.arr, ct.arr[g.intn(len(ct.arr))])
			} else {
				ct.arr = append(ct.arr, c.gen.atom())
			}
		}
		if n > 0 && g.chance(8) {
			nullAt = g.intn(n)
			ct.arr[nullAt] = zeroRank(c.s.kt)
		}
		return
	}
	want := g.between(0, 8)
	bidi := isBidiKind(kind)
	seenK, seenV := map[int]bool{}, map[int]bool{}
	for tries := 0; len(ct.mem) < want && tries < 200; tries++ {
		k, v := c.gen.atom(), c.gen.atom()
		if tries > 60 {
			k, v = g.intn(poolN), g.intn(poolN)
		}
		if seenK[k] || (bidi && seenV[v]) {
			continue
		}
		seenK[k], seenV[v] = true, true
		ct.mem = append(ct.mem, [2]int{k, v})
	}
	// overwritten duplicates in front of the final occurrence of a key (the last value wins; for
	// LinkedHashMap the first position wins)
	for n := 0; len(ct.mem) > 0 && n < 2 && g.chance(30); n++ {
		i := g.intn(len(ct.mem))
		dup := [2]int{ct.mem[i][0], c.gen.atom()}
		at := g.intn(i + 1)
		ct.mem = append(ct.mem[:at], append([][2]int{dup}, ct.mem[at:]...)...)
	}
	if !bidi && len(ct.mem) > 0 && g.chance(8) {
		nullAt = g.intn(len(ct.mem))
		ct.mem[nullAt][1] = zeroRank(c.s.vt)
	}
	return
}

func (c *caseCtx) newDocGen() *docGen {
	g := c.g
	dg := &docGen{g: g, kv: c.kv, kt: c.s.kt, vt: c.s.vt}
	dg.style = []int{0, 0, 1, 2, 2, 2, 3}[g.intn(7)]
	dg.wsPct = []int{0, 0, 25, 60}[g.intn(4)]
	return dg
}

func (c *caseCtx) validDoc() (doc []byte, den content) {
	g := c.g
	dg := c.newDocGen()
	switch x := g.intn(100); {
	case x < 8:
		doc = []byte(dg.ws() + "null" + dg.ws())
	case x < 15 && c.kv:
		doc = []byte("{}")
	case x < 15:
		doc = []byte("[]")
	default:
		ct, nullAt := c.genContent()
		doc = dg.render(ct, nullAt)
		d, err := denote(doc, c.kv, c.s.kt, c.s.vt)
		if err != nil || d.ranks() != ct.ranks() {
			c.probeBroken(fmt.Sprintf("generated document %s denotes %s (%v), intended %s", docText(doc), d.ranks(), err, ct.ranks()))
		}
		return doc, d
	}
	d, err := denote(doc, c.kv, c.s.kt, c.s.vt)
	if err != nil || !d.empty() {
		c.probeBroken(fmt.Sprintf("document %s should denote the empty content (%v)", docText(doc), err))
	}
	return doc, d
}

// finalMembers: first position of each distinct key, last value
func finalMembers(mem [][2]int) [][2]int {
	last := map[int]int{}
	for _, m := range mem {
		last[m[0]] = m[1]
	}
	out := [][2]int{}
	seen := map[int]bool{}
	for _, m := range mem {
		if !seen[m[0]] {
			seen[m[0]] = true
			out = append(out, [2]int{m[0], last[m[0]]})
		}
	}
	return out
}

// expectedAfterLoad: Keys() and Values() (canonical as in observe) the kind must show after
// loading a document with the given denotation.  exact=false (heaps): Values() is only fixed
// as a multiset.
func (c *caseCtx) expectedAfterLoad(den content) (keys, vals []int, exact bool) {
	kind := c.cfg.Kind
	exact = true
	if c.kv {
		fm := finalMembers(den.mem)
		switch {
		case kind == "LinkedHashMap":
		case isSortedKVKind(kind) && c.cfg.KRev:
			fm = content{kv: true, mem: fm}.sorted().mem
			for i, j := 0, len(fm)-1; i < j; i, j = i+1, j-1 {
				fm[i], fm[j] = fm[j], fm[i]
			}
		default:
			fm = content{kv: true, mem: fm}.sorted().mem
		}
		keys, vals = []int{}, []int{}
		for _, m := range fm {
			keys = append(keys, m[0])
			vals = append(vals, m[1])
		}
		if kind == "TreeBidiMap" { // Values() = keys of the inverse tree
			vals = sortedByCmp(vals, c.cfg.VRev)
		}
		return
	}
	vals = append([]int{}, den.arr...)
	switch kind {
	case "ArrayStack":
		for i, j := 0, len(vals)-1; i < j; i, j = i+1, j-1 {
			vals[i], vals[j] = vals[j], vals[i]
		}
	case "HashSet", "TreeSet", "LinkedHashSet":
		seen := map[int]bool{}
		d := []int{}
		for _, v := range vals {
			if !seen[v] {
				seen[v] = true
				d = append(d, v)
			}
		}
		vals = d
		if kind == "HashSet" {
			vals = sortedInts(vals)
		}
		if kind == "TreeSet" {
			vals = sortedByCmp(vals, c.cfg.KRev)
		}
	case "CircularBuffer":
		if len(vals) > c.cfg.Cap {
			vals = vals[len(vals)-c.cfg.Cap:]
		}
	case "BinaryHeap", "PriorityQueue":
		exact = false
	}
	return
}

func (c *caseCtx) loadValid() {
	kind := c.cfg.Kind
	doc, den := c.validDoc()
	via := "FromJSON"
	if c.g.chance(30) {
		via = "json.Unmarshal"
	}
	prior := c.s.values()
	c.note(fmt.Sprintf("%s %s   (denotes %s)", via, docText(doc), den.text(c.s.kt, c.s.vt)))
	var err error
	if via == "FromJSON" {
		err = c.s.fromJSON(doc)
	} else {
		err = c.s.unmarshal(doc)
	}
	c.check("load_valid_accepted", err == nil, via+" rejected a valid document", func() string {
		return fmt.Sprintf("expected nil, observed %v", err)
	})
	keys, vals, exact := c.expectedAfterLoad(den)
	obs := observe(c.s)
	get := func(n string) string {
		for _, o := range obs {
			if o.name == n {
				return o.val
			}
		}
		return ""
	}
	c.check("load_size", get("size") == fmt.Sprint(len(vals)), "Size after loading a valid document is not what the document denotes", func() string {
		return fmt.Sprintf("expected %d, observed %s; prior content (ranks) %v, Values() now %s", len(vals), get("size"), prior, get("values"))
	})
	if exact {
		c.check("load_content", get("values") == fmt.Sprint(vals) && (!c.kv || get("keys") == fmt.Sprint(keys)), "content after loading a valid document is not what the document denotes", func() string {
			return fmt.Sprintf("expected keys %v values %v = %s, observed keys %s values %s (ranks); prior values %v", keys, vals, c.atomsOf(vals), get("keys"), get("values"), prior)
		})
	} else {
		now := c.s.raw()
		heapOK := true
		for i := 1; i < len(now); i++ {
			p := now[(i-1)/2]
			if (!c.cfg.KRev && p > now[i]) || (c.cfg.KRev && p < now[i]) {
				heapOK = false
			}
		}
		c.check("load_content", fmt.Sprint(sortedInts(now)) == fmt.Sprint(sortedInts(vals)) && heapOK, "heap after loading a valid document is not a heap of the denoted values", func() string {
			return fmt.Sprintf("expected a %s-heap of %v, observed array %v (ranks)", revName(c.cfg.KRev), sortedInts(vals), now)
		})
		f := newDrv(c.cfg, false)
		f.fromJSON(doc)
		got := drain(f)
		c.check("load_heap_drain", fmt.Sprint(got) == fmt.Sprint(sortedByCmp(vals, c.cfg.KRev)), "Pop/Dequeue order after loading a document is not sorted", func() string {
			return fmt.Sprintf("expected %v, observed %v (ranks)", sortedByCmp(vals, c.cfg.KRev), got)
		})
	}
	if isBidiKind(kind) {
		ok := true
		for _, m := range finalMembers(den.mem) {
			kk, found := c.s.getKey(m[1])
			vv, found2 := c.s.get(m[0])
			if !found || kk != m[0] || !found2 || vv != m[1] {
				ok = false
			}
		}
		c.check("load_bidi_one_to_one", ok && get("well_formed") == "true", "bidirectional map is not one-to-one after loading", func() string {
			return fmt.Sprintf("keys %v values %v; getkey %s", keys, vals, get("getkey"))
		})
	}
	c.check("load_well_formed", get("well_formed") == "true", "internal structure inconsistent after loading a valid document", func() string {
		return c.s.fingerprint()
	})

	// the int twin loaded with the rank-mapped document
	tdoc := plainDoc(den)
	terr := c.t.fromJSON(tdoc)
	c.check("load_twin_accepted", terr == nil, "int twin rejected the rank-mapped document", func() string {
		return fmt.Sprintf("%s: %v", docText(tdoc), terr)
	})
	c.shapeful = false
	c.compareTwins("after loading " + docText(doc))
}

// ---------- C12 (b): malformed documents ----------

func (c *caseCtx) loadMalformed() {
	dg := c.newDocGen()
	var doc []byte
	var what string
	ok := false
	for tries := 0; tries < 30 && !ok; tries++ {
		doc, what = dg.malformed(c.gen.atom, func() []byte { d, _ := c.validDoc(); return d })
		ok = typedDecodeFails(doc, c.kv, c.s.kt, c.s.vt)
	}
	if !ok {
		doc, what = []byte("["), "syntactically invalid"
		if c.kv {
			doc = []byte("{")
		}
	}
	c.tryMalformed(doc, what)
}

// loadBigMalformed: a document longer than 64 KiB whose LAST element / member is wrongly typed
func (c *caseCtx) loadBigMalformed() {
	dg := c.newDocGen()
	dg.wsPct = 0
	var b bytes.Buffer
	if c.kv {
		b.WriteByte('{')
		for i := 0; i < 9000; i++ {
			b.WriteString(dg.keyLit(c.s.kt, c.gen.atom()) + ":" + dg.lit(c.s.vt, c.gen.atom()) + ",")
		}
		b.WriteString(dg.keyLit(c.s.kt, c.gen.atom()) + ":" + c.g.pick(atomOf(c.s.vt).bad) + "}")
	} else {
		b.WriteByte('[')
		for i := 0; i < 20000; i++ {
			b.WriteString(dg.lit(c.s.kt, c.gen.atom()) + ",")
		}
		b.WriteString(c.g.pick(atomOf(c.s.kt).bad) + "]")
	}
	for b.Len() < 70000 {
		b.WriteString("          ")
	}
	doc := b.Bytes()
	if !typedDecodeFails(doc, c.kv, c.s.kt, c.s.vt) {
		return // the "bad" literal happens to be acceptable here (cannot happen with the current lists)
	}
	c.tryMalformed(doc, fmt.Sprintf("%d bytes, wrongly typed LAST element", len(doc)))
}

func (c *caseCtx) tryMalformed(doc []byte, what string) {
	via := "FromJSON"
	if c.g.chance(30) {
		via = "json.Unmarshal"
	}
	before, fp := observe(c.s), c.s.fingerprint()
	c.note(fmt.Sprintf("%s %s   (%s)", via, docText(doc), what))
	var err error
	if via == "FromJSON" {
		err = c.s.fromJSON(doc)
	} else {
		err = c.s.unmarshal(doc)
	}
	c.check("malformed_rejected", err != nil, via+" accepted a document that encoding/json rejects for the element type ("+what+")", func() string {
		return fmt.Sprintf("expected an error, observed nil; Values() now (ranks) %v", c.s.values())
	})
	name, av, bv, differ := firstDiff(observe(c.s), before)
	c.check("malformed_state_unchanged", !differ, via+" returned an error but changed "+name+" ("+what+")", func() string {
		return fmt.Sprintf("%s (ranks): expected (before the call) %s, observed %s; error was %v", name, bv, av, err)
	})
	fp2 := c.s.fingerprint()
	c.check("malformed_hooks_unchanged", fp == fp2, via+" returned an error but changed the internal structure ("+what+")", func() string {
		return fmt.Sprintf("expected %s, observed %s", fp, fp2)
	})
	c.compareTwins("after the rejected load")
}

// ---------- the case ----------

func chooseConfig(g *rng, seed uint64, idx int) Config {
	kind := allKinds[(idx+int(seed%21))%len(allKinds)]
	cfg := Config{Kind: kind, KT: "string", VT: "string", Cap: 1, Order: 3}
	variant := idx / len(allKinds)
	if isKVKind(kind) {
		// key / value types: strings and ints, struct and *int values, named integer key types with a
		// String method (encoding/json still writes decimal member names)
		kvTypes := [][2]string{{"string", "string"}, {"int", "string"}, {"string", "int"}, {"string", "struct"}, {"dur", "string"},
			{"string", "ptr"}, {"string", "string"}, {"int", "struct"}, {"duration", "int"}, {"dur", "struct"}, {"int", "ptr"}, {"duration", "string"}}
		t := kvTypes[variant%len(kvTypes)]
		if t[1] == "ptr" && isBidiKind(kind) { // pointer identity cannot key the inverse map meaningfully
			t = [2]string{"string", "string"}
		}
		cfg.KT, cfg.VT = t[0], t[1]
	} else {
		cfg.KT = []string{"string", "int", "string", "struct", "string", "ptr"}[variant%6]
		if cfg.KT == "ptr" && isSetKind(kind) { // sets of pointers: membership is pointer identity
			cfg.KT = "string"
		}
		cfg.VT = cfg.KT
	}
	cfg.KRev = takesComparator(kind) && g.chance(50)
	cfg.VRev = kind == "TreeBidiMap" && g.chance(50)
	if kind == "CircularBuffer" {
		cfg.Cap = g.between(1, 6)
	}
	if kind == "BTree" {
		cfg.Order = g.between(3, 8)
	}
	return cfg
}

func runCase(pid string, seed uint64, idx int, verbose bool, checks map[string]int) (res caseResult) {
	g := newRng(seed, uint64(idx), uint64(len(pid))*131+uint64(pid[len(pid)-1]))
	c := &caseCtx{pid: pid, seed: seed, idx: idx, g: g, checks: checks, verbose: verbose, shapeful: true}
	tie := idx%5 == 4 // every fifth case is a relational (tying comparator) case
	if tie {
		c.cfg = chooseTieConfig(g, seed, idx)
	} else {
		c.cfg = chooseConfig(g, seed, idx)
	}
	c.kv = isKVKind(c.cfg.Kind)
	res.idx, res.kind, res.config = idx, c.cfg.Kind, c.cfg.String()
	defer func() {
		if r := recover(); r != nil {
			if _, mine := r.(failSignal); !mine {
				c.viol = &Violation{
					What: fmt.Sprintf("%s (%s): panic", c.cfg.Kind, c.cfg), Kind: c.cfg.Kind, Config: c.cfg.String(),
					History: append([]string{}, c.history...), Check: map[bool]string{false: "no_panic", true: "tie_load_no_panic"}[c.inTieLoad], Detail: clip(fmt.Sprint(r), 600),
					Replay: map[string]any{"seed": seed, "case": idx, "property": pid},
				}
			}
		}
		res.history, res.viol, res.probeErr = c.history, c.viol, c.probeErr
		h := fnv.New64a()
		h.Write([]byte(c.cfg.Kind + "|" + c.cfg.String() + "|" + strings.Join(c.history, "\n")))
		res.hash = h.Sum64()
		res.nontrivial = len(c.history) > 0
	}()
	c.logf("case %d: %s %s", idx, c.cfg.Kind, c.cfg)
	if tie {
		c.runTieCase()
		if c.verbose {
			fmt.Fprintf(os.Stderr, "  final observation (ranks):\n%s", obsText(observe(c.s)))
		}
		return
	}

	// the case's preferred atoms
	n := g.between(1, 12)
	uni := make([]int, n)
	for i := range uni {
		uni[i] = g.intn(poolN)
	}
	c.gen = &opGen{g: g, cfg: c.cfg, uni: uni}
	c.s, c.t = newDrv(c.cfg, false), newDrv(c.cfg, true)
	c.compareTwins("after construction")

	length := 0
	if !g.chance(8) {
		length = g.between(1, 40)
	}
	c.mutators(length)

	if pid == "C12" {
		rounds := g.between(1, 3)
		for r := 0; r < rounds; r++ {
			if g.chance(55) {
				c.loadValid()
			} else {
				c.loadMalformed()
			}
			c.mutators(5)
		}
		if idx%200 < 4 { // a handful of cases per run
			c.loadBigMalformed()
			c.mutators(3)
		}
	}
	js := c.checkSerialize()
	c.checkReload(js)
	c.checkDrain(js)
	if c.verbose {
		fmt.Fprintf(os.Stderr, "  final observation (string side, ranks):\n%s", obsText(observe(c.s)))
	}
	return
}

// keyTexts: the member names of a top-level object exactly as spelled (decoded), sorted
func keyTexts(doc []byte) string {
	n, err := parseDoc(doc)
	if err != nil || n.kind != 'o' {
		return "<invalid>"
	}
	ks := append([]string{}, n.keys...)
	sort.Strings(ks)
	return strings.Join(ks, "\x00")
}
