#!/bin/sh
# usage: run.sh <C11|C12> <quick|thorough> <seed> [extra strprobe flags, e.g. -only 123]
# Builds the probe against the CURRENT /repo tree (tag verif) and runs it; prints ONE JSON object
# on stdout, progress on stderr.  Exit 0 unless the probe itself is broken (2).
PID=${1:?usage: run.sh <C11|C12> <quick|thorough> <seed>}
TIER=${2:-quick}
SEED=${3:-1}
[ $# -ge 3 ] && shift 3 || shift $#
HERE=$(cd "$(dirname "$0")" && pwd)
OUT=${STRPROBE_BIN:-/verif/build/strprobe}
export GOFLAGS=-mod=mod GOPROXY=off GOSUMDB=off GOTOOLCHAIN=local
mkdir -p "$(dirname "$OUT")"
(cd "$HERE" && go build -tags verif -o "$OUT" .) >&2 || { echo "strprobe: build failed" >&2; exit 2; }
"$OUT" -pid "$PID" -tier "$TIER" -seed "$SEED" "$@"
rc=$?
[ $rc -eq 0 ] || exit 2
exit 0
