#!/bin/sh
# usage: run.sh <C11|C12> <quick|thorough> <seed> [extra strprobe flags, e.g. -only 123]
# Builds the probe against the CURRENT /repo tree (tag verif) — or the tree named by STRPROBE_REPO —
# and runs it; prints ONE JSON object on stdout, progress on stderr.
# Exit 0 unless the probe itself is broken (2).
PID=${1:?usage: run.sh <C11|C12> <quick|thorough> <seed>}
TIER=${2:-quick}
SEED=${3:-1}
[ $# -ge 3 ] && shift 3 || shift $#
HERE=$(cd "$(dirname "$0")" && pwd)
export GOFLAGS=-mod=mod GOPROXY=off GOSUMDB=off GOTOOLCHAIN=local
work=$(mktemp -d /tmp/strprobe-run-XXXXXX) || exit 2
trap 'rm -rf "$work"' EXIT INT TERM
modflag=""
if [ -n "${STRPROBE_REPO:-}" ]; then
	sed "s#=> /repo\$#=> $STRPROBE_REPO#" "$HERE/go.mod" >"$work/go.mod"
	cp "$HERE/go.sum" "$work/go.sum"
	modflag="-modfile=$work/go.mod"
fi
# private binary: several run.sh may be active at the same time
(cd "$HERE" && go build -tags verif $modflag -o "$work/strprobe" .) >&2 || { echo "strprobe: build failed" >&2; exit 2; }
"$work/strprobe" -pid "$PID" -tier "$TIER" -seed "$SEED" "$@"
rc=$?
[ $rc -eq 0 ] || exit 2
exit 0
