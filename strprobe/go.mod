module verif/strprobe

go 1.21

require github.com/emirpasic/gods/v2 v2.0.0

replace github.com/emirpasic/gods/v2 => /repo
