package main

// Trace vocabulary: configurations (H lines), operations (O lines) and the printing of
// observations (S-expressions of decimal integers).  See /verif/PROTOCOL.md.

import (
	"fmt"
	"strconv"
	"strings"
)

// ---------- observations ----------
// Observations are built directly as their canonical text.

const (
	obsUnit        = "()"
	obsCrash       = "((()))"
	obsUnsupported = "(((())))"
)

func obsFail(code int) string { return "((((" + strconv.Itoa(code) + "))))" }

const (
	failAlias    = 1 // result aliases receiver
	failModified = 2 // receiver modified by observer / enumerable / algebra
	failCallback = 3 // callback log disagrees with the iterator walk / result
	failTimeout  = 4 // call did not return
	failNonZero  = 6 // a (value, ok) result with ok == false carries a non-zero value
	failUnsound  = 5 // a derived container (Select / Map / set-algebra result) misbehaves when it is used afterwards
)

func oz(n int) string { return strconv.Itoa(n) }

func obool(b bool) string {
	if b {
		return "1"
	}
	return "0"
}

func ol(items ...string) string { return "(" + strings.Join(items, " ") + ")" }

func ozs(l []int) string {
	var b strings.Builder
	b.WriteByte('(')
	for i, x := range l {
		if i > 0 {
			b.WriteByte(' ')
		}
		b.WriteString(strconv.Itoa(x))
	}
	b.WriteByte(')')
	return b.String()
}

func opair(a, b int) string { return "(" + strconv.Itoa(a) + " " + strconv.Itoa(b) + ")" }

func opairs(l [][2]int) string {
	var b strings.Builder
	b.WriteByte('(')
	for i, e := range l {
		if i > 0 {
			b.WriteByte(' ')
		}
		b.WriteString(opair(e[0], e[1]))
	}
	b.WriteByte(')')
	return b.String()
}

// (value, ok) results
// (value, ok) results: the documented not-found answer is (zero value, false).  A non-zero value next to
// ok == false is reported as the harness-detected failure 6 (the model always answers "()").
func oopt(v int, ok bool) string {
	if ok {
		return "(" + strconv.Itoa(v) + ")"
	}
	if v != 0 {
		return obsFail(failNonZero)
	}
	return "()"
}

func oopt2(k, v int, ok bool) string {
	if ok {
		return opair(k, v)
	}
	if k != 0 || v != 0 {
		return obsFail(failNonZero)
	}
	return "()"
}

// VLine is one component of an observation vector.
type VLine struct {
	Tag string
	Obs string
}

// ---------- configuration ----------

type Config struct {
	Kind  string
	KCmp  string
	VCmp  string
	Cap   int
	Order int
	Uni   int
	Lvl   int
	Extra string // free text "key=value ..." appended to the header
}

var allKinds = []string{
	"ArrayList", "SinglyLinkedList", "DoublyLinkedList",
	"HashSet", "TreeSet", "LinkedHashSet",
	"ArrayStack", "LinkedListStack",
	"HashMap", "TreeMap", "LinkedHashMap", "HashBidiMap", "TreeBidiMap",
	"RedBlackTree", "AVLTree", "BTree", "BinaryHeap",
	"ArrayQueue", "LinkedListQueue", "CircularBuffer", "PriorityQueue",
}

func validKind(k string) bool {
	for _, x := range allKinds {
		if x == k {
			return true
		}
	}
	return false
}

func (c Config) Header(id string) string {
	s := fmt.Sprintf("H %s kind=%s kcmp=%s vcmp=%s cap=%d order=%d uni=%d lvl=%d",
		id, c.Kind, c.KCmp, c.VCmp, c.Cap, c.Order, c.Uni, c.Lvl)
	if c.Extra != "" {
		s += " " + c.Extra
	}
	return s
}

// key of the configuration for hashing (without the free text)
func (c Config) Key() string {
	return fmt.Sprintf("%s/%s/%s/%d/%d/%d/%d", c.Kind, c.KCmp, c.VCmp, c.Cap, c.Order, c.Uni, c.Lvl)
}

func parseHeader(line string) (id string, c Config, err error) {
	words := strings.Fields(line)
	if len(words) < 2 || words[0] != "H" {
		return "", c, fmt.Errorf("bad header %q", line)
	}
	id = words[1]
	get := func(name string) (string, error) {
		for _, w := range words[2:] {
			if strings.HasPrefix(w, name+"=") {
				return w[len(name)+1:], nil
			}
		}
		return "", fmt.Errorf("missing header field %s in %q", name, line)
	}
	geti := func(name string) (int, error) {
		s, e := get(name)
		if e != nil {
			return 0, e
		}
		return strconv.Atoi(s)
	}
	if c.Kind, err = get("kind"); err != nil {
		return
	}
	if !validKind(c.Kind) {
		return id, c, fmt.Errorf("bad kind %q", c.Kind)
	}
	if c.KCmp, err = get("kcmp"); err != nil {
		return
	}
	if c.VCmp, err = get("vcmp"); err != nil {
		return
	}
	if !validCmp(c.KCmp) || !validCmp(c.VCmp) {
		return id, c, fmt.Errorf("bad comparator in %q", line)
	}
	if c.Cap, err = geti("cap"); err != nil {
		return
	}
	if c.Order, err = geti("order"); err != nil {
		return
	}
	if c.Uni, err = geti("uni"); err != nil {
		return
	}
	if c.Lvl, err = geti("lvl"); err != nil {
		return
	}
	var extra []string
	for _, w := range words[2:] {
		known := false
		for _, n := range []string{"kind", "kcmp", "vcmp", "cap", "order", "uni", "lvl"} {
			if strings.HasPrefix(w, n+"=") {
				known = true
			}
		}
		if !known {
			extra = append(extra, w)
		}
	}
	c.Extra = strings.Join(extra, " ")
	return
}

// ---------- operations ----------

type ICall struct {
	Name string // Next Prev Begin End First Last NextTo PrevTo
	P    Pred   // NextTo / PrevTo
}

func (c ICall) Text() string {
	if c.Name == "NextTo" || c.Name == "PrevTo" {
		return c.Name + ":" + c.P.Text()
	}
	return c.Name
}

// Decoded is what encoding/json says a document denotes (Ops.v: decoded).
type Decoded struct {
	Kind string // DErr DNull DArr DObj
	Arr  []int
	Obj  [][2]int
}

func (d Decoded) Text() string {
	switch d.Kind {
	case "DArr":
		return "DArr " + listText(d.Arr)
	case "DObj":
		return "DObj " + pairListText(d.Obj)
	}
	return d.Kind
}

type Op struct {
	Name   string
	I, J   int // Insert/Set/RemoveAt/Swap index (I, J); Put/Remove key (I); Set/Put value (J); Push/Enqueue value (I)
	Vs     []int
	Cmp    string
	P      Pred
	F      MapF
	Script []ICall
	Dec    Decoded
	JSON   []byte // FromJSON: the document (stays on the Go side)
	HasJS  bool   // JSON is meaningful (otherwise re-encode Dec)
	Stream string // gen only: "valid" / "malformed"
}

func listText(l []int) string {
	var b strings.Builder
	b.WriteByte('[')
	for i, x := range l {
		if i > 0 {
			b.WriteByte(',')
		}
		b.WriteString(strconv.Itoa(x))
	}
	b.WriteByte(']')
	return b.String()
}

func pairListText(l [][2]int) string {
	var b strings.Builder
	b.WriteByte('[')
	for i, e := range l {
		if i > 0 {
			b.WriteByte(',')
		}
		b.WriteString(strconv.Itoa(e[0]))
		b.WriteByte(':')
		b.WriteString(strconv.Itoa(e[1]))
	}
	b.WriteByte(']')
	return b.String()
}

// Text is the text after "O ".
func (o *Op) Text() string {
	switch o.Name {
	case "Add", "Append", "Prepend", "RemoveVals", "PushAll", "Inter", "Union", "Diff":
		return o.Name + " " + listText(o.Vs)
	case "Insert":
		return fmt.Sprintf("Insert %d %s", o.I, listText(o.Vs))
	case "Set", "Swap", "Put":
		return fmt.Sprintf("%s %d %d", o.Name, o.I, o.J)
	case "RemoveAt", "Push", "Enqueue", "Remove":
		return fmt.Sprintf("%s %d", o.Name, o.I)
	case "Sort", "SortedValuesFunc":
		return fmt.Sprintf("%s %s %s", o.Name, o.Cmp, listText(o.Vs))
	case "Pop", "Dequeue", "Clear", "Each", "InterSelf", "UnionSelf", "DiffSelf", "SortedValues":
		return o.Name
	case "FromJSON":
		return "FromJSON " + o.Dec.Text()
	case "Iter":
		parts := make([]string, len(o.Script))
		for i, c := range o.Script {
			parts[i] = c.Text()
		}
		return "Iter [" + strings.Join(parts, ",") + "]"
	case "Any", "All", "Find", "Select":
		return o.Name + " " + o.P.Text()
	case "Map":
		return "Map " + o.F.Text()
	}
	panic("harness: unknown operation " + o.Name)
}

func parseIntList(s string) ([]int, error) {
	if len(s) < 2 || s[0] != '[' || s[len(s)-1] != ']' {
		return nil, fmt.Errorf("bad list %q", s)
	}
	body := s[1 : len(s)-1]
	out := []int{}
	if body == "" {
		return out, nil
	}
	for _, f := range strings.Split(body, ",") {
		n, err := strconv.Atoi(f)
		if err != nil {
			return nil, fmt.Errorf("bad list %q", s)
		}
		out = append(out, n)
	}
	return out, nil
}

func parsePairList(s string) ([][2]int, error) {
	if len(s) < 2 || s[0] != '[' || s[len(s)-1] != ']' {
		return nil, fmt.Errorf("bad pair list %q", s)
	}
	body := s[1 : len(s)-1]
	out := [][2]int{}
	if body == "" {
		return out, nil
	}
	for _, f := range strings.Split(body, ",") {
		kv := strings.Split(f, ":")
		if len(kv) != 2 {
			return nil, fmt.Errorf("bad pair list %q", s)
		}
		k, e1 := strconv.Atoi(kv[0])
		v, e2 := strconv.Atoi(kv[1])
		if e1 != nil || e2 != nil {
			return nil, fmt.Errorf("bad pair list %q", s)
		}
		out = append(out, [2]int{k, v})
	}
	return out, nil
}

func parseScript(s string) ([]ICall, error) {
	if len(s) < 2 || s[0] != '[' || s[len(s)-1] != ']' {
		return nil, fmt.Errorf("bad script %q", s)
	}
	body := s[1 : len(s)-1]
	out := []ICall{}
	if body == "" {
		return out, nil
	}
	for _, f := range strings.Split(body, ",") {
		parts := strings.Split(f, ":")
		switch parts[0] {
		case "Next", "Prev", "Begin", "End", "First", "Last":
			if len(parts) != 1 {
				return nil, fmt.Errorf("bad iterator call %q", f)
			}
			out = append(out, ICall{Name: parts[0]})
		case "NextTo", "PrevTo":
			p, err := parsePredFields(parts[1:])
			if err != nil {
				return nil, err
			}
			out = append(out, ICall{Name: parts[0], P: p})
		default:
			return nil, fmt.Errorf("bad iterator call %q", f)
		}
	}
	return out, nil
}

// parseOp parses the text after "O ".
func parseOp(text string) (*Op, error) {
	w := strings.Fields(text)
	bad := fmt.Errorf("bad operation %q", text)
	if len(w) == 0 {
		return nil, bad
	}
	o := &Op{Name: w[0]}
	atoi := func(s string) (int, error) { return strconv.Atoi(s) }
	var err error
	switch w[0] {
	case "Add", "Append", "Prepend", "RemoveVals", "PushAll", "Inter", "Union", "Diff":
		if len(w) != 2 {
			return nil, bad
		}
		o.Vs, err = parseIntList(w[1])
	case "Insert":
		if len(w) != 3 {
			return nil, bad
		}
		if o.I, err = atoi(w[1]); err == nil {
			o.Vs, err = parseIntList(w[2])
		}
	case "Set", "Swap", "Put":
		if len(w) != 3 {
			return nil, bad
		}
		if o.I, err = atoi(w[1]); err == nil {
			o.J, err = atoi(w[2])
		}
	case "RemoveAt", "Push", "Enqueue", "Remove":
		if len(w) != 2 {
			return nil, bad
		}
		o.I, err = atoi(w[1])
	case "Sort", "SortedValuesFunc":
		if len(w) != 3 || !validCmp(w[1]) {
			return nil, bad
		}
		o.Cmp = w[1]
		o.Vs, err = parseIntList(w[2])
	case "Pop", "Dequeue", "Clear", "Each", "InterSelf", "UnionSelf", "DiffSelf", "SortedValues":
		if len(w) != 1 {
			return nil, bad
		}
	case "FromJSON":
		if len(w) < 2 {
			return nil, bad
		}
		o.Dec.Kind = w[1]
		switch w[1] {
		case "DErr", "DNull":
			if len(w) != 2 {
				return nil, bad
			}
		case "DArr":
			if len(w) != 3 {
				return nil, bad
			}
			o.Dec.Arr, err = parseIntList(w[2])
		case "DObj":
			if len(w) != 3 {
				return nil, bad
			}
			o.Dec.Obj, err = parsePairList(w[2])
		default:
			return nil, bad
		}
	case "Iter":
		if len(w) != 2 {
			return nil, bad
		}
		o.Script, err = parseScript(w[1])
	case "Any", "All", "Find", "Select":
		if len(w) != 2 {
			return nil, bad
		}
		o.P, err = parsePred(w[1])
	case "Map":
		if len(w) != 2 {
			return nil, bad
		}
		o.F, err = parseMapF(w[1])
	default:
		return nil, bad
	}
	if err != nil {
		return nil, fmt.Errorf("%v in %q", err, text)
	}
	return o, nil
}
