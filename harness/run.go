package main

// The case runner: executes operations on the real container inside recover() and under a
// watchdog, and writes the trace (H / V / O / R / X / V / E lines).

import (
	"bufio"
	"crypto/sha256"
	"encoding/hex"
	"fmt"
	"time"
)

var callTimeout = 15 * time.Second

// opSource yields the operations of a case one at a time (generators look at the container).
type opSource interface {
	Next(d *drv, i int) *Op
}

type sliceSource []*Op

func (s sliceSource) Next(_ *drv, i int) *Op {
	if i < len(s) {
		return s[i]
	}
	return nil
}

type stats struct {
	Cases      int
	Ops        int
	PerKind    map[string]int
	OpHist     map[string]int
	MaxSize    map[string]int
	hashes     map[string]bool
	Nontrivial map[string]bool
	Samples    [][]string
	JSONValid  int
	JSONBad    int
	Crashes    int
	Timeouts   int
}

func newStats() *stats {
	return &stats{PerKind: map[string]int{}, OpHist: map[string]int{}, MaxSize: map[string]int{},
		hashes: map[string]bool{}, Nontrivial: map[string]bool{}}
}

type runner struct {
	w     *bufio.Writer
	cap   *fdCapture
	st    *stats
	work  chan func()
	timer *time.Timer
}

func newRunner(w *bufio.Writer, cap *fdCapture) *runner {
	return &runner{w: w, cap: cap, st: newStats(), timer: time.NewTimer(time.Hour)}
}

// guard runs f on the worker goroutine and waits at most callTimeout.  After a timeout the
// worker is abandoned (it may never return) and a new one is started for the next call.
func (r *runner) guard(f func()) (timedOut bool) {
	if r.work == nil {
		r.work = make(chan func())
		go func(ch chan func()) {
			for g := range ch {
				g()
			}
		}(r.work)
	}
	done := make(chan struct{})
	r.work <- func() { defer close(done); f() }
	if !r.timer.Stop() {
		select {
		case <-r.timer.C:
		default:
		}
	}
	r.timer.Reset(callTimeout)
	select {
	case <-done:
		return false
	case <-r.timer.C:
		r.work = nil // abandon the stuck worker
		return true
	}
}

func (d *drv) sizeSafe() (n int) {
	if d.crashed || d.c == nil {
		return 0
	}
	defer func() {
		if recover() != nil {
			n = 0
		}
	}()
	return d.c.Size()
}

func (d *drv) valuesSafe() (vs []int) {
	if d.crashed || d.c == nil {
		return nil
	}
	defer func() {
		if recover() != nil {
			vs = nil
		}
	}()
	return d.c.Values()
}

func (d *drv) keysSafe() (ks []int) {
	if d.crashed || d.c == nil || d.keys == nil {
		return nil
	}
	defer func() {
		if recover() != nil {
			ks = nil
		}
	}()
	return d.keys()
}

// writeVector observes (guarded) and writes the V lines.  Returns false after a timeout.
func (r *runner) writeVector(d *drv, seq int) bool {
	dirty := r.cap.dirty()
	if d.crashed {
		fmt.Fprintf(r.w, "V sane %s\n", obsCrash)
		return true
	}
	var vec []VLine
	panicked := false
	timedOut := r.guard(func() {
		defer func() {
			if rec := recover(); rec != nil {
				panicked = true
			}
		}()
		vec = d.observe(d.cfg.Lvl, dirty, seq)
	})
	if timedOut {
		r.st.Timeouts++
		fmt.Fprintf(r.w, "V sane %s\n", obsFail(failTimeout))
		return false
	}
	if panicked {
		d.crashed = true
		fmt.Fprintf(r.w, "V sane %s\n", obsCrash)
		return true
	}
	for _, l := range vec {
		r.w.WriteString("V ")
		r.w.WriteString(l.Tag)
		r.w.WriteByte(' ')
		r.w.WriteString(l.Obs)
		r.w.WriteByte('\n')
	}
	return true
}

func (r *runner) runCase(id string, cfg Config, src opSource) {
	st := r.st
	st.Cases++
	st.PerKind[cfg.Kind]++
	header := cfg.Header(id)
	fmt.Fprintln(r.w, header)
	sample := []string{header}
	h := sha256.New()
	h.Write([]byte(cfg.Key()))

	var d *drv
	r.guard(func() {
		defer func() { recover() }()
		d = newDrv(cfg)
	})
	if d == nil { // the constructor panicked (documented for BTree order < 3, ring capacity < 1)
		d = &drv{cfg: cfg, crashed: true}
	}
	seq := 0
	alive := r.writeVector(d, seq)
	nonEmpty := false
	nops := 0
	for i := 0; alive; i++ {
		op := src.Next(d, i)
		if op == nil {
			break
		}
		nops++
		st.Ops++
		st.OpHist[op.Name]++
		if op.Name == "FromJSON" {
			if !op.HasJS {
				op.JSON = encodeDecoded(op.Dec)
				op.HasJS = true
			}
			op.Dec = denote(cfg.Kind, op.JSON)
			if op.Stream == "valid" {
				st.JSONValid++
			} else if op.Stream == "malformed" {
				st.JSONBad++
			}
		}
		res, extra := obsCrash, obsUnit
		timedOut := false
		if !d.crashed {
			panicked := false
			timedOut = r.guard(func() {
				defer func() {
					if rec := recover(); rec != nil {
						panicked = true
					}
				}()
				res, extra = d.apply(op)
			})
			if timedOut {
				res, extra = obsFail(failTimeout), obsUnit
				st.Timeouts++
			} else if panicked {
				res, extra = obsCrash, obsUnit
				d.crashed = true
			}
		}
		if res == obsCrash {
			st.Crashes++
		}
		if op.Name == "FromJSON" {
			fmt.Fprintf(r.w, "# json %s\n", hex.EncodeToString(op.JSON))
		}
		text := "O " + op.Text()
		r.w.WriteString(text)
		r.w.WriteByte('\n')
		h.Write([]byte(text))
		if len(sample) < 40 {
			sample = append(sample, text)
		}
		fmt.Fprintf(r.w, "R %s\nX %s\n", res, extra)
		if timedOut {
			break
		}
		seq++
		alive = r.writeVector(d, seq)
		if n := d.sizeSafe(); n > 0 {
			nonEmpty = true
			if n > st.MaxSize[cfg.Kind] {
				st.MaxSize[cfg.Kind] = n
			}
		}
	}
	fmt.Fprintln(r.w, "E")
	sum := hex.EncodeToString(h.Sum(nil))
	st.hashes[sum] = true
	if nops >= 3 && nonEmpty {
		st.Nontrivial[sum] = true
	}
	if len(st.Samples) < 5 && nops >= 3 {
		st.Samples = append(st.Samples, sample)
	}
}
