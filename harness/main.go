// Command harness runs operation sequences on the real gods containers (built with -tags verif)
// and records the trace of PROTOCOL.md that the extracted Coq machine replays.
//
//	harness gen    -prop <C01..C18|all> -seed <int> -tier <quick|thorough> -out <trace> -stats <json> [-cases N]
//	harness replay -in <file with H and O lines> -out <trace>
package main

import (
	"bufio"
	"encoding/hex"
	"encoding/json"
	"flag"
	"fmt"
	"math/rand"
	"os"
	"strings"
	"time"
)

func usage() {
	fmt.Fprintln(os.Stderr, "usage: harness gen -prop <C01..C18|all> -seed <int> -tier <quick|thorough> -out <trace file> -stats <json file> [-cases N]")
	fmt.Fprintln(os.Stderr, "       harness replay -in <file with H and O lines> -out <trace file>")
	os.Exit(2)
}

func main() {
	if len(os.Args) < 2 {
		usage()
	}
	var err error
	switch os.Args[1] {
	case "gen":
		err = mainGen(os.Args[2:])
	case "replay":
		err = mainReplay(os.Args[2:])
	default:
		usage()
	}
	if err != nil {
		fmt.Fprintln(os.Stderr, "harness:", err)
		os.Exit(1)
	}
}

// withRunner opens the trace file, captures fd 1 / fd 2, runs body and restores the fds.
// Diagnostics are printed only after the fds are back.
func withRunner(out string, body func(r *runner) error) (st *stats, err error) {
	f, err := os.Create(out)
	if err != nil {
		return nil, err
	}
	defer f.Close()
	w := bufio.NewWriterSize(f, 1<<20)
	cap, err := startCapture()
	if err != nil {
		return nil, fmt.Errorf("cannot capture fd 1 / fd 2: %v", err)
	}
	r := newRunner(w, cap)
	func() {
		defer func() {
			if rec := recover(); rec != nil {
				err = fmt.Errorf("internal error: %v", rec)
			}
		}()
		err = body(r)
	}()
	captured := cap.restore()
	if ferr := w.Flush(); err == nil {
		err = ferr
	}
	if captured != "" {
		fmt.Fprintf(os.Stderr, "harness: output captured from fd 1 / fd 2 while running cases:\n%s\n", captured)
	}
	return r.st, err
}

func mainGen(args []string) error {
	fs := flag.NewFlagSet("gen", flag.ExitOnError)
	prop := fs.String("prop", "all", "property C01..C18 or all")
	seed := fs.Int64("seed", 1, "random seed")
	tier := fs.String("tier", "quick", "quick or thorough")
	out := fs.String("out", "", "trace file")
	statsFile := fs.String("stats", "", "statistics (JSON) file")
	ncases := fs.Int("cases", 0, "number of cases (default depends on the tier)")
	fs.Parse(args)
	if *out == "" {
		return fmt.Errorf("gen: -out is required")
	}
	if *tier != "quick" && *tier != "thorough" {
		return fmt.Errorf("gen: bad tier %q", *tier)
	}
	p := strings.ToUpper(*prop)
	if p == "ALL" {
		p = "all"
	}
	if !validProp(p) {
		return fmt.Errorf("gen: bad property %q", *prop)
	}
	start := time.Now()
	st, err := withRunner(*out, func(r *runner) error {
		g := &generator{rng: rand.New(rand.NewSource(*seed)), prop: p, seed: *seed, tier: *tier, n: *ncases}
		g.run(r)
		return nil
	})
	if err != nil {
		return err
	}
	wall := time.Since(start).Seconds()
	if *statsFile != "" {
		js, _ := json.MarshalIndent(map[string]any{
			"prop":             p,
			"seed":             *seed,
			"tier":             *tier,
			"cases":            st.Cases,
			"ops":              st.Ops,
			"per_kind":         st.PerKind,
			"op_histogram":     st.OpHist,
			"max_size_reached": st.MaxSize,
			"distinct_cases":   len(st.hashes),
			"nontrivial_cases": len(st.Nontrivial),
			"samples":          st.Samples,
			"json_streams":     map[string]int{"valid": st.JSONValid, "malformed": st.JSONBad},
			"crashes":          st.Crashes,
			"timeouts":         st.Timeouts,
			"wall_s":           wall,
		}, "", " ")
		if err := os.WriteFile(*statsFile, append(js, '\n'), 0o644); err != nil {
			return err
		}
	}
	fmt.Fprintf(os.Stderr, "harness gen: prop=%s seed=%d tier=%s cases=%d ops=%d crashes=%d timeouts=%d wall=%.2fs\n",
		p, *seed, *tier, st.Cases, st.Ops, st.Crashes, st.Timeouts, wall)
	return nil
}

type replayCase struct {
	id  string
	cfg Config
	ops []*Op
}

func mainReplay(args []string) error {
	fs := flag.NewFlagSet("replay", flag.ExitOnError)
	in := fs.String("in", "", "file with H and O lines (other lines are ignored)")
	out := fs.String("out", "", "trace file")
	fs.Parse(args)
	if *in == "" || *out == "" {
		return fmt.Errorf("replay: -in and -out are required")
	}
	f, err := os.Open(*in)
	if err != nil {
		return err
	}
	defer f.Close()
	var cases []*replayCase
	var cur *replayCase
	var pendingJSON []byte
	hasPending := false
	sc := bufio.NewScanner(f)
	sc.Buffer(make([]byte, 1<<20), 1<<30)
	for ln := 1; sc.Scan(); ln++ {
		line := sc.Text()
		switch {
		case strings.HasPrefix(line, "H "):
			id, cfg, err := parseHeader(line)
			if err != nil {
				return fmt.Errorf("%s:%d: %v", *in, ln, err)
			}
			cur = &replayCase{id: id, cfg: cfg}
			cases = append(cases, cur)
			hasPending = false
		case strings.HasPrefix(line, "# json"):
			b, err := hex.DecodeString(strings.TrimSpace(strings.TrimPrefix(line, "# json")))
			if err != nil {
				return fmt.Errorf("%s:%d: bad hex in json comment", *in, ln)
			}
			pendingJSON, hasPending = b, true
		case strings.HasPrefix(line, "O "):
			if cur == nil {
				return fmt.Errorf("%s:%d: operation before header", *in, ln)
			}
			op, err := parseOp(line[2:])
			if err != nil {
				return fmt.Errorf("%s:%d: %v", *in, ln, err)
			}
			if op.Name == "FromJSON" && hasPending {
				op.JSON, op.HasJS = pendingJSON, true
			}
			hasPending = false
			cur.ops = append(cur.ops, op)
		}
	}
	if err := sc.Err(); err != nil {
		return err
	}
	st, err := withRunner(*out, func(r *runner) error {
		for _, c := range cases {
			r.runCase(c.id, c.cfg, sliceSource(c.ops))
		}
		return nil
	})
	if err != nil {
		return err
	}
	fmt.Fprintf(os.Stderr, "harness replay: cases=%d ops=%d crashes=%d timeouts=%d\n", st.Cases, st.Ops, st.Crashes, st.Timeouts)
	return nil
}
