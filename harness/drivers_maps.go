package main

// Drivers of the five maps and the three key-value trees.

import (
	"fmt"
	"sort"

	"github.com/emirpasic/gods/v2/maps/hashbidimap"
	"github.com/emirpasic/gods/v2/maps/hashmap"
	"github.com/emirpasic/gods/v2/maps/linkedhashmap"
	"github.com/emirpasic/gods/v2/maps/treebidimap"
	"github.com/emirpasic/gods/v2/maps/treemap"
	"github.com/emirpasic/gods/v2/trees/avltree"
	"github.com/emirpasic/gods/v2/trees/btree"
	rbt "github.com/emirpasic/gods/v2/trees/redblacktree"
)

func constructMap(d *drv) {
	switch d.cfg.Kind {
	case "HashMap":
		bindHashMap(d, hashmap.New[int, int]())
	case "TreeMap":
		if d.natural {
			bindTreeMap(d, treemap.New[int, int]())
		} else {
			bindTreeMap(d, treemap.NewWith[int, int](d.kf))
		}
	case "LinkedHashMap":
		bindLinkedHashMap(d, linkedhashmap.New[int, int]())
	case "HashBidiMap":
		bindHashBidiMap(d, hashbidimap.New[int, int]())
	case "TreeBidiMap":
		if d.natural {
			bindTreeBidiMap(d, treebidimap.New[int, int]())
		} else {
			bindTreeBidiMap(d, treebidimap.NewWith[int, int](d.kf, d.vf))
		}
	case "RedBlackTree":
		if d.natural {
			bindRBTree(d, rbt.New[int, int]())
		} else {
			bindRBTree(d, rbt.NewWith[int, int](d.kf))
		}
	case "AVLTree":
		if d.natural {
			bindAVLTree(d, avltree.New[int, int]())
		} else {
			bindAVLTree(d, avltree.NewWith[int, int](d.kf))
		}
	case "BTree":
		if d.natural {
			bindBTree(d, btree.New[int, int](d.cfg.Order))
		} else {
			bindBTree(d, btree.NewWith[int, int](d.cfg.Order, d.kf))
		}
	}
}

// entries of a hashmap.Map ascending by key
func hashMapEntries(m *hashmap.Map[int, int]) [][2]int {
	ks := sortedCopy(m.Keys())
	out := make([][2]int, 0, len(ks))
	for _, k := range ks {
		v, _ := m.Get(k)
		out = append(out, [2]int{k, v})
	}
	return out
}

func bindHashMap(d *drv, m *hashmap.Map[int, int]) {
	d.c, d.raw = m, m
	d.keys, d.get, d.put, d.remove = m.Keys, m.Get, m.Put, m.Remove
	d.links = func() bool { return true }
	d.fingerprint = func() string { return "HM" + fmt.Sprint(hashMapEntries(m)) }
	d.mutate = func() {
		// in-place writes first (Clear may replace the backing structure and hide sharing)
		ks := m.Keys()
		m.Put(mutateMark, mutateMark)
		if len(ks) > 0 {
			m.Put(ks[0], mutateMark+1)
			m.Remove(ks[len(ks)-1])
		}
		m.Clear()
		m.Put(mutateMark, mutateMark)
	}
}

func bindTreeMap(d *drv, m *treemap.Map[int, int]) {
	d.c, d.raw = m, m
	d.keys, d.get, d.put, d.remove = m.Keys, m.Get, m.Put, m.Remove
	d.iter = func() any { return m.Iterator() }
	d.each = m.Each
	d.anyF = func(p predFn) bool { return m.Any(p) }
	d.allF = func(p predFn) bool { return m.All(p) }
	d.find = func(p predFn) (int, int) { return m.Find(p) }
	d.selectF = func(p predFn) *drv {
		r := m.Select(p)
		return d.derive(func(n *drv) { bindTreeMap(n, r) })
	}
	d.mapF = func(f mapFn) *drv {
		r := m.Map(f)
		return d.derive(func(n *drv) { bindTreeMap(n, r) })
	}
	d.left, d.right = m.Min, m.Max
	d.hasX = true // Machine.v reports the comparator calls of Put / Remove for TreeMap too
	d.floor, d.ceiling = m.Floor, m.Ceiling
	d.shape = func() string { return rbTreeShape(m.VerifInner()) }
	d.links = func() bool { return rbTreeLinks(m.VerifInner()) }
	d.fingerprint = func() string {
		t := m.VerifInner()
		return fmt.Sprintf("TM%s size=%d", rbTreeShape(t), t.Size())
	}
	d.mutate = func() {
		// in-place writes first (Clear may replace the backing structure and hide sharing)
		ks := m.Keys()
		m.Put(mutateMark, mutateMark)
		if len(ks) > 0 {
			m.Put(ks[0], mutateMark+1)
			m.Remove(ks[len(ks)-1])
		}
		m.Clear()
		m.Put(mutateMark, mutateMark)
	}
}

func bindLinkedHashMap(d *drv, m *linkedhashmap.Map[int, int]) {
	d.c, d.raw = m, m
	d.keys, d.get, d.put, d.remove = m.Keys, m.Get, m.Put, m.Remove
	d.iter = func() any { return m.Iterator() }
	d.each = m.Each
	d.anyF = func(p predFn) bool { return m.Any(p) }
	d.allF = func(p predFn) bool { return m.All(p) }
	d.find = func(p predFn) (int, int) { return m.Find(p) }
	d.selectF = func(p predFn) *drv {
		r := m.Select(p)
		return d.derive(func(n *drv) { bindLinkedHashMap(n, r) })
	}
	d.mapF = func(f mapFn) *drv {
		r := m.Map(f)
		return d.derive(func(n *drv) { bindLinkedHashMap(n, r) })
	}
	tableEntries := func() [][2]int {
		t := m.VerifTable()
		out := make([][2]int, 0, len(t))
		for k, v := range t {
			out = append(out, [2]int{k, v})
		}
		sort.Slice(out, func(i, j int) bool { return out[i][0] < out[j][0] })
		return out
	}
	d.rawObs = func() string { return opairs(tableEntries()) }
	d.links = func() bool {
		ord := m.VerifOrdering()
		if !dllLinks(ord) {
			return false
		}
		f, _, _, _ := ord.VerifChain(1 << 20)
		o := sortedCopy(f)
		t := tableEntries()
		if len(t) != len(o) {
			return false
		}
		for i := range t {
			if t[i][0] != o[i] || (i > 0 && o[i] == o[i-1]) {
				return false
			}
		}
		return true
	}
	d.fingerprint = func() string { return "LHM" + fmt.Sprint(tableEntries()) + dllFP(m.VerifOrdering()) }
	d.mutate = func() {
		// in-place writes first (Clear may replace the backing structure and hide sharing)
		ks := m.Keys()
		m.Put(mutateMark, mutateMark)
		if len(ks) > 0 {
			m.Put(ks[0], mutateMark+1)
			m.Remove(ks[len(ks)-1])
		}
		m.Clear()
		m.Put(mutateMark, mutateMark)
	}
}

func bindHashBidiMap(d *drv, m *hashbidimap.Map[int, int]) {
	d.c, d.raw = m, m
	d.keys, d.get, d.getKey, d.put, d.remove = m.Keys, m.Get, m.GetKey, m.Put, m.Remove
	d.rawObs = func() string { return opairs(hashMapEntries(m.VerifInverse())) }
	d.links = func() bool { return true }
	d.fingerprint = func() string {
		return "HBM" + fmt.Sprint(hashMapEntries(m.VerifInner())) + fmt.Sprint(hashMapEntries(m.VerifInverse()))
	}
	d.mutate = func() {
		// in-place writes first (Clear may replace the backing structure and hide sharing)
		ks := m.Keys()
		m.Put(mutateMark, mutateMark)
		if len(ks) > 0 {
			m.Put(ks[0], mutateMark+1)
			m.Remove(ks[len(ks)-1])
		}
		m.Clear()
		m.Put(mutateMark, mutateMark)
	}
}

func bindTreeBidiMap(d *drv, m *treebidimap.Map[int, int]) {
	d.c, d.raw = m, m
	d.keys, d.get, d.getKey, d.put, d.remove = m.Keys, m.Get, m.GetKey, m.Put, m.Remove
	d.iter = func() any { return m.Iterator() }
	d.each = m.Each
	d.anyF = func(p predFn) bool { return m.Any(p) }
	d.allF = func(p predFn) bool { return m.All(p) }
	d.find = func(p predFn) (int, int) { return m.Find(p) }
	d.selectF = func(p predFn) *drv {
		r := m.Select(p)
		return d.derive(func(n *drv) { bindTreeBidiMap(n, r) })
	}
	d.mapF = func(f mapFn) *drv {
		r := m.Map(f)
		return d.derive(func(n *drv) { bindTreeBidiMap(n, r) })
	}
	d.shape = func() string { return ol(rbTreeShape(m.VerifInner()), rbTreeShape(m.VerifInverse())) }
	d.links = func() bool { return rbTreeLinks(m.VerifInner()) && rbTreeLinks(m.VerifInverse()) }
	d.fingerprint = func() string {
		f, i := m.VerifInner(), m.VerifInverse()
		return fmt.Sprintf("TBM%s size=%d %s size=%d", rbTreeShape(f), f.Size(), rbTreeShape(i), i.Size())
	}
	d.mutate = func() {
		// in-place writes first (Clear may replace the backing structure and hide sharing)
		ks := m.Keys()
		m.Put(mutateMark, mutateMark)
		if len(ks) > 0 {
			m.Put(ks[0], mutateMark+1)
			m.Remove(ks[len(ks)-1])
		}
		m.Clear()
		m.Put(mutateMark, mutateMark)
	}
}

func bindRBTree(d *drv, t *rbt.Tree[int, int]) {
	d.c, d.raw = t, t
	d.keys, d.get, d.put, d.remove = t.Keys, t.Get, t.Put, t.Remove
	d.iter = func() any { return t.Iterator() }
	node := func(n *rbt.Node[int, int], ok bool) (int, int, bool) {
		if !ok || n == nil {
			return 0, 0, false
		}
		return n.Key, n.Value, true
	}
	d.left = func() (int, int, bool) { return node(t.Left(), true) }
	d.right = func() (int, int, bool) { return node(t.Right(), true) }
	d.floor = func(k int) (int, int, bool) { return node(t.Floor(k)) }
	d.ceiling = func(k int) (int, int, bool) { return node(t.Ceiling(k)) }
	d.shape = func() string { return rbTreeShape(t) }
	d.hasCost, d.hasX = true, true
	d.links = func() bool { return rbTreeLinks(t) }
	d.nodeAPI = func() bool { return rbNodeAPI(t, d.probes()) }
	d.fingerprint = func() string { return fmt.Sprintf("RB%s size=%d", rbTreeShape(t), t.Size()) }
}

func bindAVLTree(d *drv, t *avltree.Tree[int, int]) {
	d.c, d.raw = t, t
	d.keys, d.get, d.put, d.remove = t.Keys, t.Get, t.Put, t.Remove
	d.iter = func() any { return t.Iterator() }
	node := func(n *avltree.Node[int, int], ok bool) (int, int, bool) {
		if !ok || n == nil {
			return 0, 0, false
		}
		return n.Key, n.Value, true
	}
	d.left = func() (int, int, bool) { return node(t.Left(), true) }
	d.right = func() (int, int, bool) { return node(t.Right(), true) }
	d.floor = func(k int) (int, int, bool) { return node(t.Floor(k)) }
	d.ceiling = func(k int) (int, int, bool) { return node(t.Ceiling(k)) }
	d.shape = func() string { return avlShape(t.Root) }
	d.hasCost, d.hasX = true, true
	d.links = func() bool { return avlLinks(t.Root, t.Size()) }
	d.nodeAPI = func() bool { return avlNodeAPI(t, d.probes()) }
	d.fingerprint = func() string { return fmt.Sprintf("AVL%s size=%d", avlShape(t.Root), t.Size()) }
}

func bindBTree(d *drv, t *btree.Tree[int, int]) {
	d.c, d.raw = t, t
	d.keys, d.get, d.put, d.remove = t.Keys, t.Get, t.Put, t.Remove
	d.iter = func() any { return t.Iterator() }
	kv := func(k, v interface{}) (int, int, bool) {
		if k == nil {
			return 0, 0, false
		}
		vi, _ := v.(int)
		return k.(int), vi, true
	}
	d.left = func() (int, int, bool) { return kv(t.LeftKey(), t.LeftValue()) }
	d.right = func() (int, int, bool) { return kv(t.RightKey(), t.RightValue()) }
	d.shape = func() string { return btShape(t.Root) }
	d.height = t.Height
	d.hasCost, d.hasX = true, true
	d.links = func() bool { return btLinks(t.Root, t.Size()) && t.VerifOrder() == d.cfg.Order }
	d.nodeAPI = func() bool { return btNodeAPI(t, d.probes()) }
	d.fingerprint = func() string { return fmt.Sprintf("BT%s size=%d m=%d", btShape(t.Root), t.Size(), t.VerifOrder()) }
}
