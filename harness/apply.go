package main

// Interpretation of one operation on the real container.  apply() is called inside recover()
// and under the watchdog by the case runner (run.go); it returns the R and X observations.
// It also implements the harness-detected failures of Each / Any / All / Find / Select / Map
// and the set algebra (codes 1, 2, 3 of PROTOCOL.md).

import (
	"encoding/json"
	"github.com/emirpasic/gods/v2/containers"
)

const walkLimit = 1 << 20

func pairsEqual(a, b [][2]int) bool {
	if len(a) != len(b) {
		return false
	}
	for i := range a {
		if a[i] != b[i] {
			return false
		}
	}
	return true
}

func isPrefix(p, l [][2]int) bool {
	return len(p) <= len(l) && pairsEqual(p, l[:len(p)])
}

// content of a result container (Machine.v: content_obs), canonical for hash-ordered kinds
func contentObs(r *drv) string {
	if isKVKind(r.cfg.Kind) {
		return ol(ozs(canonKeys(r)), ozs(canonValues(r)))
	}
	return ozs(canonValues(r))
}

// result of a set-algebra call: Values(); HashSet and LinkedHashSet sorted ascending
func algebraObs(r *drv) string {
	vs := r.c.Values()
	if r.cfg.Kind != "TreeSet" {
		vs = sortedCopy(vs)
	}
	return ozs(vs)
}

func (d *drv) apply(op *Op) (r string, x string) {
	x = obsUnit
	k := d.cfg.Kind
	unit := func(f func()) (string, string) { f(); return obsUnit, x }
	switch op.Name {
	case "Clear":
		d.c.Clear()
		return obsUnit, x
	case "FromJSON":
		// the two documented entry points: FromJSON, and json.Unmarshal (UnmarshalJSON) for every other
		// document length; the model has one FromJSON
		var err error
		if len(op.JSON)%2 == 0 {
			err = d.c.FromJSON(op.JSON)
		} else {
			err = json.Unmarshal(op.JSON, d.c)
		}
		return obool(err == nil), x
	case "Iter":
		if d.iter == nil {
			return ol(obsUnsupported), x
		}
		return runScript(adaptIterator(d.iter()), op.Script), x

	// ----- lists / sets -----
	case "Add":
		if d.add == nil {
			return obsUnsupported, x
		}
		return unit(func() { d.add(op.Vs...) })
	case "Append":
		if d.appendF == nil {
			return obsUnsupported, x
		}
		return unit(func() { d.appendF(op.Vs...) })
	case "Prepend":
		if d.prepend == nil {
			return obsUnsupported, x
		}
		return unit(func() { d.prepend(op.Vs...) })
	case "Insert":
		if d.insert == nil {
			return obsUnsupported, x
		}
		return unit(func() { d.insert(op.I, op.Vs...) })
	case "Set":
		if d.set == nil {
			return obsUnsupported, x
		}
		return unit(func() { d.set(op.I, op.J) })
	case "RemoveAt":
		if d.removeAt == nil {
			return obsUnsupported, x
		}
		return unit(func() { d.removeAt(op.I) })
	case "Swap":
		if d.swap == nil {
			return obsUnsupported, x
		}
		return unit(func() { d.swap(op.I, op.J) })
	case "Sort":
		if d.sortBy == nil {
			return obsUnsupported, x
		}
		d.sortBy(comparator(op.Cmp))
		op.Vs = d.c.Values() // the result argument: validated by the model, never trusted
		return "1", x
	case "RemoveVals":
		if d.removeVals == nil {
			return obsUnsupported, x
		}
		return unit(func() { d.removeVals(op.Vs...) })

	// ----- stacks, queues, heap -----
	case "Push":
		if d.push == nil {
			return obsUnsupported, x
		}
		return unit(func() { d.push(op.I) })
	case "PushAll":
		if d.pushAll == nil {
			return obsUnsupported, x
		}
		return unit(func() { d.pushAll(op.Vs...) })
	case "Pop":
		if d.pop == nil {
			return obsUnsupported, x
		}
		v, ok := d.pop()
		return oopt(v, ok), x
	case "Enqueue":
		if d.enqueue == nil {
			return obsUnsupported, x
		}
		return unit(func() { d.enqueue(op.I) })
	case "Dequeue":
		if d.dequeue == nil {
			return obsUnsupported, x
		}
		v, ok := d.dequeue()
		return oopt(v, ok), x

	// ----- maps, trees -----
	case "Put":
		if d.put == nil {
			return obsUnsupported, x
		}
		*d.calls = 0
		d.put(op.I, op.J)
		if d.hasX {
			x = ol(oz(*d.calls))
		}
		return obsUnit, x
	case "Remove":
		if d.remove == nil {
			return obsUnsupported, x
		}
		*d.calls = 0
		d.remove(op.I)
		if d.hasX {
			x = ol(oz(*d.calls))
		}
		return obsUnit, x

	// ----- enumerable -----
	case "Each", "Any", "All", "Find", "Select", "Map":
		if !hasEnumerable(k) || d.each == nil {
			return obsUnsupported, x
		}
		return d.applyEnumerable(op), x

	// ----- set algebra -----
	case "Inter", "Union", "Diff", "InterSelf", "UnionSelf", "DiffSelf":
		if d.inter == nil {
			return obsUnsupported, x
		}
		return d.applyAlgebra(op), x

	// ----- containers.GetSortedValues / GetSortedValuesFunc -----
	case "SortedValues":
		return ozs(containers.GetSortedValues[int](d.c)), x
	case "SortedValuesFunc":
		op.Vs = containers.GetSortedValuesFunc[int](d.c, comparator(op.Cmp))
		if op.Vs == nil {
			op.Vs = []int{}
		}
		return "1", x
	}
	panic("harness: unknown operation " + op.Name)
}

func (d *drv) applyEnumerable(op *Op) string {
	before := d.fingerprint()
	expected := walkForward(d, walkLimit) // the pairs a fresh iterator walks over
	log := [][2]int{}
	record := func(i, v int) { log = append(log, [2]int{i, v}) }
	var res string
	var result *drv
	full := true // the function must have visited every element
	switch op.Name {
	case "Each":
		d.each(record)
		res = opairs(log)
	case "Any":
		b := d.anyF(func(i, v int) bool { record(i, v); return op.P.Eval(i, v) })
		res = obool(b)
		full = !b
	case "All":
		b := d.allF(func(i, v int) bool { record(i, v); return op.P.Eval(i, v) })
		res = obool(b)
		full = b
	case "Find":
		found := false
		i, v := d.find(func(i, v int) bool {
			record(i, v)
			if op.P.Eval(i, v) {
				found = true
				return true
			}
			return false
		})
		res = opair(i, v)
		full = !found
	case "Select":
		result = d.selectF(func(i, v int) bool { record(i, v); return op.P.Eval(i, v) })
	case "Map":
		result = d.mapF(func(i, v int) (int, int) { record(i, v); return op.F.Eval(i, v) })
	}
	if d.fingerprint() != before {
		return obsFail(failModified)
	}
	if full {
		if !pairsEqual(log, expected) {
			return obsFail(failCallback)
		}
	} else if !isPrefix(log, expected) {
		return obsFail(failCallback)
	}
	if result != nil {
		res = contentObs(result)
		// the result is a container in its own right: use it, then undo
		if !result.soundAfterUse(d) {
			return obsFail(failUnsound)
		}
		// the result must not share state with the receiver: mutate it and look again
		result.mutate()
		if d.fingerprint() != before {
			return obsFail(failAlias)
		}
	}
	return res
}

func (d *drv) applyAlgebra(op *Op) string {
	before := d.fingerprint()
	other := d
	otherBefore := before
	self := op.Name == "InterSelf" || op.Name == "UnionSelf" || op.Name == "DiffSelf"
	if !self {
		other = newLikeWith(d, op.Vs)
		otherBefore = other.fingerprint()
	}
	var result *drv
	switch op.Name {
	case "Inter", "InterSelf":
		result = d.inter(other)
	case "Union", "UnionSelf":
		result = d.union(other)
	case "Diff", "DiffSelf":
		result = d.difference(other)
	}
	if d.fingerprint() != before || other.fingerprint() != otherBefore {
		return obsFail(failModified)
	}
	res := algebraObs(result)
	if !result.soundAfterUse(d) {
		return obsFail(failUnsound)
	}
	result.mutate()
	if d.fingerprint() != before || other.fingerprint() != otherBefore {
		return obsFail(failAlias)
	}
	// the other direction: a later change of an operand must not reach a result
	if !self {
		var result2 *drv
		switch op.Name {
		case "Inter":
			result2 = d.inter(other)
		case "Union":
			result2 = d.union(other)
		case "Diff":
			result2 = d.difference(other)
		}
		r2 := result2.fingerprint()
		other.mutate()
		if result2.fingerprint() != r2 || d.fingerprint() != before {
			return obsFail(failAlias)
		}
	}
	return res
}

// soundAfterUse exercises a derived container (the result of Select, Map or of a set-algebra call) as
// a receiver: one insertion and its removal must behave as on any container of the kind, the internal
// links must stay consistent, and - for sets - the algebra between the derived set and the set it was
// derived from must work (same comparator, same kind).  The container is left with its original content.
func (r *drv) soundAfterUse(from *drv) (ok bool) {
	defer func() {
		if rec := recover(); rec != nil {
			ok = false
		}
	}()
	k := r.cfg.Kind
	before := append([]int{}, r.c.Values()...)
	size := r.c.Size()
	mark := mutateMark + 7
	switch {
	case isListKind(k):
		// in-place writes first: growing the result may reallocate its storage and hide a shared backing array
		if size > 0 && from != nil && r.set != nil {
			fp := from.fingerprint()
			r.set(0, mark)
			r.set(size-1, mark+1)
			shared := from.fingerprint() != fp
			r.set(0, before[0])
			r.set(size-1, before[size-1])
			if shared {
				return false
			}
		}
		r.add(mark)
		vs := r.c.Values()
		if len(vs) != size+1 || vs[size] != mark || !intsEqual(vs[:size], before) || r.c.Size() != size+1 {
			return false
		}
		if r.links != nil && !r.links() {
			return false
		}
		r.removeAt(size)
	case isSetKind(k):
		r.add(mark)
		if !r.contains(mark) || r.c.Size() != size+1 || (r.links != nil && !r.links()) {
			return false
		}
		r.removeVals(mark)
		// algebra with the set it came from: |r ∩ from| = number of members of r that from contains
		if from != nil && from.inter != nil && r.inter != nil {
			want := 0
			for _, x := range before {
				if from.contains(x) {
					want++
				}
			}
			got := r.inter(from)
			for _, x := range got.c.Values() {
				if !from.contains(x) || !r.contains(x) {
					return false
				}
			}
			if got.c.Size() != want {
				return false
			}
			u := r.union(from)
			for _, x := range before {
				if !u.contains(x) {
					return false
				}
			}
			for _, x := range from.c.Values() {
				if !u.contains(x) {
					return false
				}
			}
		}
	case isKVKind(k):
		if r.put != nil && r.remove != nil && r.get != nil {
			r.put(mark, mark)
			if v, found := r.get(mark); !found || v != mark || r.c.Size() != size+1 || (r.links != nil && !r.links()) {
				return false
			}
			r.remove(mark)
		}
	}
	if r.c.Size() != size || (r.links != nil && !r.links()) {
		return false
	}
	after := r.c.Values()
	if isSetKind(k) && k != "TreeSet" || k == "HashMap" || k == "HashBidiMap" {
		return intsEqual(sortedCopy(after), sortedCopy(before))
	}
	return intsEqual(after, before)
}

func intsEqual(a, b []int) bool {
	if len(a) != len(b) {
		return false
	}
	for i := range a {
		if a[i] != b[i] {
			return false
		}
	}
	return true
}
