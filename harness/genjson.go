package main

// Generators of JSON documents for FromJSON: stream (a) "mostly valid" and stream (b)
// "malformed".  What a document denotes is decided later by encoding/json (jsonx.go: denote).
//
// Constraints that keep the real containers deterministic (the implementations range over a
// Go map when loading an object, so the insertion order is random):
//   - HashBidiMap / TreeBidiMap: the final members have pairwise different values (pairwise
//     non-equivalent under vcmp for TreeBidiMap);
//   - comparator-taking key-value kinds: keys pairwise non-equivalent under kcmp;
//   - kinds whose exact tree shape is observed: the number of distinct keys is one for which
//     every insertion order builds the same tree (0, 1, 3 for the red-black and AVL trees,
//     at most `order` for the B-tree).

import (
	"bytes"
	"fmt"
	"strconv"
	"strings"
)

func (c *caseGen) ws() string {
	g := c.g
	if !g.chance(25) {
		return ""
	}
	return g.pick([]string{" ", "  ", "\n", "\t", " \n ", "\r\n"})
}

func (c *caseGen) intText(v int) string {
	if v == 0 && c.g.chance(5) {
		return "-0"
	}
	return strconv.Itoa(v)
}

func (c *caseGen) keyText(k int) string {
	s := strconv.Itoa(k)
	switch x := c.g.intn(100); {
	case x < 3 && k >= 0:
		s = "0" + s // ParseInt accepts leading zeros
	case x < 6 && k >= 0:
		s = "+" + s // and an explicit sign
	}
	return `"` + s + `"`
}

func (c *caseGen) arrayDoc(vs []int) []byte {
	var b bytes.Buffer
	b.WriteString(c.ws())
	b.WriteByte('[')
	for i, v := range vs {
		if i > 0 {
			b.WriteByte(',')
		}
		b.WriteString(c.ws())
		b.WriteString(c.intText(v))
		b.WriteString(c.ws())
	}
	if len(vs) == 0 {
		b.WriteString(c.ws())
	}
	b.WriteByte(']')
	b.WriteString(c.ws())
	return b.Bytes()
}

func (c *caseGen) objectDoc(members [][2]int, nullAt int) []byte {
	var b bytes.Buffer
	b.WriteString(c.ws())
	b.WriteByte('{')
	for i, m := range members {
		if i > 0 {
			b.WriteByte(',')
		}
		b.WriteString(c.ws())
		b.WriteString(c.keyText(m[0]))
		b.WriteString(c.ws())
		b.WriteByte(':')
		b.WriteString(c.ws())
		if i == nullAt {
			b.WriteString("null")
		} else {
			b.WriteString(c.intText(m[1]))
		}
		b.WriteString(c.ws())
	}
	if len(members) == 0 {
		b.WriteString(c.ws())
	}
	b.WriteByte('}')
	b.WriteString(c.ws())
	return b.Bytes()
}

func (c *caseGen) arrayValues() []int {
	g := c.g
	max := 10
	if c.cfg.Kind == "CircularBuffer" {
		max = c.cfg.Cap + 4 // longer than the ring capacity
		if max < 1 {
			max = 3
		}
	}
	n := g.between(0, max)
	vs := make([]int, 0, n)
	for i := 0; i < n; i++ {
		if i > 0 && g.chance(25) {
			vs = append(vs, vs[g.intn(len(vs))]) // duplicates
		} else {
			vs = append(vs, g.between(c.lo, c.hi))
		}
	}
	return vs
}

// members of a valid object document for the kind (see the constraints above)
func (c *caseGen) objectMembers() (members [][2]int, nullAt int) {
	g := c.g
	kind := c.cfg.Kind
	nullAt = -1
	var want int
	switch kind {
	case "RedBlackTree", "AVLTree", "TreeMap", "TreeBidiMap":
		want = g.pickInt([]int{0, 1, 1, 3, 3, 3})
	case "BTree":
		want = g.between(0, c.cfg.Order)
	default:
		want = g.between(0, 8)
	}
	kkey := func(x int) int { return x }
	if takesComparator(kind) {
		kkey = cmpKey(c.cfg.KCmp)
	}
	vkey := func(x int) int { return x }
	if kind == "TreeBidiMap" {
		vkey = cmpKey(c.cfg.VCmp)
	}
	bidi := kind == "TreeBidiMap" || kind == "HashBidiMap"
	seenK, seenV := map[int]bool{}, map[int]bool{}
	for tries := 0; len(members) < want && tries < 200; tries++ {
		k := g.between(c.lo, c.hi)
		if seenK[kkey(k)] {
			continue
		}
		v := c.value()
		if bidi {
			if tries > 100 {
				v = g.between(-50, 50)
			}
			if seenV[vkey(v)] {
				continue
			}
			seenV[vkey(v)] = true
		}
		seenK[kkey(k)] = true
		members = append(members, [2]int{k, v})
	}
	if hasShape(kind) && kind != "BTree" && len(members) == 2 {
		members = members[:1] // two keys: the shape depends on the insertion order
	}
	// an overwritten duplicate in front of its final occurrence (the last value wins; for
	// LinkedHashMap the first position wins)
	if len(members) > 0 && g.chance(25) {
		i := g.intn(len(members))
		dup := [2]int{members[i][0], c.value()}
		at := g.intn(i + 1)
		members = append(members[:at], append([][2]int{dup}, members[at:]...)...)
	}
	if !bidi && len(members) > 0 && g.chance(6) {
		// a null value decodes to 0; only where it is overwritten or harmless
		nullAt = g.intn(len(members))
	}
	return members, nullAt
}

func (c *caseGen) jsonValid() []byte {
	g := c.g
	kv := isKVKind(c.cfg.Kind)
	switch x := g.intn(100); {
	case x < 8:
		return []byte(c.ws() + "null" + c.ws())
	case x < 15:
		if kv {
			return []byte("{}")
		}
		return []byte("[]")
	}
	if kv {
		m, nullAt := c.objectMembers()
		return c.objectDoc(m, nullAt)
	}
	return c.arrayDoc(c.arrayValues())
}

var syntaxErrors = []string{
	"[1,2", "[1 2]", `{"1":}`, "]", "", "tru", "[1,]", `{"1":2,}`, "{1:2}", "[01]", "'1'", "[1,2]]",
	`{"1":2}}`, "[1]x", "nul", `{"1" 2}`, "[", "{", `{"1"`, `{"1":`, "[1,,2]", `{"1":2 "2":3}`, " ", "[1;2]",
	"[1][2]", `{"1":2}{"2":3}`, "[-]", "[+1]", "[.5]", `{"1":2,"2"}`,
}

func (c *caseGen) jsonMalformed() []byte {
	g := c.g
	kv := isKVKind(c.cfg.Kind)
	k1, k2 := strconv.Itoa(g.between(0, c.hi)), strconv.Itoa(g.between(0, c.hi))
	v1, v2 := strconv.Itoa(c.value()), strconv.Itoa(c.value())
	if g.intn(40) == 0 { // a long document (> 64 KiB) whose LAST element has the wrong type: still an error, still atomic
		var b strings.Builder
		if kv {
			b.WriteByte('{')
			for i := 0; i < 9000; i++ {
				fmt.Fprintf(&b, "\"%d\":%d,", i, i%97)
			}
			b.WriteString(`"9000":"oops"}`)
		} else {
			b.WriteByte('[')
			for i := 0; i < 16000; i++ {
				fmt.Fprintf(&b, "%d,", i%997)
			}
			b.WriteString(`"oops"]`)
		}
		return []byte(b.String())
	}
	switch g.intn(7) {
	case 0: // syntactically invalid
		return []byte(g.pick(syntaxErrors))
	case 1: // truncated
		doc := c.jsonValid()
		for tries := 0; len(bytes.TrimSpace(doc)) < 3 && tries < 5; tries++ {
			doc = c.jsonValid()
		}
		if len(doc) == 0 {
			return doc
		}
		return doc[:g.intn(len(doc))]
	case 2: // wrong element type at the first / middle / last position
		bad := g.pick([]string{`"x"`, "true", "[2]", "{}", `"1"`, "1.5", "false"})
		if kv {
			ms := []string{`"` + k1 + `":` + v1, `"` + strconv.Itoa(c.hi+2) + `":` + v2, `"` + strconv.Itoa(c.hi+3) + `":` + v1}
			switch g.intn(4) {
			case 0:
				ms[0] = `"` + k1 + `":` + bad
			case 1:
				ms[1] = `"` + k2 + `x":` + v2 // non-integer key in the middle
			case 2:
				ms[2] = `"` + strconv.Itoa(c.hi+3) + `":` + bad
			default:
				ms[g.intn(3)] = g.pick([]string{`"a":1`, `"":1`, `"1.5":1`, `" 1":1`, `"1 ":1`, `"0x1":1`})
			}
			return []byte("{" + strings.Join(ms[:g.between(1, 3)], ",") + "}")
		}
		el := []string{v1, v2, k1}
		el[g.intn(3)] = bad
		return []byte("[" + strings.Join(el, ",") + "]")
	case 3: // object for array kinds and vice versa, scalars
		if g.chance(25) {
			return []byte(g.pick([]string{"1", `"x"`, "true", "false", "0", "-1", `""`}))
		}
		if kv {
			return []byte(g.pick([]string{"[]", "[" + v1 + "]", "[" + v1 + "," + v2 + "]", `[{"1":2}]`}))
		}
		return []byte(g.pick([]string{"{}", `{"` + k1 + `":` + v1 + `}`, `{"0":` + v1 + `,"1":` + v2 + `}`}))
	case 4: // numbers overflowing int64
		big := g.pick([]string{"9223372036854775808", "-9223372036854775809", "1e400", "123456789012345678901234567890"})
		if kv {
			if g.chance(50) {
				return []byte(`{"` + big + `":` + v1 + `}`)
			}
			return []byte(`{"` + k1 + `":` + v1 + `,"` + strconv.Itoa(c.hi+2) + `":` + big + `}`)
		}
		return []byte("[" + v1 + "," + big + "]")
	case 5: // floats
		fl := g.pick([]string{"1.5", "1.0", "1e2", "-0.0", "2E0", "0.1"})
		if kv {
			if g.chance(40) {
				return []byte(`{"` + fl + `":` + v1 + `}`)
			}
			return []byte(`{"` + k1 + `":` + fl + `}`)
		}
		els := []string{v1, v2, k1}
		els[g.intn(3)] = fl
		return []byte("[" + strings.Join(els, ",") + "]")
	}
	// valid prefix followed by garbage
	doc := c.jsonValid()
	return append(doc, []byte(g.pick([]string{"x", ",", "]", "}", "[]", "{}", "1", "null"}))...)
}

// docDeterministic: if the document is a valid object for a key-value kind, does loading it
// give the same container whatever order the implementation's Go map is ranged over?
func (c *caseGen) docDeterministic(doc []byte) bool {
	kind := c.cfg.Kind
	if !isKVKind(kind) {
		return true
	}
	d := denote(kind, doc)
	if d.Kind != "DObj" {
		return true
	}
	final := map[int]int{}
	for _, m := range d.Obj {
		final[m[0]] = m[1]
	}
	if takesComparator(kind) {
		kkey := cmpKey(c.cfg.KCmp)
		seen := map[int]bool{}
		for k := range final {
			if seen[kkey(k)] {
				return false
			}
			seen[kkey(k)] = true
		}
	}
	if kind == "TreeBidiMap" || kind == "HashBidiMap" {
		vkey := func(x int) int { return x }
		if kind == "TreeBidiMap" {
			vkey = cmpKey(c.cfg.VCmp)
		}
		seen := map[int]bool{}
		for _, v := range final {
			if seen[vkey(v)] {
				return false
			}
			seen[vkey(v)] = true
		}
	}
	switch kind {
	case "RedBlackTree", "AVLTree", "TreeMap", "TreeBidiMap":
		return len(final) == 0 || len(final) == 1 || len(final) == 3
	case "BTree":
		return len(final) <= c.cfg.Order
	}
	return true
}

func (c *caseGen) jsonDoc(stream string) []byte {
	for tries := 0; tries < 50; tries++ {
		var doc []byte
		if stream == "valid" {
			doc = c.jsonValid()
		} else {
			doc = c.jsonMalformed()
		}
		if c.docDeterministic(doc) {
			return doc
		}
	}
	if stream == "valid" {
		return []byte("{}")
	}
	return []byte("{")
}
