package main

// Drivers of ArrayStack, LinkedListStack, ArrayQueue, LinkedListQueue, CircularBuffer,
// BinaryHeap, PriorityQueue.

import (
	"fmt"

	"github.com/emirpasic/gods/v2/queues/arrayqueue"
	"github.com/emirpasic/gods/v2/queues/circularbuffer"
	"github.com/emirpasic/gods/v2/queues/linkedlistqueue"
	"github.com/emirpasic/gods/v2/queues/priorityqueue"
	"github.com/emirpasic/gods/v2/stacks/arraystack"
	"github.com/emirpasic/gods/v2/stacks/linkedliststack"
	"github.com/emirpasic/gods/v2/trees/binaryheap"
)

func constructLinear(d *drv) {
	switch d.cfg.Kind {
	case "ArrayStack":
		s := arraystack.New[int]()
		d.c, d.raw = s, s
		d.push, d.pop, d.peek = s.Push, s.Pop, s.Peek
		d.iter = func() any { return s.Iterator() }
		d.links = func() bool { e, c, _ := s.VerifInner().VerifRaw(); return len(e) <= c }
		d.fingerprint = func() string { return "AS" + arrayListFP(s.VerifInner()) }
	case "LinkedListStack":
		s := linkedliststack.New[int]()
		d.c, d.raw = s, s
		d.push, d.pop, d.peek = s.Push, s.Pop, s.Peek
		d.iter = func() any { return s.Iterator() }
		d.links = func() bool { return sllLinks(s.VerifInner()) }
		d.fingerprint = func() string { return "LS" + sllFP(s.VerifInner()) }
	case "ArrayQueue":
		q := arrayqueue.New[int]()
		d.c, d.raw = q, q
		d.enqueue, d.dequeue, d.peek = q.Enqueue, q.Dequeue, q.Peek
		d.iter = func() any { return q.Iterator() }
		d.links = func() bool { e, c, _ := q.VerifInner().VerifRaw(); return len(e) <= c }
		d.fingerprint = func() string { return "AQ" + arrayListFP(q.VerifInner()) }
	case "LinkedListQueue":
		q := linkedlistqueue.New[int]()
		d.c, d.raw = q, q
		d.enqueue, d.dequeue, d.peek = q.Enqueue, q.Dequeue, q.Peek
		d.iter = func() any { return q.Iterator() }
		d.links = func() bool { return sllLinks(q.VerifInner()) }
		d.fingerprint = func() string { return "LQ" + sllFP(q.VerifInner()) }
	case "CircularBuffer":
		q := circularbuffer.New[int](d.cfg.Cap)
		d.c, d.raw = q, q
		d.enqueue, d.dequeue, d.peek, d.full = q.Enqueue, q.Dequeue, q.Peek, q.Full
		d.iter = func() any { return q.Iterator() }
		d.rawObs = func() string {
			vals, start, end, full, maxSize, size := q.VerifState()
			return ol(ozs(vals), oz(start), oz(end), obool(full), oz(maxSize), oz(size))
		}
		d.links = func() bool {
			// representation-independent sanity only: the exact indices are compared through `raw`
			vals, _, _, _, maxSize, size := q.VerifState()
			return len(vals) == maxSize && size >= 0 && size <= maxSize && size == len(q.Values())
		}
		d.fingerprint = func() string {
			vals, start, end, full, maxSize, size := q.VerifState()
			return fmt.Sprintf("CB%v %d %d %v %d %d", vals, start, end, full, maxSize, size)
		}
	case "BinaryHeap":
		h := binaryheap.NewWith[int](d.kf)
		if d.natural {
			h = binaryheap.New[int]()
		}
		d.c, d.raw = h, h
		d.push = func(v int) { h.Push(v) }
		d.pushAll = func(vs ...int) { h.Push(vs...) }
		d.pop, d.peek = h.Pop, h.Peek
		d.iter = func() any { return h.Iterator() }
		d.rawObs = func() string { e, _, _ := h.VerifInner().VerifRaw(); return ozs(e) }
		d.links = func() bool { e, c, _ := h.VerifInner().VerifRaw(); return len(e) <= c }
		d.fingerprint = func() string { return "BH" + arrayListFP(h.VerifInner()) }
	case "PriorityQueue":
		q := priorityqueue.NewWith[int](d.kf)
		if d.natural {
			q = priorityqueue.New[int]()
		}
		d.c, d.raw = q, q
		d.enqueue, d.dequeue, d.peek = q.Enqueue, q.Dequeue, q.Peek
		d.iter = func() any { return q.Iterator() }
		d.rawObs = func() string { e, _, _ := q.VerifInner().VerifInner().VerifRaw(); return ozs(e) }
		d.links = func() bool { e, c, _ := q.VerifInner().VerifInner().VerifRaw(); return len(e) <= c }
		d.fingerprint = func() string { return "PQ" + arrayListFP(q.VerifInner().VerifInner()) }
	}
}
