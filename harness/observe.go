package main

// The observation vector (Machine.v: observe).  observeCore produces every component but
// `sane`; sane.go adds the eight sanity bits.

import (
	"sort"
)

// Values() in canonical form: HashSet ascending; HashMap in ascending key order; HashBidiMap
// ascending; everything else as returned.
func canonValues(d *drv) []int {
	vs := d.c.Values()
	switch d.cfg.Kind {
	case "HashSet", "HashBidiMap":
		return sortedCopy(vs)
	case "HashMap":
		ks := sortedCopy(d.keys())
		byKey := make([]int, 0, len(ks))
		for _, k := range ks {
			v, _ := d.get(k)
			byKey = append(byKey, v)
		}
		// Values() must be a permutation of the values reachable through the keys; if it
		// is not, print what Values() really returned (sorted) so that the line differs.
		a, b := sortedCopy(vs), sortedCopy(byKey)
		same := len(a) == len(b)
		for i := 0; same && i < len(a); i++ {
			same = a[i] == b[i]
		}
		if !same {
			return a
		}
		return byKey
	}
	if vs == nil {
		return []int{}
	}
	return vs
}

func canonKeys(d *drv) []int {
	ks := d.keys()
	switch d.cfg.Kind {
	case "HashMap", "HashBidiMap":
		return sortedCopy(ks)
	}
	return ks
}

func (d *drv) probes() []int {
	out := make([]int, 0, d.cfg.Uni+2)
	for p := -1; p <= d.cfg.Uni; p++ {
		out = append(out, p)
	}
	return out
}

func (d *drv) containsProbes() [][]int {
	out := [][]int{{}}
	for _, p := range d.probes() {
		out = append(out, []int{p})
	}
	return append(out, []int{0, 1}, []int{1, 1, 0}, []int{d.cfg.Uni, 0}, []int{0, -1})
}

func (d *drv) containsObs() string {
	items := []string{}
	for _, vs := range d.containsProbes() {
		items = append(items, obool(d.contains(vs...)))
	}
	return ol(items...)
}

// observeCore: all components except `sane`, in the order of Machine.observe.
func (d *drv) observeCore(lvl int) []VLine {
	k := d.cfg.Kind
	full := lvl >= 1
	kv := isKVKind(k)
	out := make([]VLine, 0, 16)
	add := func(tag, obs string) { out = append(out, VLine{tag, obs}) }

	size := d.c.Size()
	add("size", oz(size))
	if full {
		add("empty", obool(d.c.Empty()))
		add("values", ozs(canonValues(d)))
	}
	if full && kv {
		add("keys", ozs(canonKeys(d)))
		items := []string{}
		for _, p := range d.probes() {
			items = append(items, oopt(d.get(p)))
		}
		add("get", ol(items...))
	}
	if full {
		switch {
		case k == "HashBidiMap" || k == "TreeBidiMap":
			items := []string{}
			for _, p := range d.probes() {
				items = append(items, oopt(d.getKey(p)))
			}
			add("getkey", ol(items...))
		case isListKind(k):
			items := []string{}
			for i := -2; i <= size+1; i++ {
				items = append(items, oopt(d.getIdx(i)))
			}
			add("getidx", ol(items...))
			idx := []int{}
			for _, p := range d.probes() {
				idx = append(idx, d.indexOf(p))
			}
			add("indexof", ozs(idx))
			add("contains", d.containsObs())
		case isSetKind(k):
			add("contains", d.containsObs())
		case hasPeekKind(k):
			add("peek", oopt(d.peek()))
			if d.full != nil {
				add("full", obool(d.full()))
			}
		}
	}
	// navigation on the ordered key-value kinds
	if full && d.left != nil {
		add("left", oopt2(d.left()))
		add("right", oopt2(d.right()))
		if d.floor != nil {
			fl, ce := []string{}, []string{}
			for _, p := range d.probes() {
				fl = append(fl, oopt2(d.floor(p)))
				ce = append(ce, oopt2(d.ceiling(p)))
			}
			add("floor", ol(fl...))
			add("ceiling", ol(ce...))
		}
	}
	if full && kv && d.iter != nil {
		add("iterf", opairs(walkForward(d, size+2)))
		add("iterb", opairs(walkBackward(d, size+2)))
	}
	// exact structure and comparator-call counts
	if d.height != nil {
		add("height", oz(d.height()))
	}
	if d.shape != nil {
		add("shape", d.shape())
	}
	if d.hasCost {
		costs := []int{}
		for _, p := range d.probes() {
			*d.calls = 0
			d.get(p)
			costs = append(costs, *d.calls)
		}
		add("cost", ozs(costs))
	}
	if d.rawObs != nil {
		add("raw", d.rawObs())
	}
	if full {
		js, err := d.c.ToJSON()
		add("json", jsonObs(k, js, err))
	}
	return out
}

// components that legitimately differ after reloading ToJSON() into a fresh container:
// the trees are rebuilt in another insertion order (range over a Go map), the ring restarts
// at slot 0.
func reloadExempt(kind, tag string) bool {
	switch tag {
	case "shape", "height", "cost":
		return true
	case "raw":
		return kind == "CircularBuffer"
	}
	return false
}

func sameVector(kind string, a, b []VLine) bool {
	filter := func(v []VLine) []VLine {
		out := []VLine{}
		for _, l := range v {
			if !reloadExempt(kind, l.Tag) {
				out = append(out, l)
			}
		}
		sort.SliceStable(out, func(i, j int) bool { return out[i].Tag < out[j].Tag })
		return out
	}
	fa, fb := filter(a), filter(b)
	if len(fa) != len(fb) {
		return false
	}
	for i := range fa {
		if fa[i] != fb[i] {
			return false
		}
	}
	return true
}
