package main

// The comparator, predicate and mapping-function families.  They mirror
// coq/theories/Common/Cmp.v (cmp_key) and coq/theories/Model/Ops.v (pred_eval, mapf_eval)
// exactly: division is FLOOR division and mod is the FLOOR modulus (Coq's Z.div / Z.modulo),
// not Go's truncating / and %.

import (
	"cmp"
	"fmt"
	"math"
	"strconv"
	"strings"
)

// floorDiv is Coq's Z.div for b > 0 (and, like Z.div, x / 0 = 0).
func floorDiv(a, b int) int {
	if b == 0 {
		return 0
	}
	q := a / b
	if (a%b != 0) && ((a < 0) != (b < 0)) {
		q--
	}
	return q
}

// floorMod is Coq's Z.modulo (result has the sign of b; x mod 0 = x in Coq >= 8.14 -- never generated).
func floorMod(a, b int) int {
	if b == 0 {
		return a
	}
	m := a % b
	if m != 0 && ((m < 0) != (b < 0)) {
		m += b
	}
	return m
}

// ---------- comparators ----------

var cmpNames = []string{"CNat", "CRev", "CDiv3", "CAbs"}

func validCmp(id string) bool {
	for _, n := range cmpNames {
		if n == id {
			return true
		}
	}
	return false
}

func cmpKey(id string) func(int) int {
	switch id {
	case "CNat":
		return func(x int) int { return x }
	case "CRev":
		return func(x int) int { return -x }
	case "CDiv3":
		return func(x int) int { return floorDiv(x, 3) }
	case "CAbs":
		return func(x int) int {
			if x < 0 {
				return -x
			}
			return x
		}
	}
	panic("harness: unknown comparator " + id)
}

// comparator returns the plain Go comparator of the family member.
// three-way result with a magnitude that is NOT always 1: the library's comparator contract only
// fixes the sign (negative / zero / positive), so the harness exercises comparators like `a - b`.
// The magnitude depends on the operands only (replays are reproducible, the order is unchanged).
func signMagnitude(ka, kb int) int {
	c := cmp.Compare(ka, kb)
	if c == 0 {
		return 0
	}
	d := ka - kb
	if d < 0 {
		d = -d
	}
	if d < 0 { // overflow of the subtraction
		d = 1
	}
	if d%11 == 7 { // now and then the extreme values a saturating or subtracting comparator can return
		if c < 0 {
			return math.MinInt
		}
		return math.MaxInt
	}
	return c * (1 + d%3)
}

func comparator(id string) func(a, b int) int {
	key := cmpKey(id)
	return func(a, b int) int { return signMagnitude(key(a), key(b)) }
}

// countingComparator additionally counts its calls in *n.
func countingComparator(id string, n *int) func(a, b int) int {
	key := cmpKey(id)
	return func(a, b int) int {
		*n++
		return signMagnitude(key(a), key(b))
	}
}

// ---------- predicates ----------

type Pred struct {
	Name string
	A, B int
}

func (p Pred) Eval(i, v int) bool {
	switch p.Name {
	case "PTrue":
		return true
	case "PFalse":
		return false
	case "PIdxMod":
		return floorMod(i, p.A) == p.B
	case "PValLt":
		return v < p.A
	case "PValMod":
		return floorMod(v, p.A) == p.B
	case "PSumMod":
		return floorMod(i+v, p.A) == p.B
	case "PKeyEq":
		return i == p.A
	}
	panic("harness: unknown predicate " + p.Name)
}

func (p Pred) Text() string {
	switch p.Name {
	case "PTrue", "PFalse":
		return p.Name
	case "PValLt", "PKeyEq":
		return fmt.Sprintf("%s:%d", p.Name, p.A)
	default:
		return fmt.Sprintf("%s:%d:%d", p.Name, p.A, p.B)
	}
}

func parsePredFields(f []string) (Pred, error) {
	bad := fmt.Errorf("bad predicate %q", strings.Join(f, ":"))
	if len(f) == 0 {
		return Pred{}, bad
	}
	ints := make([]int, 0, 2)
	for _, s := range f[1:] {
		n, err := strconv.Atoi(s)
		if err != nil {
			return Pred{}, bad
		}
		ints = append(ints, n)
	}
	switch f[0] {
	case "PTrue", "PFalse":
		if len(ints) != 0 {
			return Pred{}, bad
		}
		return Pred{Name: f[0]}, nil
	case "PValLt", "PKeyEq":
		if len(ints) != 1 {
			return Pred{}, bad
		}
		return Pred{Name: f[0], A: ints[0]}, nil
	case "PIdxMod", "PValMod", "PSumMod":
		if len(ints) != 2 {
			return Pred{}, bad
		}
		return Pred{Name: f[0], A: ints[0], B: ints[1]}, nil
	}
	return Pred{}, bad
}

func parsePred(s string) (Pred, error) { return parsePredFields(strings.Split(s, ":")) }

// ---------- mapping functions ----------

type MapF struct {
	Name string
	C    int
}

// Eval gives the new (key, value); index-addressed containers use only the value component.
func (f MapF) Eval(i, v int) (int, int) {
	switch f.Name {
	case "FId":
		return i, v
	case "FConst":
		return f.C, f.C
	case "FValPlus":
		return i, v + f.C
	case "FValDiv":
		return i, floorDiv(v, f.C)
	case "FIdxPlusVal":
		return i, i + v
	case "FSwapKV":
		return v, i
	case "FKeyDiv":
		return floorDiv(i, f.C), v
	case "FKeyNeg":
		return -i, v
	}
	panic("harness: unknown mapping function " + f.Name)
}

func (f MapF) Text() string {
	switch f.Name {
	case "FId", "FIdxPlusVal", "FSwapKV", "FKeyNeg":
		return f.Name
	default:
		return fmt.Sprintf("%s:%d", f.Name, f.C)
	}
}

func parseMapF(s string) (MapF, error) {
	f := strings.Split(s, ":")
	bad := fmt.Errorf("bad mapping function %q", s)
	switch f[0] {
	case "FId", "FIdxPlusVal", "FSwapKV", "FKeyNeg":
		if len(f) != 1 {
			return MapF{}, bad
		}
		return MapF{Name: f[0]}, nil
	case "FConst", "FValPlus", "FValDiv", "FKeyDiv":
		if len(f) != 2 {
			return MapF{}, bad
		}
		c, err := strconv.Atoi(f[1])
		if err != nil {
			return MapF{}, bad
		}
		return MapF{Name: f[0], C: c}, nil
	}
	return MapF{}, bad
}
