package main

// Case generators.  Every random choice comes from the one math/rand source seeded with -seed.
// A case is a configuration plus a plan (a list of operation names); the arguments of each
// operation are chosen when it is about to run, looking at the live container (hostile list
// indices depend on the current size, set-algebra operands on the current content).

import (
	"fmt"
	"math"
	"math/rand"
	"os"
	"sort"
	"strings"
	"time"
)

type generator struct {
	rng  *rand.Rand
	prop string
	seed int64
	tier string
	n    int
}

var propNames = []string{"C01", "C02", "C03", "C04", "C05", "C06", "C07", "C08", "C09", "C10",
	"C11", "C12", "C13", "C14", "C15", "C16", "C17", "C18"}

func validProp(p string) bool {
	if p == "all" {
		return true
	}
	for _, n := range propNames {
		if n == p {
			return true
		}
	}
	return false
}

func (g *generator) run(r *runner) {
	n := g.n
	if n <= 0 {
		n = 2000
		if g.tier == "thorough" {
			n = 6000
		}
	}
	start := time.Now()
	for i := 0; i < n; i++ {
		// a library that stops terminating (or becomes very slow) is a finding after a few occurrences: do not
		// spend the whole run waiting for watchdogs
		if r.st.Timeouts >= 4 || (r.st.Timeouts > 0 && time.Since(start) > 4*time.Minute) {
			fmt.Fprintf(os.Stderr, "harness gen: stopping after %d timeouts (%d of %d cases run)\n", r.st.Timeouts, i, n)
			break
		}
		id := fmt.Sprintf("%s-%d-%d", g.prop, g.seed, i)
		c := g.newCase(g.prop, i)
		hugeIdx := (g.tier == "thorough" && i%100 == 50) || i == 1000 || i == 1037 || i == 1074
		if len(c.fixed) == 0 && c.cfg.Lvl == 1 && !hugeIdx && g.chance(4) {
			g.burst(c)
		} else if len(c.fixed) == 0 && hugeIdx {
			c.cfg.Lvl = 1
			if g.tier != "thorough" {
				// quick: one huge case per bulk-capable kind of the property, at most three; properties that
				// range over many kinds get a single one
				ks := hugeKinds(g.prop)
				j := (i - 1000) / 37
				if j < len(ks) && j < 3 {
					c.cfg.Kind = ks[(j+int(g.seed))%len(ks)]
					if takesComparator(c.cfg.Kind) && c.cfg.KCmp == "" {
						c.cfg.KCmp = "CNat"
					}
					g.huge(c)
				} else if j == 0 {
					g.huge(c)
				}
			} else {
				g.huge(c)
			} // one case per quick run (sixty in thorough; the model's replay of such a case takes seconds): more than a
			// thousand elements, loaded by ONE bulk operation
		}
		// the zero value is what "not found" answers look like: one ordinary case in five starts by inserting it
		if len(c.fixed) == 0 && g.chance(20) {
			if z := zeroOp(c.cfg.Kind); z != nil {
				c.fixed = []*Op{z}
			}
		}
		r.runCase(id, c.cfg, c)
	}
	if g.tier == "thorough" && (g.prop == "C08" || g.prop == "all") {
		g.exhaustiveIter(r, n)
	}
}

// burst: grow the container to 62..150 elements first (ArrayList capacity thresholds, deep trees,
// long chains), then Clear or remove most of them, then continue with the case's own plan.  Sizes
// that small random histories never reach, and the transitions back from them.
func (g *generator) burst(c *caseGen) {
	kind := c.cfg.Kind
	n := g.between(62, 150)
	grow := mutators(kind)[0].name // Add / Push / Enqueue / Put
	shrinkName := ""
	for _, m := range mutators(kind) {
		switch m.name {
		case "RemoveAt", "Pop", "Dequeue", "Remove", "RemoveVals":
			shrinkName = m.name
		}
	}
	// keyed kinds need a universe that can hold n distinct keys
	if isSetKind(kind) || isKVKind(kind) {
		c.U = n + g.between(2, 20)
		c.VU = c.U
		c.cfg.Uni = c.U
		c.lo, c.hi = -1, c.U+1
		c.order = g.pick([]string{"ascending", "descending", "zigzag", "random"})
	}
	c.maxVar = 3
	plan := make([]string, 0, n+len(c.plan)+80)
	for i := 0; i < n; i++ {
		plan = append(plan, grow)
	}
	switch x := g.intn(100); {
	case x < 55:
		plan = append(plan, "Clear")
	case x < 85 && shrinkName != "":
		for i := 0; i < n-g.between(0, 6); i++ {
			plan = append(plan, shrinkName)
		}
	}
	rest := c.plan
	if len(rest) > 25 {
		rest = rest[:25]
	}
	c.plan = append(plan, rest...)
	c.cfg.Extra += " burst=" + fmt.Sprint(n)
}

// huge: 1100..1400 elements put into the container by a single bulk operation (variadic Add /
// PushAll, or a successful FromJSON where the loaded state is deterministic), followed by a few
// bulk and ordinary operations.  Size-gated paths (thresholds like 128 or 1024) are not reached by
// the other profiles.  Not for the comparator-ordered key-value kinds: their loaders range over a
// Go map, so the resulting tree shape is not deterministic.
func (g *generator) huge(c *caseGen) {
	kind := c.cfg.Kind
	n := g.between(1030, 1090)
	vals := make([]int, n)
	perm := g.rng.Perm(n + 8)
	for i := range vals {
		vals[i] = perm[i] // distinct
	}
	text := func(xs []int) []byte { return []byte(listText(xs)) }
	var first *Op
	var more []*Op
	pick := func(k int) []int { // k values present in the container, spread over it
		out := make([]int, 0, k)
		for i := 0; i < k; i++ {
			out = append(out, vals[g.intn(n)])
		}
		return out
	}
	switch kind {
	case "ArrayList", "SinglyLinkedList", "DoublyLinkedList":
		first = &Op{Name: "Add", Vs: vals}
		more = []*Op{{Name: "Map", F: MapF{Name: "FValPlus", C: 1}}, {Name: "RemoveAt", I: 128}, {Name: "Select", P: Pred{Name: "PValMod", A: 2, B: 0}},
			{Name: "RemoveAt", I: n - 129}, {Name: "Clear"}, {Name: "Add", Vs: pick(3)}, {Name: "RemoveAt", I: 0},
			{Name: "Sort", Cmp: "CNat"}, {Name: "Insert", I: 0, Vs: pick(1030)}, {Name: "Add", Vs: pick(1030)}}
	case "HashSet", "LinkedHashSet", "TreeSet":
		first = &Op{Name: "Add", Vs: vals}
		more = []*Op{{Name: "RemoveVals", Vs: pick(3)}, {Name: "RemoveVals", Vs: pick(g.between(130, 300))}, {Name: "Union", Vs: []int{}},
			{Name: "Clear"}, {Name: "Add", Vs: pick(4)}, {Name: "Union", Vs: vals}, {Name: "Inter", Vs: vals}, {Name: "Diff", Vs: vals},
			{Name: "Add", Vs: pick(40)}, {Name: "Inter", Vs: pick(5)}, {Name: "Diff", Vs: pick(2)}, {Name: "Union", Vs: pick(3)}}
	case "BinaryHeap":
		c.cfg.KCmp = "CDiv3" // ties between distinguishable elements: Values() and the iterator must still agree
		first = &Op{Name: "PushAll", Vs: vals}
		more = []*Op{{Name: "Pop"}, {Name: "Clear"}, {Name: "Push", I: 5}} // the level-sorted Values() of a big heap is costly to replay
	case "ArrayStack", "LinkedListStack", "ArrayQueue", "LinkedListQueue", "PriorityQueue":
		first = &Op{Name: "FromJSON", JSON: text(vals), HasJS: true, Stream: "valid"}
		if kind == "ArrayStack" || kind == "LinkedListStack" {
			more = []*Op{{Name: "Pop"}, {Name: "Push", I: 7}, {Name: "Pop"}, {Name: "Clear"}, {Name: "Push", I: 1}, {Name: "Push", I: 2}, {Name: "Pop"}}
		} else {
			more = []*Op{{Name: "Dequeue"}, {Name: "Enqueue", I: 7}, {Name: "Dequeue"}, {Name: "Clear"}, {Name: "Enqueue", I: 1}, {Name: "Enqueue", I: 2}, {Name: "Dequeue"}}
		}
	case "HashMap", "LinkedHashMap", "HashBidiMap":
		var b strings.Builder
		b.WriteByte('{')
		for i, k := range vals {
			if i > 0 {
				b.WriteByte(',')
			}
			fmt.Fprintf(&b, "\"%d\":%d", k, 5000+i) // distinct values (bidi)
		}
		b.WriteByte('}')
		first = &Op{Name: "FromJSON", JSON: []byte(b.String()), HasJS: true, Stream: "valid"}
		more = []*Op{{Name: "Remove", I: vals[128]}, {Name: "Remove", I: vals[n-129]}, {Name: "Put", I: vals[128], J: 1}, {Name: "Remove", I: vals[0]},
			{Name: "Remove", I: vals[n-1]}, {Name: "Put", I: vals[3], J: 2}, {Name: "Clear"}, {Name: "Put", I: 7, J: 7}, {Name: "Put", I: 3, J: 3}}
	default:
		return // CircularBuffer (capacity-bound) and the comparator-ordered key-value kinds
	}
	// the probe universe stays small (observers are probed with -1..12 only): the complete Values / Keys /
	// iteration / JSON are compared anyway, which is what a size-gated path would disturb
	c.U = 12
	c.VU = c.U
	c.cfg.Uni = c.U
	c.lo, c.hi = -1, c.U+1
	if g.tier != "thorough" && len(more) > 6 {
		more = more[:6] // the most size-sensitive operations come first
	}
	c.fixed = append([]*Op{first}, more...)
	c.plan = nil
	c.cfg.Extra += " huge=" + fmt.Sprint(n)
}

// the bulk-capable kinds a property is specifically about (see huge)
func hugeKinds(prop string) []string {
	switch prop {
	case "C03":
		return []string{"SinglyLinkedList", "DoublyLinkedList"} // ArrayList: its capacity logic is covered by srcgen
	case "C04", "C13":
		return []string{"LinkedHashSet", "HashSet", "TreeSet"}
	case "C09":
		return []string{"LinkedHashMap", "LinkedHashSet"}
	case "C01":
		return []string{"LinkedHashMap", "HashMap"}
	case "C10":
		return []string{"HashBidiMap"}
	case "C05":
		return []string{"ArrayStack", "ArrayQueue", "LinkedListStack"}
	case "C06":
		return []string{"BinaryHeap"}
	case "C14":
		return []string{"DoublyLinkedList", "SinglyLinkedList", "LinkedHashSet"}
	case "C08":
		return []string{"BinaryHeap"}
	}
	return nil
}

// ---------- small random helpers ----------

func (g *generator) intn(n int) int {
	if n <= 0 {
		return 0
	}
	return g.rng.Intn(n)
}
func (g *generator) between(lo, hi int) int { return lo + g.intn(hi-lo+1) } // inclusive
func (g *generator) chance(pct int) bool    { return g.intn(100) < pct }
func (g *generator) pick(l []string) string { return l[g.intn(len(l))] }

type wname struct {
	name string
	w    int
}

func (g *generator) weighted(ws []wname) string {
	total := 0
	for _, w := range ws {
		total += w.w
	}
	if total == 0 {
		return ""
	}
	x := g.intn(total)
	for _, w := range ws {
		if x < w.w {
			return w.name
		}
		x -= w.w
	}
	return ws[len(ws)-1].name
}

// ---------- what a kind offers ----------

var (
	listKinds   = []string{"ArrayList", "SinglyLinkedList", "DoublyLinkedList"}
	setKinds    = []string{"HashSet", "TreeSet", "LinkedHashSet"}
	mapKinds    = []string{"HashMap", "TreeMap", "LinkedHashMap", "HashBidiMap", "TreeBidiMap"}
	treeKinds   = []string{"RedBlackTree", "AVLTree", "BTree"}
	enumKinds   = []string{"ArrayList", "SinglyLinkedList", "DoublyLinkedList", "TreeSet", "LinkedHashSet", "TreeMap", "LinkedHashMap", "TreeBidiMap"}
	linearKinds = []string{"ArrayStack", "LinkedListStack", "ArrayQueue", "LinkedListQueue", "CircularBuffer"}
)

func iteratorKinds() []string {
	out := []string{}
	for _, k := range allKinds {
		if hasIterator(k) {
			out = append(out, k)
		}
	}
	return out
}

// mutators with default weights (insertions outweigh removals so that containers grow)
func mutators(kind string) []wname {
	switch kind {
	case "ArrayList":
		return []wname{{"Add", 22}, {"Insert", 22}, {"Set", 12}, {"RemoveAt", 18}, {"Swap", 10}, {"Sort", 8}}
	case "SinglyLinkedList", "DoublyLinkedList":
		return []wname{{"Add", 14}, {"Append", 6}, {"Prepend", 10}, {"Insert", 22}, {"Set", 12}, {"RemoveAt", 18}, {"Swap", 10}, {"Sort", 8}}
	case "HashSet", "TreeSet", "LinkedHashSet":
		return []wname{{"Add", 58}, {"RemoveVals", 42}}
	case "ArrayStack", "LinkedListStack":
		return []wname{{"Push", 58}, {"Pop", 42}}
	case "BinaryHeap":
		return []wname{{"Push", 32}, {"PushAll", 26}, {"Pop", 42}}
	case "ArrayQueue", "LinkedListQueue", "CircularBuffer", "PriorityQueue":
		return []wname{{"Enqueue", 58}, {"Dequeue", 42}}
	}
	return []wname{{"Put", 58}, {"Remove", 42}}
}

var enumOps = []wname{{"Each", 12}, {"Any", 15}, {"All", 15}, {"Find", 18}, {"Select", 20}, {"Map", 20}}
var algebraOps = []wname{{"Inter", 22}, {"Union", 22}, {"Diff", 22}, {"InterSelf", 6}, {"UnionSelf", 6}, {"DiffSelf", 6}}

// ---------- a case under generation ----------

type caseGen struct {
	g     *generator
	cfg   Config
	plan  []string // operation names; "FromJSON:valid" / "FromJSON:malformed" select the stream
	fixed []*Op    // fully specified operations that run first (exhaustive iterator scripts)

	U       int    // keys / elements are drawn from -1..U+1
	VU      int    // values are drawn from 0..VU+2
	lo, hi  int    // key range
	order   string // ascending descending zigzag random churn
	pos     int    // position in the key stream
	bound   int    // churn boundary
	hist    []int  // keys / elements inserted so far (removal candidates)
	hostile bool   // C17: hostile arguments everywhere
	maxVar  int    // largest variadic count
}

func (c *caseGen) Next(d *drv, i int) *Op {
	if i < len(c.fixed) {
		return c.fixed[i]
	}
	i -= len(c.fixed)
	if i >= len(c.plan) {
		return nil
	}
	return c.makeOp(c.plan[i], d)
}

// ---------- configuration and profile ----------

func (g *generator) comparatorDefault() string {
	switch x := g.intn(100); {
	case x < 10:
		return "CRev"
	case x < 20:
		return "CDiv3"
	case x < 30:
		return "CAbs"
	}
	return "CNat"
}

func (g *generator) btreeOrder() int {
	switch x := g.intn(100); {
	case x < 5:
		return 16
	case x < 8:
		return 32
	}
	return g.between(3, 8)
}

func (g *generator) ringCap() int {
	switch x := g.intn(100); {
	case x < 6:
		return 17
	case x < 9:
		return g.pickInt([]int{64, 65, 70, 100, 129}) // larger than any small preallocation
	}
	return g.between(1, 6)
}

func (g *generator) length() int {
	max := 60
	if g.tier == "thorough" {
		max = 200
	}
	switch x := g.intn(100); {
	case x < 25:
		return g.between(1, 6)
	case x < 75:
		return g.between(5, 30)
	}
	return g.between(20, max)
}

// baseCase picks configuration and profile for a kind; lvl = 1.
func (g *generator) baseCase(kind string) *caseGen {
	c := &caseGen{g: g, maxVar: 8}
	c.cfg = Config{Kind: kind, KCmp: "CNat", VCmp: "CNat", Cap: 1, Order: 3, Lvl: 1}
	if takesComparator(kind) {
		c.cfg.KCmp = g.comparatorDefault()
		if kind == "TreeBidiMap" {
			c.cfg.VCmp = g.comparatorDefault()
		}
	}
	if kind == "BTree" {
		c.cfg.Order = g.btreeOrder()
	}
	if kind == "CircularBuffer" {
		c.cfg.Cap = g.ringCap()
	}
	profile := "tiny"
	if g.chance(50) {
		c.U = g.between(2, 6)
	} else {
		c.U = g.between(8, 24)
		profile = "medium"
	}
	c.VU = c.U
	c.cfg.Uni = c.U
	c.lo, c.hi = -1, c.U+1
	c.order = g.pick([]string{"ascending", "descending", "zigzag", "random", "random", "churn"})
	c.bound = g.between(c.lo, c.hi)
	c.cfg.Extra = fmt.Sprintf("profile=%s keys=%s", profile, c.order)
	return c
}

// ---------- key / value / index streams ----------

func (c *caseGen) key() int {
	g := c.g
	span := c.hi - c.lo + 1
	p := c.pos
	c.pos++
	var k int
	switch c.order {
	case "ascending":
		k = c.lo + p%span
	case "descending":
		k = c.hi - p%span
	case "zigzag":
		q := p % span
		if q%2 == 0 {
			k = c.lo + q/2
		} else {
			k = c.hi - q/2
		}
	case "churn":
		// insert-remove-insert around a slowly moving boundary
		if g.chance(15) {
			c.bound += g.between(-1, 1)
		}
		if c.bound < c.lo {
			c.bound = c.lo
		}
		if c.bound > c.hi {
			c.bound = c.hi
		}
		k = c.bound + g.between(-1, 1)
		if k < c.lo {
			k = c.lo
		}
		if k > c.hi {
			k = c.hi
		}
	default:
		k = g.between(c.lo, c.hi)
	}
	if c.hostile && g.chance(4) {
		k = g.pickInt([]int{-1000, 1000, -7, 97, c.hi + 5})
	}
	return k
}

func (g *generator) pickInt(l []int) int { return l[g.intn(len(l))] }

// insertKey remembers the key as a removal candidate.
func (c *caseGen) insertKey() int {
	k := c.key()
	c.hist = append(c.hist, k)
	if len(c.hist) > 4096 {
		c.hist = c.hist[len(c.hist)-2048:]
	}
	return k
}

// removeKey: mostly something inserted earlier (recent ones preferred), sometimes any key of
// the range (absent keys included).
func (c *caseGen) removeKey() int {
	g := c.g
	if len(c.hist) > 0 && g.chance(65) {
		if c.order == "churn" || g.chance(50) {
			n := len(c.hist)
			w := 8
			if w > n {
				w = n
			}
			return c.hist[n-1-g.intn(w)]
		}
		return c.hist[g.intn(len(c.hist))]
	}
	return g.between(c.lo, c.hi)
}

func (c *caseGen) value() int {
	v := c.g.between(0, c.VU+2)
	if c.hostile && c.g.chance(5) {
		v = c.g.pickInt([]int{-1, -5, 1000, -1000})
	}
	return v
}

// values for one variadic call: count 0,1,2,3 or several, duplicates inside the call
func (c *caseGen) variadic(insert bool) []int {
	g := c.g
	var n int
	switch x := g.intn(100); {
	case x < 8:
		n = 0
	case x < 40:
		n = 1
	case x < 62:
		n = 2
	case x < 77:
		n = 3
	case x < 78 && c.maxVar >= 4:
		n = g.between(33, 70) // a long argument list (batch paths, size thresholds)
	default:
		n = g.between(4, c.maxVar)
	}
	out := make([]int, 0, n)
	for i := 0; i < n; i++ {
		if i > 0 && g.chance(25) {
			out = append(out, out[g.intn(len(out))]) // duplicate inside the call
		} else if insert {
			out = append(out, c.insertKey())
		} else {
			out = append(out, c.removeKey())
		}
	}
	return out
}

// hostile list index
func (c *caseGen) index(size int) int {
	g := c.g
	friendly := []int{0, size - 1, size}
	if size > 0 {
		friendly = append(friendly, g.intn(size), g.intn(size))
	}
	hostile := []int{-1, 1, size + 1, -2, size + 2,
		1 << 31, -(1 << 31), math.MaxInt64, -math.MaxInt64}
	pct := 72
	if c.hostile {
		pct = 50
	}
	if g.chance(pct) {
		return g.pickInt(friendly)
	}
	return g.pickInt(hostile)
}

func (c *caseGen) cmpAny() string { return c.g.pick(cmpNames) }

// ---------- predicates and mapping functions ----------

func (c *caseGen) pred() Pred {
	g := c.g
	switch g.intn(9) {
	case 0:
		return Pred{Name: "PTrue"}
	case 1:
		return Pred{Name: "PFalse"}
	case 2, 3:
		a := g.between(1, 4)
		return Pred{Name: "PIdxMod", A: a, B: g.between(0, a)} // b = a never holds
	case 4:
		return Pred{Name: "PValLt", A: g.between(-1, c.VU+3)}
	case 5:
		a := g.between(1, 4)
		return Pred{Name: "PValMod", A: a, B: g.between(0, a-1)}
	case 6:
		a := g.between(2, 5)
		return Pred{Name: "PSumMod", A: a, B: g.between(0, a-1)}
	}
	return Pred{Name: "PKeyEq", A: g.between(c.lo, c.hi)}
}

func (c *caseGen) mapf() MapF {
	g := c.g
	switch g.intn(8) {
	case 0:
		return MapF{Name: "FId"}
	case 1:
		return MapF{Name: "FConst", C: g.between(-1, c.U)}
	case 2:
		return MapF{Name: "FValPlus", C: g.between(-3, 3)}
	case 3:
		return MapF{Name: "FValDiv", C: g.between(1, 4)}
	case 4:
		return MapF{Name: "FIdxPlusVal"}
	case 5:
		return MapF{Name: "FSwapKV"}
	case 6:
		return MapF{Name: "FKeyDiv", C: g.between(1, 4)}
	}
	return MapF{Name: "FKeyNeg"}
}

// ---------- iterator scripts ----------

func (c *caseGen) script(kind string) []ICall {
	g := c.g
	n := g.between(1, 12)
	if g.chance(30) {
		n = g.between(10, 40)
	}
	fwd := forwardOnlyIterator(kind)
	out := make([]ICall, 0, n)
	dir := 1
	if !fwd && g.chance(40) {
		// start from the far end
		if g.chance(50) {
			out = append(out, ICall{Name: "End"})
		} else {
			out = append(out, ICall{Name: "Last"})
		}
		dir = -1
	}
	for len(out) < n {
		x := g.intn(100)
		if fwd {
			switch {
			case x < 66:
				out = append(out, ICall{Name: "Next"})
			case x < 76:
				out = append(out, ICall{Name: "Begin"})
			case x < 86:
				out = append(out, ICall{Name: "First"})
			default:
				out = append(out, ICall{Name: "NextTo", P: c.pred()})
			}
			continue
		}
		switch {
		case x < 60: // keep going: long runs reach the ends
			if dir > 0 {
				out = append(out, ICall{Name: "Next"})
			} else {
				out = append(out, ICall{Name: "Prev"})
			}
		case x < 74: // reversal
			dir = -dir
			if dir > 0 {
				out = append(out, ICall{Name: "Next"})
			} else {
				out = append(out, ICall{Name: "Prev"})
			}
		case x < 79:
			out = append(out, ICall{Name: "Begin"})
			dir = 1
		case x < 84:
			out = append(out, ICall{Name: "End"})
			dir = -1
		case x < 88:
			out = append(out, ICall{Name: "First"})
		case x < 92:
			out = append(out, ICall{Name: "Last"})
		case x < 96:
			out = append(out, ICall{Name: "NextTo", P: c.pred()})
		default:
			out = append(out, ICall{Name: "PrevTo", P: c.pred()})
		}
	}
	return out
}

// ---------- set-algebra operands ----------

func (c *caseGen) operand(d *drv) []int {
	g := c.g
	cur := sortedCopy(d.valuesSafe())
	out := []int{}
	switch g.intn(7) {
	case 0: // empty
	case 1: // equal
		out = append(out, cur...)
	case 2: // subset
		for _, v := range cur {
			if g.chance(50) {
				out = append(out, v)
			}
		}
	case 3: // superset
		out = append(out, cur...)
		for i := g.between(1, 3); i > 0; i-- {
			out = append(out, g.between(c.lo, c.hi))
		}
	case 4: // disjoint
		in := map[int]bool{}
		for _, v := range cur {
			in[v] = true
		}
		for i := g.between(1, 5); i > 0; i-- {
			v := g.between(c.lo-2, c.hi+2)
			if !in[v] {
				out = append(out, v)
			}
		}
	default: // overlapping
		for _, v := range cur {
			if g.chance(50) {
				out = append(out, v)
			}
		}
		for i := g.between(1, 4); i > 0; i-- {
			out = append(out, g.between(c.lo, c.hi))
		}
	}
	g.rng.Shuffle(len(out), func(i, j int) { out[i], out[j] = out[j], out[i] })
	if len(out) > 0 && g.chance(20) {
		out = append(out, out[g.intn(len(out))]) // duplicate
	}
	return out
}

// ---------- one operation ----------

func (c *caseGen) makeOp(name string, d *drv) *Op {
	g := c.g
	size := d.sizeSafe()
	switch name {
	case "Add", "Append", "Prepend", "PushAll":
		vs := c.variadic(true)
		if name == "PushAll" && len(vs) == 1 && g.chance(70) {
			vs = append(vs, c.insertKey()) // PushAll is mostly about the multi-value path
		}
		return &Op{Name: name, Vs: vs}
	case "RemoveVals":
		return &Op{Name: name, Vs: c.variadic(false)}
	case "Insert":
		return &Op{Name: name, I: c.index(size), Vs: c.variadic(true)}
	case "Set":
		return &Op{Name: name, I: c.index(size), J: c.insertKey()}
	case "RemoveAt":
		return &Op{Name: name, I: c.index(size)}
	case "Swap":
		return &Op{Name: name, I: c.index(size), J: c.index(size)}
	case "Sort":
		return &Op{Name: name, Cmp: c.cmpAny(), Vs: []int{}}
	case "Push", "Enqueue":
		return &Op{Name: name, I: c.insertKey()}
	case "Pop", "Dequeue", "Clear", "Each", "InterSelf", "UnionSelf", "DiffSelf", "SortedValues":
		return &Op{Name: name}
	case "Put":
		return &Op{Name: name, I: c.insertKey(), J: c.value()}
	case "Remove":
		return &Op{Name: name, I: c.removeKey()}
	case "FromJSON:valid":
		return &Op{Name: "FromJSON", JSON: c.jsonDoc("valid"), HasJS: true, Stream: "valid"}
	case "FromJSON:malformed":
		return &Op{Name: "FromJSON", JSON: c.jsonDoc("malformed"), HasJS: true, Stream: "malformed"}
	case "Iter":
		return &Op{Name: name, Script: c.script(c.cfg.Kind)}
	case "Any", "All", "Find", "Select":
		return &Op{Name: name, P: c.pred()}
	case "Map":
		return &Op{Name: name, F: c.mapf()}
	case "Inter", "Union", "Diff":
		return &Op{Name: name, Vs: c.operand(d)}
	case "SortedValuesFunc":
		return &Op{Name: name, Cmp: c.cmpAny(), Vs: []int{}}
	}
	panic("harness: generator knows no operation " + name)
}

// ---------- plans ----------

// extras supported by the kind among the given names
func supported(kind string, ws []wname) []wname {
	out := []wname{}
	for _, w := range ws {
		ok := true
		switch w.name {
		case "Iter":
			ok = hasIterator(kind)
		case "Each", "Any", "All", "Find", "Select", "Map":
			ok = hasEnumerable(kind)
		case "Inter", "Union", "Diff", "InterSelf", "UnionSelf", "DiffSelf":
			ok = isSetKind(kind)
		}
		if ok {
			out = append(out, w)
		}
	}
	return out
}

func scale(ws []wname, total int) []wname {
	sum := 0
	for _, w := range ws {
		sum += w.w
	}
	out := make([]wname, len(ws))
	for i, w := range ws {
		out[i] = wname{w.name, (w.w*total + sum/2) / sum}
		if out[i].w == 0 {
			out[i].w = 1
		}
	}
	return out
}

// mixPlan: n names; mutators get mutW percent, Clear clearW percent, the extras share the rest.
func (g *generator) mixPlan(kind string, n, mutW, clearW int, extras []wname) []string {
	ws := scale(mutators(kind), mutW*10)
	ws = append(ws, wname{"Clear", clearW * 10})
	ex := supported(kind, extras)
	if rest := 100 - mutW - clearW; rest > 0 && len(ex) > 0 {
		ws = append(ws, scale(ex, rest*10)...)
	}
	plan := make([]string, n)
	for i := range plan {
		plan[i] = g.weighted(ws)
	}
	return plan
}

func (g *generator) jsonName(validPct int) string {
	if g.chance(validPct) {
		return "FromJSON:valid"
	}
	return "FromJSON:malformed"
}

var everythingExtras = []wname{
	{"Iter", 12}, {"Each", 3}, {"Any", 3}, {"All", 3}, {"Find", 4}, {"Select", 5}, {"Map", 5},
	{"Inter", 4}, {"Union", 4}, {"Diff", 4}, {"InterSelf", 1}, {"UnionSelf", 1}, {"DiffSelf", 1},
	{"SortedValues", 5}, {"SortedValuesFunc", 6}, {"FromJSON:valid", 6}, {"FromJSON:malformed", 4},
}

// newCase: the property's own profile; for the properties whose profile is mutators only, one case in seven
// mixes in the rest of the API of the same kinds (serialisation through both entry points, iterators,
// enumerable functions, set algebra, sorted values): what those calls do to the container is visible in the
// observations that follow.
func (g *generator) newCase(prop string, i int) *caseGen {
	c := g.newCaseBase(prop, i)
	switch prop {
	case "C01", "C03", "C04", "C05", "C06", "C09", "C10":
		if g.chance(15) {
			c.plan = g.mixPlan(c.cfg.Kind, len(c.plan), 72, 3, everythingExtras)
		}
	}
	return c
}

func zeroOp(kind string) *Op {
	switch {
	case isKVKind(kind):
		return &Op{Name: "Put", I: 0, J: 0}
	case isListKind(kind) || isSetKind(kind):
		return &Op{Name: "Add", Vs: []int{0}}
	case kind == "ArrayStack" || kind == "LinkedListStack" || kind == "BinaryHeap":
		return &Op{Name: "Push", I: 0}
	case kind == "ArrayQueue" || kind == "LinkedListQueue" || kind == "CircularBuffer" || kind == "PriorityQueue":
		return &Op{Name: "Enqueue", I: 0}
	}
	return nil
}

func (g *generator) newCaseBase(prop string, i int) *caseGen {
	switch prop {
	case "all", "C18":
		return g.newCase(propNames[i%17], i) // C01..C17 in turn: a mix of everything
	case "C01":
		c := g.baseCase(g.pick(append(append([]string{}, mapKinds...), treeKinds...)))
		c.plan = g.mixPlan(c.cfg.Kind, g.length(), 97, 3, nil)
		return c
	case "C02":
		c := g.baseCase(g.pick([]string{"RedBlackTree", "AVLTree", "BTree", "TreeMap", "TreeSet", "TreeBidiMap"}))
		c.cfg.KCmp = g.pick(cmpNames)
		if c.cfg.Kind == "TreeBidiMap" {
			c.cfg.VCmp = g.pick(cmpNames)
		}
		// the ordered kinds' derived containers too: Select / Map / set-algebra results are ordered containers
		c.plan = g.mixPlan(c.cfg.Kind, g.length(), 90, 3, append(append([]wname{}, enumOps...), algebraOps...))
		return c
	case "C03":
		c := g.baseCase(g.pick(listKinds))
		c.plan = g.mixPlan(c.cfg.Kind, g.length(), 97, 3, nil)
		return c
	case "C04":
		c := g.baseCase(g.pick(setKinds))
		c.plan = g.mixPlan(c.cfg.Kind, g.length(), 96, 4, nil)
		return c
	case "C05":
		c := g.baseCase(g.pick(linearKinds))
		n := g.length()
		if c.cfg.Kind == "CircularBuffer" {
			n += 10 // wrap around many times
		}
		c.plan = g.mixPlan(c.cfg.Kind, n, 97, 3, nil)
		return c
	case "C06":
		c := g.baseCase(g.pick([]string{"BinaryHeap", "BinaryHeap", "PriorityQueue"}))
		c.cfg.KCmp = g.pick([]string{"CNat", "CNat", "CRev", "CDiv3", "CDiv3"})
		c.maxVar = 9
		c.plan = g.mixPlan(c.cfg.Kind, g.length(), 86, 3, []wname{{"FromJSON:valid", 9}, {"FromJSON:malformed", 2}})
		return c
	case "C07":
		return g.caseC07()
	case "C08":
		return g.caseC08()
	case "C09":
		c := g.baseCase(g.pick([]string{"LinkedHashMap", "LinkedHashSet"}))
		if g.chance(70) { // repeated / removed / re-inserted keys
			c.U = g.between(2, 5)
			c.VU, c.cfg.Uni, c.hi = c.U, c.U, c.U+1
		}
		c.plan = g.mixPlan(c.cfg.Kind, g.length(), 75, 3, []wname{{"Each", 9}, {"Iter", 13}})
		return c
	case "C10":
		c := g.baseCase(g.pick([]string{"HashBidiMap", "TreeBidiMap"}))
		c.U = g.between(2, 5)
		c.VU = g.between(-1, 2) // values 0..VU+2: a universe of 2..5 values
		c.cfg.Uni = c.U
		if c.VU+2 > c.U {
			c.cfg.Uni = c.VU + 2 // GetKey probes must see every value
		}
		c.lo, c.hi = 0, c.U-1
		if g.chance(50) {
			c.lo, c.hi = -1, c.U
		}
		c.plan = g.mixPlan(c.cfg.Kind, g.length(), 96, 4, nil)
		return c
	case "C11", "C12":
		c := g.baseCase(g.pick(allKinds))
		validPct := 75
		if prop == "C12" {
			validPct = 35
		}
		n := g.length()
		hist := g.between(0, 15)
		plan := g.mixPlan(c.cfg.Kind, hist, 97, 3, nil)
		for len(plan) < hist+n {
			plan = append(plan, g.jsonName(validPct))
			plan = append(plan, g.mixPlan(c.cfg.Kind, g.between(0, 3), 97, 3, nil)...) // followed by more mutators
		}
		c.plan = plan
		return c
	case "C13":
		c := g.baseCase(g.pick(setKinds))
		// operands come from anywhere: also from Select / Map
		c.plan = g.mixPlan(c.cfg.Kind, g.length(), 42, 3, append(append([]wname{}, algebraOps...), wname{"Select", 8}, wname{"Map", 8}))
		return c
	case "C14":
		c := g.baseCase(g.pick(enumKinds))
		c.plan = g.mixPlan(c.cfg.Kind, g.length(), 42, 3, enumOps)
		return c
	case "C15":
		c := g.baseCase(g.pick(allKinds))
		// every reachable state: successful loads are mutators too (C15 quantifies over all histories)
		c.plan = g.mixPlan(c.cfg.Kind, g.length(), 78, 10, []wname{{"FromJSON:valid", 8}, {"FromJSON:malformed", 2}, {"SortedValues", 2}})
		return c
	case "C16":
		c := g.baseCase(g.pick(allKinds))
		if g.chance(50) {
			c.plan = g.mixPlan(c.cfg.Kind, g.length(), 52, 3, []wname{{"SortedValues", 20}, {"SortedValuesFunc", 25}})
		} else {
			c.plan = g.mixPlan(c.cfg.Kind, g.length(), 50, 3, everythingExtras)
		}
		return c
	case "C17":
		c := g.baseCase(g.pick(allKinds))
		c.hostile = true
		// hostile constructor arguments: documented panics
		if c.cfg.Kind == "BTree" && g.chance(6) {
			c.cfg.Order = g.pickInt([]int{2, 1, 0, -1})
		}
		if c.cfg.Kind == "CircularBuffer" && g.chance(6) {
			c.cfg.Cap = g.pickInt([]int{0, -1, -5})
		}
		c.plan = g.mixPlan(c.cfg.Kind, g.length(), 50, 4, everythingExtras)
		return c
	}
	panic("harness: no generator for " + prop)
}

// C07: ordinary tree histories at lvl 1 plus long histories at lvl 0 over a large key range.
func (g *generator) caseC07() *caseGen {
	if g.chance(12) { // "hence TreeMap, TreeSet, TreeBidiMap": including the trees of derived containers
		kind := g.pick([]string{"TreeSet", "TreeSet", "TreeMap", "TreeBidiMap"})
		c := g.baseCase(kind)
		c.plan = g.mixPlan(kind, g.length(), 80, 3, append(append([]wname{}, enumOps...), algebraOps...))
		return c
	}
	kind := g.pick(treeKinds)
	if g.chance(55) {
		c := g.baseCase(kind)
		c.plan = g.mixPlan(kind, g.length(), 97, 3, nil)
		return c
	}
	c := g.baseCase(kind)
	c.cfg.Lvl = 0
	c.cfg.Uni = 8
	if kind == "BTree" {
		c.cfg.Order = g.pickInt([]int{3, 4, 5, 6, 7, 8, 16})
	}
	max := 400
	if g.tier == "thorough" {
		max = 4000
	}
	var n int
	switch x := g.intn(100); {
	case x < 60:
		n = g.between(20, max/8)
	case x < 92:
		n = g.between(max/8, max/2)
	default:
		n = g.between(max/2, max)
	}
	c.U = n
	c.lo, c.hi = 0, n
	c.VU = 50
	c.order = g.pick([]string{"ascending", "descending", "zigzag", "random", "churn"})
	c.bound = g.between(0, n)
	c.cfg.Extra = "profile=long keys=" + c.order
	// long monotone runs of insertions, then mixed; removals dominate at the end of some cases
	putW := g.pickInt([]int{60, 70, 85})
	plan := make([]string, n)
	for i := range plan {
		w := putW
		if i > n*2/3 && g.seedBit(i/64) {
			w = 100 - putW
		}
		switch x := g.intn(1000); {
		case x < 3:
			plan[i] = "Clear"
		case x < w*10:
			plan[i] = "Put"
		default:
			plan[i] = "Remove"
		}
	}
	c.plan = plan
	return c
}

func (g *generator) seedBit(i int) bool { return (g.seed+int64(i))%3 != 0 }

// C08: build a small state (often 0, 1, 2 elements), then several iterator scripts.
func (g *generator) caseC08() *caseGen {
	// iterators of the trees follow Parent pointers that only rebalancing deep trees rearranges: one case in
	// twelve is a tree history of C07 (long runs over a large key range, removals) with iterator scripts in it
	if g.chance(8) {
		c := g.caseC07()
		if hasIterator(c.cfg.Kind) {
			for i := g.between(2, 5); i > 0 && len(c.plan) > 0; i-- {
				at := g.intn(len(c.plan))
				c.plan = append(c.plan[:at], append([]string{"Iter"}, c.plan[at:]...)...)
			}
			for i := g.between(2, 4); i > 0; i-- {
				c.plan = append(c.plan, "Iter")
			}
		}
		return c
	}
	kind := g.pick(iteratorKinds())
	c := g.baseCase(kind)
	var build int
	switch x := g.intn(100); {
	case x < 12:
		build = 0
	case x < 26:
		build = 1
	case x < 40:
		build = 2
	default:
		build = g.between(3, 12)
	}
	// insert-only build so that the size is (about) what was asked for
	ins := []wname{}
	for _, w := range mutators(kind) {
		switch w.name {
		case "Add", "Prepend", "Insert", "Push", "PushAll", "Enqueue", "Put":
			ins = append(ins, w)
		}
	}
	c.maxVar = 4
	plan := []string{}
	for i := 0; i < build; i++ {
		if g.chance(12) {
			plan = append(plan, g.weighted(mutators(kind))) // an occasional removal / reordering
		} else {
			plan = append(plan, g.weighted(ins))
		}
	}
	for i := g.between(2, 8); i > 0; i-- {
		plan = append(plan, "Iter")
		if g.chance(15) {
			plan = append(plan, g.weighted(mutators(kind)))
		}
	}
	c.plan = plan
	return c
}

// ---------- exhaustive iterator scripts (tier thorough) ----------

func buildOps(kind string, size int) []*Op {
	ops := []*Op{}
	vals := []int{1, 0, 2}[:size]
	switch {
	case isListKind(kind) || isSetKind(kind):
		if size > 0 {
			ops = append(ops, &Op{Name: "Add", Vs: append([]int{}, vals...)})
		}
	case kind == "ArrayStack" || kind == "LinkedListStack" || kind == "BinaryHeap":
		for _, v := range vals {
			ops = append(ops, &Op{Name: "Push", I: v})
		}
	case kind == "ArrayQueue" || kind == "LinkedListQueue" || kind == "CircularBuffer" || kind == "PriorityQueue":
		for _, v := range vals {
			ops = append(ops, &Op{Name: "Enqueue", I: v})
		}
	default:
		for _, v := range vals {
			ops = append(ops, &Op{Name: "Put", I: v, J: v + 1})
		}
	}
	return ops
}

func allScripts(alphabet []string, maxLen int) [][]ICall {
	out := [][]ICall{}
	var rec func(prefix []ICall)
	rec = func(prefix []ICall) {
		if len(prefix) > 0 {
			out = append(out, append([]ICall{}, prefix...))
		}
		if len(prefix) == maxLen {
			return
		}
		for _, a := range alphabet {
			rec(append(prefix, ICall{Name: a}))
		}
	}
	rec(nil)
	return out
}

func (g *generator) exhaustiveIter(r *runner, firstID int) {
	id := firstID
	for _, kind := range iteratorKinds() {
		alphabet := []string{"Next", "Prev", "Begin", "End", "First", "Last"}
		if forwardOnlyIterator(kind) {
			alphabet = []string{"Next", "Begin", "First"}
		}
		scripts := allScripts(alphabet, 4)
		for size := 0; size <= 3; size++ {
			for start := 0; start < len(scripts); start += 60 {
				end := start + 60
				if end > len(scripts) {
					end = len(scripts)
				}
				cfg := Config{Kind: kind, KCmp: "CNat", VCmp: "CNat", Cap: 3, Order: 3, Uni: 3, Lvl: 1,
					Extra: fmt.Sprintf("profile=exhaustive size=%d", size)}
				ops := buildOps(kind, size)
				for _, s := range scripts[start:end] {
					ops = append(ops, &Op{Name: "Iter", Script: s})
				}
				r.runCase(fmt.Sprintf("%s-%d-%d", g.prop, g.seed, id), cfg, sliceSource(ops))
				id++
			}
		}
	}
}

// ---------- helpers shared with genjson.go ----------

func sortedKeys(m map[int]int) []int {
	ks := make([]int, 0, len(m))
	for k := range m {
		ks = append(ks, k)
	}
	sort.Ints(ks)
	return ks
}
