package main

// Drivers of HashSet, TreeSet, LinkedHashSet.

import (
	"fmt"
	"sort"

	"github.com/emirpasic/gods/v2/sets/hashset"
	"github.com/emirpasic/gods/v2/sets/linkedhashset"
	"github.com/emirpasic/gods/v2/sets/treeset"
)

func constructSet(d *drv) {
	switch d.cfg.Kind {
	case "HashSet":
		bindHashSet(d, hashset.New[int]())
	case "TreeSet":
		if d.natural {
			bindTreeSet(d, treeset.New[int]())
		} else {
			bindTreeSet(d, treeset.NewWith[int](d.kf))
		}
	case "LinkedHashSet":
		bindLinkedHashSet(d, linkedhashset.New[int]())
	}
}

func sortedCopy(l []int) []int {
	out := append([]int{}, l...)
	sort.Ints(out)
	return out
}

func bindHashSet(d *drv, s *hashset.Set[int]) {
	d.c, d.raw = s, s
	d.add, d.removeVals, d.contains = s.Add, s.Remove, s.Contains
	d.inter = func(o *drv) *drv {
		r := s.Intersection(o.raw.(*hashset.Set[int]))
		return d.derive(func(n *drv) { bindHashSet(n, r) })
	}
	d.union = func(o *drv) *drv {
		r := s.Union(o.raw.(*hashset.Set[int]))
		return d.derive(func(n *drv) { bindHashSet(n, r) })
	}
	d.difference = func(o *drv) *drv {
		r := s.Difference(o.raw.(*hashset.Set[int]))
		return d.derive(func(n *drv) { bindHashSet(n, r) })
	}
	d.links = func() bool { return true }
	d.fingerprint = func() string { return "HS" + intsText(sortedCopy(s.Values())) }
	d.mutate = func() {
		// in-place writes first (Clear may replace the backing structure and hide sharing)
		vs := s.Values()
		s.Add(mutateMark)
		if len(vs) > 0 {
			s.Remove(vs[0])
		}
		s.Add(mutateMark + 1)
		s.Clear()
		s.Add(mutateMark)
	}
}

func bindTreeSet(d *drv, s *treeset.Set[int]) {
	d.c, d.raw = s, s
	d.add, d.removeVals, d.contains = s.Add, s.Remove, s.Contains
	d.iter = func() any { it := s.Iterator(); return &it }
	d.each = s.Each
	d.anyF = func(p predFn) bool { return s.Any(p) }
	d.allF = func(p predFn) bool { return s.All(p) }
	d.find = func(p predFn) (int, int) { return s.Find(p) }
	d.selectF = func(p predFn) *drv {
		r := s.Select(p)
		return d.derive(func(n *drv) { bindTreeSet(n, r) })
	}
	d.mapF = func(f mapFn) *drv {
		r := s.Map(valueOnly(f))
		return d.derive(func(n *drv) { bindTreeSet(n, r) })
	}
	d.inter = func(o *drv) *drv {
		r := s.Intersection(o.raw.(*treeset.Set[int]))
		return d.derive(func(n *drv) { bindTreeSet(n, r) })
	}
	d.union = func(o *drv) *drv {
		r := s.Union(o.raw.(*treeset.Set[int]))
		return d.derive(func(n *drv) { bindTreeSet(n, r) })
	}
	d.difference = func(o *drv) *drv {
		r := s.Difference(o.raw.(*treeset.Set[int]))
		return d.derive(func(n *drv) { bindTreeSet(n, r) })
	}
	d.shape = func() string { return rbShape(s.VerifInner().Root, unitVal) }
	d.links = func() bool { t := s.VerifInner(); return rbLinks(t.Root, t.Size()) }
	d.fingerprint = func() string {
		t := s.VerifInner()
		return fmt.Sprintf("TS%s size=%d", rbShape(t.Root, unitVal), t.Size())
	}
	d.mutate = func() {
		// in-place writes first (Clear may replace the backing structure and hide sharing)
		vs := s.Values()
		s.Add(mutateMark)
		if len(vs) > 0 {
			s.Remove(vs[0])
		}
		s.Add(mutateMark + 1)
		s.Clear()
		s.Add(mutateMark)
	}
}

func bindLinkedHashSet(d *drv, s *linkedhashset.Set[int]) {
	d.c, d.raw = s, s
	d.add, d.removeVals, d.contains = s.Add, s.Remove, s.Contains
	d.iter = func() any { it := s.Iterator(); return &it }
	d.each = s.Each
	d.anyF = func(p predFn) bool { return s.Any(p) }
	d.allF = func(p predFn) bool { return s.All(p) }
	d.find = func(p predFn) (int, int) { return s.Find(p) }
	d.selectF = func(p predFn) *drv {
		r := s.Select(p)
		return d.derive(func(n *drv) { bindLinkedHashSet(n, r) })
	}
	d.mapF = func(f mapFn) *drv {
		r := s.Map(valueOnly(f))
		return d.derive(func(n *drv) { bindLinkedHashSet(n, r) })
	}
	d.inter = func(o *drv) *drv {
		r := s.Intersection(o.raw.(*linkedhashset.Set[int]))
		return d.derive(func(n *drv) { bindLinkedHashSet(n, r) })
	}
	d.union = func(o *drv) *drv {
		r := s.Union(o.raw.(*linkedhashset.Set[int]))
		return d.derive(func(n *drv) { bindLinkedHashSet(n, r) })
	}
	d.difference = func(o *drv) *drv {
		r := s.Difference(o.raw.(*linkedhashset.Set[int]))
		return d.derive(func(n *drv) { bindLinkedHashSet(n, r) })
	}
	d.rawObs = func() string { return ozs(sortedCopy(s.VerifTable())) }
	d.links = func() bool {
		// ordering list consistent, table keys = ordering elements
		ord := s.VerifOrdering()
		if !dllLinks(ord) {
			return false
		}
		tbl := sortedCopy(s.VerifTable())
		f, _, _, _ := ord.VerifChain(1 << 20)
		o := sortedCopy(f)
		if len(tbl) != len(o) {
			return false
		}
		for i := range tbl {
			if tbl[i] != o[i] || (i > 0 && o[i] == o[i-1]) {
				return false
			}
		}
		return true
	}
	d.fingerprint = func() string {
		return "LHS" + intsText(sortedCopy(s.VerifTable())) + dllFP(s.VerifOrdering())
	}
	d.mutate = func() {
		// in-place writes first (Clear may replace the backing structure and hide sharing)
		vs := s.Values()
		s.Add(mutateMark)
		if len(vs) > 0 {
			s.Remove(vs[0])
		}
		s.Add(mutateMark + 1)
		s.Clear()
		s.Add(mutateMark)
	}
}
