package main

// The eight `sane` bits of PROTOCOL.md and the capture of fd 1 / fd 2.

import (
	"encoding/json"
	"fmt"
	"os"
	"strings"
	"syscall"

	"github.com/emirpasic/gods/v2/containers"
)

// ---------- fd capture (sane bit 5) ----------

type fdCapture struct {
	f      *os.File
	saved1 int
	saved2 int
	last   int64
	active bool
}

// startCapture redirects fd 1 and fd 2 to a temporary file.  From now on nothing the harness
// does on purpose writes to them until restore().
func startCapture() (*fdCapture, error) {
	f, err := os.CreateTemp("", "harness-fd-*.log")
	if err != nil {
		return nil, err
	}
	c := &fdCapture{f: f}
	if c.saved1, err = syscall.Dup(1); err != nil {
		return nil, err
	}
	if c.saved2, err = syscall.Dup(2); err != nil {
		return nil, err
	}
	if err = syscall.Dup3(int(f.Fd()), 1, 0); err != nil {
		return nil, err
	}
	if err = syscall.Dup3(int(f.Fd()), 2, 0); err != nil {
		return nil, err
	}
	c.active = true
	return c, nil
}

// dirty reports whether something was written since the previous call.
func (c *fdCapture) dirty() bool {
	if c == nil || !c.active {
		return false
	}
	st, err := c.f.Stat()
	if err != nil {
		return true
	}
	d := st.Size() != c.last
	c.last = st.Size()
	return d
}

// restore puts fd 1 and fd 2 back and returns what was captured (at most 4 KiB).
func (c *fdCapture) restore() string {
	if c == nil || !c.active {
		return ""
	}
	c.active = false
	syscall.Dup3(c.saved1, 1, 0)
	syscall.Dup3(c.saved2, 2, 0)
	syscall.Close(c.saved1)
	syscall.Close(c.saved2)
	buf := make([]byte, 4096)
	n, _ := c.f.ReadAt(buf, 0)
	name := c.f.Name()
	c.f.Close()
	os.Remove(name)
	return string(buf[:n])
}

// ---------- the observation vector with its sane bits ----------

const bigSize = 64 // at lvl 0 the expensive bits are sampled for containers larger than this

// observe produces the complete vector.  fdDirty: something was written to fd 1 / fd 2 since
// the previous observation.
func (d *drv) observe(lvl int, fdDirty bool, seq int) []VLine {
	k := d.cfg.Kind
	fp0 := d.fingerprint()
	core := d.observeCore(lvl)
	size := d.c.Size()

	bits := [8]bool{true, true, true, true, true, true, true, true}
	// the expensive checks are sampled for big containers at lvl 0
	heavy := lvl >= 1 || size <= bigSize || seq%64 == 0
	// 1: internal links
	bits[0] = d.links()
	// the serialisation / String bits are quadratic for some kinds: sampled as well
	var js []byte
	var jerr error
	if heavy {
		js, jerr = d.c.ToJSON()
		// 2: valid JSON of the right top-level type
		bits[1] = jerr == nil && jsonTopOK(k, js)
		// 3: json.Marshal(container) denotes the same value as ToJSON()
		mj, merr := json.Marshal(d.c)
		bits[2] = jerr == nil && merr == nil && jsonObs(k, mj, nil) == jsonObs(k, js, nil)
		// 4: String() starts with the container's name
		bits[3] = strings.HasPrefix(d.c.String(), k)
	}
	// 5: nothing written to fd 1 / fd 2
	bits[4] = !fdDirty
	// 8: Empty / Size / Values / Keys agree
	ok8 := d.c.Empty() == (size == 0) && size >= 0
	if heavy {
		ok8 = ok8 && len(d.c.Values()) == size
		if isKVKind(k) {
			ok8 = ok8 && len(d.keys()) == size
		}
	}
	// ... the node-level accessors of the trees agree with Get / the iterator, and an iterator kept across the
	// operations, once rewound, walks like a fresh one
	if ok8 && d.nodeAPI != nil {
		ok8 = d.nodeAPI()
	}
	if ok8 && heavy {
		ok8 = d.keptIteratorOK(size+2, seq)
	}
	bits[7] = ok8
	// 7: JSON reload (lvl 1 only)
	if lvl >= 1 {
		bits[6] = false
		if jerr == nil {
			// the reload goes through FromJSON or (every other observation) through json.Unmarshal, i.e.
			// UnmarshalJSON; the fresh container comes from the comparator-less constructor when the
			// configuration is the natural order
			fresh := newFresh(d)
			var err error
			if seq%2 == 0 {
				err = fresh.c.FromJSON(js)
			} else {
				err = json.Unmarshal(js, fresh.c)
			}
			if err == nil {
				bits[6] = sameVector(k, core, fresh.observeCore(lvl))
			}
			// lists and sets: the variadic constructor applied to Values() gives an equal container
			if rb := rebuilt(d); rb != nil && bits[6] {
				bits[6] = sameVector(k, core, rb.observeCore(lvl))
			}
		}
	}
	// 6: observers did not change the deep state (containers.GetSortedValues is an observer too)
	if heavy {
		containers.GetSortedValues[int](d.c)
	}
	bits[5] = fp0 == d.fingerprint()

	items := make([]string, 8)
	for i, b := range bits {
		items[i] = obool(b)
	}
	return append(core, VLine{"sane", ol(items...)})
}

func debugf(format string, a ...any) { fmt.Fprintf(os.Stderr, format, a...) }
