#!/bin/sh
# Runs `harness gen` + the model driver for the given tier, seeds and properties and prints one
# summary line per run.  usage: ./check.sh <quick|thorough> "<seeds>" "<props>" [workdir]
set -e
TIER=${1:-quick}
SEEDS=${2:-"1 2 3 4 5"}
PROPS=${3:-"C01 C02 C03 C04 C05 C06 C07 C08 C09 C10 C11 C12 C13 C14 C15 C16 C17 C18 all"}
WORK=${4:-/tmp/harness-check}
HERE=$(cd "$(dirname "$0")" && pwd)
DRIVER=${DRIVER:-/verif/coq/ocaml/driver}
export GOFLAGS=-mod=mod GOPROXY=off GOSUMDB=off GOTOOLCHAIN=local
mkdir -p "$WORK"
(cd "$HERE" && go build -tags verif -o harness .)
for s in $SEEDS; do
  for p in $PROPS; do
    t="$WORK/$p-$s-$TIER.trace"
    g=$("$HERE/harness" gen -prop "$p" -seed "$s" -tier "$TIER" -out "$t" -stats "$WORK/$p-$s-$TIER.json" 2>&1 | tail -1)
    d=$("$DRIVER" --max-report 3 "$t" | tail -4 | cut -c1-400)
    echo "$g"
    echo "$d"
    [ -n "$KEEP" ] || rm -f "$t"
  done
done
