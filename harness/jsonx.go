package main

// JSON helpers: what a document denotes according to encoding/json (the trusted oracle of the
// protocol), decoding of ToJSON() output for the `json` observation, and re-encoding of
// denotations for replays that carry no bytes.

import (
	"bytes"
	"encoding/json"
	"sort"
	"strconv"
)

func isKVKind(kind string) bool {
	switch kind {
	case "HashMap", "TreeMap", "LinkedHashMap", "HashBidiMap", "TreeBidiMap", "RedBlackTree", "AVLTree", "BTree":
		return true
	}
	return false
}

// objectMembers reads the members of a top-level JSON object in document order (duplicates
// included).  Keys are JSON strings holding decimal ints (parsed like encoding/json parses
// map[int]V keys: strconv.ParseInt base 10), values are integer numbers or null (null decodes
// to the zero value 0, as encoding/json does for a map element).
func objectMembers(data []byte) ([][2]int, bool) {
	dec := json.NewDecoder(bytes.NewReader(data))
	dec.UseNumber()
	tok, err := dec.Token()
	if err != nil || tok != json.Delim('{') {
		return nil, false
	}
	out := [][2]int{}
	for dec.More() {
		kt, err := dec.Token()
		if err != nil {
			return nil, false
		}
		ks, ok := kt.(string)
		if !ok {
			return nil, false
		}
		k, err := strconv.ParseInt(ks, 10, 64)
		if err != nil {
			return nil, false
		}
		vt, err := dec.Token()
		if err != nil {
			return nil, false
		}
		v := 0
		switch t := vt.(type) {
		case nil:
			v = 0
		case json.Number:
			n, err := strconv.ParseInt(string(t), 10, 64)
			if err != nil {
				return nil, false
			}
			v = int(n)
		default:
			return nil, false
		}
		out = append(out, [2]int{int(k), v})
	}
	return out, true
}

// denote computes the trace argument of a FromJSON operation for the given container kind.
func denote(kind string, data []byte) Decoded {
	if isKVKind(kind) {
		var m map[int]int
		if err := json.Unmarshal(data, &m); err != nil {
			return Decoded{Kind: "DErr"}
		}
		if m == nil {
			return Decoded{Kind: "DNull"}
		}
		members, ok := objectMembers(data)
		if !ok {
			// cannot happen after a successful Unmarshal; be loud rather than wrong
			panic("harness: cannot re-read members of " + string(data))
		}
		return Decoded{Kind: "DObj", Obj: members}
	}
	var s []int
	if err := json.Unmarshal(data, &s); err != nil {
		return Decoded{Kind: "DErr"}
	}
	if s == nil {
		return Decoded{Kind: "DNull"}
	}
	return Decoded{Kind: "DArr", Arr: s}
}

// encodeDecoded produces a document with the given denotation (used by replay when the trace
// has no "# json" line).
func encodeDecoded(d Decoded) []byte {
	switch d.Kind {
	case "DNull":
		return []byte("null")
	case "DArr":
		var b bytes.Buffer
		b.WriteByte('[')
		for i, v := range d.Arr {
			if i > 0 {
				b.WriteByte(',')
			}
			b.WriteString(strconv.Itoa(v))
		}
		b.WriteByte(']')
		return b.Bytes()
	case "DObj":
		var b bytes.Buffer
		b.WriteByte('{')
		for i, e := range d.Obj {
			if i > 0 {
				b.WriteByte(',')
			}
			b.WriteString(`"` + strconv.Itoa(e[0]) + `":` + strconv.Itoa(e[1]))
		}
		b.WriteByte('}')
		return b.Bytes()
	}
	return []byte("[1,") // DErr: a syntax error for every kind
}

// jsonTopOK: json.Valid and the top-level value is an array / object as required by the kind.
func jsonTopOK(kind string, data []byte) bool {
	if !json.Valid(data) {
		return false
	}
	t := bytes.TrimLeft(data, " \t\r\n")
	if len(t) == 0 {
		return false
	}
	if isKVKind(kind) {
		return t[0] == '{'
	}
	return t[0] == '['
}

// jsonObs renders a ToJSON() / MarshalJSON() output as the `json` observation:
// (0 (v ...)) in document order (HashSet: sorted), (1 ((k v) ...)) in document order for
// LinkedHashMap and ascending by key for the other key-value kinds.
func jsonObs(kind string, data []byte, err error) string {
	if err != nil {
		return "(-1)"
	}
	if isKVKind(kind) {
		members, ok := objectMembers(data)
		if !ok || !json.Valid(data) {
			return "(-2)"
		}
		if kind != "LinkedHashMap" {
			sort.SliceStable(members, func(i, j int) bool { return members[i][0] < members[j][0] })
		}
		return ol("1", opairs(members))
	}
	var s []int
	if e := json.Unmarshal(data, &s); e != nil || s == nil {
		return "(-2)"
	}
	if kind == "HashSet" {
		sort.Ints(s)
	}
	return ol("0", ozs(s))
}
