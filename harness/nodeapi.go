package main

// Node-level accessors of the three trees (GetNode, Node.Size, Iterator.Node, IteratorAt) and the
// constructors that no history reaches (New with the natural order, New(values...)).  They are not
// operations of the machine; the harness checks them against the container-level operations the
// machine does model, and folds the verdicts into sane bit 1 (nodeAPI) and sane bit 7 (rebuild).

import (
	"github.com/emirpasic/gods/v2/lists/arraylist"
	"github.com/emirpasic/gods/v2/lists/doublylinkedlist"
	"github.com/emirpasic/gods/v2/lists/singlylinkedlist"
	"github.com/emirpasic/gods/v2/sets/hashset"
	"github.com/emirpasic/gods/v2/sets/linkedhashset"
	"github.com/emirpasic/gods/v2/sets/treeset"
	"github.com/emirpasic/gods/v2/trees/avltree"
	"github.com/emirpasic/gods/v2/trees/btree"
	rbt "github.com/emirpasic/gods/v2/trees/redblacktree"
)

const nodeAPIWalk = 256 // iterator-level checks walk at most this many entries

func rbNodeAPI(t *rbt.Tree[int, int], probes []int) (ok bool) {
	defer func() {
		if recover() != nil {
			ok = false
		}
	}()
	if t.Root.Size() != t.Size() {
		return false
	}
	for _, p := range probes {
		v, found := t.Get(p)
		n := t.GetNode(p)
		if (n != nil) != found || (found && n.Value != v) {
			return false
		}
	}
	if t.Size() > nodeAPIWalk {
		return true
	}
	// Iterator.Node() is the node of Key()/Value(); IteratorAt(node) continues like an iterator that
	// walked there
	var nodes []*rbt.Node[int, int]
	it := t.Iterator()
	for it.Next() {
		n := it.Node()
		if n == nil || n.Key != it.Key() || n.Value != it.Value() {
			return false
		}
		nodes = append(nodes, n)
	}
	if len(nodes) != t.Size() {
		return false
	}
	for i, n := range nodes {
		if i%7 != 0 && i != len(nodes)-1 {
			continue
		}
		at := t.IteratorAt(n)
		if at.Node() != n || at.Key() != n.Key || at.Value() != n.Value {
			return false
		}
		if more := at.Next(); more != (i+1 < len(nodes)) || (more && at.Node() != nodes[i+1]) {
			return false
		}
		at = t.IteratorAt(n)
		if more := at.Prev(); more != (i > 0) || (more && at.Node() != nodes[i-1]) {
			return false
		}
	}
	return true
}

func avlNodeAPI(t *avltree.Tree[int, int], probes []int) (ok bool) {
	defer func() {
		if recover() != nil {
			ok = false
		}
	}()
	if t.Root.Size() != t.Size() {
		return false
	}
	for _, p := range probes {
		v, found := t.Get(p)
		n := t.GetNode(p)
		if (n != nil) != found || (found && n.Value != v) {
			return false
		}
	}
	if t.Size() > nodeAPIWalk {
		return true
	}
	count := 0
	it := t.Iterator()
	for it.Next() {
		n := it.Node()
		if n == nil || n.Key != it.Key() || n.Value != it.Value() {
			return false
		}
		count++
	}
	return count == t.Size()
}

func btNodeCount(n *btree.Node[int, int]) int {
	if n == nil {
		return 0
	}
	c := 1
	for _, ch := range n.Children {
		c += btNodeCount(ch)
	}
	return c
}

func btHasEntry(n *btree.Node[int, int], k, v int) bool {
	for _, e := range n.Entries {
		if e != nil && e.Key == k && e.Value == v {
			return true
		}
	}
	return false
}

func btNodeAPI(t *btree.Tree[int, int], probes []int) (ok bool) {
	defer func() {
		if recover() != nil {
			ok = false
		}
	}()
	// Node.Size() of the B-tree counts NODES of the subtree (its comment says elements; no property is
	// about it), so it is compared with the node count
	if t.Root.Size() != btNodeCount(t.Root) {
		return false
	}
	for _, p := range probes {
		v, found := t.Get(p)
		n := t.GetNode(p)
		if (n != nil) != found {
			return false
		}
		if found {
			hit := false
			for _, e := range n.Entries {
				hit = hit || (e != nil && e.Value == v)
			}
			if !hit {
				return false
			}
		}
	}
	if t.Size() > nodeAPIWalk {
		return true
	}
	count := 0
	it := t.Iterator()
	for it.Next() {
		n := it.Node()
		if n == nil || !btHasEntry(n, it.Key(), it.Value()) {
			return false
		}
		count++
	}
	return count == t.Size()
}

// naturalOrder: the comparators of the configuration are the natural order, so the comparator-less
// constructors New() build an equivalent container.
func naturalOrder(cfg Config) bool {
	if cfg.KCmp != "CNat" {
		return false
	}
	return cfg.Kind != "TreeBidiMap" || cfg.VCmp == "CNat"
}

// rebuilt constructs a container of the same configuration from Values() through the variadic
// constructor (lists and sets only; nil otherwise).  An equal observation vector is part of sane bit 7.
func rebuilt(d *drv) *drv {
	vs := d.c.Values()
	if isSetKind(d.cfg.Kind) {
		vs = append(vs, vs...) // repeated arguments are one member
	}
	// the constructor must copy its arguments: they are overwritten before the new container is observed
	defer func() {
		for i := range vs {
			vs[i] = mutateMark + i
		}
	}()
	n := &drv{cfg: d.cfg, calls: new(int)}
	n.kf = countingComparator(d.cfg.KCmp, n.calls)
	n.vf = comparator(d.cfg.VCmp)
	switch d.cfg.Kind {
	case "ArrayList":
		bindArrayList(n, arraylist.New(vs...))
	case "SinglyLinkedList":
		bindSLL(n, singlylinkedlist.New(vs...))
	case "DoublyLinkedList":
		bindDLL(n, doublylinkedlist.New(vs...))
	case "HashSet":
		bindHashSet(n, hashset.New(vs...))
	case "LinkedHashSet":
		bindLinkedHashSet(n, linkedhashset.New(vs...))
	case "TreeSet":
		if naturalOrder(d.cfg) {
			bindTreeSet(n, treeset.New(vs...))
		} else {
			bindTreeSet(n, treeset.NewWith(n.kf, vs...))
		}
	default:
		return nil
	}
	return n
}
