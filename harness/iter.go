package main

// Generic iterator code on top of the four interfaces of /repo/containers/iterator.go:
// the interpreter of `Iter` scripts and the forward / backward walks.

import (
	"strings"

	"github.com/emirpasic/gods/v2/containers"
)

type itAdapter struct {
	next, first func() bool
	begin       func()
	nextTo      func(f func(i, v int) bool) bool
	idx, val    func() int
	// nil for forward-only iterators
	prev, last func() bool
	end        func()
	prevTo     func(f func(i, v int) bool) bool
}

func adaptIterator(it any) *itAdapter {
	a := &itAdapter{}
	switch t := it.(type) {
	case containers.ReverseIteratorWithIndex[int]:
		a.next, a.first, a.begin, a.nextTo, a.idx, a.val = t.Next, t.First, t.Begin, t.NextTo, t.Index, t.Value
		a.prev, a.last, a.end, a.prevTo = t.Prev, t.Last, t.End, t.PrevTo
	case containers.ReverseIteratorWithKey[int, int]:
		a.next, a.first, a.begin, a.nextTo, a.idx, a.val = t.Next, t.First, t.Begin, t.NextTo, t.Key, t.Value
		a.prev, a.last, a.end, a.prevTo = t.Prev, t.Last, t.End, t.PrevTo
	case containers.IteratorWithIndex[int]:
		a.next, a.first, a.begin, a.nextTo, a.idx, a.val = t.Next, t.First, t.Begin, t.NextTo, t.Index, t.Value
	case containers.IteratorWithKey[int, int]:
		a.next, a.first, a.begin, a.nextTo, a.idx, a.val = t.Next, t.First, t.Begin, t.NextTo, t.Key, t.Value
	default:
		panic("harness: iterator implements none of the four iterator interfaces")
	}
	return a
}

// runScript interprets the calls on a fresh iterator.  Per call: () for Begin/End, (0) for a
// move returning false, (1 i v) for a move returning true (Index/Key and Value are read only
// then).  A panicking call gives ((())) and ends the script.
func runScript(it *itAdapter, calls []ICall) string {
	out := make([]string, 0, len(calls))
	for _, c := range calls {
		s, ok := runCall(it, c)
		out = append(out, s)
		if !ok {
			break
		}
	}
	return "(" + strings.Join(out, " ") + ")"
}

func runCall(it *itAdapter, c ICall) (res string, ok bool) {
	defer func() {
		if r := recover(); r != nil {
			res, ok = obsCrash, false
		}
	}()
	moved := func(b bool) string {
		if !b {
			return "(0)"
		}
		return ol("1", oz(it.idx()), oz(it.val()))
	}
	switch c.Name {
	case "Next":
		return moved(it.next()), true
	case "First":
		return moved(it.first()), true
	case "Begin":
		it.begin()
		return obsUnit, true
	case "NextTo":
		return moved(it.nextTo(c.P.Eval)), true
	}
	if it.prev == nil {
		return obsUnsupported, true
	}
	switch c.Name {
	case "Prev":
		return moved(it.prev()), true
	case "Last":
		return moved(it.last()), true
	case "End":
		it.end()
		return obsUnit, true
	case "PrevTo":
		return moved(it.prevTo(c.P.Eval)), true
	}
	panic("harness: unknown iterator call " + c.Name)
}

// walkForward: fresh iterator, Next to the end, at most limit steps.
func walkForward(d *drv, limit int) [][2]int {
	it := adaptIterator(d.iter())
	out := [][2]int{}
	for n := 0; it.next() && n < limit; n++ {
		out = append(out, [2]int{it.idx(), it.val()})
	}
	return out
}

// walkBackward: fresh iterator, End(), Prev to the beginning.
func walkBackward(d *drv, limit int) [][2]int {
	it := adaptIterator(d.iter())
	out := [][2]int{}
	if it.prev == nil {
		return out
	}
	it.end()
	for n := 0; it.prev() && n < limit; n++ {
		out = append(out, [2]int{it.idx(), it.val()})
	}
	return out
}

// keptIteratorOK: the iterator created at the first observation lives across every later operation.
// Rewound with Begin (End), it must walk exactly like a fresh iterator: Begin / End / First / Last put an
// iterator into a state that does not depend on its past.  It is left at a different place each time.
func (d *drv) keptIteratorOK(limit, seq int) (ok bool) {
	if d.iter == nil {
		return true
	}
	defer func() {
		if recover() != nil {
			ok = false
		}
	}()
	if d.kept == nil {
		d.kept = adaptIterator(d.iter())
		return true
	}
	same := func(a, b [][2]int) bool {
		if len(a) != len(b) {
			return false
		}
		for i := range a {
			if a[i] != b[i] {
				return false
			}
		}
		return true
	}
	it := d.kept
	walk := [][2]int{}
	switch seq % 3 {
	case 0:
		it.begin()
		for n := 0; it.next() && n < limit; n++ {
			walk = append(walk, [2]int{it.idx(), it.val()})
		}
	case 1:
		if it.first() {
			walk = append(walk, [2]int{it.idx(), it.val()})
			for n := 1; it.next() && n < limit; n++ {
				walk = append(walk, [2]int{it.idx(), it.val()})
			}
		}
	case 2:
		if it.prev == nil {
			return true
		}
		it.end()
		for n := 0; it.prev() && n < limit; n++ {
			walk = append(walk, [2]int{it.idx(), it.val()})
		}
		if !same(walk, walkBackward(d, limit)) {
			return false
		}
		// leave it in the middle
		it.last()
		return true
	}
	if !same(walk, walkForward(d, limit)) {
		return false
	}
	if seq%2 == 0 {
		it.first() // leave it on the first element
	}
	return true
}
