package main

// The common driver: a record of capabilities (closures over the real container).  A capability
// that is nil is not offered by the kind.  drivers_lists.go, drivers_sets.go, drivers_linear.go
// and drivers_maps.go bind the 21 concrete containers; apply.go interprets operations and
// observe.go produces the observation vector, both generically over this record.

import (
	"fmt"

	"github.com/emirpasic/gods/v2/containers"
	"github.com/emirpasic/gods/v2/sets/treeset"
)

type baseAPI interface {
	containers.Container[int]
	containers.JSONSerializer
	containers.JSONDeserializer
}

type predFn = func(i, v int) bool
type mapFn = func(i, v int) (int, int)
type cmpFn = func(a, b int) int

type drv struct {
	cfg     Config
	c       baseAPI
	raw     any  // the concrete container (for set algebra between two drivers)
	crashed bool // a mutator / constructor / observer panicked
	natural bool // constructed with the comparator-less New() (natural-order configurations only)
	kept    *itAdapter // an iterator created at the first observation and kept across all later operations

	// comparators handed to the container (nil for kinds without comparator)
	kf, vf cmpFn
	calls  *int // calls of kf since the last reset

	// key-value kinds
	keys   func() []int
	get    func(k int) (int, bool)
	getKey func(v int) (int, bool)
	put    func(k, v int)
	remove func(k int)

	// lists
	add      func(vs ...int) // also sets
	appendF  func(vs ...int)
	prepend  func(vs ...int)
	insert   func(i int, vs ...int)
	set      func(i, v int)
	removeAt func(i int)
	swap     func(i, j int)
	sortBy   func(f cmpFn)
	getIdx   func(i int) (int, bool)
	indexOf  func(v int) int
	contains func(vs ...int) bool // also sets

	// sets
	removeVals               func(vs ...int)
	inter, union, difference func(other *drv) *drv

	// stacks, queues, heap
	push    func(v int)
	pushAll func(vs ...int)
	pop     func() (int, bool)
	enqueue func(v int)
	dequeue func() (int, bool)
	peek    func() (int, bool)
	full    func() bool

	// iterator (pointer to a fresh iterator implementing one of the four interfaces of
	// containers/iterator.go) and enumerable functions
	iter    func() any
	each    func(f func(i, v int))
	anyF    func(p predFn) bool
	allF    func(p predFn) bool
	find    func(p predFn) (int, int)
	selectF func(p predFn) *drv
	mapF    func(f mapFn) *drv

	// navigation
	left, right    func() (int, int, bool)
	floor, ceiling func(k int) (int, int, bool)

	// structure (hooks)
	shape   func() string
	height  func() int
	rawObs  func() string
	hasCost bool // RedBlackTree, AVLTree, BTree: `cost` component
	hasX    bool // X = comparator calls of Put / Remove (Machine.v: the three trees and TreeMap)

	links       func() bool   // sane bit 1
	nodeAPI     func() bool   // sane bit 8 (trees): node-level accessors agree with the container-level ones
	fingerprint func() string // deep state, sane bit 6 and the harness-detected failures
	mutate      func()        // Clear + add something (applied to result containers only)
}

// derive creates the driver of a result container (Select / Map / set algebra): same
// configuration and comparators, its own call counter.
func (d *drv) derive(bind func(n *drv)) *drv {
	n := &drv{cfg: d.cfg, kf: d.kf, vf: d.vf, calls: new(int), natural: d.natural}
	bind(n)
	return n
}

// newDrv constructs the container described by cfg.  Panics of the constructor propagate.
func newDrv(cfg Config) *drv {
	d := &drv{cfg: cfg, calls: new(int)}
	d.kf = countingComparator(cfg.KCmp, d.calls)
	d.vf = comparator(cfg.VCmp)
	// natural order and no comparator-call observation (TreeSet, TreeBidiMap, BinaryHeap, PriorityQueue): every
	// other configuration (by the universe size, so that replays agree) goes through the comparator-less New()
	switch cfg.Kind {
	case "TreeSet", "TreeBidiMap", "BinaryHeap", "PriorityQueue":
		d.natural = naturalOrder(cfg) && cfg.Uni%2 == 0
	}
	construct(d)
	return d
}

// newLike constructs a fresh empty container of the same kind and configuration sharing the
// comparator func values of d (TreeSet compares comparator pointers in its set algebra).
func newLike(d *drv) *drv {
	n := &drv{cfg: d.cfg, kf: d.kf, vf: d.vf, calls: d.calls, natural: d.natural}
	construct(n)
	return n
}

// newFresh constructs a fresh empty container of the same configuration with its own
// comparators (JSON reload check).
func newFresh(d *drv) *drv {
	n := &drv{cfg: d.cfg, calls: new(int), natural: naturalOrder(d.cfg)}
	n.kf = countingComparator(d.cfg.KCmp, n.calls)
	n.vf = comparator(d.cfg.VCmp)
	construct(n)
	return n
}

func construct(d *drv) {
	switch d.cfg.Kind {
	case "ArrayList", "SinglyLinkedList", "DoublyLinkedList":
		constructList(d)
	case "HashSet", "TreeSet", "LinkedHashSet":
		constructSet(d)
	case "ArrayStack", "LinkedListStack", "ArrayQueue", "LinkedListQueue", "CircularBuffer", "BinaryHeap", "PriorityQueue":
		constructLinear(d)
	case "HashMap", "TreeMap", "LinkedHashMap", "HashBidiMap", "TreeBidiMap", "RedBlackTree", "AVLTree", "BTree":
		constructMap(d)
	default:
		panic("harness: unknown kind " + d.cfg.Kind)
	}
}

// newLikeWith: the operand of a set-algebra call holding vs.  When d itself came from the comparator-less
// constructor the operand comes from the variadic one (treeset.New(vs...)): both must install the same
// comparator, or the algebra of two natural-order sets answers the empty set.
func newLikeWith(d *drv, vs []int) *drv {
	if d.natural && d.cfg.Kind == "TreeSet" {
		n := &drv{cfg: d.cfg, kf: d.kf, vf: d.vf, calls: d.calls, natural: true}
		bindTreeSet(n, treeset.New(vs...))
		return n
	}
	n := newLike(d)
	n.add(vs...)
	return n
}

// ---------- kind classification (mirrors Machine.v) ----------

func isListKind(k string) bool {
	return k == "ArrayList" || k == "SinglyLinkedList" || k == "DoublyLinkedList"
}
func isSetKind(k string) bool { return k == "HashSet" || k == "TreeSet" || k == "LinkedHashSet" }
func hasPeekKind(k string) bool {
	switch k {
	case "ArrayStack", "LinkedListStack", "ArrayQueue", "LinkedListQueue", "PriorityQueue", "BinaryHeap", "CircularBuffer":
		return true
	}
	return false
}
func hasEnumerable(k string) bool {
	switch k {
	case "ArrayList", "SinglyLinkedList", "DoublyLinkedList", "TreeSet", "LinkedHashSet", "TreeMap", "LinkedHashMap", "TreeBidiMap":
		return true
	}
	return false
}
func hasIterator(k string) bool { return k != "HashSet" && k != "HashMap" && k != "HashBidiMap" }
func forwardOnlyIterator(k string) bool {
	return k == "SinglyLinkedList" || k == "LinkedListStack" || k == "LinkedListQueue"
}
func takesComparator(k string) bool {
	switch k {
	case "TreeSet", "TreeMap", "TreeBidiMap", "RedBlackTree", "AVLTree", "BTree", "BinaryHeap", "PriorityQueue":
		return true
	}
	return false
}
func hasShape(k string) bool {
	switch k {
	case "TreeSet", "TreeMap", "TreeBidiMap", "RedBlackTree", "AVLTree", "BTree":
		return true
	}
	return false
}

func intsText(l []int) string { return fmt.Sprint(l) }
