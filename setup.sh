#!/bin/bash
# MANIFEST.setup_cmd: build the whole framework offline from files on disk.
set -e
cd "$(dirname "$0")"
export GOFLAGS=-mod=mod GOPROXY=off GOSUMDB=off GOTOOLCHAIN=local
mkdir -p build work evidence replays
# effect table generated from /repo (a Coq source file the build compiles)
if [ -x effects/gen.sh ]; then bash effects/gen.sh /repo; fi
# full .vo build (never -vos)
# make -k: a file that fails does not stop the others; the per-property checks report which theorems are undischarged
( cd coq && timeout 3000 ./build.sh >build.log 2>&1 ) || echo "setup: some Coq files did not build (see coq/build.log; the checks report the affected properties)"
[ -f coq/theories/Model/Machine.vo ] || { echo "setup: the model itself did not build"; tail -30 coq/build.log; exit 1; }
( cd coq && ./ocaml/build.sh )
cp /repo/go.sum harness/go.sum 2>/dev/null || true
( cd harness && go build -tags verif -o ../build/harness . )
if [ -x probe/run.sh ]; then ( cp /repo/go.sum probe/go.sum 2>/dev/null; cd probe && go build -tags verif -o ../build/probe . && go build -tags verif -race -o ../build/probe-race . ) ; fi
if [ -x coq/ocaml/build_oracle.sh ]; then ( cd coq && ./ocaml/build_oracle.sh ) || echo "setup: oracle tool did not build"; fi
echo "setup: ok"
