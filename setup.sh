#!/bin/bash
# MANIFEST.setup_cmd: build the whole framework offline from files on disk.
set -e
cd "$(dirname "$0")"
export GOFLAGS=-mod=mod GOPROXY=off GOSUMDB=off GOTOOLCHAIN=local
mkdir -p build work evidence replays
# effect table generated from /repo (a Coq source file the build compiles)
if [ -x effects/gen.sh ]; then bash effects/gen.sh /repo; fi
# full .vo build (never -vos)
( cd coq && timeout 3000 ./build.sh ) || { echo "setup: Coq build failed"; exit 1; }
( cd coq && ./ocaml/build.sh )
cp /repo/go.sum harness/go.sum 2>/dev/null || true
( cd harness && go build -tags verif -o ../build/harness . )
if [ -d probe ]; then ( cd probe && go build -tags verif -race -o ../build/probe . ) ; fi
echo "setup: ok"
