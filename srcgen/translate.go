package main

// Go (loop-free integer code) -> Gallina.  See README.md for the scheme.
// Everything that is not understood makes the translation of the function FAIL (unsupported()).

import (
	"fmt"
	"go/ast"
	"go/parser"
	"go/token"
	"math/big"
	"os"
	"path/filepath"
	"sort"
	"strconv"
	"strings"
)

// ---------------------------------------------------------------- types

type kind int

const (
	kInt kind = iota
	kBool
	kElem // the type parameter T, instantiated with Z
	kSlice
	kStruct
	kFunc
	kTuple
	kAbs    // the state of an abstract (wrapped) container
	kMap    // a Go map with Z keys and Z values (GoMap.gmap); struct{} values are 0
	kIter   // a local iterator variable `it := x.Iterator()`: stands for the enumeration list Enum
	kCmp    // a comparator function value (utils.Comparator[T]): GoCmp.comparator; never called by translated code
	kCmpRef // reflect.ValueOf(comparator) / its .Pointer(): only compared, with the abstract same_comparator
	kBytes  // []byte: GoJson.bytes (only passed around)
	kErr    // error: bool (true = a non-nil error); only its nil-ness is modelled
	kNode   // *Node of an abstract tree: GoCmp.node = option (Z * Z) (nil, or key and value)
)

type ty struct {
	K       kind
	S       *structInfo
	A       *absIface
	Enum    string // kIter: the Gallina term of the (index-or-key, value) list the iterator walks
	Params  []ty
	Results []ty
}

type fieldInfo struct {
	Name      string
	Coq       string
	Ty        ty
	Container bool // pointer to a struct of the same package: becomes a parameter, not a field
}

// an abstract container reached through a struct field: its methods are fields of a generated record
type absIface struct {
	Field   string // the Go field name: record <Field>_iface, variable <Field>_I
	Dir     string // package directory of the wrapped type
	Type    string // its type name
	Pure    map[string]bool
	Fixed   bool // the interface is declared in the whitelist: nothing else may be called
	filling bool
	unit    *unit
	Methods map[string]*funcInfo // the interface (declared, or the methods called so far)
	pos     token.Pos
}

type structInfo struct {
	Ignored []string
	Name    string
	Dir     string
	Unit    *unit
	Fields  []*fieldInfo
	pos     token.Pos
}

func (s *structInfo) field(n string) *fieldInfo {
	for _, f := range s.Fields {
		if f.Name == n {
			return f
		}
	}
	return nil
}

func (s *structInfo) containers() []*fieldInfo {
	var r []*fieldInfo
	for _, f := range s.Fields {
		if f.Container {
			r = append(r, f)
		}
	}
	return r
}

type param struct {
	Name string
	Ty   ty
}

type funcInfo struct {
	Unit        *unit
	Name        string
	Coq         string
	Decl        *ast.FuncDecl
	Recv        *structInfo
	RecvName    string
	TypeParms   map[string]bool
	Params      []param
	Results     []param // Name == "" when unnamed
	Writes      bool
	Abs         *absIface // method of an abstract interface (no body)
	External    bool      // an untranslated method of a struct of this unit: a parameter <Struct>_ext_<name>
	OpaqueIface *absIface
	OpaqueRecv  string          // method of an opaque receiver type (translated as a function of the abstract value)
	Static      bool            // ... a package-level function of the abstract container's package (constructor)
	Variadic    bool            // the last parameter is variadic (a slice)
	Partial     bool            // may panic or runs a fuelled loop: result is an option
	Fuel        bool            // takes a fuel parameter
	Needs       map[string]bool // container fields needed as parameters
	callees     []*funcInfo
	orderDeps   []*funcInfo
	text        string // emitted Gallina
}

type unit struct {
	Spec      unitSpec
	File      *ast.File
	Files     []*ast.File
	ExtraSha  []string
	TypeDecls []*ast.GenDecl // type declarations read from Spec.StructFiles
	Externals []*funcInfo    // untranslated methods of own structs, called through parameters
	Dir       string
	Imports   map[string]string // local package name -> directory relative to repo
	Structs   []*structInfo
	Consts    map[string]ast.Expr // package-level constants of the file
	UsesRT    bool                // some function uses the runtime's allocation policy (alloc_cap)
	IterEnums []*structInfo       // structs whose Iterator() is an abstract enumeration (Section variable)
	UsesMap   bool                // GoMap.v is needed
	UsesCmp   bool                // GoCmp.v is needed
	UsesJson  bool                // encoding/json as abstract functions (GoJson.v, Section Json)
	UsesNilP  bool                // slice == nil in a capacity-aware unit: parameter slice_is_nil
	UsesSame  bool                // reflect-based comparator identity: parameter same_comparator
	UsesMO    bool                // some function ranges over a map (map_order)
	PkgVars   map[string]ast.Expr // package-level variables with an initialiser
	Abs       []*absIface
	Funcs     []*funcInfo // translated, in emission order
	Skipped   [][2]string
	NotSel    []string
	Deps      map[string]bool
	Sha       string
	SrcLines  int
	tree      *tunit // tree pointer mode (treeheap.go)
}

func (u *unit) allDecls() []ast.Decl {
	var ds []ast.Decl
	for _, gd := range u.TypeDecls {
		ds = append(ds, gd)
	}
	for _, f := range u.Files {
		ds = append(ds, f.Decls...)
	}
	return ds
}

type translator struct {
	fset    *token.FileSet
	units   []*unit
	structs []*structInfo
	funcs   []*funcInfo
	absPkgs map[string][]*ast.File // parsed package directories of abstract containers
	repo    string
	errs    []string
}

// the struct dir.name as seen from unit `from`: its own declaration if it has one, else the first registered
func (t *translator) findStruct(dir, name string, from *unit) *structInfo {
	var first *structInfo
	for _, s := range t.structs {
		if s.Dir == dir && s.Name == name {
			if s.Unit == from {
				return s
			}
			if first == nil {
				first = s
			}
		}
	}
	return first
}

func (t *translator) findMethod(s *structInfo, name string) *funcInfo {
	for _, f := range t.funcs {
		if f.Recv == s && f.Name == name {
			return f
		}
	}
	return nil
}

// a plain (receiver-less) function of package dir
func (t *translator) findFunc(dir, name string, from *unit) *funcInfo {
	var first *funcInfo
	for _, f := range t.funcs {
		if f.Recv == nil && f.Unit.Dir == dir && f.Name == name {
			if f.Unit == from {
				return f
			}
			if first == nil {
				first = f
			}
		}
	}
	return first
}

// the method `name` of an abstract container: parameter / result types are read from its Go declaration
func (t *translator) absMethod(a *absIface, name string, at token.Pos) *funcInfo {
	return t.absFunc(a, name, false, at)
}

// static: a package-level function of the container's package (New, NewWith, ...), key "pkg.<name>"
func (t *translator) absFunc(a *absIface, name string, static bool, at token.Pos) *funcInfo {
	key := name
	if static {
		key = "pkg." + name
	}
	if fi, ok := a.Methods[key]; ok {
		return fi
	}
	if a.Fixed && !a.filling {
		t.unsupported(at, "call of %s on the abstract container %s.%s: not in the interface declared for field %s in whitelist.go", key, a.Dir, a.Type, a.Field)
	}
	t.loadAbsPkg(a, at)
	files := t.absPkgs[a.Dir]
	var found *ast.FuncDecl
	var tps map[string]bool
	for _, file := range files {
		for _, d := range file.Decls {
			fd, ok := d.(*ast.FuncDecl)
			if !ok || fd.Name.Name != name {
				continue
			}
			if static {
				if fd.Recv != nil {
					continue
				}
				if found != nil {
					t.unsupported(at, "function %s declared twice in %s", name, a.Dir)
				}
				found, tps = fd, typeParamNames(fd.Type.TypeParams)
				continue
			}
			_, rt, tp, ok := recvInfo(fd)
			if !ok || rt != a.Type {
				continue
			}
			if found != nil {
				t.unsupported(at, "method %s.%s declared twice in %s", a.Type, name, a.Dir)
			}
			found = fd
			tps = map[string]bool{}
			for _, p := range tp {
				tps[p] = true
			}
		}
	}
	if found == nil && !static { // sorting.go: the abstract type is an INTERFACE type: its method set is its declaration
		found, tps = ifaceMethod(files, a.Type, name)
	}
	if found == nil {
		t.unsupported(at, "abstract container %s.%s has no method %s", a.Dir, a.Type, name)
	}
	fi := &funcInfo{Name: name, Coq: a.Field + "_" + name, Abs: a, Writes: !a.Pure[name], Needs: map[string]bool{}, TypeParms: tps, Decl: found}
	if static {
		fi.Static, fi.Writes, fi.Coq = true, false, a.Field+"_pkg_"+name
	}
	c := tctx{&unit{Dir: a.Dir, Imports: map[string]string{}}, tps}
	// the container type itself (*Type[T]) in a signature is the abstract state
	self := func(e ast.Expr) bool {
		if s, ok := e.(*ast.StarExpr); ok {
			e = s.X
		}
		switch x := e.(type) {
		case *ast.IndexExpr:
			e = x.X
		case *ast.IndexListExpr:
			e = x.X
		}
		id, ok := e.(*ast.Ident)
		return ok && id.Name == a.Type
	}
	for _, p := range found.Type.Params.List {
		pt := p.Type
		if el, isVar := pt.(*ast.Ellipsis); isVar {
			pt = &ast.ArrayType{Elt: el.Elt}
			fi.Variadic = true
		}
		x := t.resolveType(pt, c)
		if x.K == kStruct || (x.K == kFunc && !allFlat(x)) { // a callback over ints / T / bool is passed on as a function
			t.unsupported(at, "abstract method %s.%s takes a struct / function parameter", a.Type, name)
		}
		if x.K == kCmp && a.unit != nil {
			a.unit.UsesCmp = true
		}
		k := len(p.Names)
		if k == 0 {
			k = 1
		}
		for i := 0; i < k; i++ {
			fi.Params = append(fi.Params, param{"", x})
		}
	}
	for _, p := range fieldList(found.Type.Results) {
		if self(p.typ) {
			fi.Results = append(fi.Results, param{"", ty{K: kAbs, A: a}})
			continue
		}
		if isNodePtr(p.typ) { // *Node[K, V]: nil or an entry
			if a.unit != nil {
				a.unit.UsesCmp = true
			}
			fi.Results = append(fi.Results, param{"", ty{K: kNode}})
			continue
		}
		x := t.resolveType(p.typ, c)
		if x.K == kStruct || x.K == kFunc {
			t.unsupported(at, "abstract method %s.%s returns a struct / function", a.Type, name)
		}
		fi.Results = append(fi.Results, param{"", x})
	}
	if static && (len(fi.Results) != 1 || fi.Results[0].Ty.K != kAbs) {
		t.unsupported(at, "package-level function %s.%s does not return the container", a.Dir, name)
	}
	a.Methods[key] = fi
	return fi
}

func (t *translator) loadAbsPkg(a *absIface, at token.Pos) {
	files, ok := t.absPkgs[a.Dir]
	if !ok {
		ents, err := os.ReadDir(filepath.Join(t.repo, a.Dir))
		if err != nil {
			t.unsupported(at, "package %s of the abstract container cannot be read: %v", a.Dir, err)
		}
		for _, en := range ents {
			n := en.Name()
			if en.IsDir() || !strings.HasSuffix(n, ".go") || strings.HasSuffix(n, "_test.go") {
				continue
			}
			file, err := parser.ParseFile(t.fset, filepath.Join(t.repo, a.Dir, n), nil, parser.SkipObjectResolution)
			if err != nil {
				t.unsupported(at, "parse error in %s/%s: %v", a.Dir, n, err)
			}
			files = append(files, file)
		}
		t.absPkgs[a.Dir] = files
	}
	_ = files
}

// the interface of an opaque receiver type of unit u (created on first use)
func (t *translator) opaqueIface(u *unit, name string, at token.Pos) *absIface {
	if u == nil || u.Spec.Opaque == nil {
		return nil
	}
	as, ok := u.Spec.Opaque[name]
	if !ok {
		return nil
	}
	for _, a := range u.Abs {
		if a.Field == name && a.Dir == u.Dir && a.Type == name {
			return a
		}
	}
	a := &absIface{Field: name, Dir: u.Dir, Type: name, Pure: map[string]bool{}, Methods: map[string]*funcInfo{}, pos: at, unit: u}
	u.Abs = append(u.Abs, a)
	for _, p := range as.Pure {
		a.Pure[p] = true
	}
	if as.Methods != nil {
		a.Fixed, a.filling = true, true
		for _, n := range as.Methods {
			switch {
			case n == "lit.empty":
				a.Methods[n] = &funcInfo{Name: "empty", Coq: name + "_lit_empty", Abs: a, Static: true, Needs: map[string]bool{}, Results: []param{{"", ty{K: kAbs, A: a}}}}
			case n == "Iterator":
				a.Methods["enum.Iterator"] = &funcInfo{Name: "Iterator", Coq: name + "_Iterator_enum", Abs: a, Needs: map[string]bool{}}
			case strings.HasPrefix(n, "pkg."):
				t.absFunc(a, strings.TrimPrefix(n, "pkg."), true, at)
			default:
				t.absFunc(a, n, false, at)
			}
		}
		a.filling = false
	}
	return a
}

// an untranslated method of struct s (declared somewhere in the package): its signature is read from the source
func (t *translator) externalMethod(u *unit, s *structInfo, name string, mut bool, at token.Pos) *funcInfo {
	for _, x := range u.Externals {
		if x.Recv == s && x.Name == name {
			return x
		}
	}
	probe := &absIface{Field: s.Name, Dir: u.Dir, Type: s.Name, Pure: map[string]bool{}, Methods: map[string]*funcInfo{}, unit: u}
	sig := t.absFunc(probe, name, false, at)
	fi := &funcInfo{Unit: u, Name: name, Coq: s.Name + "_ext_" + name, Decl: sig.Decl, Recv: s, RecvName: "_", Needs: map[string]bool{},
		TypeParms: sig.TypeParms, Params: sig.Params, Results: sig.Results, Variadic: sig.Variadic, Writes: mut, External: true, text: "(* external *)"}
	u.Externals = append(u.Externals, fi)
	t.funcs = append(t.funcs, fi)
	return fi
}

func isNodePtr(e ast.Expr) bool {
	s, ok := e.(*ast.StarExpr)
	if !ok {
		return false
	}
	x := s.X
	switch y := x.(type) {
	case *ast.IndexExpr:
		x = y.X
	case *ast.IndexListExpr:
		x = y.X
	}
	id, ok := x.(*ast.Ident)
	return ok && id.Name == "Node"
}

// a field of the wrapped container read through the abstract interface (tree.Comparator): key "fld.<name>",
// record field <field>_fld_<name> : T -> type
func (t *translator) absFieldRead(a *absIface, name string, at token.Pos) *funcInfo {
	key := "fld." + name
	if fi, ok := a.Methods[key]; ok {
		return fi
	}
	if a.Fixed && !a.filling {
		t.unsupported(at, "read of field %s of the abstract container %s.%s: not in the interface declared in whitelist.go", name, a.Dir, a.Type)
	}
	t.loadAbsPkg(a, at)
	for _, file := range t.absPkgs[a.Dir] {
		for _, d := range file.Decls {
			gd, ok := d.(*ast.GenDecl)
			if !ok || gd.Tok != token.TYPE {
				continue
			}
			for _, sp := range gd.Specs {
				ts := sp.(*ast.TypeSpec)
				st, ok := ts.Type.(*ast.StructType)
				if !ok || ts.Name.Name != a.Type {
					continue
				}
				c := tctx{&unit{Dir: a.Dir, Imports: map[string]string{"utils": "utils"}, Spec: unitSpec{}}, typeParamNames(ts.TypeParams)}
				for _, f := range fieldList(st.Fields) {
					if f.name == name {
						x := t.resolveType(f.typ, c)
						if x.K != kCmp && x.K != kInt && x.K != kBool && x.K != kElem {
							t.unsupported(at, "field %s of the abstract container has a type that cannot be read through the interface", name)
						}
						if x.K == kCmp && a.unit != nil {
							a.unit.UsesCmp = true
						}
						fi := &funcInfo{Name: name, Coq: a.Field + "_fld_" + name, Abs: a, Needs: map[string]bool{}, Results: []param{{"", x}}}
						a.Methods[key] = fi
						return fi
					}
				}
			}
		}
	}
	t.unsupported(at, "abstract container %s.%s has no field %s", a.Dir, a.Type, name)
	return nil
}

type unsupportedErr struct{ msg string }

func (t *translator) unsupported(p token.Pos, format string, a ...interface{}) {
	pos := t.fset.Position(p)
	panic(unsupportedErr{fmt.Sprintf("%s:%d:%d: unsupported construct: %s", pos.Filename, pos.Line, pos.Column, fmt.Sprintf(format, a...))})
}

// ---------------------------------------------------------------- names

var reserved = map[string]bool{}

func init() {
	for _, w := range strings.Fields(`as at cofix else end exists exists2 fix for forall fun if IF in let match mod Prop return Set then Type using where with
		list length get set repeat seq fst snd bool true false negb andb orb Z nat map fold_left option Some None unit tt string
		translated skipped not_selected source_file source_sha256 S O pair prod app nil cons`) {
		reserved[w] = true
	}
}

func mangle(n string) string {
	if reserved[n] {
		return n + "_"
	}
	return n
}

func vname(n string) string { return "v_" + n }

func (s *structInfo) coqName(from *unit) string {
	if s.Unit == from {
		return mangle(s.Name)
	}
	return s.Unit.Spec.Module + "." + mangle(s.Name)
}

func qual(u, from *unit, n string) string {
	if u == from {
		return n
	}
	return u.Spec.Module + "." + n
}

func (t *translator) coqType(x ty, from *unit) string {
	switch x.K {
	case kInt, kElem, kUint: // kUint: loops.go (an unsigned int: a Z that is never negative, arithmetic through GoUint)
		return "Z"
	case kBool:
		return "bool"
	case kSlice:
		if from != nil && from.Spec.CapSlices {
			return "GoSlice.slice"
		}
		return "(Datatypes.list Z)"
	case kStruct:
		if x.S.Unit != from {
			from.Deps[x.S.Unit.Spec.Module] = true
		}
		return x.S.coqName(from)
	case kFunc:
		var parts []string
		for _, p := range x.Params {
			parts = append(parts, t.coqType(p, from))
		}
		parts = append(parts, t.resultType(x.Results, from))
		return "(" + strings.Join(parts, " -> ") + ")"
	case kTuple:
		return t.resultType(x.Results, from)
	case kBytes:
		if from != nil {
			from.UsesJson = true
		}
		return "GoJson.bytes"
	case kErr:
		return "bool"
	case kCmp, kCmpRef:
		if from != nil {
			from.UsesCmp = true
		}
		return "GoCmp.comparator"
	case kNode:
		if from != nil {
			from.UsesCmp = true
		}
		return "GoCmp.node"
	case kMap:
		return "GoMap.gmap"
	case kAbs:
		return "(" + x.A.Field + "_T " + x.A.Field + "_I)"
	}
	return "?"
}

func (t *translator) resultType(rs []ty, from *unit) string {
	if len(rs) == 0 {
		return "unit"
	}
	if len(rs) == 1 {
		return t.coqType(rs[0], from)
	}
	var parts []string
	for _, r := range rs {
		parts = append(parts, t.coqType(r, from))
	}
	return "(" + strings.Join(parts, " * ") + ")"
}

func zero(x ty) (string, bool) {
	switch x.K {
	case kInt, kElem, kUint:
		return "0", true
	case kBool:
		return "false", true
	case kSlice:
		return "(@Datatypes.nil Z)", true
	case kErr:
		return "false", true
	case kBytes:
		return "GoJson.nil_bytes", true
	}
	return "", false // a nil map is not modelled (writing to it panics)
}

func (f *fx) zeroOf(x ty) (string, bool) {
	if x.K == kSlice && f.u.Spec.CapSlices {
		return "GoSlice.sl_nil", true
	}
	return zero(x)
}

func (f *fx) capMode() bool { return f.u.Spec.CapSlices }

func (f *fx) slLen(a string) string {
	if f.capMode() {
		return "(GoSlice.sl_len " + a + ")"
	}
	return "(Z.of_nat (Datatypes.length " + a + "))"
}

func (f *fx) slGet(a, i string) string {
	if f.capMode() {
		return "(GoSlice.sl_get " + a + " " + i + ")"
	}
	return "(ListAux.get " + a + " (Z.to_nat " + i + "))"
}

func (f *fx) slSet(a, i, v string) string {
	if f.capMode() {
		return "(GoSlice.sl_set " + a + " " + i + " " + v + ")"
	}
	return "(ListAux.set " + a + " (Z.to_nat " + i + ") " + v + ")"
}

// ---------------------------------------------------------------- floating point: dyadic constants only

// a float32 expression whose value is num / 2^k exactly (as long as the ints involved are below 2^24 in
// magnitude, where float32 is exact); num is a Gallina Z term
type fval struct {
	num   string
	k     uint
	konst *big.Rat // non-nil: a compile-time constant
}

func isPow2(x *big.Int) (uint, bool) {
	if x.Sign() <= 0 {
		return 0, false
	}
	n := uint(x.BitLen() - 1)
	return n, new(big.Int).Lsh(big.NewInt(1), n).Cmp(x) == 0
}

func (f *fx) fconst(r *big.Rat, at token.Pos) fval {
	k, ok := isPow2(r.Denom())
	if !ok || k > 20 || r.Num().BitLen() > 24 {
		f.bad(at, "floating-point constant %s that is not a small dyadic rational (exactly representable in float32)", r.RatString())
	}
	return fval{num: r.Num().String(), k: k, konst: r}
}

func (f *fx) isFloatExpr(x ast.Expr, e env) bool {
	switch n := x.(type) {
	case *ast.ParenExpr:
		return f.isFloatExpr(n.X, e)
	case *ast.BasicLit:
		return n.Kind == token.FLOAT
	case *ast.Ident:
		if _, local := e.vars[n.Name]; local {
			return false
		}
		if c, ok := f.u.Consts[n.Name]; ok {
			return f.isFloatExpr(c, env{})
		}
	case *ast.CallExpr:
		if id, ok := n.Fun.(*ast.Ident); ok && (id.Name == "float32" || id.Name == "float64") {
			_, shadow := e.vars[id.Name]
			return !shadow
		}
	case *ast.BinaryExpr:
		return n.Op == token.MUL && (f.isFloatExpr(n.X, e) || f.isFloatExpr(n.Y, e))
	}
	return false
}

func (f *fx) fexpr(x ast.Expr, e env) fval {
	switch n := x.(type) {
	case *ast.ParenExpr:
		return f.fexpr(n.X, e)
	case *ast.BasicLit:
		if n.Kind == token.FLOAT || n.Kind == token.INT {
			r, ok := new(big.Rat).SetString(n.Value)
			if !ok {
				f.bad(n.Pos(), "numeric literal %s", n.Value)
			}
			return f.fconst(r, n.Pos())
		}
	case *ast.Ident:
		if _, local := e.vars[n.Name]; !local {
			if c, ok := f.u.Consts[n.Name]; ok {
				return f.fexpr(c, env{vars: map[string]varInfo{}})
			}
		}
	case *ast.CallExpr:
		if id, ok := n.Fun.(*ast.Ident); ok && (id.Name == "float32" || id.Name == "float64") && len(n.Args) == 1 {
			if f.isFloatExpr(n.Args[0], e) {
				return f.fexpr(n.Args[0], e)
			}
			if lit, ok := n.Args[0].(*ast.BasicLit); ok && lit.Kind == token.INT {
				return f.fexpr(lit, e)
			}
			s, ts := f.expr(n.Args[0], e)
			f.want(n.Args[0], ts, kInt)
			return fval{num: s}
		}
	case *ast.BinaryExpr:
		if n.Op == token.MUL {
			a, b := f.fexpr(n.X, e), f.fexpr(n.Y, e)
			if a.konst == nil && b.konst == nil {
				f.bad(n.Pos(), "product of two non-constant floating-point values (rounding is not modelled)")
			}
			r := fval{num: "(" + a.num + " * " + b.num + ")", k: a.k + b.k}
			if a.konst != nil && b.konst != nil {
				return f.fconst(new(big.Rat).Mul(a.konst, b.konst), n.Pos())
			}
			return r
		}
	}
	f.bad(x.Pos(), "floating-point expression other than <dyadic constant> * float32(<int>)")
	return fval{}
}

func pow2(k uint) string { return new(big.Int).Lsh(big.NewInt(1), k).String() }

// ---------------------------------------------------------------- type resolution

type tctx struct {
	u     *unit
	tparm map[string]bool
}

func (t *translator) resolveType(e ast.Expr, c tctx) ty {
	switch x := e.(type) {
	case *ast.Ident:
		switch x.Name {
		case "int":
			return ty{K: kInt}
		case "uint": // loops.go
			return ty{K: kUint}
		case "bool":
			return ty{K: kBool}
		case "error":
			return ty{K: kErr}
		}
		if c.tparm[x.Name] {
			return ty{K: kElem}
		}
		if a := t.opaqueIface(c.u, x.Name, x.Pos()); a != nil {
			return ty{K: kAbs, A: a}
		}
		if s := t.findStruct(c.u.Dir, x.Name, c.u); s != nil {
			return ty{K: kStruct, S: s}
		}
		t.unsupported(x.Pos(), "type %s (not int, bool, the type parameter, or a whitelisted struct)", x.Name)
	case *ast.StarExpr:
		r := t.resolveType(x.X, c)
		if r.K != kStruct && r.K != kAbs {
			t.unsupported(x.Pos(), "pointer to a non-struct type")
		}
		return r
	case *ast.IndexExpr: // Generic[T]
		if sel, ok := x.X.(*ast.SelectorExpr); ok && sel.Sel.Name == "Comparator" {
			if id, ok := sel.X.(*ast.Ident); ok && (c.u.Imports[id.Name] == "utils" || id.Name == "utils") {
				c.u.UsesCmp = true
				return ty{K: kCmp}
			}
		}
		a := t.resolveType(x.Index, c)
		if a.K != kElem && a.K != kInt {
			t.unsupported(x.Pos(), "generic instantiation with something else than the type parameter / int")
		}
		r := t.resolveType(x.X, c)
		if r.K != kStruct && r.K != kAbs {
			t.unsupported(x.Pos(), "instantiation of a non-struct generic type")
		}
		return r
	case *ast.SelectorExpr:
		if id, ok := x.X.(*ast.Ident); ok {
			if dir, ok := c.u.Imports[id.Name]; ok {
				if s := t.findStruct(dir, x.Sel.Name, c.u); s != nil {
					return ty{K: kStruct, S: s}
				}
				t.unsupported(x.Pos(), "type %s.%s: not a struct of a whitelisted file", id.Name, x.Sel.Name)
			}
		}
		t.unsupported(x.Pos(), "qualified type")
	case *ast.ArrayType:
		if x.Len != nil {
			t.unsupported(x.Pos(), "fixed-size array type")
		}
		if id, ok := x.Elt.(*ast.Ident); ok && id.Name == "byte" {
			c.u.UsesJson = true
			return ty{K: kBytes}
		}
		el := t.resolveType(x.Elt, c)
		if el.K != kElem && el.K != kInt {
			t.unsupported(x.Pos(), "slice whose element type is not the type parameter or int")
		}
		return ty{K: kSlice}
	case *ast.FuncType:
		r := ty{K: kFunc}
		for _, p := range fieldList(x.Params) {
			r.Params = append(r.Params, t.resolveType(p.typ, c))
		}
		for _, p := range fieldList(x.Results) {
			r.Results = append(r.Results, t.resolveType(p.typ, c))
		}
		return r
	case *ast.ParenExpr:
		return t.resolveType(x.X, c)
	case *ast.MapType:
		k, v := t.resolveType(x.Key, c), t.resolveType(x.Value, c)
		if (k.K != kElem && k.K != kInt) || (v.K != kElem && v.K != kInt) {
			t.unsupported(x.Pos(), "map whose key / value types are not type parameters, int or struct{}")
		}
		c.u.UsesMap = true
		return ty{K: kMap}
	case *ast.StructType:
		if x.Fields == nil || len(x.Fields.List) == 0 {
			return ty{K: kElem} // struct{}: the only value is translated as 0
		}
		t.unsupported(x.Pos(), "anonymous struct type")
	case *ast.IndexListExpr: // Generic[K, V]
		for _, ix := range x.Indices {
			if a := t.resolveType(ix, c); a.K != kElem && a.K != kInt {
				t.unsupported(x.Pos(), "generic instantiation with something else than type parameters / int")
			}
		}
		r := t.resolveType(x.X, c)
		if r.K != kStruct {
			t.unsupported(x.Pos(), "instantiation of a non-struct generic type")
		}
		return r
	case *ast.Ellipsis: // variadic parameter: a slice
		return t.resolveType(&ast.ArrayType{Lbrack: x.Pos(), Elt: x.Elt}, c)
	}
	t.unsupported(e.Pos(), "type expression %T", e)
	return ty{}
}

type flatField struct {
	name string
	typ  ast.Expr
}

func fieldList(fl *ast.FieldList) []flatField {
	var r []flatField
	if fl == nil {
		return r
	}
	for _, f := range fl.List {
		if len(f.Names) == 0 {
			r = append(r, flatField{"", f.Type})
		}
		for _, n := range f.Names {
			r = append(r, flatField{n.Name, f.Type})
		}
	}
	return r
}

// receiver: (name *Type[T]) -> name, Type, type parameter names
func recvInfo(fd *ast.FuncDecl) (name, typ string, tparms []string, ok bool) {
	if fd.Recv == nil || len(fd.Recv.List) != 1 {
		return "", "", nil, false
	}
	f := fd.Recv.List[0]
	if len(f.Names) == 1 {
		name = f.Names[0].Name
	}
	e := f.Type
	if s, isStar := e.(*ast.StarExpr); isStar {
		e = s.X
	}
	switch x := e.(type) {
	case *ast.Ident:
		return name, x.Name, nil, true
	case *ast.IndexExpr:
		if id, isId := x.X.(*ast.Ident); isId {
			if tp, isId2 := x.Index.(*ast.Ident); isId2 {
				return name, id.Name, []string{tp.Name}, true
			}
		}
	case *ast.IndexListExpr:
		if id, isId := x.X.(*ast.Ident); isId {
			var tps []string
			for _, ix := range x.Indices {
				tp, isId2 := ix.(*ast.Ident)
				if !isId2 {
					return "", "", nil, false
				}
				tps = append(tps, tp.Name)
			}
			return name, id.Name, tps, true
		}
	}
	return "", "", nil, false
}

// ---------------------------------------------------------------- environment

type varInfo struct {
	ty    ty
	depth int
	seq   int
	param bool // a parameter (not the receiver)
}

type env struct {
	vars  map[string]varInfo
	depth int
}

func (e env) with(n string, x ty) env {
	m := make(map[string]varInfo, len(e.vars)+1)
	for k, v := range e.vars {
		m[k] = v
	}
	m[n] = varInfo{ty: x, depth: e.depth, seq: len(e.vars)}
	return env{vars: m, depth: e.depth}
}

func (e env) deeper() env { return env{vars: e.vars, depth: e.depth + 1} }

func (e env) ordered() []string {
	var ns []string
	for n := range e.vars {
		ns = append(ns, n)
	}
	sort.Slice(ns, func(i, j int) bool { return e.vars[ns[i]].seq < e.vars[ns[j]].seq })
	return ns
}

// ---------------------------------------------------------------- per-function translation

type rebindLog struct {
	threshold int
	names     map[string]bool
}

type fx struct {
	t           *translator
	fi          *funcInfo
	u           *unit
	logs        []*rebindLog
	aux         []string // auxiliary definitions (loop fixpoints), emitted before the function
	nloop       int
	tmp         int
	dry         int             // >0: collecting assigned variables only
	staticIface *absIface       // while translating the value of an abstract field in a composite literal
	iterLive    map[string]bool // iterator variables whose loop body is being translated
}

type cont func(e env) string

func (f *fx) bad(p token.Pos, format string, a ...interface{}) { f.t.unsupported(p, format, a...) }

func (f *fx) rebind(n string, e env) {
	vi, ok := e.vars[n]
	if !ok {
		return
	}
	if vi.param && (vi.ty.K == kStruct || vi.ty.K == kSlice || vi.ty.K == kMap || vi.ty.K == kAbs) {
		// the caller would see this through the pointer / the shared backing array: not modelled
		f.bad(f.fi.Decl.Pos(), "%s modifies its parameter %s (a struct pointer, slice or map): effects on the caller's value are not modelled", f.fi.Name, n)
	}
	if (f.fi.Recv != nil || f.fi.OpaqueRecv != "") && n == f.fi.RecvName && !f.fi.Writes {
		// safety net: the syntactic write analysis and the translation must agree
		f.bad(f.fi.Decl.Pos(), "internal: %s modifies its receiver but was analysed as read-only", f.fi.Name)
	}
	for _, l := range f.logs {
		if vi.depth <= l.threshold {
			l.names[n] = true
		}
	}
}

// collect the outer variables (declared at depth <= e.depth) that translating `run` rebinds
func (f *fx) assignedBy(e env, run func()) []string {
	l := &rebindLog{threshold: e.depth, names: map[string]bool{}}
	f.logs = append(f.logs, l)
	f.dry++
	naux, nloop, ntmp := len(f.aux), f.nloop, f.tmp
	run()
	f.aux, f.nloop, f.tmp = f.aux[:naux], nloop, ntmp
	f.dry--
	f.logs = f.logs[:len(f.logs)-1]
	var ns []string
	for n := range l.names {
		ns = append(ns, n)
	}
	sort.Slice(ns, func(i, j int) bool { return e.vars[ns[i]].seq < e.vars[ns[j]].seq })
	return ns
}

func tuple(ns []string) string {
	if len(ns) == 1 {
		return vname(ns[0])
	}
	var p []string
	for _, n := range ns {
		p = append(p, vname(n))
	}
	return "(" + strings.Join(p, ", ") + ")"
}

func letPat(ns []string) string {
	if len(ns) == 1 {
		return vname(ns[0])
	}
	return "'" + tuple(ns)
}

// the value returned by the Gallina function for Go results vals
func (f *fx) mkret(vals []string, e env) string {
	var base string
	switch len(vals) {
	case 0:
		base = "tt"
	case 1:
		base = vals[0]
	default:
		base = "(" + strings.Join(vals, ", ") + ")"
	}
	if f.fi.Writes {
		base = "(" + vname(f.fi.RecvName) + ", " + base + ")"
	}
	if f.fi.Partial {
		base = "(Some " + base + ")"
	}
	return base
}

func (f *fx) fresh() string {
	f.tmp++
	return "t" + strconv.Itoa(f.tmp)
}

// ---- expressions (pure)

func isBlank(e ast.Expr) bool {
	id, ok := e.(*ast.Ident)
	return ok && id.Name == "_"
}

func (f *fx) expr(x ast.Expr, e env) (string, ty) {
	switch n := x.(type) {
	case *ast.ParenExpr:
		return f.expr(n.X, e)
	case *ast.BasicLit:
		if n.Kind != token.INT {
			f.bad(n.Pos(), "literal %s (only integer literals)", n.Value)
		}
		v, err := strconv.ParseInt(n.Value, 0, 64)
		if err != nil {
			f.bad(n.Pos(), "integer literal %s", n.Value)
		}
		return strconv.FormatInt(v, 10), ty{K: kInt}
	case *ast.Ident:
		switch n.Name {
		case "true", "false":
			if _, shadow := e.vars[n.Name]; !shadow {
				return n.Name, ty{K: kBool}
			}
		}
		if vi, ok := e.vars[n.Name]; ok {
			return vname(n.Name), vi.ty
		}
		if pv, ok := f.u.PkgVars[n.Name]; ok {
			if cl, ok := pv.(*ast.CompositeLit); ok && len(cl.Elts) == 0 {
				if st, ok := cl.Type.(*ast.StructType); ok && (st.Fields == nil || len(st.Fields.List) == 0) {
					return "0", ty{K: kElem} // a package variable holding struct{}{}
				}
			}
		}
		f.bad(n.Pos(), "identifier %s (not a local variable, parameter or receiver)", n.Name)
	case *ast.UnaryExpr:
		switch n.Op {
		case token.SUB:
			s, t := f.expr(n.X, e)
			f.want(n.X, t, kInt)
			return "(- " + s + ")", t
		case token.NOT:
			s, t := f.expr(n.X, e)
			f.want(n.X, t, kBool)
			return "(negb " + s + ")", t
		case token.AND:
			if cl, ok := n.X.(*ast.CompositeLit); ok {
				return f.composite(cl, e)
			}
		}
		f.bad(n.Pos(), "unary operator %s", n.Op)
	case *ast.CompositeLit:
		return f.composite(n, e)
	case *ast.StarExpr: // *pkg.New(): the abstract container by value
		s, ts := f.expr(n.X, e)
		if ts.K != kAbs {
			f.bad(n.Pos(), "dereference of something that is not an abstract container")
		}
		return s, ts
	case *ast.SliceExpr:
		if s, t, ok := f.bytesSlice(n, e); ok { // bytesbuf.go: p[lo:hi] on a []byte
			return s, t
		}
		if !f.capMode() {
			f.bad(n.Pos(), "slice expression (only in capacity-aware units)")
		}
		if n.Low != nil || n.Slice3 || n.High == nil {
			f.bad(n.Pos(), "slice expression other than s[:n]")
		}
		a, ta := f.expr(n.X, e)
		if ta.K != kSlice {
			f.bad(n.Pos(), "reslicing something that is not a slice")
		}
		h, th := f.expr(n.High, e)
		f.want(n.High, th, kInt)
		return "(GoSlice.sl_reslice " + a + " " + h + ")", ta
	case *ast.BinaryExpr:
		if f.isFloatExpr(n.X, e) || f.isFloatExpr(n.Y, e) {
			a, b := f.fexpr(n.X, e), f.fexpr(n.Y, e)
			if a.konst != nil && b.konst != nil {
				c := a.konst.Cmp(b.konst)
				var r bool
				switch n.Op {
				case token.EQL:
					r = c == 0
				case token.NEQ:
					r = c != 0
				case token.LSS:
					r = c < 0
				case token.LEQ:
					r = c <= 0
				case token.GTR:
					r = c > 0
				case token.GEQ:
					r = c >= 0
				default:
					f.bad(n.Pos(), "floating-point operator %s", n.Op)
				}
				if r {
					return "true", ty{K: kBool}
				}
				return "false", ty{K: kBool}
			}
			f.bad(n.Pos(), "comparison of non-constant floating-point values")
		}
		if s, ok := f.cmpTest(n, e); ok { // comparator call compared with 0 (cmpcall.go)
			return s, ty{K: kBool}
		}
		if n.Op == token.SHL || n.Op == token.SHR { // loops.go
			return f.shift(n, e)
		}
		if n.Op == token.EQL || n.Op == token.NEQ {
			isNil := func(x ast.Expr) bool {
				id, ok := x.(*ast.Ident)
				_, shadow := e.vars["nil"]
				return ok && id.Name == "nil" && !shadow
			}
			other := ast.Expr(nil)
			if isNil(n.Y) {
				other = n.X
			} else if isNil(n.X) {
				other = n.Y
			}
			if other != nil {
				s, ts := f.expr(other, e)
				if ts.K == kErr {
					if n.Op == token.NEQ {
						return s, ty{K: kBool}
					}
					return "(negb " + s + ")", ty{K: kBool}
				}
				if ts.K == kSlice && f.capMode() {
					f.u.UsesNilP = true
					if n.Op == token.EQL {
						return "(slice_is_nil " + s + ")", ty{K: kBool}
					}
					return "(negb (slice_is_nil " + s + "))", ty{K: kBool}
				}
				if ts.K != kNode {
					f.bad(n.Pos(), "comparison with nil of something that is not a tree node, an error or (capacity-aware units) a slice")
				}
				if n.Op == token.NEQ {
					return "(GoCmp.node_nonnil " + s + ")", ty{K: kBool}
				}
				return "(negb (GoCmp.node_nonnil " + s + "))", ty{K: kBool}
			}
		}
		a, ta := f.expr(n.X, e)
		b, tb := f.expr(n.Y, e)
		if ta.K == kCmpRef && tb.K == kCmpRef && (n.Op == token.EQL || n.Op == token.NEQ) {
			// reflect.ValueOf(c1).Pointer() == reflect.ValueOf(c2).Pointer(): the abstract "same comparator"
			f.u.UsesSame = true
			s := "(same_comparator " + a + " " + b + ")"
			if n.Op == token.NEQ {
				s = "(negb " + s + ")"
			}
			return s, ty{K: kBool}
		}
		if ta.K == kUint || tb.K == kUint { // loops.go
			return f.uintOp(n, a, ta, b, tb)
		}
		arith := func(op string) (string, ty) {
			f.want(n.X, ta, kInt)
			f.want(n.Y, tb, kInt)
			return "(" + a + " " + op + " " + b + ")", ty{K: kInt}
		}
		cmp := func(s string) (string, ty) {
			f.want(n.X, ta, kInt)
			f.want(n.Y, tb, kInt)
			return s, ty{K: kBool}
		}
		switch n.Op {
		case token.ADD:
			return arith("+")
		case token.SUB:
			return arith("-")
		case token.MUL:
			return arith("*")
		case token.QUO: // Go integer division truncates toward zero
			f.want(n.X, ta, kInt)
			f.want(n.Y, tb, kInt)
			return "(Z.quot " + a + " " + b + ")", ty{K: kInt}
		case token.REM: // sign of the dividend
			f.want(n.X, ta, kInt)
			f.want(n.Y, tb, kInt)
			return "(Z.rem " + a + " " + b + ")", ty{K: kInt}
		case token.LSS:
			return cmp("(" + a + " <? " + b + ")")
		case token.LEQ:
			return cmp("(" + a + " <=? " + b + ")")
		case token.GTR:
			return cmp("(" + b + " <? " + a + ")")
		case token.GEQ:
			return cmp("(" + b + " <=? " + a + ")")
		case token.EQL, token.NEQ:
			var s string
			switch {
			case (ta.K == kInt || ta.K == kElem) && ta.K == tb.K:
				s = "(" + a + " =? " + b + ")"
			case ta.K == kBool && tb.K == kBool:
				s = "(Bool.eqb " + a + " " + b + ")"
			default:
				f.bad(n.Pos(), "== / != on operands that are not both int, both T or both bool")
			}
			if n.Op == token.NEQ {
				s = "(negb " + s + ")"
			}
			return s, ty{K: kBool}
		case token.LAND:
			f.want(n.X, ta, kBool)
			f.want(n.Y, tb, kBool)
			return "(andb " + a + " " + b + ")", ty{K: kBool}
		case token.LOR:
			f.want(n.X, ta, kBool)
			f.want(n.Y, tb, kBool)
			return "(orb " + a + " " + b + ")", ty{K: kBool}
		}
		f.bad(n.Pos(), "binary operator %s", n.Op)
	case *ast.SelectorExpr:
		if f.isCmpCompare(n, e) {
			f.u.UsesCmp = true
			return "GoCmp.compare", ty{K: kCmp}
		}
		return f.selector(n, e)
	case *ast.IndexExpr:
		if sel, ok := n.X.(*ast.SelectorExpr); ok && f.isCmpCompare(sel, e) { // cmp.Compare[T]
			if a := f.t.resolveType(n.Index, tctx{f.u, f.fi.TypeParms}); a.K == kElem || a.K == kInt {
				f.u.UsesCmp = true
				return "GoCmp.compare", ty{K: kCmp}
			}
		}
		a, ta := f.expr(n.X, e)
		if ta.K == kMap {
			k, tk := f.expr(n.Index, e)
			if tk.K != kElem && tk.K != kInt {
				f.bad(n.Index.Pos(), "map key that is not T / int")
			}
			return "(GoMap.gm_read " + a + " " + k + ")", ty{K: kElem}
		}
		if ta.K != kSlice {
			f.bad(n.Pos(), "indexing something that is not a slice")
		}
		i, ti := f.expr(n.Index, e)
		f.want(n.Index, ti, kInt)
		return f.slGet(a, i), ty{K: kElem}
	case *ast.CallExpr:
		s, rs, info := f.call(n, e)
		if info != nil && info.Writes {
			f.bad(n.Pos(), "call of the mutating method %s nested inside an expression", info.Name)
		}
		if info != nil && info.Partial {
			f.bad(n.Pos(), "call of the partial function %s (may panic / loops) inside an expression", info.Name)
		}
		if len(rs) == 1 {
			return s, rs[0]
		}
		return s, ty{K: kTuple, Results: rs}
	}
	f.bad(x.Pos(), "expression %T", x)
	return "", ty{}
}

func (f *fx) want(x ast.Expr, t ty, k kind) {
	if t.K != k {
		f.bad(x.Pos(), "operand of unexpected type (int / bool expected according to the operator)")
	}
}

// cmp.Compare of the standard library: the opaque constant GoCmp.compare
func (f *fx) isCmpCompare(n *ast.SelectorExpr, e env) bool {
	id, ok := n.X.(*ast.Ident)
	if !ok || id.Name != "cmp" || n.Sel.Name != "Compare" || f.u.Imports["cmp"] != "<std>/cmp" {
		return false
	}
	_, shadow := e.vars["cmp"]
	return !shadow
}

func (f *fx) selector(n *ast.SelectorExpr, e env) (string, ty) {
	b, tb := f.expr(n.X, e)
	if tb.K == kAbs { // a field of the wrapped container, read through the interface
		fi := f.t.absFieldRead(tb.A, n.Sel.Name, n.Pos())
		return "(" + fi.Coq + " " + tb.A.Field + "_I " + b + ")", fi.Results[0].Ty
	}
	if tb.K == kNode {
		switch n.Sel.Name {
		case "Key":
			return "(GoCmp.node_key " + b + ")", ty{K: kElem}
		case "Value":
			return "(GoCmp.node_value " + b + ")", ty{K: kElem}
		}
		f.bad(n.Pos(), "field %s of a tree node (only Key and Value)", n.Sel.Name)
	}
	if tb.K != kStruct {
		f.bad(n.Pos(), "field selection .%s on something that is not a whitelisted struct", n.Sel.Name)
	}
	fl := tb.S.field(n.Sel.Name)
	if fl == nil {
		f.bad(n.Pos(), "unknown field %s of %s (method values are not supported)", n.Sel.Name, tb.S.Name)
	}
	if fl.Container {
		id, ok := n.X.(*ast.Ident)
		if !ok || id.Name != f.fi.RecvName || f.fi.Recv != tb.S {
			f.bad(n.Pos(), "container reference .%s reached through something else than the receiver", fl.Name)
		}
		if vi, ok := e.vars[fl.Name+"@container"]; ok {
			return vname(fl.Name), vi.ty
		}
		f.bad(n.Pos(), "internal: container parameter %s not in scope", fl.Name)
	}
	if tb.S.Unit != f.u {
		f.u.Deps[tb.S.Unit.Spec.Module] = true
	}
	return "(" + qual(tb.S.Unit, f.u, fl.Coq) + " " + b + ")", fl.Ty
}

func (f *fx) composite(cl *ast.CompositeLit, e env) (string, ty) {
	if s, t, ok := f.mapLit(cl, e); ok { // bytesbuf.go: map[K]V{k: v}
		return s, t
	}
	if st, ok := cl.Type.(*ast.StructType); ok && (st.Fields == nil || len(st.Fields.List) == 0) && len(cl.Elts) == 0 {
		return "0", ty{K: kElem} // struct{}{}
	}
	t := f.t.resolveType(cl.Type, tctx{f.u, f.fi.TypeParms})
	if t.K == kAbs { // &T{} of an opaque receiver type
		if len(cl.Elts) != 0 {
			f.bad(cl.Pos(), "composite literal of the abstract type %s with fields", t.A.Type)
		}
		fi, ok := t.A.Methods["lit.empty"]
		if !ok {
			if t.A.Fixed {
				f.bad(cl.Pos(), "composite literal &%s{}: not in the interface declared in whitelist.go", t.A.Type)
			}
			fi = &funcInfo{Name: "empty", Coq: t.A.Field + "_lit_empty", Abs: t.A, Static: true, Needs: map[string]bool{}, Results: []param{{"", t}}}
			t.A.Methods["lit.empty"] = fi
		}
		return "(" + fi.Coq + " " + t.A.Field + "_I)", t
	}
	if t.K != kStruct {
		f.bad(cl.Pos(), "composite literal of a non-struct type")
	}
	given := map[string]string{}
	for i, el := range cl.Elts {
		kv, ok := el.(*ast.KeyValueExpr)
		if !ok { // positional: every field, in declaration order
			if len(t.S.Ignored) > 0 || len(cl.Elts) != len(t.S.Fields) {
				f.bad(el.Pos(), "positional composite literal that does not list every field")
			}
			kv = &ast.KeyValueExpr{Key: &ast.Ident{NamePos: el.Pos(), Name: t.S.Fields[i].Name}, Value: el}
		}
		k, ok := kv.Key.(*ast.Ident)
		if !ok {
			f.bad(el.Pos(), "composite literal key")
		}
		fl := t.S.field(k.Name)
		if fl == nil {
			f.bad(el.Pos(), "unknown field %s", k.Name)
		}
		if fl.Ty.K == kAbs {
			f.staticIface = fl.Ty.A
		}
		v, tv := f.expr(kv.Value, e)
		f.staticIface = nil
		if fl.Ty.K == kAbs && (tv.K != kAbs || tv.A != fl.Ty.A) {
			f.bad(el.Pos(), "abstract field %s initialised with something that is not its container", k.Name)
		}
		if fl.Container {
			if tv.K != kStruct || tv.S != fl.Ty.S {
				f.bad(el.Pos(), "container reference initialised with an unexpected value")
			}
			continue // the container is passed as a parameter to the methods
		}
		if tv.K != fl.Ty.K {
			f.bad(el.Pos(), "field %s initialised with a value of another type", k.Name)
		}
		if tv.K == kSlice {
			f.sliceFresh(kv.Value)
		}
		given[k.Name] = v
	}
	var parts []string
	for _, fl := range t.S.Fields {
		if fl.Container {
			continue
		}
		v, ok := given[fl.Name]
		if !ok {
			z, okz := f.zeroOf(fl.Ty)
			if !okz {
				f.bad(cl.Pos(), "field %s left to its zero value, which is a nil pointer", fl.Name)
			}
			v = z
		}
		parts = append(parts, v)
	}
	if t.S.Unit != f.u {
		f.u.Deps[t.S.Unit.Spec.Module] = true
	}
	return "(" + qual(t.S.Unit, f.u, "mk"+t.S.Name) + " " + strings.Join(parts, " ") + ")", t
}

// slices are values in the translation: only fresh slices may be stored
func (f *fx) sliceFresh(rhs ast.Expr) {
	if f.capMode() {
		return // aliasing is out of scope in capacity-aware units (see README)
	}
	if f.freshValues(rhs) { // sorting.go: Values() of an abstract container hands out a fresh slice (whitelisted assumption)
		return
	}
	if c, ok := rhs.(*ast.CallExpr); ok {
		if id, ok := c.Fun.(*ast.Ident); ok && id.Name == "make" {
			return
		}
	}
	f.bad(rhs.Pos(), "slice value that is not a fresh make(...) stored in a variable or field (aliasing is not modelled)")
}

// call: returns the Gallina application, the Go result types and (for whitelisted functions) its info
// the arguments from position `from` on, as one slice value: f(a, b) -> a literal, f(xs...) -> xs
func (f *fx) variadicTail(c *ast.CallExpr, from int, e env) string {
	if c.Ellipsis != token.NoPos {
		if len(c.Args) != from+1 {
			f.bad(c.Pos(), "f(..., xs...) with extra arguments")
		}
		s, ts := f.expr(c.Args[from], e)
		if ts.K != kSlice {
			f.bad(c.Pos(), "xs... of something that is not a slice")
		}
		return s
	}
	var els []string
	for _, a := range c.Args[from:] {
		as, ta := f.expr(a, e)
		if ta.K != kElem && ta.K != kInt {
			f.bad(a.Pos(), "variadic argument that is not T / int")
		}
		els = append(els, as)
	}
	return f.sliceLit(els)
}

// package slices (capacity-aware units only)
func (f *fx) slicesCall(c *ast.CallExpr, name string, e env) (string, []ty, *funcInfo) {
	if !f.capMode() {
		f.bad(c.Pos(), "slices.%s (only in capacity-aware units)", name)
	}
	arg := func(i int, k kind) string {
		if i >= len(c.Args) {
			f.bad(c.Pos(), "slices.%s with too few arguments", name)
		}
		s, ts := f.expr(c.Args[i], e)
		if ts.K != k && !(k == kElem && ts.K == kInt) {
			f.bad(c.Args[i].Pos(), "argument of unexpected type")
		}
		return s
	}
	nargs := func(n int) {
		if len(c.Args) != n || c.Ellipsis != token.NoPos {
			f.bad(c.Pos(), "slices.%s with an unexpected argument list", name)
		}
	}
	switch name {
	case "Delete":
		nargs(3)
		return "(GoSlice.sl_delete " + arg(0, kSlice) + " " + arg(1, kInt) + " " + arg(2, kInt) + ")", []ty{{K: kSlice}}, nil
	case "Insert":
		f.u.UsesRT = true
		return "(GoSlice.sl_insert alloc_cap " + arg(0, kSlice) + " " + arg(1, kInt) + " " + f.variadicTail(c, 2, e) + ")", []ty{{K: kSlice}}, nil
	case "Contains":
		nargs(2)
		return "(GoSlice.sl_contains " + arg(0, kSlice) + " " + arg(1, kElem) + ")", []ty{{K: kBool}}, nil
	case "Index":
		nargs(2)
		return "(GoSlice.sl_index " + arg(0, kSlice) + " " + arg(1, kElem) + ")", []ty{{K: kInt}}, nil
	case "Clone":
		nargs(1)
		f.u.UsesRT = true
		return "(GoSlice.sl_clone alloc_cap " + arg(0, kSlice) + ")", []ty{{K: kSlice}}, nil
	}
	f.bad(c.Pos(), "slices.%s (supported: Delete, Insert, Contains, Index, Clone)", name)
	return "", nil, nil
}

// the type of x when it is a plain local variable (no failure otherwise)
func (f *fx) tryExpr(x ast.Expr, e env) (string, ty) {
	if id, ok := x.(*ast.Ident); ok {
		if vi, ok := e.vars[id.Name]; ok {
			return vname(id.Name), vi.ty
		}
	}
	return "", ty{K: kTuple}
}

// encoding/json as abstract functions (parameters of the generated definitions, Section Json):
//
//	json.Marshal(x)       -> marshal_slice x / marshal_map x : bytes * error
//	json.Unmarshal(d, &x) is a STATEMENT form (see jsonUnmarshal): it assigns x
func (f *fx) jsonCall(c *ast.CallExpr, name string, e env) (string, []ty, *funcInfo) {
	f.u.UsesJson = true
	switch name {
	case "Marshal":
		if len(c.Args) != 1 || c.Ellipsis != token.NoPos {
			f.bad(c.Pos(), "json.Marshal with an unexpected argument list")
		}
		arg := c.Args[0]
		if u, ok := arg.(*ast.UnaryExpr); ok && u.Op == token.AND { // json.Marshal(&m) encodes m
			arg = u.X
		}
		s, ts := f.expr(arg, e)
		switch ts.K {
		case kSlice:
			if f.capMode() {
				return "(marshal_slice (GoSlice.sl_list " + s + "))", []ty{{K: kBytes}, {K: kErr}}, nil
			}
			return "(marshal_slice " + s + ")", []ty{{K: kBytes}, {K: kErr}}, nil
		case kMap:
			f.u.UsesMap = true
			return "(marshal_map " + s + ")", []ty{{K: kBytes}, {K: kErr}}, nil
		}
		f.bad(c.Pos(), "json.Marshal of something that is not a slice or a map")
	case "Unmarshal":
		f.bad(c.Pos(), "json.Unmarshal anywhere else than as `err := json.Unmarshal(data, &x)` / `json.Unmarshal(data, &x)`")
	}
	f.bad(c.Pos(), "json.%s (only Marshal and Unmarshal are modelled; Decoder / Token / More are not)", name)
	return "", nil, nil
}

// [err :=|=] json.Unmarshal(data, &x): x (a slice or map variable or field) receives what the abstract decoder
// returns for (data, old value of x) -- on an error too, where Go may leave x partially filled
func (f *fx) jsonUnmarshal(c *ast.CallExpr, e env) (prefix string, errTemp string, e2 env, ok bool) {
	sel, isSel := c.Fun.(*ast.SelectorExpr)
	if !isSel || sel.Sel.Name != "Unmarshal" {
		return "", "", e, false
	}
	id, isId := sel.X.(*ast.Ident)
	if !isId || id.Name != "json" || f.u.Imports["json"] != "<std>/json" {
		return "", "", e, false
	}
	if _, shadow := e.vars["json"]; shadow {
		return "", "", e, false
	}
	f.u.UsesJson = true
	if len(c.Args) != 2 {
		f.bad(c.Pos(), "json.Unmarshal with %d arguments", len(c.Args))
	}
	d, td := f.expr(c.Args[0], e)
	if td.K != kBytes {
		f.bad(c.Args[0].Pos(), "json.Unmarshal of something that is not a []byte")
	}
	u, isAddr := c.Args[1].(*ast.UnaryExpr)
	if !isAddr || u.Op != token.AND {
		f.bad(c.Args[1].Pos(), "json.Unmarshal into something that is not &x")
	}
	cur, tc := f.expr(u.X, e)
	var fn string
	switch tc.K {
	case kSlice:
		fn = "unmarshal_slice"
		if f.capMode() {
			fn = "unmarshal_cslice"
		}
	case kMap:
		fn = "unmarshal_map"
		f.u.UsesMap = true
	default:
		f.bad(c.Args[1].Pos(), "json.Unmarshal into something that is not a slice or a map")
	}
	tv, te := f.fresh(), f.fresh()
	p, e3 := f.assign(u.X, tv, tc, false, e)
	return "let '(" + tv + ", " + te + ") := (" + fn + " " + d + " " + cur + ") in\n" + p, te, e3, true
}

func (f *fx) sliceLit(els []string) string {
	if f.capMode() {
		if len(els) == 0 {
			return "GoSlice.sl_nil"
		}
		return "(GoSlice.sl_of_list [" + strings.Join(els, "; ") + "])"
	}
	if len(els) == 0 {
		return "(@Datatypes.nil Z)"
	}
	return "[" + strings.Join(els, "; ") + "]"
}

func (f *fx) call(c *ast.CallExpr, e env) (string, []ty, *funcInfo) {
	if s, rs, ok := f.bufCall(c, e); ok { // bytesbuf.go: bytes.NewBuffer(b), buf.Bytes()
		return s, rs, nil
	}
	if _, isSel := c.Fun.(*ast.SelectorExpr); c.Ellipsis != token.NoPos && !isSel {
		fun := c.Fun
		if ix, ok := fun.(*ast.IndexExpr); ok {
			fun = ix.X
		}
		if id, ok := fun.(*ast.Ident); !ok || (f.t.findFunc(f.u.Dir, id.Name, f.u) == nil && !(id.Name == "append" && f.capMode())) {
			f.bad(c.Pos(), "variadic call f(xs...) of something that is not a whitelisted function")
		}
	}
	{ // pkg.F(...) / pkg.F[T](...) where pkg is the package of an abstract container of this unit
		fun := c.Fun
		switch x := fun.(type) {
		case *ast.IndexExpr:
			fun = x.X
		case *ast.IndexListExpr:
			fun = x.X
		}
		if sel, ok := fun.(*ast.SelectorExpr); ok {
			if id, ok := sel.X.(*ast.Ident); ok {
				if _, shadow := e.vars[id.Name]; !shadow {
					if dir, isPkg := f.u.Imports[id.Name]; isPkg && !strings.HasPrefix(dir, "<std>/") {
						a := f.staticIface
						if a == nil || a.Dir != dir {
							a = nil
							for _, cand := range f.u.Abs {
								if cand.Dir == dir {
									if a != nil {
										f.bad(c.Pos(), "call of %s.%s: several abstract fields of this file have a type of that package", id.Name, sel.Sel.Name)
									}
									a = cand
								}
							}
						}
						if a == nil {
							f.bad(c.Pos(), "call of %s.%s: not the package of an abstract container of this file", id.Name, sel.Sel.Name)
						}
						return f.apply(c, f.t.absFunc(a, sel.Sel.Name, true, c.Pos()), "", nil, e)
					}
				}
			}
		}
	}
	if ixl, ok := c.Fun.(*ast.IndexListExpr); ok { // F[K, V](...)
		if id, ok := ixl.X.(*ast.Ident); ok {
			okTypes := true
			for _, ix := range ixl.Indices {
				a := f.t.resolveType(ix, tctx{f.u, f.fi.TypeParms})
				okTypes = okTypes && (a.K == kElem || a.K == kInt)
			}
			if info := f.t.findFunc(f.u.Dir, id.Name, f.u); info != nil && okTypes {
				if _, shadow := e.vars[id.Name]; !shadow {
					return f.apply(c, info, "", nil, e)
				}
			}
		}
	}
	if ix, ok := c.Fun.(*ast.IndexExpr); ok { // F[T](...)
		if id, ok := ix.X.(*ast.Ident); ok {
			if a := f.t.resolveType(ix.Index, tctx{f.u, f.fi.TypeParms}); a.K == kElem || a.K == kInt {
				if info := f.t.findFunc(f.u.Dir, id.Name, f.u); info != nil {
					if _, shadow := e.vars[id.Name]; !shadow {
						return f.apply(c, info, "", nil, e)
					}
				}
			}
		}
	}
	switch fn := c.Fun.(type) {
	case *ast.Ident:
		switch fn.Name {
		case "len":
			if len(c.Args) != 1 {
				f.bad(c.Pos(), "len with %d arguments", len(c.Args))
			}
			if _, shadow := e.vars["len"]; !shadow {
				a, ta := f.expr(c.Args[0], e)
				if ta.K == kMap {
					return "(GoMap.gm_len " + a + ")", []ty{{K: kInt}}, nil
				}
				if ta.K == kBytes { // bytesbuf.go
					return "(GoJson.blen " + a + ")", []ty{{K: kInt}}, nil
				}
				if ta.K != kSlice {
					f.bad(c.Pos(), "len of something that is not a slice")
				}
				return f.slLen(a), []ty{{K: kInt}}, nil
			}
		case "cap":
			if _, shadow := e.vars["cap"]; !shadow && f.capMode() {
				if len(c.Args) != 1 {
					f.bad(c.Pos(), "cap with %d arguments", len(c.Args))
				}
				a, ta := f.expr(c.Args[0], e)
				if ta.K != kSlice {
					f.bad(c.Pos(), "cap of something that is not a slice")
				}
				return "(GoSlice.sl_cap " + a + ")", []ty{{K: kInt}}, nil
			}
		case "int":
			if _, shadow := e.vars["int"]; !shadow && len(c.Args) == 1 && f.isFloatExpr(c.Args[0], e) {
				v := f.fexpr(c.Args[0], e) // int(x) truncates toward zero
				if v.k == 0 {
					return v.num, []ty{{K: kInt}}, nil
				}
				return "(Z.quot " + v.num + " " + pow2(v.k) + ")", []ty{{K: kInt}}, nil
			}
		case "append":
			if _, shadow := e.vars["append"]; !shadow && f.capMode() {
				if len(c.Args) < 1 {
					f.bad(c.Pos(), "append without arguments")
				}
				a, ta := f.expr(c.Args[0], e)
				if ta.K != kSlice {
					f.bad(c.Pos(), "append to something that is not a slice")
				}
				f.u.UsesRT = true
				return "(GoSlice.sl_append alloc_cap " + a + " " + f.variadicTail(c, 1, e) + ")", []ty{{K: kSlice}}, nil
			}
		case "make":
			if _, shadow := e.vars["make"]; !shadow {
				if len(c.Args) >= 1 {
					if _, isMap := c.Args[0].(*ast.MapType); isMap {
						if mt := f.t.resolveType(c.Args[0], tctx{f.u, f.fi.TypeParms}); mt.K == kMap && len(c.Args) <= 2 {
							return "GoMap.gm_empty", []ty{mt}, nil // the size hint has no observable effect
						}
					}
				}
				if len(c.Args) < 2 || len(c.Args) > 3 {
					f.bad(c.Pos(), "make with %d arguments", len(c.Args))
				}
				t := f.t.resolveType(c.Args[0], tctx{f.u, f.fi.TypeParms})
				if t.K != kSlice {
					f.bad(c.Pos(), "make of something that is not a slice")
				}
				n, tn := f.expr(c.Args[1], e)
				f.want(c.Args[1], tn, kInt)
				cp := n
				if len(c.Args) == 3 { // the capacity has no observable effect without append; it must still be a pure int expression
					var tc ty
					cp, tc = f.expr(c.Args[2], e)
					f.want(c.Args[2], tc, kInt)
				}
				if f.capMode() {
					return "(GoSlice.sl_make " + n + " " + cp + ")", []ty{{K: kSlice}}, nil
				}
				return "(List.repeat 0 (Z.to_nat " + n + "))", []ty{{K: kSlice}}, nil
			}
		}
		if vi, ok := e.vars[fn.Name]; ok && vi.ty.K == kCmp { // cmpcall.go
			return f.cmpCall(c, vname(fn.Name), e)
		}
		if vi, ok := e.vars[fn.Name]; ok && vi.ty.K == kFunc {
			if len(c.Args) != len(vi.ty.Params) {
				f.bad(c.Pos(), "call of %s with a wrong number of arguments", fn.Name)
			}
			s := "(" + vname(fn.Name)
			for i, a := range c.Args {
				as, ta := f.expr(a, e)
				if ta.K != vi.ty.Params[i].K {
					f.bad(a.Pos(), "argument of unexpected type")
				}
				s += " " + as
			}
			return s + ")", vi.ty.Results, nil
		}
		if info := f.t.findFunc(f.u.Dir, fn.Name, f.u); info != nil {
			return f.apply(c, info, "", nil, e)
		}
		f.bad(c.Pos(), "call of %s (not a whitelisted function, len, make or a function-typed parameter)", fn.Name)
	case *ast.ArrayType: // []byte("...")
		if id, ok := fn.Elt.(*ast.Ident); ok && fn.Len == nil && id.Name == "byte" && len(c.Args) == 1 {
			if lit, ok := c.Args[0].(*ast.BasicLit); ok && lit.Kind == token.STRING {
				sv, err := strconv.Unquote(lit.Value)
				if err != nil || strings.ContainsAny(sv, "\"\\\n") {
					f.bad(c.Pos(), "string literal %s", lit.Value)
				}
				f.u.UsesJson = true
				return "(GoJson.lit \"" + sv + "\"%string)", []ty{{K: kBytes}}, nil
			}
		}
		f.bad(c.Pos(), "conversion to a slice type other than []byte(\"literal\")")
	case *ast.SelectorExpr:
		if id, ok := fn.X.(*ast.Ident); ok && id.Name == "json" && f.u.Imports["json"] == "<std>/json" {
			if _, shadow := e.vars["json"]; !shadow {
				return f.jsonCall(c, fn.Sel.Name, e)
			}
		}
		if id, ok := fn.X.(*ast.Ident); ok && id.Name == "reflect" && fn.Sel.Name == "ValueOf" && f.u.Imports["reflect"] == "<std>/reflect" && len(c.Args) == 1 {
			if _, shadow := e.vars["reflect"]; !shadow {
				s, ts := f.expr(c.Args[0], e)
				if ts.K != kCmp {
					f.bad(c.Pos(), "reflect.ValueOf of something that is not a comparator")
				}
				return s, []ty{{K: kCmpRef}}, nil
			}
		}
		if fn.Sel.Name == "Pointer" && len(c.Args) == 0 {
			if s, ts := f.tryExpr(fn.X, e); ts.K == kCmpRef {
				return s, []ty{{K: kCmpRef}}, nil
			}
		}
		if id, ok := fn.X.(*ast.Ident); ok && id.Name == "slices" && f.u.Imports["slices"] == "<std>/slices" {
			if _, shadow := e.vars["slices"]; !shadow {
				return f.slicesCall(c, fn.Sel.Name, e)
			}
		}
		if id, ok := fn.X.(*ast.Ident); ok {
			if vi, ok := e.vars[id.Name]; ok && vi.ty.K == kIter {
				if !f.iterLive[id.Name] || len(c.Args) != 0 {
					f.bad(c.Pos(), "use of the iterator %s outside the body of its `for %s.Next()` loop", id.Name, id.Name)
				}
				switch fn.Sel.Name {
				case "Index":
					return vname(id.Name) + "_key", []ty{{K: kInt}}, nil
				case "Key":
					return vname(id.Name) + "_key", []ty{{K: kElem}}, nil
				case "Value":
					return vname(id.Name) + "_val", []ty{{K: kElem}}, nil
				}
				f.bad(c.Pos(), "iterator method %s (only Index / Key / Value inside the loop)", fn.Sel.Name)
			}
		}
		rs, tr := f.expr(fn.X, e)
		if tr.K == kIter {
			f.bad(c.Pos(), "iterator used as a value")
		}
		if tr.K == kStruct { // a comparator field called: cmpcall.go
			if fl := tr.S.field(fn.Sel.Name); fl != nil && fl.Ty.K == kCmp {
				cs, _ := f.selector(fn, e)
				return f.cmpCall(c, cs, e)
			}
		}
		if tr.K == kAbs {
			for _, g := range f.t.funcs {
				if g.Unit == f.u && g.OpaqueRecv != "" && g.OpaqueIface == tr.A && g.Name == fn.Sel.Name {
					return f.apply(c, g, rs, fn.X, e)
				}
			}
			info := f.t.absMethod(tr.A, fn.Sel.Name, c.Pos())
			return f.apply(c, info, rs, fn.X, e)
		}
		if tr.K != kStruct {
			f.bad(c.Pos(), "method call .%s on something that is not a whitelisted struct", fn.Sel.Name)
		}
		info := f.t.findMethod(tr.S, fn.Sel.Name)
		if info == nil && tr.S.Unit == f.u {
			if mut, ok := f.u.Spec.External[fn.Sel.Name]; ok {
				info = f.t.externalMethod(f.u, tr.S, fn.Sel.Name, mut, c.Pos())
			}
		}
		if info == nil {
			f.bad(c.Pos(), "call of %s.%s, which is not a whitelisted (translated) method", tr.S.Name, fn.Sel.Name)
		}
		return f.apply(c, info, rs, fn.X, e)
	}
	f.bad(c.Pos(), "call of %T", c.Fun)
	return "", nil, nil
}

func (f *fx) apply(c *ast.CallExpr, info *funcInfo, recv string, recvExpr ast.Expr, e env) (string, []ty, *funcInfo) {
	if info.Abs == nil && info.text == "" && info != f.fi && f.dry == 0 {
		// callee must already be emitted (topological order); recursion is refused
		f.bad(c.Pos(), "call of %s, which is not translated before %s (recursion or unit order)", info.Name, f.fi.Name)
	}
	if info == f.fi {
		f.bad(c.Pos(), "recursive call")
	}
	if info.Abs == nil && info.Unit != f.u {
		f.u.Deps[info.Unit.Spec.Module] = true
	}
	var s string
	if info.Abs != nil {
		s = "(" + info.Coq + " " + info.Abs.Field + "_I"
	} else {
		s = "(" + qual(info.Unit, f.u, info.Coq)
	}
	if info.Fuel { // the caller hands its own fuel on (loops.go)
		s += f.fuelArg(c, info)
	}
	if info.Abs != nil && !info.Static {
		s += " " + recv
	}
	params := info.Params
	if info.OpaqueRecv != "" {
		s += " " + recv
		params = params[1:]
	}
	if info.Recv != nil {
		s += " " + recv
		for _, cf := range info.Recv.containers() {
			if !info.Needs[cf.Name] {
				continue
			}
			id, ok := recvExpr.(*ast.Ident)
			if !ok || id.Name != f.fi.RecvName || f.fi.Recv != info.Recv {
				f.bad(c.Pos(), "method %s needs the container %s, but is not called on the receiver", info.Name, cf.Name)
			}
			if _, ok := e.vars[cf.Name+"@container"]; !ok {
				f.bad(c.Pos(), "internal: container parameter %s not in scope", cf.Name)
			}
			s += " " + vname(cf.Name)
		}
	}
	if c.Ellipsis != token.NoPos && !info.Variadic {
		f.bad(c.Pos(), "f(xs...) on a function that is not variadic")
	}
	args := c.Args
	packed := ""
	if info.Variadic && c.Ellipsis == token.NoPos {
		// f(a, b, c) with a variadic last parameter: the extra arguments are a fresh slice
		fixed := len(params) - 1
		if len(args) < fixed {
			f.bad(c.Pos(), "call of %s with too few arguments", info.Name)
		}
		var els []string
		for _, a := range args[fixed:] {
			as, ta := f.expr(a, e)
			if ta.K != kElem && ta.K != kInt {
				f.bad(a.Pos(), "variadic argument that is not T / int")
			}
			els = append(els, as)
		}
		packed = f.sliceLit(els)
		args = args[:fixed]
	} else if len(args) != len(params) {
		f.bad(c.Pos(), "call of %s with a wrong number of arguments", info.Name)
	}
	for i, a := range args {
		as, ta := f.expr(a, e)
		if ta.K != params[i].Ty.K {
			f.bad(a.Pos(), "argument of unexpected type")
		}
		s += " " + as
	}
	if packed != "" {
		s += " " + packed
	}
	var rs []ty
	for _, r := range info.Results {
		rs = append(rs, r.Ty)
	}
	return s + ")", rs, info
}

// ---- assignment targets

// bind value `val` (of type tv) to the Go lvalue lhs; returns the let-prefix and the new environment
func (f *fx) assign(lhs ast.Expr, val string, tv ty, define bool, e env) (string, env) {
	switch l := lhs.(type) {
	case *ast.Ident:
		if l.Name == "_" {
			return "", e
		}
		vi, exists := e.vars[l.Name]
		if define && (!exists || vi.depth != e.depth) {
			if exists {
				f.bad(l.Pos(), "variable %s shadows an outer variable of the same name", l.Name)
			}
			if tv.K == kTuple {
				f.bad(l.Pos(), "tuple stored in one variable")
			}
			return "let " + vname(l.Name) + " := " + val + " in\n", e.with(l.Name, tv)
		}
		if !exists {
			f.bad(l.Pos(), "assignment to unknown variable %s", l.Name)
		}
		if vi.ty.K != tv.K || (tv.K == kStruct && vi.ty.S != tv.S) {
			f.bad(l.Pos(), "assignment of a value of another type to %s", l.Name)
		}
		if strings.HasSuffix(l.Name, "@container") {
			f.bad(l.Pos(), "assignment to a container reference")
		}
		f.rebind(l.Name, e)
		return "let " + vname(l.Name) + " := " + val + " in\n", e
	case *ast.SelectorExpr:
		id, ok := l.X.(*ast.Ident)
		if !ok {
			f.bad(l.Pos(), "assignment to a field of something that is not a variable (nested struct / container)")
		}
		vi, exists := e.vars[id.Name]
		if !exists || vi.ty.K != kStruct {
			f.bad(l.Pos(), "assignment to a field of %s, which is not a struct variable", id.Name)
		}
		fl := vi.ty.S.field(l.Sel.Name)
		if fl == nil {
			f.bad(l.Pos(), "unknown field %s", l.Sel.Name)
		}
		if fl.Container {
			f.bad(l.Pos(), "assignment to the container reference %s", fl.Name)
		}
		if fl.Ty.K != tv.K || fl.Ty.S != tv.S || fl.Ty.A != tv.A {
			f.bad(l.Pos(), "assignment of a value of another type to field %s", fl.Name)
		}
		if vi.ty.S.Unit != f.u {
			f.u.Deps[vi.ty.S.Unit.Spec.Module] = true
		}
		f.rebind(id.Name, e)
		return "let " + vname(id.Name) + " := " + qual(vi.ty.S.Unit, f.u, "set_"+fl.Name) + " " + vname(id.Name) + " " + val + " in\n", e
	case *ast.IndexExpr:
		if tv.K != kElem && tv.K != kInt {
			f.bad(l.Pos(), "slice element assigned a value that is not T / int")
		}
		if cur, tc := f.expr(l.X, e); tc.K == kMap { // m[k] = v
			k, tk := f.expr(l.Index, e)
			if tk.K != kElem && tk.K != kInt {
				f.bad(l.Index.Pos(), "map key that is not T / int")
			}
			return f.assign(l.X, "(GoMap.gm_put "+cur+" "+k+" "+val+")", tc, false, e)
		}
		i, ti := f.expr(l.Index, e)
		f.want(l.Index, ti, kInt)
		switch b := l.X.(type) {
		case *ast.Ident:
			vi, exists := e.vars[b.Name]
			if !exists || vi.ty.K != kSlice {
				f.bad(l.Pos(), "indexed assignment to %s, which is not a slice variable", b.Name)
			}
			f.rebind(b.Name, e)
			return "let " + vname(b.Name) + " := " + f.slSet(vname(b.Name), i, val) + " in\n", e
		case *ast.SelectorExpr:
			cur, tc := f.selector(b, e)
			if tc.K != kSlice {
				f.bad(l.Pos(), "indexed assignment to a field that is not a slice")
			}
			return f.assign(b, f.slSet(cur, i, val), tc, false, e)
		}
		f.bad(l.Pos(), "indexed assignment target")
	}
	f.bad(lhs.Pos(), "assignment target %T", lhs)
	return "", e
}

// a call in statement position / as a whole right-hand side: may mutate the receiver variable.
// Returns the let-prefix that performs the call and the names of the temporaries holding the results.
func (f *fx) callStmt(c *ast.CallExpr, e env) (prefix string, temps []string, rs []ty, e2 env) {
	s, rs, info := f.call(c, e)
	for range rs {
		temps = append(temps, f.fresh())
	}
	pat := "_"
	if len(temps) == 1 {
		pat = temps[0]
	} else if len(temps) > 1 {
		pat = "(" + strings.Join(temps, ", ") + ")"
	}
	if info != nil && info.Partial { // bound with `do` (loops.go)
		return f.partialCallStmt(c, s, info, temps, pat, rs, e)
	}
	if info != nil && info.Writes {
		sel := c.Fun.(*ast.SelectorExpr)
		if fs, isSel := sel.X.(*ast.SelectorExpr); isSel {
			// x.field.M(...): the new state of the nested / abstract container is stored back into x.field
			if _, isId := fs.X.(*ast.Ident); !isId {
				f.bad(c.Pos(), "mutating method %s called on a doubly nested field", info.Name)
			}
			_, tf := f.selector(fs, e)
			nt := f.fresh()
			p, e3 := f.assign(fs, nt, tf, false, e)
			return "let '(" + nt + ", " + pat + ") := " + s + " in\n" + p, temps, rs, e3
		}
		id, ok := sel.X.(*ast.Ident)
		if !ok {
			f.bad(c.Pos(), "mutating method %s called on something that is not a variable (container / nested struct)", info.Name)
		}
		if _, ok := e.vars[id.Name]; !ok {
			f.bad(c.Pos(), "mutating method called on unknown variable %s", id.Name)
		}
		f.rebind(id.Name, e)
		return "let '(" + vname(id.Name) + ", " + pat + ") := " + s + " in\n", temps, rs, e
	}
	if len(temps) == 0 {
		return "let _ := " + s + " in\n", temps, rs, e
	}
	if len(temps) == 1 {
		return "let " + pat + " := " + s + " in\n", temps, rs, e
	}
	return "let '" + pat + " := " + s + " in\n", temps, rs, e
}

// a call that cannot be treated as a pure single-valued expression
func (f *fx) needsStmt(c *ast.CallExpr, e env) bool {
	_, rs, info := f.call(c, e)
	return len(rs) != 1 || (info != nil && (info.Writes || info.Partial))
}

func isCall(x ast.Expr) (*ast.CallExpr, bool) {
	for {
		if p, ok := x.(*ast.ParenExpr); ok {
			x = p.X
			continue
		}
		break
	}
	c, ok := x.(*ast.CallExpr)
	if !ok {
		return nil, false
	}
	if id, isId := c.Fun.(*ast.Ident); isId && (id.Name == "len" || id.Name == "make") {
		return nil, false
	}
	return c, true
}

// ---- statements

func hasExit(n ast.Node) bool {
	found := false
	ast.Inspect(n, func(x ast.Node) bool {
		switch y := x.(type) {
		case *ast.ReturnStmt:
			found = true
		case *ast.CallExpr:
			if id, ok := y.Fun.(*ast.Ident); ok && id.Name == "panic" {
				found = true
			}
		case *ast.FuncLit:
			return false
		}
		return !found
	})
	return found
}

func (f *fx) stmts(ss []ast.Stmt, e env, k cont, top bool) string {
	if len(ss) == 0 {
		return k(e)
	}
	s, rest := ss[0], ss[1:]
	if pre, s2, e2, ok := f.hoistPartial(s, e); ok { // loops.go: partial calls nested in expressions are bound first
		return pre + f.stmts(append([]ast.Stmt{s2}, rest...), e2, k, top)
	}
	next := func(e2 env) string { return f.stmts(rest, e2, k, top) }
	switch n := s.(type) {
	case *ast.EmptyStmt:
		return next(e)
	case *ast.BlockStmt:
		inner := f.stmts(n.List, e.deeper(), func(e2 env) string { return next(env{vars: dropDeeper(e2, e.depth), depth: e.depth}) }, false)
		return inner
	case *ast.DeclStmt:
		gd, ok := n.Decl.(*ast.GenDecl)
		if !ok || gd.Tok != token.VAR {
			f.bad(n.Pos(), "declaration statement other than var")
		}
		out := ""
		for _, sp := range gd.Specs {
			vs := sp.(*ast.ValueSpec)
			if vs.Type == nil || len(vs.Values) != 0 {
				f.bad(vs.Pos(), "var declaration with initialiser or without type")
			}
			t := f.t.resolveType(vs.Type, tctx{f.u, f.fi.TypeParms})
			z, okz := f.zeroOf(t)
			if t.K == kMap { // var m map[K]V: a nil map, read-only until json.Unmarshal allocates it: modelled as the empty map
				z, okz = "GoMap.gm_empty", true
			}
			if t.K == kSlice && !f.capMode() { // var xs []T: the nil slice = the empty list
				z, okz = "(@Datatypes.nil Z)", true
			}
			if !okz {
				f.bad(vs.Pos(), "var of a type without a modelled zero value")
			}
			for _, nm := range vs.Names {
				var p string
				p, e = f.assign(nm, z, t, true, e)
				out += p
			}
		}
		return out + next(e)
	case *ast.IncDecStmt:
		cur, tc := f.expr(n.X, e)
		if tc.K == kUint { // loops.go: wrap-around arithmetic
			p, e2 := f.assign(n.X, f.uintIncDec(cur, n.Tok), tc, false, e)
			return p + next(e2)
		}
		f.want(n.X, tc, kInt)
		op := " + 1"
		if n.Tok == token.DEC {
			op = " - 1"
		}
		p, e2 := f.assign(n.X, "("+cur+op+")", tc, false, e)
		return p + next(e2)
	case *ast.ExprStmt:
		c, ok := n.X.(*ast.CallExpr)
		if !ok {
			f.bad(n.Pos(), "expression statement that is not a call")
		}
		if id, isId := c.Fun.(*ast.Ident); isId && f.capMode() && (id.Name == "copy" || id.Name == "clear") {
			if _, shadow := e.vars[id.Name]; !shadow {
				return f.builtinStmt(c, id.Name, e, next)
			}
		}
		if id, isId := c.Fun.(*ast.Ident); isId && (id.Name == "delete" || id.Name == "clear") && len(c.Args) >= 1 {
			if _, shadow := e.vars[id.Name]; !shadow {
				if ms, tm := f.expr(c.Args[0], e); tm.K == kMap {
					val := "GoMap.gm_empty" // clear(m)
					if id.Name == "delete" {
						if len(c.Args) != 2 {
							f.bad(c.Pos(), "delete with %d arguments", len(c.Args))
						}
						k, tk := f.expr(c.Args[1], e)
						if tk.K != kElem && tk.K != kInt {
							f.bad(c.Args[1].Pos(), "map key that is not T / int")
						}
						val = "(GoMap.gm_del " + ms + " " + k + ")"
					} else if len(c.Args) != 1 {
						f.bad(c.Pos(), "clear with %d arguments", len(c.Args))
					}
					p, e2 := f.assign(c.Args[0], val, tm, false, e)
					return p + next(e2)
				}
			}
		}
		if p, _, e2, ok := f.jsonUnmarshal(c, e); ok { // the error is dropped
			return p + next(e2)
		}
		if p, e2, ok := f.sortStmt(c, e); ok { // sorting.go: slices.Sort(x) / slices.SortFunc(x, cmp)
			return p + next(e2)
		}
		if p, e2, ok := f.bufStmt(c, e); ok { // bytesbuf.go: buf.WriteRune('c') / buf.Write(p)
			return p + next(e2)
		}
		if id, isId := c.Fun.(*ast.Ident); isId && id.Name == "panic" {
			if !f.fi.Partial {
				f.bad(n.Pos(), "internal: panic in a function not marked partial")
			}
			return "None (* panic *)"
		}
		p, _, _, e2 := f.callStmt(c, e)
		return p + next(e2)
	case *ast.AssignStmt:
		if f.isIterDefine(n, e) {
			if ss, ok := f.iterHoist(n, rest); ok { // bytesbuf.go: definitions between the iterator and its loop
				return f.stmts(ss, e, k, top)
			}
			return f.iterLoop(n, rest, e, k, top, false)
		}
		return f.assignStmt(n, e, next)
	case *ast.ReturnStmt:
		return f.ret(n, e)
	case *ast.IfStmt:
		return f.ifStmt(n, e, next)
	case *ast.ForStmt:
		if as, ok := n.Init.(*ast.AssignStmt); ok && n.Post == nil && n.Cond != nil && f.isIterDefine(as, e) {
			// for it := x.Iterator(); it.Next(); { body }
			loop := &ast.ForStmt{For: n.For, Cond: n.Cond, Body: n.Body}
			return f.iterLoop(as, append([]ast.Stmt{loop}, rest...), e, k, top, true)
		}
		if f.t.isGeneralLoop(f.fi, n) { // loops.go
			return f.generalLoop(n, e, next)
		}
		return f.forStmt(n, rest, e, k, next, top)
	case *ast.RangeStmt:
		return f.rangeStmt(n, rest, e, k, next, top)
	case *ast.BranchStmt: // loops.go
		return f.branchStmt(n)
	}
	f.bad(s.Pos(), "statement %T", s)
	return ""
}

// copy(dst, src) and clear(s) / clear(s[:n]) as statements (capacity-aware units)
func (f *fx) builtinStmt(c *ast.CallExpr, name string, e env, next cont) string {
	switch name {
	case "copy":
		if len(c.Args) != 2 {
			f.bad(c.Pos(), "copy with %d arguments", len(c.Args))
		}
		d, td := f.expr(c.Args[0], e)
		s, ts := f.expr(c.Args[1], e)
		if td.K != kSlice || ts.K != kSlice {
			f.bad(c.Pos(), "copy of something that is not a slice")
		}
		p, e2 := f.assign(c.Args[0], "(GoSlice.sl_copy "+d+" "+s+")", td, false, e)
		return p + next(e2)
	case "clear":
		if len(c.Args) != 1 {
			f.bad(c.Pos(), "clear with %d arguments", len(c.Args))
		}
		target := c.Args[0]
		var upto string
		if se, ok := target.(*ast.SliceExpr); ok { // clear(s[:n]) zeroes the first n slots of s's backing array
			if se.Low != nil || se.Slice3 || se.High == nil {
				f.bad(c.Pos(), "clear of a slice expression other than s[:n]")
			}
			h, th := f.expr(se.High, e)
			f.want(se.High, th, kInt)
			target, upto = se.X, h
		}
		s, ts := f.expr(target, e)
		if ts.K != kSlice {
			f.bad(c.Pos(), "clear of something that is not a slice")
		}
		if upto == "" {
			upto = f.slLen(s)
		}
		p, e2 := f.assign(target, "(GoSlice.sl_clear_upto "+s+" "+upto+")", ts, false, e)
		return p + next(e2)
	}
	f.bad(c.Pos(), "builtin %s", name)
	return ""
}

func dropDeeper(e env, depth int) map[string]varInfo {
	m := map[string]varInfo{}
	for k, v := range e.vars {
		if v.depth <= depth {
			m[k] = v
		}
	}
	return m
}

func (f *fx) assignStmt(n *ast.AssignStmt, e env, next cont) string {
	define := n.Tok == token.DEFINE
	if n.Tok != token.ASSIGN && !define {
		// x op= y
		var op token.Token
		switch n.Tok {
		case token.ADD_ASSIGN:
			op = token.ADD
		case token.SUB_ASSIGN:
			op = token.SUB
		case token.MUL_ASSIGN:
			op = token.MUL
		case token.QUO_ASSIGN:
			op = token.QUO
		case token.REM_ASSIGN:
			op = token.REM
		case token.SHL_ASSIGN:
			op = token.SHL
		case token.SHR_ASSIGN:
			op = token.SHR
		default:
			f.bad(n.Pos(), "assignment operator %s", n.Tok)
		}
		if len(n.Lhs) != 1 || len(n.Rhs) != 1 {
			f.bad(n.Pos(), "compound assignment with several operands")
		}
		v, tv := f.expr(&ast.BinaryExpr{X: n.Lhs[0], Op: op, OpPos: n.TokPos, Y: n.Rhs[0]}, e)
		p, e2 := f.assign(n.Lhs[0], v, tv, false, e)
		return p + next(e2)
	}
	if define {
		for _, l := range n.Lhs {
			if _, ok := l.(*ast.Ident); !ok {
				f.bad(l.Pos(), ":= with a target that is not an identifier")
			}
		}
	}
	// err := json.Unmarshal(data, &x)
	if len(n.Lhs) == 1 && len(n.Rhs) == 1 {
		if c, ok := n.Rhs[0].(*ast.CallExpr); ok {
			if p, te, e2, ok := f.jsonUnmarshal(c, e); ok {
				q, e3 := f.assign(n.Lhs[0], te, ty{K: kErr}, define, e2)
				return p + q + next(e3)
			}
		}
	}
	// v, ok = m[k]
	if len(n.Lhs) == 2 && len(n.Rhs) == 1 {
		if ix, ok := n.Rhs[0].(*ast.IndexExpr); ok {
			if ms, tm := f.expr(ix.X, e); tm.K == kMap {
				k, tk := f.expr(ix.Index, e)
				if tk.K != kElem && tk.K != kInt {
					f.bad(ix.Index.Pos(), "map key that is not T / int")
				}
				t1, t2 := f.fresh(), f.fresh()
				out := "let '(" + t1 + ", " + t2 + ") := (GoMap.gm_lookup " + ms + " " + k + ") in\n"
				p1, e2 := f.assign(n.Lhs[0], t1, ty{K: kElem}, define, e)
				p2, e3 := f.assign(n.Lhs[1], t2, ty{K: kBool}, define, e2)
				return out + p1 + p2 + next(e3)
			}
		}
	}
	// one call on the right, possibly several targets
	if len(n.Rhs) == 1 {
		if c, ok := isCall(n.Rhs[0]); ok && f.needsStmt(c, e) {
			p, temps, rs, e2 := f.callStmt(c, e)
			if len(temps) != len(n.Lhs) {
				f.bad(n.Pos(), "%d targets for a call with %d results", len(n.Lhs), len(temps))
			}
			out := p
			for i, l := range n.Lhs {
				if rs[i].K == kSlice && !isBlank(l) {
					f.sliceFresh(n.Rhs[0])
				}
				var q string
				q, e2 = f.assign(l, temps[i], rs[i], define, e2)
				out += q
			}
			return out + next(e2)
		}
	}
	if len(n.Lhs) != len(n.Rhs) {
		f.bad(n.Pos(), "assignment with %d targets and %d values", len(n.Lhs), len(n.Rhs))
	}
	if len(n.Lhs) == 1 {
		v, tv := f.expr(n.Rhs[0], e)
		if tv.K == kSlice && !isBlank(n.Lhs[0]) {
			f.sliceFresh(n.Rhs[0])
		}
		p, e2 := f.assign(n.Lhs[0], v, tv, define, e)
		return p + next(e2)
	}
	// parallel assignment: all right-hand sides first
	out := ""
	var temps []string
	var tys []ty
	for i, r := range n.Rhs {
		if c, ok := isCall(r); ok {
			_, _, info := f.call(c, e)
			if info != nil && (info.Writes || info.Partial) {
				f.bad(r.Pos(), "mutating / partial call inside a parallel assignment")
			}
		}
		v, tv := f.expr(r, e)
		if tv.K == kTuple {
			f.bad(r.Pos(), "multi-valued call inside a parallel assignment")
		}
		if tv.K == kSlice && !isBlank(n.Lhs[i]) {
			f.sliceFresh(r)
		}
		t := f.fresh()
		out += "let " + t + " := " + v + " in\n"
		temps = append(temps, t)
		tys = append(tys, tv)
	}
	for i, l := range n.Lhs {
		var p string
		p, e = f.assign(l, temps[i], tys[i], define, e)
		out += p
	}
	return out + next(e)
}

func (f *fx) ret(n *ast.ReturnStmt, e env) string {
	res := f.fi.Results
	if len(n.Results) == 0 {
		var vals []string
		for _, r := range res {
			if r.Name == "" {
				f.bad(n.Pos(), "bare return in a function with unnamed results")
			}
			vals = append(vals, vname(r.Name))
		}
		return f.mkret(vals, e)
	}
	if len(n.Results) == 1 {
		if c, ok := isCall(n.Results[0]); ok && f.needsStmt(c, e) {
			p, temps, rs, e2 := f.callStmt(c, e)
			if len(rs) != len(res) {
				f.bad(n.Pos(), "return of a call with %d results in a function with %d", len(rs), len(res))
			}
			for i := range rs {
				if rs[i].K != res[i].Ty.K {
					f.bad(n.Pos(), "returned value of unexpected type")
				}
			}
			return p + f.mkret(temps, e2)
		}
	}
	if len(n.Results) != len(res) {
		f.bad(n.Pos(), "return with %d values in a function with %d results", len(n.Results), len(res))
	}
	var vals []string
	for i, r := range n.Results {
		if id, ok := r.(*ast.Ident); ok && id.Name == "nil" {
			if _, shadow := e.vars["nil"]; !shadow {
				switch res[i].Ty.K {
				case kErr:
					vals = append(vals, "false")
					continue
				case kBytes:
					vals = append(vals, "GoJson.nil_bytes")
					continue
				}
			}
		}
		v, tv := f.expr(r, e)
		if tv.K != res[i].Ty.K || (tv.K == kStruct && tv.S != res[i].Ty.S) {
			f.bad(r.Pos(), "returned value of unexpected type")
		}
		vals = append(vals, v)
	}
	return f.mkret(vals, e)
}

func (f *fx) ifStmt(n *ast.IfStmt, e env, next cont) string {
	if n.Init != nil { // if init; cond {...}  ==  { init; if cond {...} }
		plain := *n
		plain.Init = nil
		return f.stmts([]ast.Stmt{&ast.BlockStmt{Lbrace: n.Pos(), List: []ast.Stmt{n.Init, &plain}, Rbrace: n.End()}}, e, next, false)
	}
	c, tc := f.expr(n.Cond, e)
	f.want(n.Cond, tc, kBool)
	branch := func(k cont) (string, string) {
		a := f.stmts(n.Body.List, e.deeper(), k, false)
		b := ""
		switch el := n.Else.(type) {
		case nil:
			b = k(e)
		case *ast.BlockStmt:
			b = f.stmts(el.List, e.deeper(), k, false)
		case *ast.IfStmt:
			b = f.stmts([]ast.Stmt{el}, e.deeper(), k, false)
		default:
			f.bad(n.Else.Pos(), "else branch %T", n.Else)
		}
		return a, b
	}
	exits := hasExit(n.Body) || (n.Else != nil && hasExit(n.Else)) || f.leavesOrPartial(n)
	if exits {
		// early exit in a branch: the rest of the function is the continuation of both branches
		k := func(e2 env) string { return next(env{vars: dropDeeper(e2, e.depth), depth: e.depth}) }
		a, b := branch(k)
		return "if " + c + "\nthen (" + a + ")\nelse (" + b + ")"
	}
	ms := f.assignedBy(e, func() { branch(func(env) string { return "" }) })
	if len(ms) == 0 {
		f.bad(n.Pos(), "if statement without any effect on variables or fields")
	}
	a, b := branch(func(env) string { return tuple(ms) })
	for _, m := range ms {
		f.rebind(m, e)
	}
	return "let " + letPat(ms) + " :=\n  if " + c + "\n  then (" + a + ")\n  else (" + b + ") in\n" + next(e)
}

// variables (Go names) read by an expression
func readVars(x ast.Expr) map[string]bool {
	r := map[string]bool{}
	ast.Inspect(x, func(n ast.Node) bool {
		if id, ok := n.(*ast.Ident); ok {
			r[id.Name] = true
		}
		return true
	})
	return r
}

func (f *fx) forStmt(n *ast.ForStmt, rest []ast.Stmt, e env, k cont, next cont, top bool) string {
	ast.Inspect(n.Body, func(x ast.Node) bool {
		switch y := x.(type) {
		case *ast.BranchStmt:
			f.bad(y.Pos(), "%s inside a loop", y.Tok)
		case *ast.ForStmt, *ast.RangeStmt:
			f.bad(y.Pos(), "nested loop")
		}
		return true
	})
	// ---- for i := 0; i < e; i++ { body }
	if n.Init != nil && n.Cond != nil && n.Post != nil {
		init, ok := n.Init.(*ast.AssignStmt)
		if !ok || init.Tok != token.DEFINE || len(init.Lhs) != 1 || len(init.Rhs) != 1 {
			f.bad(n.Pos(), "for loop whose initialiser is not `i := start`")
		}
		iv, ok := init.Lhs[0].(*ast.Ident)
		if !ok {
			f.bad(n.Pos(), "for loop whose initialiser is not `i := start`")
		}
		if _, exists := e.vars[iv.Name]; exists {
			f.bad(n.Pos(), "loop variable %s shadows an outer variable", iv.Name)
		}
		start, ts := f.expr(init.Rhs[0], e)
		f.want(init.Rhs[0], ts, kInt)
		cond, ok := n.Cond.(*ast.BinaryExpr)
		down := false
		if ok && cond.Op == token.GEQ { // for i := a; i >= b; i--
			if post, isPost := n.Post.(*ast.IncDecStmt); isPost && post.Tok == token.DEC {
				down = true
			}
		}
		if !ok || (cond.Op != token.LSS && cond.Op != token.LEQ && !down) {
			f.bad(n.Pos(), "for loop whose condition is not `i < bound` / `i <= bound` (or `i >= bound` with i--)")
		}
		if ci, ok := cond.X.(*ast.Ident); !ok || ci.Name != iv.Name {
			f.bad(n.Pos(), "for loop whose condition is not `i < bound` / `i <= bound`")
		}
		post, ok := n.Post.(*ast.IncDecStmt)
		if !ok || (post.Tok != token.INC && !down) || (down && post.Tok != token.DEC) {
			f.bad(n.Pos(), "for loop whose post statement is not `i++` (`i--` for a downward loop)")
		}
		if pi, ok := post.X.(*ast.Ident); !ok || pi.Name != iv.Name {
			f.bad(n.Pos(), "for loop whose post statement is not `i++`")
		}
		if hasExit(n.Body) {
			f.bad(n.Pos(), "return / panic inside a counted loop")
		}
		bound, tb := f.expr(cond.Y, e)
		f.want(cond.Y, tb, kInt)
		if readVars(cond.Y)[iv.Name] {
			f.bad(n.Pos(), "loop bound mentions the loop variable")
		}
		// the values the loop variable takes: start, start+1, ... (< bound or <= bound)
		lit, isLit := init.Rhs[0].(*ast.BasicLit)
		var rangeTerm string
		if down { // start, start-1, ..., bound
			rangeTerm = "(List.map (fun k : nat => " + start + " - Z.of_nat k) (List.seq 0 (Z.to_nat ((" + start + " + 1) - " + bound + "))))"
		} else if isLit && lit.Value == "0" && cond.Op == token.LSS {
			rangeTerm = "(List.map Z.of_nat (List.seq 0 (Z.to_nat " + bound + ")))"
		} else {
			count := "(" + bound + " - " + start + ")"
			if cond.Op == token.LEQ {
				count = "((" + bound + " + 1) - " + start + ")"
			}
			rangeTerm = "(List.map (fun k : nat => " + start + " + Z.of_nat k) (List.seq 0 (Z.to_nat " + count + ")))"
		}
		ein := e.deeper().with(iv.Name, ty{K: kInt})
		ein = env{vars: ein.vars, depth: ein.depth + 1} // the loop variable itself is one level above the body
		body := func(kk cont) string { return f.stmts(n.Body.List, ein, kk, false) }
		ms := f.assignedBy(e, func() { body(func(env) string { return "" }) })
		if len(ms) == 0 {
			f.bad(n.Pos(), "counted loop without any effect on variables or fields")
		}
		// the bound is evaluated once in the translation: it must not depend on what the body changes
		rv := readVars(cond.Y)
		for _, m := range ms {
			if rv[m] {
				f.bad(n.Pos(), "loop bound depends on %s, which the loop body modifies", m)
			}
		}
		// the body must not assign the loop variable
		lv := &rebindLog{threshold: ein.depth, names: map[string]bool{}}
		f.logs = append(f.logs, lv)
		f.dry++
		body(func(env) string { return "" })
		f.dry--
		f.logs = f.logs[:len(f.logs)-1]
		if lv.names[iv.Name] {
			f.bad(n.Pos(), "loop body assigns the loop variable %s", iv.Name)
		}
		b := body(func(env) string { return tuple(ms) })
		for _, m := range ms {
			f.rebind(m, e)
		}
		binder := vname(ms[0])
		if len(ms) > 1 {
			binder = "'" + tuple(ms)
		}
		return "let " + letPat(ms) + " :=\n  List.fold_left (fun " + binder + " (" + vname(iv.Name) + " : Z) =>\n" + b +
			")\n  " + rangeTerm + " " + tuple(ms) + " in\n" + next(e)
	}
	// ---- for cond { body }  (fuelled)
	if n.Init == nil && n.Post == nil && n.Cond != nil {
		if !top {
			f.bad(n.Pos(), "condition-only loop that is not at the top level of the function body")
		}
		if !f.fi.Fuel {
			f.bad(n.Pos(), "internal: loop in a function not marked as fuelled")
		}
		f.nloop++
		gasLoop := f.t.hasFuelCall(f.fi, n) // loops.go: the loop hands the function's fuel to callees: its own counter is `gas`
		if !gasLoop {
			fuelShadowed[f]++ // inside this Fixpoint `fuel` is the loop's own counter
			defer func() { fuelShadowed[f]-- }()
		}
		name := f.fi.Coq + "_loop" + strconv.Itoa(f.nloop)
		// loop state: every variable in scope
		vars := e.ordered()
		var binders, args []string
		for _, v := range vars {
			vi := e.vars[v]
			nm := strings.TrimSuffix(v, "@container")
			binders = append(binders, "("+vname(nm)+" : "+f.t.coqType(vi.ty, f.u)+")")
			args = append(args, vname(nm))
		}
		recur := "(" + name + " fuel' " + strings.Join(args, " ") + ")"
		if gasLoop {
			recur = "(" + name + " fuel gas' " + strings.Join(args, " ") + ")"
		}
		exit := func(e2 env) string {
			return f.stmts(rest, env{vars: dropDeeper(e2, e.depth), depth: e.depth}, k, false)
		}
		var head, cvar string
		if c, ok := isCall(n.Cond); ok {
			p, temps, rs, _ := f.callStmt(c, e)
			if len(rs) != 1 || rs[0].K != kBool {
				f.bad(n.Cond.Pos(), "loop condition that is not a bool")
			}
			head, cvar = p, temps[0]
		} else {
			cs, tc := f.expr(n.Cond, e)
			f.want(n.Cond, tc, kBool)
			cvar = cs
		}
		body := f.stmts(n.Body.List, e.deeper(), func(env) string { return recur }, false)
		def := "Fixpoint " + name + " (fuel : nat) " + strings.Join(binders, " ") + " {struct fuel} : " + f.retType() + " :=\n" +
			"match fuel with\n| O => None (* out of fuel *)\n| S fuel' =>\n" + head + "if " + cvar + "\nthen (" + body + ")\nelse (" + exit(e) + ")\nend.\n"
		if gasLoop {
			def = "Fixpoint " + name + " (fuel : nat) (gas : nat) " + strings.Join(binders, " ") + " {struct gas} : " + f.retType() + " :=\n" +
				"match gas with\n| O => None (* out of fuel *)\n| S gas' =>\n" + head + "if " + cvar + "\nthen (" + body + ")\nelse (" + exit(e) + ")\nend.\n"
		}
		if f.dry == 0 {
			f.aux = append(f.aux, def)
		}
		if gasLoop {
			return "(" + name + " fuel fuel " + strings.Join(args, " ") + ")"
		}
		return "(" + name + " fuel " + strings.Join(args, " ") + ")"
	}
	f.bad(n.Pos(), "loop that is neither `for i := 0; i < bound; i++` nor `for cond`")
	return ""
}

// for i, x := range xs { body }: i runs over 0 .. len(xs)-1 (length read once), x = xs[i] at the start of
// the iteration.  Without return in the body: a fold; with return (top level only): a structural
// Fixpoint over the index list whose nil case is the rest of the function.
func (f *fx) rangeStmt(n *ast.RangeStmt, rest []ast.Stmt, e env, k cont, next cont, top bool) string {
	ast.Inspect(n.Body, func(x ast.Node) bool {
		switch y := x.(type) {
		case *ast.BranchStmt:
			f.bad(y.Pos(), "%s inside a loop", y.Tok)
		case *ast.ForStmt, *ast.RangeStmt:
			f.bad(y.Pos(), "nested loop")
		}
		return true
	})
	if (n.Key != nil || n.Value != nil) && n.Tok != token.DEFINE {
		f.bad(n.Pos(), "range loop assigning to existing variables")
	}
	name := func(x ast.Expr) string {
		if x == nil {
			return ""
		}
		id, ok := x.(*ast.Ident)
		if !ok {
			f.bad(x.Pos(), "range variable that is not an identifier")
		}
		if id.Name == "_" {
			return ""
		}
		if _, exists := e.vars[id.Name]; exists {
			f.bad(x.Pos(), "range variable %s shadows an outer variable", id.Name)
		}
		return id.Name
	}
	key, val := name(n.Key), name(n.Value)
	xs, tx := f.expr(n.X, e)
	if tx.K == kMap {
		return f.rangeMap(n, key, val, xs, e, next)
	}
	if tx.K != kSlice {
		f.bad(n.X.Pos(), "range over something that is not a slice or a map")
	}
	f.nloop++
	idx := "ri" + strconv.Itoa(f.nloop)
	ein := e.deeper()
	if key != "" {
		idx = vname(key)
		ein = ein.with(key, ty{K: kInt})
	}
	pre := ""
	if val != "" {
		ein = ein.with(val, ty{K: kElem})
		pre = "let " + vname(val) + " := " + f.slGet(xs, idx) + " in\n"
	}
	ein = env{vars: ein.vars, depth: ein.depth + 1}
	indices := "(List.map Z.of_nat (List.seq 0 (Z.to_nat " + f.slLen(xs) + ")))"
	body := func(kk cont) string { return f.stmts(n.Body.List, ein, kk, false) }
	ms := f.assignedBy(e, func() { body(func(env) string { return "" }) })
	rv := readVars(n.X)
	for _, m := range ms {
		if rv[m] {
			f.bad(n.Pos(), "the loop body modifies %s, which the ranged expression reads", m)
		}
	}
	lv := &rebindLog{threshold: ein.depth, names: map[string]bool{}}
	f.logs = append(f.logs, lv)
	f.dry++
	body(func(env) string { return "" })
	f.dry--
	f.logs = f.logs[:len(f.logs)-1]
	if (key != "" && lv.names[key]) || (val != "" && lv.names[val]) {
		f.bad(n.Pos(), "loop body assigns a range variable")
	}
	if !hasExit(n.Body) {
		if len(ms) == 0 {
			f.bad(n.Pos(), "range loop without any effect on variables or fields")
		}
		b := body(func(env) string { return tuple(ms) })
		for _, m := range ms {
			f.rebind(m, e)
		}
		binder := vname(ms[0])
		if len(ms) > 1 {
			binder = "'" + tuple(ms)
		}
		return "let " + letPat(ms) + " :=\n  List.fold_left (fun " + binder + " (" + idx + " : Z) =>\n" + pre + b +
			")\n  " + indices + " " + tuple(ms) + " in\n" + next(e)
	}
	if !top {
		f.bad(n.Pos(), "range loop with a return that is not at the top level of the function body")
	}
	fname := f.fi.Coq + "_loop" + strconv.Itoa(f.nloop)
	vars := e.ordered()
	var binders, args []string
	for _, v := range vars {
		vi := e.vars[v]
		nm := strings.TrimSuffix(v, "@container")
		binders = append(binders, "("+vname(nm)+" : "+f.t.coqType(vi.ty, f.u)+")")
		args = append(args, vname(nm))
	}
	recur := "(" + fname + " idx' " + strings.Join(args, " ") + ")"
	exit := f.stmts(rest, e, k, false)
	b := body(func(env) string { return recur })
	def := "Fixpoint " + fname + " (idx : Datatypes.list Z) " + strings.Join(binders, " ") + " {struct idx} : " + f.retType() + " :=\n" +
		"match idx with\n| Datatypes.nil => (" + exit + ")\n| Datatypes.cons " + idx + " idx' =>\n" + pre + "(" + b + ")\nend.\n"
	if f.dry == 0 {
		f.aux = append(f.aux, def)
	}
	return "(" + fname + " " + indices + " " + strings.Join(args, " ") + ")"
}

// for k, v := range m over a map: the iteration order is unspecified in Go, so the entries are visited in
// the order given by the PARAMETER map_order (any enumeration of the map); no return inside the body.
func (f *fx) rangeMap(n *ast.RangeStmt, key, val, ms string, e env, next cont) string {
	if hasExit(n.Body) {
		f.bad(n.Pos(), "return inside a range over a map")
	}
	f.u.UsesMO = true
	f.nloop++
	kv := "kv" + strconv.Itoa(f.nloop)
	ein := e.deeper()
	pre := ""
	if key != "" {
		ein = ein.with(key, ty{K: kElem})
		pre += "let " + vname(key) + " := fst " + kv + " in\n"
	}
	if val != "" {
		ein = ein.with(val, ty{K: kElem})
		pre += "let " + vname(val) + " := snd " + kv + " in\n"
	}
	ein = env{vars: ein.vars, depth: ein.depth + 1}
	body := func(kk cont) string { return f.stmts(n.Body.List, ein, kk, false) }
	ms2 := f.assignedBy(e, func() { body(func(env) string { return "" }) })
	rv := readVars(n.X)
	for _, m := range ms2 {
		if rv[m] {
			f.bad(n.Pos(), "the loop body modifies %s, which the ranged map expression reads", m)
		}
	}
	lv := &rebindLog{threshold: ein.depth, names: map[string]bool{}}
	f.logs = append(f.logs, lv)
	f.dry++
	body(func(env) string { return "" })
	f.dry--
	f.logs = f.logs[:len(f.logs)-1]
	if (key != "" && lv.names[key]) || (val != "" && lv.names[val]) {
		f.bad(n.Pos(), "loop body assigns a range variable")
	}
	if len(ms2) == 0 {
		f.bad(n.Pos(), "range loop without any effect on variables or fields")
	}
	b := body(func(env) string { return tuple(ms2) })
	for _, m := range ms2 {
		f.rebind(m, e)
	}
	binder := vname(ms2[0])
	if len(ms2) > 1 {
		binder = "'" + tuple(ms2)
	}
	return "let " + letPat(ms2) + " :=\n  List.fold_left (fun " + binder + " (" + kv + " : Z * Z) =>\n" + pre + b +
		")\n  (map_order " + ms + ") " + tuple(ms2) + " in\n" + next(e)
}

// it := x.Iterator() where Iterator is not a translated method of this unit
func (f *fx) isIterDefine(n *ast.AssignStmt, e env) bool {
	if n.Tok != token.DEFINE || len(n.Lhs) != 1 || len(n.Rhs) != 1 {
		return false
	}
	c, ok := n.Rhs[0].(*ast.CallExpr)
	if !ok || len(c.Args) != 0 {
		return false
	}
	sel, ok := c.Fun.(*ast.SelectorExpr)
	if !ok || sel.Sel.Name != "Iterator" {
		return false
	}
	if _, ok := n.Lhs[0].(*ast.Ident); !ok {
		return false
	}
	return true
}

// it := x.Iterator(); for it.Next() { body }: the iterator is the ABSTRACT enumeration of x's (index-or-key,
// value) pairs; the loop is a fold over it (a structural Fixpoint when the body returns, top level only).
func (f *fx) iterLoop(n *ast.AssignStmt, rest []ast.Stmt, e env, k cont, top bool, scoped bool) string {
	it := n.Lhs[0].(*ast.Ident).Name
	if _, exists := e.vars[it]; exists {
		f.bad(n.Pos(), "iterator variable %s shadows an outer variable", it)
	}
	sel := n.Rhs[0].(*ast.CallExpr).Fun.(*ast.SelectorExpr)
	xs, tx := f.expr(sel.X, e)
	var enum string
	switch tx.K {
	case kStruct:
		if m := f.t.findMethod(tx.S, "Iterator"); m != nil && m.Unit == f.u && !f.u.Spec.EnumOwnIterator {
			f.bad(n.Pos(), "Iterator() is a translated method of this file: iterator objects are not modelled")
		}
		if tx.S.Unit != f.u {
			f.bad(n.Pos(), "Iterator() of a struct of another unit")
		}
		seen := false
		for _, s := range f.u.IterEnums {
			seen = seen || s == tx.S
		}
		if !seen {
			f.u.IterEnums = append(f.u.IterEnums, tx.S)
		}
		enum = "(" + tx.S.Name + "_Iterator_enum " + xs + ")"
	case kAbs:
		a := tx.A
		if _, ok := a.Methods["enum.Iterator"]; !ok {
			if a.Fixed {
				f.bad(n.Pos(), "Iterator() of the abstract container %s: not in the interface declared in whitelist.go", a.Field)
			}
			a.Methods["enum.Iterator"] = &funcInfo{Name: "Iterator", Coq: a.Field + "_Iterator_enum", Abs: a, Needs: map[string]bool{}}
		}
		enum = "(" + a.Field + "_Iterator_enum " + a.Field + "_I " + xs + ")"
	default:
		f.bad(n.Pos(), "Iterator() of something that is neither a struct of this file nor an abstract container")
	}
	if len(rest) == 0 {
		f.bad(n.Pos(), "iterator %s is not followed by its `for %s.Next()` loop", it, it)
	}
	loop, ok := rest[0].(*ast.ForStmt)
	okCond := false
	if ok && loop.Init == nil && loop.Post == nil && loop.Cond != nil {
		if c, isCall := loop.Cond.(*ast.CallExpr); isCall && len(c.Args) == 0 {
			if s2, isSel := c.Fun.(*ast.SelectorExpr); isSel && s2.Sel.Name == "Next" {
				if id, isId := s2.X.(*ast.Ident); isId && id.Name == it {
					okCond = true
				}
			}
		}
	}
	if !okCond {
		f.bad(n.Pos(), "iterator %s is not immediately followed by `for %s.Next() { ... }`", it, it)
	}
	after := rest[1:]
	ast.Inspect(loop.Body, func(x ast.Node) bool {
		switch y := x.(type) {
		case *ast.BranchStmt:
			f.bad(y.Pos(), "%s inside a loop", y.Tok)
		case *ast.ForStmt, *ast.RangeStmt:
			f.bad(y.Pos(), "nested loop")
		}
		return true
	})
	for _, s := range after { // the iterator must not be used after its loop
		if scoped {
			break // for it := ...; it.Next(); {}: the variable does not exist after the loop
		}
		ast.Inspect(s, func(x ast.Node) bool {
			if id, ok := x.(*ast.Ident); ok && id.Name == it {
				f.bad(id.Pos(), "iterator %s used after its loop", it)
			}
			return true
		})
	}
	f.nloop++
	kv := "kv" + strconv.Itoa(f.nloop)
	lst := vname(it)
	e1 := e.with(it, ty{K: kIter, Enum: enum})
	eAfter := e1
	if scoped {
		eAfter = e
	}
	ein := e1.deeper()
	ein = env{vars: ein.vars, depth: ein.depth + 1}
	pre := "let " + vname(it) + "_key := fst " + kv + " in\nlet " + vname(it) + "_val := snd " + kv + " in\n"
	if f.iterLive == nil {
		f.iterLive = map[string]bool{}
	}
	body := func(kk cont) string {
		f.iterLive[it] = true
		s := f.stmts(loop.Body.List, ein, kk, false)
		f.iterLive[it] = false
		return s
	}
	ms := f.assignedBy(e1, func() { body(func(env) string { return "" }) })
	rv := readVars(sel.X)
	for _, m := range ms {
		if rv[m] {
			f.bad(loop.Pos(), "the loop body modifies %s, which the iterated container expression reads", m)
		}
	}
	head := "let " + lst + " := " + enum + " in\n"
	if !hasExit(loop.Body) {
		if len(ms) == 0 {
			f.bad(loop.Pos(), "iterator loop without any effect on variables or fields")
		}
		b := body(func(env) string { return tuple(ms) })
		for _, m := range ms {
			f.rebind(m, e1)
		}
		binder := vname(ms[0])
		if len(ms) > 1 {
			binder = "'" + tuple(ms)
		}
		return head + "let " + letPat(ms) + " :=\n  List.fold_left (fun " + binder + " (" + kv + " : Z * Z) =>\n" + pre + b +
			")\n  " + lst + " " + tuple(ms) + " in\n" + f.stmts(after, eAfter, k, top)
	}
	if !top {
		f.bad(loop.Pos(), "iterator loop with a return that is not at the top level of the function body")
	}
	fname := f.fi.Coq + "_loop" + strconv.Itoa(f.nloop)
	vars := e.ordered()
	var binders, args []string
	for _, v := range vars {
		vi := e.vars[v]
		nm := strings.TrimSuffix(v, "@container")
		binders = append(binders, "("+vname(nm)+" : "+f.t.coqType(vi.ty, f.u)+")")
		args = append(args, vname(nm))
	}
	recur := "(" + fname + " rest' " + strings.Join(args, " ") + ")"
	exit := f.stmts(after, eAfter, k, false)
	b := body(func(env) string { return recur })
	def := "Fixpoint " + fname + " (rest : Datatypes.list (Z * Z)) " + strings.Join(binders, " ") + " {struct rest} : " + f.retType() + " :=\n" +
		"match rest with\n| Datatypes.nil => (" + exit + ")\n| Datatypes.cons " + kv + " rest' =>\n" + pre + "(" + b + ")\nend.\n"
	if f.dry == 0 {
		f.aux = append(f.aux, def)
	}
	return head + "(" + fname + " " + lst + " " + strings.Join(args, " ") + ")"
}

func (f *fx) retType() string {
	var rs []ty
	for _, r := range f.fi.Results {
		rs = append(rs, r.Ty)
	}
	s := f.t.resultType(rs, f.u)
	if f.fi.Writes && f.fi.OpaqueRecv != "" {
		s = "(" + f.t.coqType(ty{K: kAbs, A: f.fi.OpaqueIface}, f.u) + " * " + s + ")"
	} else if f.fi.Writes {
		s = "(" + mangle(f.fi.Recv.Name) + " * " + s + ")"
		if f.fi.Recv.Unit != f.u {
			s = "(" + f.fi.Recv.coqName(f.u) + " * " + f.t.resultType(rs, f.u) + ")"
		}
	}
	if f.fi.Partial {
		s = "(option " + s + ")"
	}
	return s
}

func (t *translator) translateFunc(fi *funcInfo) {
	f := &fx{t: t, fi: fi, u: fi.Unit}
	e := env{vars: map[string]varInfo{}}
	var binders []string
	if fi.Fuel {
		binders = append(binders, "(fuel : nat)")
	}
	if fi.Recv != nil {
		if fi.RecvName == "" || fi.RecvName == "_" {
			t.unsupported(fi.Decl.Pos(), "method with an unnamed receiver")
		}
		rt := ty{K: kStruct, S: fi.Recv}
		e = e.with(fi.RecvName, rt)
		binders = append(binders, "("+vname(fi.RecvName)+" : "+t.coqType(rt, fi.Unit)+")")
		for _, cf := range fi.Recv.containers() {
			if fi.Needs[cf.Name] {
				e = e.with(cf.Name+"@container", cf.Ty)
				binders = append(binders, "("+vname(cf.Name)+" : "+t.coqType(cf.Ty, fi.Unit)+")")
			}
		}
	}
	for n := range e.vars {
		if strings.HasSuffix(n, "@container") && strings.TrimSuffix(n, "@container") == fi.RecvName {
			t.unsupported(fi.Decl.Pos(), "container field has the name of the receiver")
		}
	}
	for _, p := range fi.Params {
		if _, dup := e.vars[p.Name+"@container"]; dup {
			t.unsupported(fi.Decl.Pos(), "parameter %s has the name of a container field", p.Name)
		}
		if p.Name == "" || p.Name == "_" {
			t.unsupported(fi.Decl.Pos(), "unnamed parameter")
		}
		if _, dup := e.vars[p.Name]; dup {
			t.unsupported(fi.Decl.Pos(), "parameter %s has the name of the receiver", p.Name)
		}
		e = e.with(p.Name, p.Ty)
		pv := e.vars[p.Name]
		pv.param = !(fi.OpaqueRecv != "" && p.Name == fi.RecvName)
		e.vars[p.Name] = pv
		binders = append(binders, "("+vname(p.Name)+" : "+t.coqType(p.Ty, fi.Unit)+")")
	}
	pre := ""
	for _, r := range fi.Results {
		if r.Name != "" && r.Name != "_" {
			z, ok := f.zeroOf(r.Ty)
			if !ok {
				t.unsupported(fi.Decl.Pos(), "named result %s without a modelled zero value", r.Name)
			}
			e = e.with(r.Name, r.Ty)
			pre += "let " + vname(r.Name) + " := " + z + " in\n"
		}
	}
	k0 := func(e2 env) string {
		if len(fi.Results) == 0 {
			return f.mkret(nil, e2)
		}
		var vals []string
		for _, r := range fi.Results {
			if r.Name == "" {
				t.unsupported(fi.Decl.Body.Rbrace, "control reaches the end of a function with unnamed results")
			}
			vals = append(vals, vname(r.Name))
		}
		return f.mkret(vals, e2)
	}
	body := f.stmts(fi.Decl.Body.List, e, k0, true)
	pos := t.fset.Position(fi.Decl.Pos())
	out := fmt.Sprintf("(* %s/%s:%d  func %s *)\n", fi.Unit.Dir, filepath.Base(pos.Filename), pos.Line, fi.Name)
	for _, a := range f.aux {
		out += a
	}
	out += "Definition " + fi.Coq + " " + strings.Join(binders, " ") + " : " + f.retType() + " :=\n" + pre + body + ".\n"
	fi.text = out
}
