package main

// trees/btree: the pointer code of the B-tree and of its iterator, in TREE POINTER MODE with the B-tree extensions
// (btreeheap.go).  The unit is appended to the whitelist like those of whitelist_more.go.

func init() {
	whitelist = append(whitelist, btreeUnit)
}

var btreeUnit = unitSpec{GoFile: "trees/btree/btree.go", Module: "BTreeHeapGen", TreeMode: true, BTree: true, Cell: "Node", Pair: "Entry",
	ExtraFiles: []string{"trees/btree/iterator.go"},
	Skip:       map[string]string{"String": skipFmt, "output": skipFmt, "Keys": treeSkip["Keys"], "Values": treeSkip["Values"]}}
