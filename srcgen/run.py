#!/usr/bin/env python3
"""Driver of the source-regenerated-model tie (see README.md).  Called by run.sh.

  run.py [repo-dir]

builds the translator, regenerates the Gallina files from the Go sources of repo-dir into a temporary
directory, compiles them and the hand-written equivalence proofs (coq/*.v) against them, and prints ONE
JSON object.  Exit 0 when it ran (even if obligations failed), 2 on internal errors (the translator
refused a construct, a generated file does not type-check, tools missing)."""
import json, os, re, shutil, subprocess, sys, tempfile, threading, time

HERE = os.path.dirname(os.path.abspath(__file__))
THEORIES = os.environ.get("GODS_THEORIES", "/verif/coq/theories")
BUDGET = float(os.environ.get("SRCGEN_BUDGET", "70"))     # seconds after which no further retry is started
COQC_TIMEOUT = int(os.environ.get("SRCGEN_COQC_TIMEOUT", "120"))
T0 = time.time()

ITEM = re.compile(r"^\s*(Theorem|Lemma|Corollary)\s+([A-Za-z_][A-Za-z0-9_']*)")
ERRLOC = re.compile(r'File "([^"]+)", line (\d+), characters (\d+)-(\d+):')


def finish(obj, code):
    obj["wall_s"] = round(time.time() - T0, 1)
    print(json.dumps(obj))
    sys.exit(code)


def run(cmd, cwd=None, timeout=None):
    try:
        p = subprocess.run(cmd, cwd=cwd, stdout=subprocess.PIPE, stderr=subprocess.PIPE, text=True, timeout=timeout)
        return p.returncode, p.stdout, p.stderr
    except subprocess.TimeoutExpired as e:
        return 124, (e.stdout or ""), "timeout after %ss" % timeout
    except FileNotFoundError as e:
        return 127, "", str(e)


def deps_of(text):
    ds = []
    for m in re.finditer(r"^From (GodsGen|GodsGenProofs) Require (?:Import |Export )?([^.]*)\.", text, re.M):
        ds += m.group(2).split()
    return ds


class ProofFile:
    def __init__(self, name, text):
        self.name = name
        self.lines = text.split("\n")
        self.obligations = []      # names, in order
        self.failed = {}           # theorem -> message
        self.hard = None           # message when the file could not be compiled at all
        self.closed = {}           # theorem -> True / list of axioms
        mark = False
        for l in self.lines:
            if l.startswith("(* OBLIGATION"):
                mark = True
                continue
            m = ITEM.match(l)
            if m and mark:
                self.obligations.append(m.group(2))
                mark = False

    def text(self):
        return "\n".join(self.lines)

    def item_at(self, line):          # line: 1-based
        start = None
        for i in range(min(line, len(self.lines)) - 1, -1, -1):
            m = ITEM.match(self.lines[i])
            if m:
                start, name = i, m.group(2)
                break
        if start is None:
            return None
        proof = qed = None
        for j in range(start, len(self.lines)):
            s = self.lines[j].strip()
            if proof is None and s.startswith("Proof."):
                proof = j
            if proof is not None and (s.endswith("Qed.") or s.endswith("Defined.") or s.endswith("Admitted.")):
                qed = j
                break
            if j > start and ITEM.match(self.lines[j]):
                break
        if proof is None or qed is None or line - 1 > qed:
            return None
        return name, start, proof, qed

    def admit(self, line, msg):
        it = self.item_at(line)
        if it is None:
            return False
        name, start, proof, qed = it
        if name in self.failed:
            return False
        self.failed[name] = msg
        if line - 1 >= proof:         # the proof fails: keep the statement for what depends on it
            self.lines[proof] = "Admitted. (* srcgen: proof failed *)"
            for j in range(proof + 1, qed + 1):
                self.lines[j] = ""
        else:                         # the statement itself does not type-check any more
            for j in range(start, qed + 1):
                self.lines[j] = ""
            pa = re.compile(r"^\s*Print Assumptions\s+" + re.escape(name) + r"\s*\.")
            for j, l in enumerate(self.lines):
                if pa.match(l):
                    self.lines[j] = ""
        return True

    def print_assumption_targets(self):
        return [m.group(1) for l in self.lines for m in [re.match(r"^\s*Print Assumptions\s+([A-Za-z_][A-Za-z0-9_'.]*)\s*\.", l)] if m]


def parse_assumptions(out):
    res, cur = [], None
    for l in out.split("\n"):
        if l.startswith("Closed under the global context"):
            res.append(True)
            cur = None
        elif l.startswith("Axioms:"):
            cur = []
            res.append(cur)
        elif cur is not None and l and not l.startswith(" "):
            cur.append(l.split(":")[0].strip())
    return res


def excerpt(err):
    err = re.sub(r"\s+", " ", err.strip())
    return err[:400]


def main():
    repo = sys.argv[1] if len(sys.argv) > 1 else "/repo"
    out = {"repo": repo, "files": [], "functions_translated": 0, "function_names": [], "skipped": [], "not_selected": {},
           "obligations": 0, "discharged": 0, "failed": []}
    env = dict(os.environ, GOFLAGS="-mod=mod", GOPROXY="off", GOSUMDB="off", GOTOOLCHAIN="local")
    os.makedirs(os.path.join(HERE, "bin"), exist_ok=True)
    p = subprocess.run(["go", "build", "-o", os.path.join(HERE, "bin", "srcgen"), "."], cwd=HERE, env=env,
                       stdout=subprocess.PIPE, stderr=subprocess.PIPE, text=True)
    if p.returncode != 0:
        out["failed"].append({"file": "srcgen", "error": "go build failed: " + excerpt(p.stderr)})
        finish(out, 2)
    tmp = tempfile.mkdtemp(prefix="srcgen.")
    keep = bool(os.environ.get("SRCGEN_KEEP"))
    if keep:
        out["tmp"] = tmp
    try:
        work(repo, tmp, out)
    finally:
        if not keep:
            shutil.rmtree(tmp, ignore_errors=True)


def work(repo, tmp, out):
    gen, prf = os.path.join(tmp, "gen"), os.path.join(tmp, "proofs")
    os.makedirs(prf)
    rc, so, se = run([os.path.join(HERE, "bin", "srcgen"), "-repo", repo, "-out", gen, "-manifest", os.path.join(tmp, "manifest.json")])
    man = {}
    if os.path.exists(os.path.join(tmp, "manifest.json")):
        man = json.load(open(os.path.join(tmp, "manifest.json")))
    if rc != 0:
        for e in (man.get("errors") or [se.strip() or "srcgen exit %d" % rc]):
            out["failed"].append({"file": "srcgen", "error": "translator refused: " + e})
        finish(out, 2)
    for f in man["files"]:
        out["files"].append({"go": f["go"], "coq": f["module"] + ".v", "sha256": f["sha256"]})
        for x in f.get("extra") or []:
            gofile, _, sha = x.partition(" sha256 ")
            out["files"].append({"go": gofile, "coq": f["module"] + ".v", "sha256": sha})
        for n in f["translated"] or []:
            out["function_names"].append(f["module"] + "." + n)
        for s in f["skipped"] or []:
            out["skipped"].append({"function": f["module"] + "." + s[0], "reason": s[1]})
        if f["not_selected"]:
            out["not_selected"][f["module"]] = f["not_selected"]
    out["functions_translated"] = len(out["function_names"])

    Q = ["-Q", THEORIES, "Gods", "-Q", gen, "GodsGen", "-Q", prf, "GodsGenProofs"]
    # ---- tasks
    tasks = {}                                  # name -> (kind, deps)
    for f in man["files"]:
        tasks[f["module"]] = ("gen", deps_of(open(os.path.join(gen, f["module"] + ".v")).read()))
    proofs = {}
    for fn in sorted(os.listdir(os.path.join(HERE, "coq"))):
        if fn.endswith(".v"):
            name = fn[:-2]
            text = open(os.path.join(HERE, "coq", fn)).read()
            proofs[name] = ProofFile(name, text)
            tasks[name] = ("proof", deps_of(text))
    # SRCGEN_ONLY / SRCGEN_SKIP (regular expressions, matched case-insensitively against "<proof file> <obligation>"
    # resp. the proof file's name): compile only the proof files a property is about, plus what they import
    only, skip = os.environ.get("SRCGEN_ONLY"), os.environ.get("SRCGEN_SKIP")
    if only:
        def wanted(name):
            pf = proofs[name]
            if skip and re.search(skip, name.lower()):
                return False
            return any(re.search(only, (name + ".v " + ob).lower()) for ob in pf.obligations + [""])
        keep = set(n for n in proofs if wanted(n))
        todo = list(keep)
        while todo:                                   # what they import: hand-written files and generated modules
            for d in tasks[todo.pop()][1]:
                if d in tasks and d not in keep:
                    keep.add(d); todo.append(d)
        out["selected_proof_files"] = sorted(n for n in keep if n in proofs)
        out["not_selected_proof_files"] = len(proofs) - len(out["selected_proof_files"])
        for n in list(tasks):
            if n not in keep:
                del tasks[n]
                proofs.pop(n, None)
    out["obligations"] = sum(len(p.obligations) for p in proofs.values())
    done, bad, lock = set(), {}, threading.Condition()
    internal = []

    def compile_gen(name):
        rc, so, se = run(["coqc"] + Q + [name + ".v"], cwd=gen, timeout=COQC_TIMEOUT)
        if rc != 0:
            internal.append({"file": name + ".v", "error": "generated file does not compile: " + excerpt(se)})
            return False
        return True

    def compile_proof(name):
        pf = proofs[name]
        path = os.path.join(prf, name + ".v")
        for attempt in range(25):
            open(path, "w").write(pf.text())
            rc, so, se = run(["coqc"] + Q + [name + ".v"], cwd=prf, timeout=COQC_TIMEOUT)
            if rc == 0:
                res = parse_assumptions(so)
                tg = pf.print_assumption_targets()
                if len(res) != len(tg):
                    pf.hard = "cannot match Print Assumptions output (%d results, %d commands)" % (len(res), len(tg))
                    return True
                for t, r in zip(tg, res):
                    pf.closed[t.split(".")[-1]] = r
                return True
            m = ERRLOC.search(se)
            msg = excerpt(se[m.end():] if m else se)
            if rc == 124:
                pf.hard = "coqc timeout"
                return False
            if not m or os.path.basename(m.group(1)) != name + ".v":
                pf.hard = "does not compile: " + excerpt(se)
                return False
            if time.time() - T0 > BUDGET:
                pf.hard = "time budget exhausted while isolating failing obligations; last error: " + msg
                return False
            if not pf.admit(int(m.group(2)), msg):
                pf.hard = "error outside a theorem, line %s: %s" % (m.group(2), msg)
                return False
        pf.hard = "too many failing theorems"
        return False

    def worker(name):
        kind, deps = tasks[name]
        with lock:
            while not all(d in done or d in bad for d in deps if d in tasks):
                lock.wait()
            broken = [d for d in deps if d in bad]
        ok = False
        if broken:
            if kind == "proof":
                proofs[name].hard = "dependency %s did not compile" % broken[0]
        elif kind == "gen":
            ok = compile_gen(name)
        else:
            ok = compile_proof(name)
        with lock:
            (done.add if ok else (lambda n: bad.__setitem__(n, True)))(name)
            lock.notify_all()

    ths = [threading.Thread(target=worker, args=(n,)) for n in tasks]
    for t in ths:
        t.start()
    for t in ths:
        t.join()
    if internal:
        out["failed"] += internal
        finish(out, 2)

    discharged = 0
    for name, pf in sorted(proofs.items()):
        for ob in pf.obligations:
            if ob in pf.failed:
                out["failed"].append({"file": name + ".v", "theorem": ob, "error": pf.failed[ob]})
            elif pf.hard:
                out["failed"].append({"file": name + ".v", "theorem": ob, "error": "not checked: " + pf.hard})
            elif ob not in pf.closed:
                out["failed"].append({"file": name + ".v", "theorem": ob, "error": "no Print Assumptions for this obligation"})
            elif pf.closed[ob] is not True:
                out["failed"].append({"file": name + ".v", "theorem": ob,
                                      "error": "depends on failed / admitted: " + ", ".join(pf.closed[ob])})
            else:
                discharged += 1
        for h, msg in pf.failed.items():       # helper lemmas that failed (not obligations themselves)
            if h not in pf.obligations:
                out["failed"].append({"file": name + ".v", "theorem": h, "error": "(helper lemma) " + msg})
    out["discharged"] = discharged
    finish(out, 0)


if __name__ == "__main__":
    main()
