#!/bin/bash
# usage: validate_btree.sh [repo-dir]   (default /repo)      VALIDATE_ONLY='^(b1|i2)' restricts the run to some changes
# Seeded changes for the B-TREE unit (README.md, "B-tree" rows of the validation table): every change is applied to a
# scratch export of repo-dir (git archive HEAD; deleted afterwards), run.sh is run on it, and the failed obligations /
# the refusal are printed.  Never touches repo-dir.
here=$(cd "$(dirname "$0")" && pwd)
repo=${1:-/repo}
scratch=$(mktemp -d /tmp/srcgen_btval.XXXXXX)
trap 'rm -rf "$scratch"' EXIT
git -C "$repo" archive HEAD | tar -x -C "$scratch" || exit 3
python3 - "$here" "$repo" "$scratch" <<'PY'
import sys, subprocess, json, os, re
here, repo, scratch = sys.argv[1:4]
B, BI = 'trees/btree/btree.go', 'trees/btree/iterator.go'
SEARCH = ("\tlow, high := 0, len(node.Entries)-1\n\tvar mid int\n\tfor low <= high {\n\t\tmid = (high + low) / 2\n\t\tcompare := tree.Comparator(key, node.Entries[mid].Key)\n"
          "\t\tswitch {\n\t\tcase compare > 0:\n\t\t\tlow = mid + 1\n\t\tcase compare < 0:\n\t\t\thigh = mid - 1\n\t\tcase compare == 0:\n\t\t\treturn mid, true\n\t\t}\n\t}\n\treturn low, false\n")
LEFT = "\tcurrent := node\n\tfor {\n\t\tif tree.isLeaf(current) {\n\t\t\treturn current\n\t\t}\n\t\tcurrent = current.Children[0]\n\t}\n"
RIGHT = "\tcurrent := node\n\tfor {\n\t\tif tree.isLeaf(current) {\n\t\t\treturn current\n\t\t}\n\t\tcurrent = current.Children[len(current.Children)-1]\n\t}\n"
muts = [
 ("b1 search: mid off by one", B, [(SEARCH, SEARCH.replace("mid = (high + low) / 2\n", "mid = (high+low)/2 + 1\n"))]),
 ("b2 search: low = mid", B, [(SEARCH, SEARCH.replace("low = mid + 1", "low = mid"))]),
 ("b3 search: > and < swapped", B, [(SEARCH, SEARCH.replace("case compare > 0:", "case compare @ 0:").replace("case compare < 0:", "case compare > 0:").replace("case compare @ 0:", "case compare < 0:"))]),
 ("b4 search: compare == 1", B, [(SEARCH, SEARCH.replace("case compare > 0:", "case compare == 1:"))]),
 ("b5 searchRecursively descends into index+1", B, [("\t\tnode = node.Children[index]\n\t}\n}", "\t\tnode = node.Children[index+1]\n\t}\n}")]),
 ("b6 Height counts from 1", B, [("\theight := 0\n\tfor ; node != nil;", "\theight := 1\n\tfor ; node != nil;")]),
 ("b7 left takes the last child", B, [(LEFT, LEFT.replace("current.Children[0]", "current.Children[len(current.Children)-1]"))]),
 ("b8 right takes the first child", B, [(RIGHT, RIGHT.replace("current.Children[len(current.Children)-1]", "current.Children[0]"))]),
 ("b9 LeftKey reads the last entry", B, [("\t\treturn left.Entries[0].Key\n", "\t\treturn left.Entries[len(left.Entries)-1].Key\n")]),
 ("b10 Node.Size starts at 0", B, [("\tsize := 1\n\tfor _, child := range node.Children {", "\tsize := 0\n\tfor _, child := range node.Children {")]),
 ("b11 middle = m / 2", B, [("\treturn (tree.m - 1) / 2 //", "\treturn tree.m / 2 //")]),
 ("b12 shouldSplit with >=", B, [("\treturn len(node.Entries) > tree.maxEntries()", "\treturn len(node.Entries) >= tree.maxEntries()")]),
 ("b13 isLeaf tests the entries", B, [("\treturn len(node.Children) == 0\n}", "\treturn len(node.Entries) == 0\n}")]),
 ("b14 Get returns found = false", B, [("\t\treturn node.Entries[index].Value, true\n", "\t\treturn node.Entries[index].Value, false\n")]),
 ("i1 Next descends into Children[e]", BI, [("\t\t\titerator.node = iterator.node.Children[e+1]\n", "\t\t\titerator.node = iterator.node.Children[e]\n")]),
 ("i2 Next: climb once (if instead of for)", BI, [("\tfor iterator.node.Parent != nil {\n\t\titerator.node = iterator.node.Parent\n\t\t// Find next entry position", "\tif iterator.node.Parent != nil {\n\t\titerator.node = iterator.node.Parent\n\t\t// Find next entry position")]),
 ("i3 Next: climb tests e+1", BI, [("\t\tif e < len(iterator.node.Entries) {\n\t\t\titerator.entry = iterator.node.Entries[e]\n", "\t\tif e+1 < len(iterator.node.Entries) {\n\t\t\titerator.entry = iterator.node.Entries[e]\n")]),
 ("i4 Prev: same node takes Entries[e]", BI, [("\t\tif e-1 >= 0 {\n\t\t\titerator.entry = iterator.node.Entries[e-1]\n\t\t\tgoto between\n\t\t}\n\t}\n\t// Reached leaf node and there are no entries to the left",
                                               "\t\tif e-1 >= 0 {\n\t\t\titerator.entry = iterator.node.Entries[e]\n\t\t\tgoto between\n\t\t}\n\t}\n\t// Reached leaf node and there are no entries to the left")]),
 ("i5 End forgets the entry", BI, [("\titerator.node = nil\n\titerator.position = end\n\titerator.entry = nil\n", "\titerator.node = nil\n\titerator.position = end\n")]),
 ("i6 Next at begin takes the last entry of the leaf", BI, [("\t\titerator.entry = left.Entries[0]\n", "\t\titerator.entry = left.Entries[len(left.Entries)-1]\n")]),
 ("i7 Prev: the climb re-searches in the child", BI, [("\tfor iterator.node.Parent != nil {\n\t\titerator.node = iterator.node.Parent\n\t\t// Find previous entry position",
                                                       "\tfor iterator.node.Parent != nil {\n\t\t// Find previous entry position")]),
 ("w1 insertIntoLeaf forgets split", B, [("\tnode.Entries[insertPosition] = entry\n\ttree.split(node)\n\treturn true", "\tnode.Entries[insertPosition] = entry\n\treturn true")]),
 ("w2 splitNonRoot: right's children get the parent left", B, [("\t\tsetParent(left.Children, left)\n\t\tsetParent(right.Children, right)\n\t}\n\n\tinsertPosition, _ :=", "\t\tsetParent(left.Children, left)\n\t\tsetParent(right.Children, left)\n\t}\n\n\tinsertPosition, _ :=")]),
 ("w3 splitRoot: left gets the middle entry too", B, [("tree.Root.Entries[:middle]...)}", "tree.Root.Entries[:middle+1]...)}")]),
 ("w4 Put counts an overwrite", B, [("\tif tree.insert(tree.Root, entry) {\n\t\ttree.size++\n\t}", "\ttree.insert(tree.Root, entry)\n\ttree.size++")]),
 ("w5 rebalance borrows from a minimal left sibling", B, [("\tif leftSibling != nil && len(leftSibling.Entries) > tree.minEntries() {", "\tif leftSibling != nil && len(leftSibling.Entries) >= tree.minEntries() {")]),
 ("w6 delete keeps an empty root", B, [("\t\tif len(tree.Root.Entries) == 0 {\n\t\t\ttree.Root = nil\n\t\t}\n", "")]),
 ("w7 splitNonRoot forgets left.Parent (uses nil)", B, [("node.Entries[:middle]...), Parent: parent}", "node.Entries[:middle]...)}")]),
 ("w8 merge with the right sibling keeps the separator in the parent", B, [("\t\tdeletedKey = node.Parent.Entries[rightSiblingIndex-1].Key\n\t\ttree.deleteEntry(node.Parent, rightSiblingIndex-1)\n", "\t\tdeletedKey = node.Parent.Entries[rightSiblingIndex-1].Key\n")]),
 ("w9 delete at an internal node takes the SMALLEST entry of the left subtree", B, [("\tleftLargestNode := tree.right(node.Children[index])", "\tleftLargestNode := tree.left(node.Children[index])")]),
 ("w10 Remove does not decrement size", B, [("\t\ttree.delete(node, index)\n\t\ttree.size--\n", "\t\ttree.delete(node, index)\n")]),
 ("w11 prependChildren leaves the old Parent links", B, [("\ttoNode.Children = append(children, toNode.Children...)\n\tsetParent(fromNode.Children, toNode)\n", "\ttoNode.Children = append(children, toNode.Children...)\n")]),
 ("w12 borrow from the right: the moved child keeps its Parent", B, [("\t\t\trightSiblingLeftMostChild := rightSibling.Children[0]\n\t\t\trightSiblingLeftMostChild.Parent = node\n", "\t\t\trightSiblingLeftMostChild := rightSibling.Children[0]\n")]),
 ("w13 root collapse forgets node.Parent = nil", B, [("\t\ttree.Root = node\n\t\tnode.Parent = nil\n\t\treturn\n", "\t\ttree.Root = node\n\t\treturn\n")]),
 ("i8 NextTo stops at the first element that does NOT satisfy f", BI, [("\tfor iterator.Next() {\n\t\tkey, value := iterator.Key(), iterator.Value()\n\t\tif f(key, value) {", "\tfor iterator.Next() {\n\t\tkey, value := iterator.Key(), iterator.Value()\n\t\tif !f(key, value) {")]),
 ("i9 PrevTo walks forwards", BI, [("\tfor iterator.Prev() {\n\t\tkey, value := iterator.Key(), iterator.Value()", "\tfor iterator.Next() {\n\t\tkey, value := iterator.Key(), iterator.Value()")]),
 ("h1 harmless: search with renamed locals", B, [(SEARCH, SEARCH.replace("low", "lo").replace("high", "hi").replace("compare", "c"))]),
 ("h2 harmless: Height with height += 1, isLeaf compared the other way round", B, [("\t\theight++\n", "\t\theight += 1\n"), ("\treturn len(node.Children) == 0\n}", "\treturn 0 == len(node.Children)\n}")]),
 ("h3 harmless but ANOTHER LOOP SHAPE: left with a loop condition", B, [(LEFT, "\tcurrent := node\n\tfor !tree.isLeaf(current) {\n\t\tcurrent = current.Children[0]\n\t}\n\treturn current\n")]),
 ("x1 refused: an entry is modified in place", B, [("\tif found {\n\t\tnode.Entries[insertPosition] = entry\n\t\treturn false\n\t}\n\t// Insert entry's key in the middle of the node", "\tif found {\n\t\tnode.Entries[insertPosition].Value = entry.Value\n\t\treturn false\n\t}\n\t// Insert entry's key in the middle of the node")]),
 ("x2 refused: entry pointers compared", BI, [("\t\tif left == nil {\n\t\t\tgoto end\n\t\t}", "\t\tif left == nil || iterator.entry == left.Entries[0] {\n\t\t\tgoto end\n\t\t}")]),
 ("x3 refused: cap()", B, [("\treturn len(node.Entries) == tree.maxEntries()", "\treturn cap(node.Entries) == tree.maxEntries()")]),
 ("x4 refused: division by a variable", B, [("\treturn (tree.m + 1) / 2 //", "\treturn (tree.m + 1) / tree.size //")]),
 ("x5 refused: a field added to Entry", B, [("\tKey   K\n\tValue V\n}", "\tKey   K\n\tValue V\n\tdead  bool\n}")]),
 ("x6 refused: a `continue` in the range loop of Node.Size", B, [("\t\tsize += child.Size()\n", "\t\tsize += child.Size()\n\t\tcontinue\n")]),
 ("x8 refused: left.Children shares the array of node.Children", B, [("\t\tleft.Children = append([]*Node[K, V](nil), node.Children[:middle+1]...)\n\t\tright.Children = append([]*Node[K, V](nil), node.Children[middle+1:]...)\n\t\tsetParent(left.Children, left)\n\t\tsetParent(right.Children, right)\n\t}\n\n\tinsertPosition",
                                                                          "\t\tleft.Children = node.Children[:middle+1]\n\t\tright.Children = append([]*Node[K, V](nil), node.Children[middle+1:]...)\n\t\tsetParent(left.Children, left)\n\t\tsetParent(right.Children, right)\n\t}\n\n\tinsertPosition")]),
 ("x9 refused: appendChildren appends to the other node's array", B, [("\ttoNode.Children = append(toNode.Children, fromNode.Children...)\n", "\ttoNode.Children = append(fromNode.Children, toNode.Children...)\n")]),
 ("x10 refused: setParent stores its parameter slice", B, [("\tfor _, node := range nodes {\n\t\tnode.Parent = parent\n\t}\n", "\tfor _, node := range nodes {\n\t\tnode.Parent = parent\n\t}\n\tparent.Children = nodes\n")]),
 ("x11 refused: a range body writes a slice element", B, [("\tfor _, node := range nodes {\n\t\tnode.Parent = parent\n\t}\n", "\tfor _, node := range nodes {\n\t\tnode.Parent = parent\n\t\tparent.Children[0] = node\n\t}\n")]),
 ("x7 a field added to Node", B, [("\tChildren []*Node[K, V]  // Children nodes\n}", "\tChildren []*Node[K, V]  // Children nodes\n\tleaf     bool\n}")]),
]
only = os.environ.get("VALIDATE_ONLY")
bad = 0
for name, f, pairs in muts:
    if only and not re.search(only, name):
        continue
    src = open(repo + '/' + f).read()
    s = src
    for old, new in pairs:
        if s.count(old) != 1:
            print("== %s: PATTERN NOT FOUND (%d occurrences) -- the source has changed, update validate_btree.sh" % (name, s.count(old)))
            bad += 1
            s = None
            break
        s = s.replace(old, new)
    if s is None:
        continue
    open(scratch + '/' + f, 'w').write(s)
    p = subprocess.run([here + '/run.sh', scratch], stdout=subprocess.PIPE, text=True)
    open(scratch + '/' + f, 'w').write(src)
    d = json.loads(p.stdout)
    print("== %s: exit %d, %d / %d discharged, %.0f s" % (name, p.returncode, d['discharged'], d['obligations'], d['wall_s']), flush=True)
    for x in d['failed']:
        print("     %s %s | %s" % (x.get('file'), x.get('theorem', ''), x.get('error', '')[:150]), flush=True)
sys.exit(1 if bad else 0)
PY
rc=$?
rm -rf "$scratch"
exit $rc
