package main

// containers/containers.go: GetSortedValues / GetSortedValuesFunc.
//   - the parameter type Container[T] is an INTERFACE type: an opaque (abstract) value whose method set is read from the
//     interface declaration (Values() []T);
//   - `values := container.Values()` stores a slice that is not a fresh make: allowed only in a unit whitelisted with
//     FreshValues (Values() hands out a fresh slice: what the effect table and the aliasing probes check);
//   - `slices.Sort(x)` / `slices.SortFunc(x, cmp)` on a LOCAL slice variable are the abstract functions sort_slice /
//     sort_slice_func (Section Sorting): pdqsort is unstable and its result is specified only as a sorted permutation.

import (
	"go/ast"
	"go/token"
)

var usesSort = map[*unit]bool{}

// the method `name` of the interface type `typ` declared in files, as a function declaration without receiver
func ifaceMethod(files []*ast.File, typ, name string) (*ast.FuncDecl, map[string]bool) {
	for _, file := range files {
		for _, d := range file.Decls {
			gd, ok := d.(*ast.GenDecl)
			if !ok || gd.Tok != token.TYPE {
				continue
			}
			for _, sp := range gd.Specs {
				ts := sp.(*ast.TypeSpec)
				it, ok := ts.Type.(*ast.InterfaceType)
				if !ok || ts.Name.Name != typ || it.Methods == nil {
					continue
				}
				for _, m := range it.Methods.List {
					ft, isFunc := m.Type.(*ast.FuncType)
					if !isFunc || len(m.Names) != 1 || m.Names[0].Name != name {
						continue
					}
					return &ast.FuncDecl{Name: m.Names[0], Type: ft}, typeParamNames(ts.TypeParams)
				}
			}
		}
	}
	return nil, nil
}

func (f *fx) freshValues(rhs ast.Expr) bool {
	if !f.u.Spec.FreshValues {
		return false
	}
	c, ok := rhs.(*ast.CallExpr)
	if !ok || len(c.Args) != 0 {
		return false
	}
	sel, ok := c.Fun.(*ast.SelectorExpr)
	return ok && sel.Sel.Name == "Values"
}

func (f *fx) sortStmt(c *ast.CallExpr, e env) (string, env, bool) {
	sel, ok := c.Fun.(*ast.SelectorExpr)
	if !ok || (sel.Sel.Name != "Sort" && sel.Sel.Name != "SortFunc") {
		return "", e, false
	}
	id, ok := sel.X.(*ast.Ident)
	if !ok || id.Name != "slices" || f.u.Imports["slices"] != "<std>/slices" {
		return "", e, false
	}
	if _, shadow := e.vars["slices"]; shadow {
		return "", e, false
	}
	want := 1
	if sel.Sel.Name == "SortFunc" {
		want = 2
	}
	if len(c.Args) != want || c.Ellipsis != token.NoPos {
		f.bad(c.Pos(), "slices.%s with %d arguments", sel.Sel.Name, len(c.Args))
	}
	x, ok := c.Args[0].(*ast.Ident)
	if !ok {
		f.bad(c.Pos(), "slices.%s of something that is not a local slice variable (sorting in place through a field / an alias is not modelled)", sel.Sel.Name)
	}
	vi, ok := e.vars[x.Name]
	if !ok || vi.ty.K != kSlice || f.capMode() {
		f.bad(c.Pos(), "slices.%s of something that is not a plain slice variable", sel.Sel.Name)
	}
	usesSort[f.u] = true
	val := "(sort_slice " + vname(x.Name) + ")"
	if want == 2 {
		cs, tc := f.expr(c.Args[1], e)
		if tc.K != kCmp {
			f.bad(c.Args[1].Pos(), "slices.SortFunc with something that is not a comparator")
		}
		f.u.UsesCmp = true
		val = "(sort_slice_func " + cs + " " + vname(x.Name) + ")"
	}
	p, e2 := f.assign(x, val, vi.ty, false, e) // a parameter slice is refused here: the caller would see the sorting
	return p, e2, true
}
