// srcgen: regenerate Gallina definitions from whitelisted Go files of emirpasic/gods.
//
//	srcgen -repo /repo -out <dir> [-manifest file.json]
//
// exit 0: every whitelisted function translated; exit 1: a construct was refused (messages on stderr
// and, with -manifest, in the "errors" array); exit 3: usage / IO / parse errors.
package main

import (
	"crypto/sha256"
	"encoding/json"
	"flag"
	"fmt"
	"go/ast"
	"go/parser"
	"go/token"
	"os"
	"path/filepath"
	"sort"
	"strconv"
	"strings"
)

const modulePath = "github.com/emirpasic/gods/v2"

func die(format string, a ...interface{}) {
	fmt.Fprintf(os.Stderr, "srcgen: "+format+"\n", a...)
	os.Exit(3)
}

type manifestFile struct {
	Go          string      `json:"go"`
	Coq         string      `json:"coq"`
	Module      string      `json:"module"`
	Sha256      string      `json:"sha256"`
	Translated  []string    `json:"translated"`
	Skipped     [][2]string `json:"skipped"`
	NotSelected []string    `json:"not_selected"`
	Extra       []string    `json:"extra"` // "<go file> sha256 <hash>" of the further files of the unit
}

type manifest struct {
	Files  []manifestFile `json:"files"`
	Errors []string       `json:"errors"`
}

func main() {
	repo := flag.String("repo", "/repo", "root of the gods repository")
	out := flag.String("out", "", "output directory for the generated .v files")
	mf := flag.String("manifest", "", "write a JSON manifest here")
	flag.Parse()
	if *out == "" {
		die("-out is required")
	}
	t := &translator{fset: token.NewFileSet(), absPkgs: map[string][]*ast.File{}, repo: *repo}

	// ---- parse
	for _, sp := range whitelist {
		var u *unit
		for fi, gofile := range append([]string{sp.GoFile}, sp.ExtraFiles...) {
			path := filepath.Join(*repo, gofile)
			src, err := os.ReadFile(path)
			if err != nil {
				die("%v", err)
			}
			file, err := parser.ParseFile(t.fset, path, src, parser.ParseComments|parser.SkipObjectResolution)
			if err != nil {
				die("parse error: %v", err)
			}
			if fi == 0 {
				u = &unit{Spec: sp, File: file, Dir: filepath.Dir(sp.GoFile), Imports: map[string]string{}, Deps: map[string]bool{}, Consts: map[string]ast.Expr{}, PkgVars: map[string]ast.Expr{},
					Sha: fmt.Sprintf("%x", sha256.Sum256(src)), SrcLines: strings.Count(string(src), "\n")}
			} else {
				if filepath.Dir(gofile) != u.Dir {
					die("extra file %s is not in the package of %s", gofile, sp.GoFile)
				}
				u.ExtraSha = append(u.ExtraSha, gofile+" sha256 "+fmt.Sprintf("%x", sha256.Sum256(src)))
			}
			u.Files = append(u.Files, file)
			for _, d := range file.Decls {
				if gd, ok := d.(*ast.GenDecl); ok && gd.Tok == token.VAR {
					for _, sp := range gd.Specs {
						vs := sp.(*ast.ValueSpec)
						if len(vs.Names) == len(vs.Values) {
							for i, n := range vs.Names {
								u.PkgVars[n.Name] = vs.Values[i]
							}
						}
					}
				}
				if gd, ok := d.(*ast.GenDecl); ok && gd.Tok == token.CONST {
					for _, sp := range gd.Specs {
						vs := sp.(*ast.ValueSpec)
						if len(vs.Names) == len(vs.Values) {
							for i, n := range vs.Names {
								u.Consts[n.Name] = vs.Values[i]
							}
						}
					}
				}
			}
			for _, im := range file.Imports {
				p, _ := strconv.Unquote(im.Path.Value)
				if (p == "slices" || p == "cmp" || p == "reflect" || p == "bytes") && im.Name == nil { // bytes: bytesbuf.go
					u.Imports[p] = "<std>/" + p
				}
				if p == "encoding/json" && im.Name == nil {
					u.Imports["json"] = "<std>/json"
				}
				if !strings.HasPrefix(p, modulePath+"/") {
					continue
				}
				dir := strings.TrimPrefix(p, modulePath+"/")
				name := filepath.Base(dir)
				if im.Name != nil {
					name = im.Name.Name
				}
				u.Imports[name] = dir
			}
		}
		for _, gofile := range sp.StructFiles {
			path := filepath.Join(*repo, gofile)
			file, err := parser.ParseFile(t.fset, path, nil, parser.SkipObjectResolution)
			if err != nil {
				die("parse error: %v", err)
			}
			for _, d := range file.Decls {
				if gd, ok := d.(*ast.GenDecl); ok && gd.Tok == token.TYPE {
					u.TypeDecls = append(u.TypeDecls, gd)
				}
			}
			for _, im := range file.Imports {
				p, _ := strconv.Unquote(im.Path.Value)
				if strings.HasPrefix(p, modulePath+"/") {
					dir := strings.TrimPrefix(p, modulePath+"/")
					name := filepath.Base(dir)
					if im.Name != nil {
						name = im.Name.Name
					}
					if _, dup := u.Imports[name]; !dup {
						u.Imports[name] = dir
					}
				}
			}
		}
		t.units = append(t.units, u)
	}

	ok := t.guard(func() { t.collectStructs() })
	ok = ok && t.guard(func() { t.collectFuncs() })
	if ok {
		t.analyse()
		for _, u := range t.units {
			if u.Spec.HeapMode {
				t.heapUnit(u)
				continue
			}
			if u.Spec.TreeMode { // treeheap.go
				t.treeUnit(u)
				continue
			}
			for _, fi := range t.order(u) {
				fi := fi
				if t.guard(func() { t.translateFunc(fi) }) {
					u.Funcs = append(u.Funcs, fi)
				} else {
					t.errs[len(t.errs)-1] += " [in function " + fi.Name + " of " + u.Spec.GoFile + "]"
					fi.text = "(* refused *)"
				}
			}
		}
	}

	m := manifest{Errors: t.errs}
	if len(t.errs) == 0 {
		if err := os.MkdirAll(*out, 0o755); err != nil {
			die("%v", err)
		}
		for _, u := range t.units {
			text := ""
			if u.Spec.HeapMode {
				text = t.emitHeap(u)
			} else if u.Spec.TreeMode {
				text = t.emitTree(u)
			} else {
				text = t.emit(u)
			}
			p := filepath.Join(*out, u.Spec.Module+".v")
			if err := os.WriteFile(p, []byte(text), 0o644); err != nil {
				die("%v", err)
			}
			f := manifestFile{Go: u.Spec.GoFile, Coq: p, Module: u.Spec.Module, Sha256: u.Sha, Skipped: u.Skipped, NotSelected: u.NotSel, Extra: u.ExtraSha}
			for _, fi := range u.Funcs {
				f.Translated = append(f.Translated, fi.Coq)
			}
			m.Files = append(m.Files, f)
		}
	}
	if *mf != "" {
		b, _ := json.MarshalIndent(m, "", " ")
		if err := os.WriteFile(*mf, b, 0o644); err != nil {
			die("%v", err)
		}
	}
	if len(t.errs) > 0 {
		for _, e := range t.errs {
			fmt.Fprintln(os.Stderr, "srcgen: REFUSED: "+e)
		}
		os.Exit(1)
	}
}

func (t *translator) guard(run func()) (ok bool) {
	defer func() {
		if r := recover(); r != nil {
			if u, is := r.(unsupportedErr); is {
				t.errs = append(t.errs, u.msg)
				ok = false
				return
			}
			panic(r)
		}
	}()
	run()
	return true
}

// ---------------------------------------------------------------- declarations

func typeParamNames(fl *ast.FieldList) map[string]bool {
	m := map[string]bool{}
	if fl == nil {
		return m
	}
	for _, f := range fl.List {
		for _, n := range f.Names {
			m[n.Name] = true
		}
	}
	return m
}

func (t *translator) collectStructs() {
	type pending struct {
		s  *structInfo
		st *ast.StructType
		c  tctx
	}
	var todo []pending
	for _, u := range t.units {
		if u.Spec.HeapMode || u.Spec.TreeMode {
			continue
		}
		for _, d := range u.allDecls() {
			gd, ok := d.(*ast.GenDecl)
			if !ok || gd.Tok != token.TYPE {
				continue
			}
			for _, sp := range gd.Specs {
				ts := sp.(*ast.TypeSpec)
				st, ok := ts.Type.(*ast.StructType)
				if _, isIface := ts.Type.(*ast.InterfaceType); isIface && !ok {
					if _, opaque := u.Spec.Opaque[ts.Name.Name]; opaque {
						continue // an interface type that is an opaque receiver / parameter type of this unit (sorting.go)
					}
				}
				if !ok {
					t.unsupported(ts.Pos(), "type declaration %s that is not a struct", ts.Name.Name)
				}
				s := &structInfo{Name: ts.Name.Name, Dir: u.Dir, Unit: u, pos: ts.Pos()}
				t.structs = append(t.structs, s)
				u.Structs = append(u.Structs, s)
				todo = append(todo, pending{s, st, tctx{u, typeParamNames(ts.TypeParams)}})
			}
		}
	}
	for _, p := range todo {
		for _, f := range fieldList(p.st.Fields) {
			if f.name == "" {
				t.unsupported(p.s.pos, "embedded field in struct %s", p.s.Name)
			}
			if _, ign := p.c.u.Spec.IgnoreFields[f.name]; ign {
				p.s.Ignored = append(p.s.Ignored, f.name)
				continue
			}
			if as, isAbs := p.c.u.Spec.Abstract[f.name]; isAbs {
				a := t.absField(f.name, f.typ, p.c, as)
				p.s.Fields = append(p.s.Fields, &fieldInfo{Name: f.name, Coq: mangle(f.name), Ty: ty{K: kAbs, A: a}})
				p.c.u.Abs = append(p.c.u.Abs, a)
				continue
			}
			ft := t.resolveType(f.typ, p.c)
			if ft.K == kFunc || ft.K == kTuple {
				t.unsupported(f.typ.Pos(), "field %s.%s of function type", p.s.Name, f.name)
			}
			fi := &fieldInfo{Name: f.name, Coq: mangle(f.name), Ty: ft}
			if ft.K == kStruct {
				if _, isPtr := f.typ.(*ast.StarExpr); !isPtr {
					t.unsupported(f.typ.Pos(), "field %s.%s holds a struct by value", p.s.Name, f.name)
				}
				if ft.S == p.s {
					t.unsupported(f.typ.Pos(), "field %s.%s: linked (self-referential) structure", p.s.Name, f.name)
				}
				// pointer to a struct of the same package = the container an iterator walks over
				fi.Container = ft.S.Dir == p.s.Dir
			}
			p.s.Fields = append(p.s.Fields, fi)
		}
	}
}

// the wrapped container type of an abstract field: *pkg.Type[T]
func (t *translator) absField(name string, e ast.Expr, c tctx, as absSpec) *absIface {
	x := e
	if s, ok := x.(*ast.StarExpr); ok {
		x = s.X
	}
	if ix, ok := x.(*ast.IndexExpr); ok {
		x = ix.X
	}
	if ix, ok := x.(*ast.IndexListExpr); ok {
		x = ix.X
	}
	sel, ok := x.(*ast.SelectorExpr)
	if !ok {
		t.unsupported(e.Pos(), "abstract field %s whose type is not *pkg.Type[T]", name)
	}
	id, ok := sel.X.(*ast.Ident)
	dir, ok2 := c.u.Imports[id.Name]
	if !ok || !ok2 {
		t.unsupported(e.Pos(), "abstract field %s: package of its type is not a package of this module", name)
	}
	a := &absIface{Field: name, Dir: dir, Type: sel.Sel.Name, Pure: map[string]bool{}, Methods: map[string]*funcInfo{}, pos: e.Pos(), unit: c.u}
	for _, p := range as.Pure {
		a.Pure[p] = true
	}
	if as.Methods != nil {
		a.Fixed, a.filling = true, true
		for _, n := range as.Methods {
			if strings.HasPrefix(n, "pkg.") {
				t.absFunc(a, strings.TrimPrefix(n, "pkg."), true, e.Pos())
			} else if strings.HasPrefix(n, "fld.") {
				t.absFieldRead(a, strings.TrimPrefix(n, "fld."), e.Pos())
			} else if n == "Iterator" {
				a.Methods["enum.Iterator"] = &funcInfo{Name: "Iterator", Coq: a.Field + "_Iterator_enum", Abs: a, Needs: map[string]bool{}}
			} else {
				t.absFunc(a, n, false, e.Pos())
			}
		}
		a.filling = false
	}
	return a
}

func (t *translator) collectFuncs() {
	for _, u := range t.units {
		if u.Spec.HeapMode || u.Spec.TreeMode {
			continue
		}
		selected := map[string]bool{}
		for _, n := range u.Spec.Funcs {
			selected[n] = false
		}
		for _, d := range u.allDecls() {
			fd, ok := d.(*ast.FuncDecl)
			if !ok {
				continue
			}
			name := fd.Name.Name
			if reason, skip := u.Spec.Skip[name]; skip {
				u.Skipped = append(u.Skipped, [2]string{name, reason})
				continue
			}
			if u.Spec.Funcs != nil {
				if _, sel := selected[name]; !sel {
					u.NotSel = append(u.NotSel, name)
					continue
				}
				selected[name] = true
			}
			if fd.Body == nil {
				t.unsupported(fd.Pos(), "function %s without body", name)
			}
			fi := &funcInfo{Unit: u, Name: name, Decl: fd, Needs: map[string]bool{}, TypeParms: map[string]bool{}}
			if fd.Recv != nil {
				rn, rt, tps, ok := recvInfo(fd)
				if !ok {
					t.unsupported(fd.Pos(), "receiver of %s", name)
				}
				for _, tp := range tps {
					fi.TypeParms[tp] = true
				}
				if a := t.opaqueIface(u, rt, fd.Pos()); a != nil {
					// method of an opaque (abstract) receiver type: a function of the abstract value
					fi.Params = append(fi.Params, param{rn, ty{K: kAbs, A: a}})
					fi.OpaqueRecv, fi.RecvName, fi.OpaqueIface = rt, rn, a
				} else {
					s := t.findStruct(u.Dir, rt, u)
					if s == nil {
						t.unsupported(fd.Pos(), "receiver type %s of %s is not a whitelisted struct", rt, name)
					}
					fi.Recv, fi.RecvName = s, rn
				}
			} else {
				fi.TypeParms = typeParamNames(fd.Type.TypeParams)
			}
			c := tctx{u, fi.TypeParms}
			for _, p := range fieldList(fd.Type.Params) {
				fi.Params = append(fi.Params, param{p.name, t.resolveType(p.typ, c)})
			}
			for _, p := range fieldList(fd.Type.Results) {
				fi.Results = append(fi.Results, param{p.name, t.resolveType(p.typ, c)})
			}
			if ps := fd.Type.Params.List; len(ps) > 0 {
				_, fi.Variadic = ps[len(ps)-1].Type.(*ast.Ellipsis)
			}
			for _, g := range t.funcs {
				if g.Unit == u && g.Recv == fi.Recv && g.Name == name {
					t.unsupported(fd.Pos(), "duplicate function %s", name)
				}
			}
			t.funcs = append(t.funcs, fi)
			u.Funcs = append(u.Funcs, fi)
		}
		for n, found := range selected {
			if !found {
				t.errs = append(t.errs, fmt.Sprintf("%s: whitelisted function %s has vanished from the file", u.Spec.GoFile, n))
			}
		}
		for n := range u.Spec.Skip {
			found := false
			for _, s := range u.Skipped {
				found = found || s[0] == n
			}
			if !found {
				t.errs = append(t.errs, fmt.Sprintf("%s: explicitly skipped function %s has vanished from the file", u.Spec.GoFile, n))
			}
		}
	}
	if len(t.errs) > 0 {
		panic(unsupportedErr{t.errs[len(t.errs)-1]})
	}
	// Coq names: the Go name unless it collides with a record, a field, a setter or a reserved word
	for _, u := range t.units {
		taken := map[string]bool{}
		for _, s := range u.Structs {
			taken[mangle(s.Name)] = true
			taken["mk"+s.Name] = true
			for _, f := range s.Fields {
				taken[f.Coq] = true
				taken["set_"+f.Name] = true
			}
		}
		for _, fi := range u.Funcs {
			n := mangle(fi.Name)
			if taken[n] && fi.Recv != nil {
				n = fi.Recv.Name + "_" + fi.Name
			}
			if taken[n] {
				t.errs = append(t.errs, fmt.Sprintf("%s: no free Coq name for function %s", u.Spec.GoFile, fi.Name))
			}
			taken[n] = true
			fi.Coq = n
		}
	}
}

// the method a call expression `recvName.M(...)` / plain `F(...)` refers to, if it is one of ours
func (t *translator) sameRecvCallee(fi *funcInfo, c *ast.CallExpr) *funcInfo {
	switch fn := c.Fun.(type) {
	case *ast.SelectorExpr:
		if id, ok := fn.X.(*ast.Ident); ok && fi.Recv != nil && id.Name == fi.RecvName {
			return t.findMethod(fi.Recv, fn.Sel.Name)
		}
	}
	return nil
}

// for it.Next() where `it := <expr>.Iterator()` is defined in the same body: a loop over a finite enumeration
func isIteratorLoop(body *ast.BlockStmt, loop *ast.ForStmt) bool {
	c, ok := loop.Cond.(*ast.CallExpr)
	if !ok || len(c.Args) != 0 {
		return false
	}
	sel, ok := c.Fun.(*ast.SelectorExpr)
	if !ok || sel.Sel.Name != "Next" {
		return false
	}
	id, ok := sel.X.(*ast.Ident)
	if !ok {
		return false
	}
	found := false
	ast.Inspect(body, func(n ast.Node) bool {
		if as, ok := n.(*ast.AssignStmt); ok && as.Tok == token.DEFINE && len(as.Lhs) == 1 && len(as.Rhs) == 1 {
			if l, ok := as.Lhs[0].(*ast.Ident); ok && l.Name == id.Name {
				if rc, ok := as.Rhs[0].(*ast.CallExpr); ok && len(rc.Args) == 0 {
					if rs, ok := rc.Fun.(*ast.SelectorExpr); ok && rs.Sel.Name == "Iterator" {
						found = true
					}
				}
			}
		}
		return true
	})
	return found
}

func rootIdent(x ast.Expr) string {
	for {
		switch y := x.(type) {
		case *ast.Ident:
			return y.Name
		case *ast.SelectorExpr:
			x = y.X
		case *ast.IndexExpr:
			x = y.X
		case *ast.ParenExpr:
			x = y.X
		case *ast.StarExpr:
			x = y.X
		case *ast.SliceExpr:
			x = y.X
		default:
			return ""
		}
	}
}

// write / partial / container-need analysis (fixpoint over calls on the same receiver)
func (t *translator) analyse() {
	var all []*funcInfo
	for _, u := range t.units {
		all = append(all, u.Funcs...)
		u.Funcs = nil // refilled in emission order by main
	}
	for _, fi := range all {
		fi := fi
		ast.Inspect(fi.Decl.Body, func(n ast.Node) bool {
			switch x := n.(type) {
			case *ast.AssignStmt:
				for _, l := range x.Lhs {
					if _, plain := l.(*ast.Ident); !plain && fi.Recv != nil && rootIdent(l) == fi.RecvName {
						fi.Writes = true
					}
				}
			case *ast.IncDecStmt:
				if _, plain := x.X.(*ast.Ident); !plain && fi.Recv != nil && rootIdent(x.X) == fi.RecvName {
					fi.Writes = true
				}
			case *ast.ForStmt:
				if x.Init == nil && x.Post == nil && !isIteratorLoop(fi.Decl.Body, x) {
					fi.Fuel, fi.Partial = true, true
				}
			case *ast.CallExpr:
				if id, ok := x.Fun.(*ast.Ident); ok && id.Name == "panic" {
					fi.Partial = true
				}
				// builtins that modify their first argument in place: delete(m, k), clear(x), copy(dst, src)
				if id, ok := x.Fun.(*ast.Ident); ok && (id.Name == "delete" || id.Name == "clear" || id.Name == "copy") && len(x.Args) > 0 {
					if _, plain := x.Args[0].(*ast.Ident); !plain && fi.Recv != nil && rootIdent(x.Args[0]) == fi.RecvName {
						fi.Writes = true
					}
				}
				if c := t.sameRecvCallee(fi, x); c != nil {
					fi.callees = append(fi.callees, c)
				}
				if sel, ok := x.Fun.(*ast.SelectorExpr); ok && fi.Recv != nil {
					if id, ok := sel.X.(*ast.Ident); ok && id.Name == fi.RecvName && fi.Unit.Spec.External[sel.Sel.Name] {
						fi.Writes = true
					}
				}
				if sel, ok := x.Fun.(*ast.SelectorExpr); ok && fi.OpaqueRecv != "" { // opaque receiver: recv.M(...)
					if id, ok := sel.X.(*ast.Ident); ok && id.Name == fi.RecvName {
						translated := false
						for _, g := range all {
							if g.Unit == fi.Unit && g.OpaqueRecv == fi.OpaqueRecv && g.Name == sel.Sel.Name {
								translated = true
								fi.callees = append(fi.callees, g)
							}
						}
						if !translated && !fi.OpaqueIface.Pure[sel.Sel.Name] && sel.Sel.Name != "Iterator" {
							fi.Writes = true
						}
					}
				}
				if sel, ok := x.Fun.(*ast.SelectorExpr); ok && fi.Recv != nil { // recv.field.M(...) with an abstract field
					if fs, ok := sel.X.(*ast.SelectorExpr); ok {
						if id, ok := fs.X.(*ast.Ident); ok && id.Name == fi.RecvName {
							if fl := fi.Recv.field(fs.Sel.Name); fl != nil && fl.Ty.K == kAbs && !fl.Ty.A.Pure[sel.Sel.Name] {
								fi.Writes = true
							}
						}
					}
				}
				if sel, ok := x.Fun.(*ast.SelectorExpr); ok { // emission order only: any function of this unit with that name
					for _, g := range all {
						if g.Unit == fi.Unit && g.Name == sel.Sel.Name && g != fi {
							fi.orderDeps = append(fi.orderDeps, g)
						}
					}
				}
				{ // F(...) / F[T](...): a plain function of this unit must be emitted first
					fun := x.Fun
					if ix, ok := fun.(*ast.IndexExpr); ok {
						fun = ix.X
					}
					if ix, ok := fun.(*ast.IndexListExpr); ok {
						fun = ix.X
					}
					if id, ok := fun.(*ast.Ident); ok {
						if c := t.findFunc(fi.Unit.Dir, id.Name, fi.Unit); c != nil && c != fi && c.Unit == fi.Unit {
							fi.orderDeps = append(fi.orderDeps, c)
						}
					}
				}
				if id, ok := x.Fun.(*ast.Ident); ok && fi.Recv == nil {
					if c := t.findFunc(fi.Unit.Dir, id.Name, fi.Unit); c != nil {
						fi.callees = append(fi.callees, c)
					}
				}
			case *ast.SelectorExpr:
				if id, ok := x.X.(*ast.Ident); ok && fi.Recv != nil && id.Name == fi.RecvName {
					if f := fi.Recv.field(x.Sel.Name); f != nil && f.Container {
						fi.Needs[f.Name] = true
					}
				}
			}
			return true
		})
	}
	t.analyseLoops(all) // loops.go: general loops, calls of fuelled / partial functions
	for changed := true; changed; {
		changed = false
		for _, fi := range all {
			for _, c := range fi.callees {
				if c.Writes && !fi.Writes {
					fi.Writes, changed = true, true
				}
				for n := range c.Needs {
					if !fi.Needs[n] {
						fi.Needs[n], changed = true, true
					}
				}
			}
		}
	}
}

// emission order inside a unit: callees first, otherwise source order
func (t *translator) order(u *unit) []*funcInfo {
	var mine []*funcInfo
	for _, fi := range t.funcs {
		if fi.Unit == u && !fi.External {
			mine = append(mine, fi)
		}
	}
	sort.Slice(mine, func(i, j int) bool { return mine[i].Decl.Pos() < mine[j].Decl.Pos() })
	var res []*funcInfo
	state := map[*funcInfo]int{}
	var visit func(fi *funcInfo)
	visit = func(fi *funcInfo) {
		if fi.Unit != u || state[fi] == 2 {
			return
		}
		if state[fi] == 1 {
			t.errs = append(t.errs, fmt.Sprintf("%s: recursion through %s", u.Spec.GoFile, fi.Name))
			return
		}
		state[fi] = 1
		for _, c := range fi.callees {
			visit(c)
		}
		for _, c := range fi.orderDeps {
			visit(c)
		}
		state[fi] = 2
		res = append(res, fi)
	}
	for _, fi := range mine {
		visit(fi)
	}
	return res
}

// ---------------------------------------------------------------- emission

func coqStrings(ns []string) string {
	var q []string
	for _, n := range ns {
		q = append(q, strconv.Quote(n))
	}
	return "[" + strings.Join(q, "; ") + "]%string"
}

func (t *translator) emit(u *unit) string {
	var b strings.Builder
	var names, skipped []string
	for _, fi := range u.Funcs {
		names = append(names, fi.Coq)
	}
	for _, s := range u.Skipped {
		skipped = append(skipped, s[0])
	}
	// record declarations first: they add dependencies
	var recs strings.Builder
	for _, s := range u.Structs {
		var fs, args []string
		for _, f := range s.Fields {
			if f.Container {
				continue
			}
			fs = append(fs, f.Coq+" : "+t.coqType(f.Ty, u))
		}
		if len(fs) == 0 {
			t.errs = append(t.errs, fmt.Sprintf("%s: struct %s has no translatable field", u.Spec.GoFile, s.Name))
		}
		fmt.Fprintf(&recs, "(* %s:%d  type %s", u.Spec.GoFile, t.fset.Position(s.pos).Line, s.Name)
		for _, f := range s.containers() {
			fmt.Fprintf(&recs, "; field %s (pointer to the container %s) is a PARAMETER of the methods, not a field", f.Name, f.Ty.S.Name)
		}
		for _, ig := range s.Ignored {
			fmt.Fprintf(&recs, "; field %s IGNORED (%s)", ig, u.Spec.IgnoreFields[ig])
		}
		fmt.Fprintf(&recs, " *)\nRecord %s := mk%s { %s }.\n", mangle(s.Name), s.Name, strings.Join(fs, "; "))
		for i, f := range s.Fields {
			if f.Container {
				continue
			}
			args = nil
			for j, g := range s.Fields {
				if g.Container {
					continue
				}
				if i == j {
					args = append(args, "x")
				} else {
					args = append(args, "("+g.Coq+" s)")
				}
			}
			fmt.Fprintf(&recs, "Definition set_%s (s : %s) (x : %s) : %s := mk%s %s.\n", f.Name, mangle(s.Name), t.coqType(f.Ty, u), mangle(s.Name), s.Name, strings.Join(args, " "))
		}
		recs.WriteString("\n")
	}
	fmt.Fprintf(&b, "(* GENERATED by /verif/srcgen (srcgen -repo ... -out ...) -- DO NOT EDIT.\n")
	fmt.Fprintf(&b, "   source: %s  (sha256 %s, %d lines)\n", u.Spec.GoFile, u.Sha, u.SrcLines)
	for _, x := range u.ExtraSha {
		fmt.Fprintf(&b, "   and:    %s\n", x)
	}
	if u.Spec.CapSlices {
		fmt.Fprintf(&b, "   CAPACITY-AWARE unit: []T is GoSlice.slice (backing array up to the capacity + length); aliasing between\n   slices is NOT modelled; float32 factors are exact dyadic constants (ints below 2^24);\n")
	}
	fmt.Fprintf(&b, "   ints are Z (overflow is NOT modelled), the type parameter T is Z, []T is list Z, bool is bool;\n")
	fmt.Fprintf(&b, "   index-out-of-range / nil panics are NOT modelled (ListAux.get / ListAux.set are total).\n")
	fmt.Fprintf(&b, "   translated: %s\n", strings.Join(names, ", "))
	for _, s := range u.Skipped {
		fmt.Fprintf(&b, "   SKIPPED explicitly: %s -- %s\n", s[0], s[1])
	}
	if len(u.NotSel) > 0 {
		fmt.Fprintf(&b, "   not selected by the whitelist (only the functions above are needed by other units): %s\n", strings.Join(u.NotSel, ", "))
	}
	fmt.Fprintf(&b, "*)\nFrom Coq Require Import String.\nFrom Coq Require Import ZArith List Bool.\nFrom Gods Require Import Common.ListAux.\n")
	var deps []string
	for d := range u.Deps {
		deps = append(deps, d)
	}
	sort.Strings(deps)
	for _, d := range deps {
		fmt.Fprintf(&b, "From GodsGen Require %s.\n", d)
	}
	if u.UsesJson {
		u.UsesMap = true
		fmt.Fprintf(&b, "From GodsGenProofs Require GoJson. (* hand-written: bytes / errors for the abstract encoding/json, /verif/srcgen/coq/GoJson.v *)\n")
	}
	if u.UsesCmp {
		fmt.Fprintf(&b, "From GodsGenProofs Require GoCmp. (* hand-written: comparators and tree nodes, /verif/srcgen/coq/GoCmp.v *)\n")
	}
	if usesUint[u] {
		fmt.Fprintf(&b, "From GodsGenProofs Require GoUint. (* hand-written: unsigned ints (wrap-around + and -, shifts by an unsigned count), /verif/srcgen/coq/GoUint.v *)\n")
	}
	if usesCmpCall[u] {
		fmt.Fprintf(&b, "From GodsGenProofs Require GoCmpCall. (* hand-written: the sign tests of comparator calls, /verif/srcgen/coq/GoCmpCall.v *)\n")
	}
	if u.UsesMap {
		fmt.Fprintf(&b, "From GodsGenProofs Require GoMap. (* hand-written: Go maps as canonical association lists, /verif/srcgen/coq/GoMap.v *)\n")
	}
	if u.Spec.CapSlices {
		fmt.Fprintf(&b, "From GodsGenProofs Require GoSlice. (* hand-written: slices with capacity, /verif/srcgen/coq/GoSlice.v *)\n")
	}
	fmt.Fprintf(&b, "Import ListNotations.\nLocal Open Scope Z_scope.\n\n")
	if usesDo[u] {
		fmt.Fprintf(&b, "(* a call of a partial function / a general loop: None (panic, out of fuel) ends the function *)\nLocal Notation \"'do' x <- e ; k\" := (match e with Some x => k | None => None end)\n  (at level 200, x pattern, e at level 100, k at level 200, only parsing).\n\n")
	}
	for _, a := range u.Abs {
		// the abstract interface of a wrapped container: only the methods this file calls
		var ns []string
		for n := range a.Methods {
			ns = append(ns, n)
		}
		sort.Strings(ns)
		fmt.Fprintf(&b, "(* abstract interface of the wrapped container %s.%s (field %s); read-only methods: ", a.Dir, a.Type, a.Field)
		var pure []string
		for _, n := range ns {
			if a.Pure[n] {
				pure = append(pure, n)
			}
		}
		fmt.Fprintf(&b, "%s *)\n", strings.Join(pure, ", "))
		fmt.Fprintf(&b, "Record %s_iface := mk_%s_iface {\n  %s_T : Type", a.Field, a.Field, a.Field)
		for _, n := range ns {
			fi := a.Methods[n]
			parts := []string{a.Field + "_T"}
			if fi.Static {
				parts = nil
			}
			for _, p := range fi.Params {
				parts = append(parts, t.coqType(p.Ty, u))
			}
			var rs []ty
			for _, r := range fi.Results {
				rs = append(rs, r.Ty)
			}
			res := t.resultType(rs, u)
			if len(rs) == 1 && rs[0].K == kAbs {
				res = a.Field + "_T"
			}
			if fi.Name == "Iterator" && fi.Coq == a.Field+"_Iterator_enum" {
				res = "Datatypes.list (Z * Z)"
			}
			if fi.Writes {
				res = "(" + a.Field + "_T * " + res + ")"
			}
			parts = append(parts, res)
			fmt.Fprintf(&b, ";\n  %s : %s", fi.Coq, strings.Join(parts, " -> "))
		}
		fmt.Fprintf(&b, " }.\n\n")
	}
	if u.UsesRT {
		fmt.Fprintf(&b, "(* the capacity the Go runtime gives to a slice it allocates for n elements (slices.Clone, a reallocating\n   append / slices.Insert) is implementation-defined: a parameter *)\nSection Runtime.\nVariable alloc_cap : Z -> Z.\n\n")
	}
	if u.UsesJson {
		fmt.Fprintf(&b, "(* encoding/json is ABSTRACT: json.Unmarshal(data, &x) gives x the value unmarshal_*(data, old x) and returns the\n   error flag (true = error; x may be changed on an error too); json.Marshal(x) = marshal_*(x) *)\nSection Json.\n")
		fmt.Fprintf(&b, "Variable unmarshal_slice : GoJson.bytes -> Datatypes.list Z -> (Datatypes.list Z * bool).\n")
		fmt.Fprintf(&b, "Variable unmarshal_map : GoJson.bytes -> GoMap.gmap -> (GoMap.gmap * bool).\n")
		fmt.Fprintf(&b, "Variable marshal_slice : Datatypes.list Z -> (GoJson.bytes * bool).\n")
		fmt.Fprintf(&b, "Variable marshal_map : GoMap.gmap -> (GoJson.bytes * bool).\n")
		if u.Spec.CapSlices {
			fmt.Fprintf(&b, "Variable unmarshal_cslice : GoJson.bytes -> GoSlice.slice -> (GoSlice.slice * bool).\n")
		}
		if u.UsesNilP {
			fmt.Fprintf(&b, "Variable slice_is_nil : GoSlice.slice -> bool. (* nil-ness of a slice is not part of GoSlice.slice *)\n")
		}
		b.WriteString("\n")
	}
	if usesSort[u] {
		fmt.Fprintf(&b, "(* slices.Sort / slices.SortFunc are ABSTRACT (the algorithm is unstable and unspecified): parameters; the proofs assume\n   only that the result is a sorted permutation *)\nSection Sorting.\nVariable sort_slice : Datatypes.list Z -> Datatypes.list Z.\nVariable sort_slice_func : GoCmp.comparator -> Datatypes.list Z -> Datatypes.list Z.\n\n")
	}
	if u.UsesSame {
		fmt.Fprintf(&b, "(* reflect.ValueOf(c1).Pointer() == reflect.ValueOf(c2).Pointer(): whether two comparators are THE SAME function\n   value is not expressible on mathematical functions: an abstract boolean (as in the model) *)\nSection SameComparator.\nVariable same_comparator : GoCmp.comparator -> GoCmp.comparator -> bool.\n\n")
	}
	if u.UsesMO {
		fmt.Fprintf(&b, "(* the order in which `range` visits a map is unspecified: a parameter (any enumeration of the entries) *)\nSection MapOrder.\nVariable map_order : GoMap.gmap -> Datatypes.list (Z * Z).\n\n")
	}
	if len(u.Abs) > 0 {
		fmt.Fprintf(&b, "Section Wrapped.\n")
		for _, a := range u.Abs {
			fmt.Fprintf(&b, "Variable %s_I : %s_iface.\n", a.Field, a.Field)
		}
		b.WriteString("\n")
	}
	if len(u.Externals) > 0 {
		fmt.Fprintf(&b, "(* methods of the struct that are not translated (declared in another file of the package) but called: parameters *)\nSection Externals.\n\n")
	}
	if len(u.IterEnums) > 0 {
		fmt.Fprintf(&b, "(* x.Iterator() / for it.Next(): the iterator is the abstract enumeration of the (index-or-key, value) pairs\n   of the container (what Machine.each_of / the C08 cursor say it walks): a parameter *)\nSection Iterators.\n\n")
	}
	b.WriteString(recs.String())
	for _, s := range u.IterEnums {
		fmt.Fprintf(&b, "Variable %s_Iterator_enum : %s -> Datatypes.list (Z * Z).\n", s.Name, mangle(s.Name))
	}
	if len(u.IterEnums) > 0 {
		b.WriteString("\n")
	}
	for _, x := range u.Externals {
		parts := []string{mangle(x.Recv.Name)}
		for _, p := range x.Params {
			parts = append(parts, t.coqType(p.Ty, u))
		}
		var rs []ty
		for _, r := range x.Results {
			rs = append(rs, r.Ty)
		}
		res := t.resultType(rs, u)
		if x.Writes {
			res = "(" + mangle(x.Recv.Name) + " * " + res + ")"
		}
		fmt.Fprintf(&b, "Variable %s : %s.\n", x.Coq, strings.Join(append(parts, res), " -> "))
	}
	if len(u.Externals) > 0 {
		b.WriteString("\n")
	}
	for _, fi := range u.Funcs {
		b.WriteString(fi.text)
		b.WriteString("\n")
	}
	if len(u.IterEnums) > 0 {
		fmt.Fprintf(&b, "End Iterators.\n\n")
	}
	if len(u.Externals) > 0 {
		fmt.Fprintf(&b, "End Externals.\n\n")
	}
	if len(u.Abs) > 0 {
		fmt.Fprintf(&b, "End Wrapped.\n\n")
	}
	if u.UsesMO {
		fmt.Fprintf(&b, "End MapOrder.\n\n")
	}
	if u.UsesSame {
		fmt.Fprintf(&b, "End SameComparator.\n\n")
	}
	if usesSort[u] {
		fmt.Fprintf(&b, "End Sorting.\n\n")
	}
	if u.UsesJson {
		fmt.Fprintf(&b, "End Json.\n\n")
	}
	if u.UsesRT {
		fmt.Fprintf(&b, "End Runtime.\n\n")
	}
	fmt.Fprintf(&b, "Definition source_file : string := %s%%string.\n", strconv.Quote(u.Spec.GoFile))
	sorted := append([]string(nil), names...)
	sort.Strings(sorted) // a set: the emission order (callees first) is not part of the interface
	fmt.Fprintf(&b, "Definition translated : Datatypes.list string := %s.\n", coqStrings(sorted))
	sort.Strings(skipped)
	fmt.Fprintf(&b, "Definition skipped : Datatypes.list string := %s.\n", coqStrings(skipped))
	fmt.Fprintf(&b, "Definition not_selected : Datatypes.list string := %s.\n", coqStrings(u.NotSel))
	return b.String()
}
