#!/bin/bash
# usage: validate_tree.sh [repo-dir]   (default /repo)
# Seeded changes for the TREE POINTER MODE units (README.md, "Tree pointer mode" rows of the validation table): every
# change is applied to a scratch export of repo-dir (git archive HEAD; deleted afterwards), run.sh is run on it, and the
# failed obligations / the refusal are printed.  Never touches repo-dir.
here=$(cd "$(dirname "$0")" && pwd)
repo=${1:-/repo}
scratch=$(mktemp -d /tmp/srcgen_treeval.XXXXXX)
trap 'rm -rf "$scratch"' EXIT
git -C "$repo" archive HEAD | tar -x -C "$scratch" || exit 3
exec python3 - "$here" "$repo" "$scratch" <<'PY'
import sys, subprocess, json, shutil
here, repo, scratch = sys.argv[1:4]
RB, RBI, AVL = 'trees/redblacktree/redblacktree.go', 'trees/redblacktree/iterator.go', 'trees/avltree/avltree.go'
LOOKUP_TAIL = "\t\tcase compare < 0:\n\t\t\tnode = node.Left\n\t\tcase compare > 0:\n\t\t\tnode = node.Right\n\t\t}\n\t}\n\treturn nil\n}"
muts = [
 ("r1 lookup: < and > swapped", RB, [(LOOKUP_TAIL, LOOKUP_TAIL.replace("compare < 0", "compare @ 0").replace("compare > 0", "compare < 0").replace("compare @ 0", "compare > 0"))]),
 ("r2 lookup: compare == -1", RB, [(LOOKUP_TAIL, LOOKUP_TAIL.replace("compare < 0", "compare == -1"))]),
 ("r3 Floor: candidate on the < branch", RB, [("\t\tcase compare < 0:\n\t\t\tnode = node.Left\n\t\tcase compare > 0:\n\t\t\tfloor, found = node, true\n\t\t\tnode = node.Right",
                                               "\t\tcase compare < 0:\n\t\t\tfloor, found = node, true\n\t\t\tnode = node.Left\n\t\tcase compare > 0:\n\t\t\tnode = node.Right")]),
 ("r4 Left walks Right", RB, [("\t\tparent = current\n\t\tcurrent = current.Left\n", "\t\tparent = current\n\t\tcurrent = current.Right\n")]),
 ("r5 Next: climb once", RBI, [("\tfor iterator.node.Parent != nil {\n\t\tnode := iterator.node\n\t\titerator.node = iterator.node.Parent\n\t\tif node == iterator.node.Left {",
                                "\tif iterator.node.Parent != nil {\n\t\tnode := iterator.node\n\t\titerator.node = iterator.node.Parent\n\t\tif node == iterator.node.Left {")]),
 ("r6 Prev compares with Left", RBI, [("\t\tif node == iterator.node.Right {\n\t\t\tgoto between", "\t\tif node == iterator.node.Left {\n\t\t\tgoto between")]),
 ("r7 rotateLeft forgets right.Left.Parent", RB, [("\tif right.Left != nil {\n\t\tright.Left.Parent = node\n\t}\n", "")]),
 ("r8 rotateRight forgets node.Parent", RB, [("\tleft.Right = node\n\tnode.Parent = left\n", "\tleft.Right = node\n")]),
 ("r9 maximumNode walks Left", RB, [("\tfor node.Right != nil {\n\t\tnode = node.Right\n\t}\n\treturn node", "\tfor node.Left != nil {\n\t\tnode = node.Left\n\t}\n\treturn node")]),
 ("r10 insertCase5: grandparent black", RB, [("\tgrandparent := node.grandparent()\n\tgrandparent.color = red\n", "\tgrandparent := node.grandparent()\n\tgrandparent.color = black\n")]),
 ("r11 deleteCase6 forgets a colour", RB, [("\t\tsibling.Right.color = black\n\t\ttree.rotateLeft(node.Parent)", "\t\ttree.rotateLeft(node.Parent)")]),
 ("r12 Put counts an overwrite", RB, [("\t\t\t\tnode.Value = value\n\t\t\t\treturn", "\t\t\t\tnode.Value = value\n\t\t\t\ttree.size++\n\t\t\t\treturn")]),
 ("r15 Put forgets insertedNode.Parent = node", RB, [("\t\tinsertedNode.Parent = node\n", "")]),
 ("r16 insertCase3 forgets uncle.color = black", RB, [("\t\tnode.Parent.color = black\n\t\tuncle.color = black\n", "\t\tnode.Parent.color = black\n")]),
 ("r17 Put links the new node on the wrong side", RB, [("\t\t\t\tif node.Left == nil {\n\t\t\t\t\tnode.Left = &Node[K, V]{Key: key, Value: value, color: red}\n\t\t\t\t\tinsertedNode = node.Left",
                                                        "\t\t\t\tif node.Left == nil {\n\t\t\t\t\tnode.Right = &Node[K, V]{Key: key, Value: value, color: red}\n\t\t\t\t\tinsertedNode = node.Right")]),
 ("r18 insertCase4 rotates the wrong way", RB, [("\tif node == node.Parent.Right && node.Parent == grandparent.Left {\n\t\ttree.rotateLeft(node.Parent)\n\t\tnode = node.Left",
                                                  "\tif node == node.Parent.Right && node.Parent == grandparent.Left {\n\t\ttree.rotateRight(node.Parent)\n\t\tnode = node.Left")]),
 ("r19 harmless: insertCase4 with a renamed local", RB, [("\tgrandparent := node.grandparent()\n\tif node == node.Parent.Right && node.Parent == grandparent.Left {\n\t\ttree.rotateLeft(node.Parent)\n\t\tnode = node.Left\n\t} else if node == node.Parent.Left && node.Parent == grandparent.Right {",
                                                            "\tgp := node.grandparent()\n\tif node == node.Parent.Right && node.Parent == gp.Left {\n\t\ttree.rotateLeft(node.Parent)\n\t\tnode = node.Left\n\t} else if node == node.Parent.Left && node.Parent == gp.Right {")]),
 ("r20 harmless but ANOTHER SHAPE: insertCase2 with the test inverted", RB, [("\tif nodeColor(node.Parent) == black {\n\t\treturn\n\t}\n\ttree.insertCase3(node)", "\tif nodeColor(node.Parent) != black {\n\t\ttree.insertCase3(node)\n\t}")]),
 ("r13 harmless: Left with renamed locals", RB, [("\tvar parent *Node[K, V]\n\tcurrent := tree.Root\n\tfor current != nil {\n\t\tparent = current\n\t\tcurrent = current.Left\n\t}\n\treturn parent",
                                                   "\tvar last *Node[K, V]\n\tcur := tree.Root\n\tfor cur != nil {\n\t\tlast = cur\n\t\tcur = cur.Left\n\t}\n\treturn last")]),
 ("r14 harmless: lookup with if / else if", RB, [("\t\tswitch {\n\t\tcase compare == 0:\n\t\t\treturn node\n" + LOOKUP_TAIL,
                                                   "\t\tif compare == 0 {\n\t\t\treturn node\n\t\t} else if compare < 0 {\n\t\t\tnode = node.Left\n\t\t} else if compare > 0 {\n\t\t\tnode = node.Right\n\t\t}\n\t}\n\treturn nil\n}")]),
 ("a1 AVL GetNode: wrong child", AVL, [("\t\tcase cmp < 0:\n\t\t\tn = n.Children[0]", "\t\tcase cmp < 0:\n\t\t\tn = n.Children[1]")]),
 ("a2 AVL bottom: other child in the loop", AVL, [("c != nil; c = n.Children[d] {", "c != nil; c = n.Children[d^1] {")]),
 ("a3 AVL walk1: climbs on the wrong side", AVL, [("\tfor p != nil && p.Children[a] == n {", "\tfor p != nil && p.Children[a^1] == n {")]),
 ("x1 refused: range loop in Left", RB, [("\tvar parent *Node[K, V]\n\tcurrent := tree.Root\n\tfor current != nil {\n\t\tparent = current\n\t\tcurrent = current.Left\n",
                                          "\tvar parent *Node[K, V]\n\tcurrent := tree.Root\n\tfor range []int{1} {\n\t}\n\tfor current != nil {\n\t\tparent = current\n\t\tcurrent = current.Left\n")]),
 ("x2 refused: continue in lookup", RB, [(LOOKUP_TAIL, LOOKUP_TAIL.replace("\t\t\tnode = node.Right\n\t\t}\n", "\t\t\tnode = node.Right\n\t\t}\n\t\tcontinue\n"))]),
 ("x3 refused: **Node parameter", RB, [("func (tree *Tree[K, V]) rotateLeft(node *Node[K, V]) {\n\tright := node.Right", "func (tree *Tree[K, V]) rotateLeft(node *Node[K, V]) {\n\ttree.touch(&node)\n\tright := node.Right"),
                                        ("func (tree *Tree[K, V]) rotateRight(", "func (tree *Tree[K, V]) touch(p **Node[K, V]) {\n}\n\nfunc (tree *Tree[K, V]) rotateRight(")]),
 ("x4 a field added to Node", RB, [("\tParent *Node[K, V]\n}", "\tParent *Node[K, V]\n\theight int\n}")]),
]
bad = 0
for name, f, pairs in muts:
    src = open(repo + '/' + f).read()
    s = src
    for old, new in pairs:
        if s.count(old) != 1:
            print("== %s: PATTERN NOT FOUND (%d occurrences) -- the source has changed, update validate_tree.sh" % (name, s.count(old)))
            bad += 1
            s = None
            break
        s = s.replace(old, new)
    if s is None:
        continue
    open(scratch + '/' + f, 'w').write(s)
    p = subprocess.run([here + '/run.sh', scratch], stdout=subprocess.PIPE, text=True)
    open(scratch + '/' + f, 'w').write(src)
    d = json.loads(p.stdout)
    print("== %s: exit %d, %d / %d discharged, %.0f s" % (name, p.returncode, d['discharged'], d['obligations'], d['wall_s']))
    for x in d['failed']:
        print("     %s %s | %s" % (x.get('file'), x.get('theorem', ''), x.get('error', '')[:150]))
sys.exit(1 if bad else 0)
PY
