#!/bin/bash
# usage: validate_tree.sh [repo-dir [name-regex]]   (default /repo, all changes)
# Seeded changes for the TREE POINTER MODE units, the linkedhashmap encoder and the wrappers composed with the pointer code
# (README.md, "Tree pointer mode" rows of the validation table): every
# change is applied to a scratch export of repo-dir (git archive HEAD; deleted afterwards), run.sh is run on it, and the
# failed obligations / the refusal are printed.  Never touches repo-dir.
here=$(cd "$(dirname "$0")" && pwd)
repo=${1:-/repo}
scratch=$(mktemp -d /tmp/srcgen_treeval.XXXXXX)
trap 'rm -rf "$scratch"' EXIT
git -C "$repo" archive HEAD | tar -x -C "$scratch" || exit 3
python3 - "$here" "$repo" "$scratch" "${2:-}" <<'PY'
import sys, subprocess, json, shutil, re
here, repo, scratch, only = sys.argv[1:5]
RB, RBI, AVL = 'trees/redblacktree/redblacktree.go', 'trees/redblacktree/iterator.go', 'trees/avltree/avltree.go'
LHJ = 'maps/linkedhashmap/serialization.go'
LOOKUP_TAIL = "\t\tcase compare < 0:\n\t\t\tnode = node.Left\n\t\tcase compare > 0:\n\t\t\tnode = node.Right\n\t\t}\n\t}\n\treturn nil\n}"
muts = [
 ("r1 lookup: < and > swapped", RB, [(LOOKUP_TAIL, LOOKUP_TAIL.replace("compare < 0", "compare @ 0").replace("compare > 0", "compare < 0").replace("compare @ 0", "compare > 0"))]),
 ("r2 lookup: compare == -1", RB, [(LOOKUP_TAIL, LOOKUP_TAIL.replace("compare < 0", "compare == -1"))]),
 ("r3 Floor: candidate on the < branch", RB, [("\t\tcase compare < 0:\n\t\t\tnode = node.Left\n\t\tcase compare > 0:\n\t\t\tfloor, found = node, true\n\t\t\tnode = node.Right",
                                               "\t\tcase compare < 0:\n\t\t\tfloor, found = node, true\n\t\t\tnode = node.Left\n\t\tcase compare > 0:\n\t\t\tnode = node.Right")]),
 ("r4 Left walks Right", RB, [("\t\tparent = current\n\t\tcurrent = current.Left\n", "\t\tparent = current\n\t\tcurrent = current.Right\n")]),
 ("r5 Next: climb once", RBI, [("\tfor iterator.node.Parent != nil {\n\t\tnode := iterator.node\n\t\titerator.node = iterator.node.Parent\n\t\tif node == iterator.node.Left {",
                                "\tif iterator.node.Parent != nil {\n\t\tnode := iterator.node\n\t\titerator.node = iterator.node.Parent\n\t\tif node == iterator.node.Left {")]),
 ("r6 Prev compares with Left", RBI, [("\t\tif node == iterator.node.Right {\n\t\t\tgoto between", "\t\tif node == iterator.node.Left {\n\t\t\tgoto between")]),
 ("r7 rotateLeft forgets right.Left.Parent", RB, [("\tif right.Left != nil {\n\t\tright.Left.Parent = node\n\t}\n", "")]),
 ("r8 rotateRight forgets node.Parent", RB, [("\tleft.Right = node\n\tnode.Parent = left\n", "\tleft.Right = node\n")]),
 ("r9 maximumNode walks Left", RB, [("\tfor node.Right != nil {\n\t\tnode = node.Right\n\t}\n\treturn node", "\tfor node.Left != nil {\n\t\tnode = node.Left\n\t}\n\treturn node")]),
 ("r10 insertCase5: grandparent black", RB, [("\tgrandparent := node.grandparent()\n\tgrandparent.color = red\n", "\tgrandparent := node.grandparent()\n\tgrandparent.color = black\n")]),
 ("r11 deleteCase6 forgets a colour", RB, [("\t\tsibling.Right.color = black\n\t\ttree.rotateLeft(node.Parent)", "\t\ttree.rotateLeft(node.Parent)")]),
 ("r12 Put counts an overwrite", RB, [("\t\t\t\tnode.Value = value\n\t\t\t\treturn", "\t\t\t\tnode.Value = value\n\t\t\t\ttree.size++\n\t\t\t\treturn")]),
 ("r15 Put forgets insertedNode.Parent = node", RB, [("\t\tinsertedNode.Parent = node\n", "")]),
 ("r16 insertCase3 forgets uncle.color = black", RB, [("\t\tnode.Parent.color = black\n\t\tuncle.color = black\n", "\t\tnode.Parent.color = black\n")]),
 ("r17 Put links the new node on the wrong side", RB, [("\t\t\t\tif node.Left == nil {\n\t\t\t\t\tnode.Left = &Node[K, V]{Key: key, Value: value, color: red}\n\t\t\t\t\tinsertedNode = node.Left",
                                                        "\t\t\t\tif node.Left == nil {\n\t\t\t\t\tnode.Right = &Node[K, V]{Key: key, Value: value, color: red}\n\t\t\t\t\tinsertedNode = node.Right")]),
 ("r18 insertCase4 rotates the wrong way", RB, [("\tif node == node.Parent.Right && node.Parent == grandparent.Left {\n\t\ttree.rotateLeft(node.Parent)\n\t\tnode = node.Left",
                                                  "\tif node == node.Parent.Right && node.Parent == grandparent.Left {\n\t\ttree.rotateRight(node.Parent)\n\t\tnode = node.Left")]),
 ("r19 harmless: insertCase4 with a renamed local", RB, [("\tgrandparent := node.grandparent()\n\tif node == node.Parent.Right && node.Parent == grandparent.Left {\n\t\ttree.rotateLeft(node.Parent)\n\t\tnode = node.Left\n\t} else if node == node.Parent.Left && node.Parent == grandparent.Right {",
                                                            "\tgp := node.grandparent()\n\tif node == node.Parent.Right && node.Parent == gp.Left {\n\t\ttree.rotateLeft(node.Parent)\n\t\tnode = node.Left\n\t} else if node == node.Parent.Left && node.Parent == gp.Right {")]),
 ("r20 harmless but ANOTHER SHAPE: insertCase2 with the test inverted", RB, [("\tif nodeColor(node.Parent) == black {\n\t\treturn\n\t}\n\ttree.insertCase3(node)", "\tif nodeColor(node.Parent) != black {\n\t\ttree.insertCase3(node)\n\t}")]),
 ("d1 deleteCase2 forgets sibling.color = black", RB, [("\t\tnode.Parent.color = red\n\t\tsibling.color = black\n", "\t\tnode.Parent.color = red\n")]),
 ("d2 deleteCase3 forgets sibling.color = red", RB, [("\t\tsibling.color = red\n\t\ttree.deleteCase1(node.Parent)", "\t\ttree.deleteCase1(node.Parent)")]),
 ("d3 deleteCase4 forgets node.Parent.color = black", RB, [("\t\tsibling.color = red\n\t\tnode.Parent.color = black\n", "\t\tsibling.color = red\n")]),
 ("d4 deleteCase5 rotates the sibling the wrong way", RB, [("\t\tsibling.Left.color = black\n\t\ttree.rotateRight(sibling)", "\t\tsibling.Left.color = black\n\t\ttree.rotateLeft(sibling)")]),
 ("d5 deleteCase6 rotates the parent the wrong way", RB, [("\t\tsibling.Right.color = black\n\t\ttree.rotateLeft(node.Parent)", "\t\tsibling.Right.color = black\n\t\ttree.rotateRight(node.Parent)")]),
 ("d6 Remove forgets size--", RB, [("\t\t\tchild.color = black\n\t\t}\n\t}\n\ttree.size--\n", "\t\t\tchild.color = black\n\t\t}\n\t}\n")]),
 ("d7 Remove always takes node.Left as the child", RB, [("\t\t} else {\n\t\t\tchild = node.Right\n\t\t}", "\t\t} else {\n\t\t\tchild = node.Left\n\t\t}")]),
 ("d8 Remove copies the predecessor's key but not its value", RB, [("\t\tnode.Key = pred.Key\n\t\tnode.Value = pred.Value\n", "\t\tnode.Key = pred.Key\n")]),
 ("d9 Remove does not blacken the new root", RB, [("\t\tif node.Parent == nil && child != nil {\n\t\t\tchild.color = black\n\t\t}\n", "")]),
 ("d10 Remove: replaceNode before the fix-up", RB, [("\t\tif node.color == black {\n\t\t\tnode.color = nodeColor(child)\n\t\t\ttree.deleteCase1(node)\n\t\t}\n\t\ttree.replaceNode(node, child)\n",
                                                     "\t\ttree.replaceNode(node, child)\n\t\tif node.color == black {\n\t\t\tnode.color = nodeColor(child)\n\t\t\ttree.deleteCase1(node)\n\t\t}\n")]),
 ("d11 harmless: Remove with a renamed local", RB, [("\t\tpred := node.Left.maximumNode()\n\t\tnode.Key = pred.Key\n\t\tnode.Value = pred.Value\n\t\tnode = pred\n", "\t\tp2 := node.Left.maximumNode()\n\t\tnode.Key = p2.Key\n\t\tnode.Value = p2.Value\n\t\tnode = p2\n")]),
 ("k1 Keys stores the values", RB, [("\t\tkeys[i] = it.Key()", "\t\tkeys[i] = it.Value()")]),
 ("k2 Values starts at index 1", RB, [("\tfor i := 0; it.Next(); i++ {\n\t\tvalues[i] = it.Value()", "\tfor i := 1; it.Next(); i++ {\n\t\tvalues[i] = it.Value()")]),
 ("n1 NextTo reports false when it finds the element", RBI, [("\tfor iterator.Next() {\n\t\tkey, value := iterator.Key(), iterator.Value()\n\t\tif f(key, value) {\n\t\t\treturn true", "\tfor iterator.Next() {\n\t\tkey, value := iterator.Key(), iterator.Value()\n\t\tif f(key, value) {\n\t\t\treturn false")]),
 ("n2 AVL PrevTo walks forward", 'trees/avltree/iterator.go', [("\tfor iterator.Prev() {", "\tfor iterator.Next() {")]),
 ("x5 refused: Keys through an iterator that is not built from the receiver", RB, [("\tkeys := make([]K, tree.size)\n\tit := tree.Iterator()", "\tkeys := make([]K, tree.size)\n\tit := &Iterator[K, V]{tree: tree, node: nil, position: begin}")]),
 ("r13 harmless: Left with renamed locals", RB, [("\tvar parent *Node[K, V]\n\tcurrent := tree.Root\n\tfor current != nil {\n\t\tparent = current\n\t\tcurrent = current.Left\n\t}\n\treturn parent",
                                                   "\tvar last *Node[K, V]\n\tcur := tree.Root\n\tfor cur != nil {\n\t\tlast = cur\n\t\tcur = cur.Left\n\t}\n\treturn last")]),
 ("r14 harmless: lookup with if / else if", RB, [("\t\tswitch {\n\t\tcase compare == 0:\n\t\t\treturn node\n" + LOOKUP_TAIL,
                                                   "\t\tif compare == 0 {\n\t\t\treturn node\n\t\t} else if compare < 0 {\n\t\t\tnode = node.Left\n\t\t} else if compare > 0 {\n\t\t\tnode = node.Right\n\t\t}\n\t}\n\treturn nil\n}")]),
 ("a1 AVL GetNode: wrong child", AVL, [("\t\tcase cmp < 0:\n\t\t\tn = n.Children[0]", "\t\tcase cmp < 0:\n\t\t\tn = n.Children[1]")]),
 ("a2 AVL bottom: other child in the loop", AVL, [("c != nil; c = n.Children[d] {", "c != nil; c = n.Children[d^1] {")]),
 ("a3 AVL walk1: climbs on the wrong side", AVL, [("\tfor p != nil && p.Children[a] == n {", "\tfor p != nil && p.Children[a^1] == n {")]),
 ("w1 AVL putFix: wrong balance update (s.b = -c)", AVL, [("func putFix[K comparable, V any](c int8, t **Node[K, V]) bool {\n\ts := *t\n\tif s.b == 0 {\n\t\ts.b = c\n", "func putFix[K comparable, V any](c int8, t **Node[K, V]) bool {\n\ts := *t\n\tif s.b == 0 {\n\t\ts.b = -c\n")]),
 ("w2 AVL rotate forgets r.Parent = s.Parent", AVL, [("\tr.Children[a^1] = s\n\tr.Parent = s.Parent\n", "\tr.Children[a^1] = s\n")]),
 ("w3 AVL singlerot forgets the second s.b = 0", AVL, [("\ts = rotate(c, s)\n\ts.b = 0\n\treturn s", "\ts = rotate(c, s)\n\treturn s")]),
 ("w4 AVL doublerot rotates the wrong child", AVL, [("\ts.Children[a] = rotate(-c, s.Children[a])", "\ts.Children[a] = rotate(-c, s.Children[a^1])")]),
 ("w5 AVL doublerot: r.b = -c", AVL, [("\tcase p.b == -c:\n\t\ts.b = 0\n\t\tr.b = c\n", "\tcase p.b == -c:\n\t\ts.b = 0\n\t\tr.b = -c\n")]),
 ("w6 AVL put does not increment size", AVL, [("\tif q == nil {\n\t\ttree.size++\n", "\tif q == nil {\n")]),
 ("w7 AVL put recurses into the wrong child", AVL, [("\ta := (c + 1) / 2\n\tvar fix bool\n", "\ta := (1 - c) / 2\n\tvar fix bool\n")]),
 ("w8 AVL put forgets Parent: p of the new node", AVL, [("\t\t*qp = &Node[K, V]{Key: key, Value: value, Parent: p}\n", "\t\t*qp = &Node[K, V]{Key: key, Value: value}\n")]),
 ("w9 AVL put: the balance fix is skipped on the right", AVL, [("\tif fix {\n\t\treturn putFix(int8(c), qp)\n\t}", "\tif fix && c < 0 {\n\t\treturn putFix(int8(c), qp)\n\t}")]),
 ("w10 AVL removeFix: s.b = c after the single rotation", AVL, [("\t\ts = rotate(c, s)\n\t\ts.b = -c\n", "\t\ts = rotate(c, s)\n\t\ts.b = c\n")]),
 ("w11 AVL removeMin forgets *minVal = q.Value", AVL, [("\t\t*minKey = q.Key\n\t\t*minVal = q.Value\n", "\t\t*minKey = q.Key\n")]),
 ("w12 AVL remove does not decrement size", AVL, [("\tif c == 0 {\n\t\ttree.size--\n", "\tif c == 0 {\n")]),
 ("w13 AVL remove: unlinking forgets the Parent of the left child", AVL, [("\t\t\tif q.Children[0] != nil {\n\t\t\t\tq.Children[0].Parent = q.Parent\n\t\t\t}\n", "")]),
 ("w14 harmless: put with renamed locals", AVL, [("\tvar fix bool\n\tfix = tree.put(key, value, q, &q.Children[a])\n\tif fix {\n\t\treturn putFix(int8(c), qp)\n\t}", "\tvar grew bool\n\tgrew = tree.put(key, value, q, &q.Children[a])\n\tif grew {\n\t\treturn putFix(int8(c), qp)\n\t}")]),
 ("w15 harmless: putFix reads the link into a local named node", AVL, [("func putFix[K comparable, V any](c int8, t **Node[K, V]) bool {\n\ts := *t\n\tif s.b == 0 {\n\t\ts.b = c\n\t\treturn true\n\t}\n\n\tif s.b == -c {\n\t\ts.b = 0\n\t\treturn false\n\t}\n\n\tif s.Children[(c+1)/2].b == c {\n\t\ts = singlerot(c, s)\n\t} else {\n\t\ts = doublerot(c, s)\n\t}\n\t*t = s\n",
    "func putFix[K comparable, V any](c int8, t **Node[K, V]) bool {\n\tnode := *t\n\tif node.b == 0 {\n\t\tnode.b = c\n\t\treturn true\n\t}\n\n\tif node.b == -c {\n\t\tnode.b = 0\n\t\treturn false\n\t}\n\n\tif node.Children[(c+1)/2].b == c {\n\t\tnode = singlerot(c, node)\n\t} else {\n\t\tnode = doublerot(c, node)\n\t}\n\t*t = node\n")]),
 ("w16 harmless but ANOTHER SHAPE: put returns early when nothing is to fix", AVL, [("\tif fix {\n\t\treturn putFix(int8(c), qp)\n\t}\n\treturn false\n}\n\nfunc (tree *Tree[K, V]) remove(", "\tif !fix {\n\t\treturn false\n\t}\n\treturn putFix(int8(c), qp)\n}\n\nfunc (tree *Tree[K, V]) remove(")]),
 ("x7 refused: doublerot stores the rotated child into a computed slot", AVL, [("\ts.Children[a] = rotate(-c, s.Children[a])", "\ts.Children[a^1] = rotate(-c, s.Children[a])")]),
 ("x5 refused: Put passes the address of a local variable", AVL, [("\ttree.put(key, value, nil, &tree.Root)", "\troot := tree.Root\n\ttree.put(key, value, nil, &root)\n\ttree.Root = root")]),
 ("x6 refused: int8 result compared after a division by a variable", AVL, [("func rotate[K comparable, V any](c int8, s *Node[K, V]) *Node[K, V] {\n\ta := (c + 1) / 2", "func rotate[K comparable, V any](c int8, s *Node[K, V]) *Node[K, V] {\n\ta := (c + 1) / (c * c + 1)")]),
 ("k3 AVL Keys stores the values", AVL, [("\t\tkeys[i] = it.Key()", "\t\tkeys[i] = it.Value()")]),
 ("k4 AVL Values starts at index 1", AVL, [("\tfor i := 0; it.Next(); i++ {\n\t\tvalues[i] = it.Value()", "\tfor i := 1; it.Next(); i++ {\n\t\tvalues[i] = it.Value()")]),
 ("k5 harmless: AVL Keys with renamed locals", AVL, [("\tkeys := make([]K, tree.size)\n\tit := tree.Iterator()\n\tfor i := 0; it.Next(); i++ {\n\t\tkeys[i] = it.Key()\n\t}\n\treturn keys", "\tks := make([]K, tree.size)\n\titer := tree.Iterator()\n\tfor j := 0; iter.Next(); j++ {\n\t\tks[j] = iter.Key()\n\t}\n\treturn ks")]),
 ("j1 LinkedHashMap ToJSON: comma after the last entry only", LHJ, [("\t\tif index != lastIndex {\n", "\t\tif index == lastIndex {\n")]),
 ("j2 LinkedHashMap ToJSON: no closing brace", LHJ, [("\tbuf.WriteRune('}')\n\n\treturn buf.Bytes(), nil", "\treturn buf.Bytes(), nil")]),
 ("j3 LinkedHashMap ToJSON: keeps the entry's closing brace", LHJ, [("\t\tbuf.Write(pair[1 : len(pair)-1])", "\t\tbuf.Write(pair[1:len(pair)])")]),
 ("j4 LinkedHashMap ToJSON: the entry's value is its key", LHJ, [("map[K]V{it.Key(): it.Value()}", "map[K]V{it.Key(): it.Key()}")]),
 ("j5 LinkedHashMap MarshalJSON does not delegate", LHJ, [("func (m *Map[K, V]) MarshalJSON() ([]byte, error) {\n\treturn m.ToJSON()", "func (m *Map[K, V]) MarshalJSON() ([]byte, error) {\n\treturn nil, nil")]),
 ("j6 LinkedHashMap ToJSON ignores the marshal error", LHJ, [("\t\tif err != nil {\n\t\t\treturn nil, err\n\t\t}\n\t\tbuf.Write(pair", "\t\tbuf.Write(pair")]),
 ("j7 LinkedHashMap ToJSON: lastIndex := m.Size()", LHJ, [("\tlastIndex := m.Size() - 1\n", "\tlastIndex := m.Size()\n")]),
 ("j8 harmless: LinkedHashMap ToJSON with renamed locals", LHJ, [("\t\tpair, err := json.Marshal(map[K]V{it.Key(): it.Value()})\n\t\tif err != nil {\n\t\t\treturn nil, err\n\t\t}\n\t\tbuf.Write(pair[1 : len(pair)-1])", "\t\tenc, e := json.Marshal(map[K]V{it.Key(): it.Value()})\n\t\tif e != nil {\n\t\t\treturn nil, e\n\t\t}\n\t\tbuf.Write(enc[1 : len(enc)-1])")]),
 ("x8 refused: LinkedHashMap ToJSON writes a non-ASCII rune", LHJ, [("\tbuf.WriteRune('{')\n", "\tbuf.WriteRune('\u00e9')\n")]),
 ("x9 refused: the slice given to bytes.NewBuffer is used again", LHJ, [("\tbuf := bytes.NewBuffer(b)\n", "\tbuf := bytes.NewBuffer(b)\n\t_ = len(b)\n")]),
 ("t1 treemap.Put stores the key as the value", 'maps/treemap/treemap.go', [("\tm.tree.Put(key, value)\n", "\tm.tree.Put(key, key)\n")]),
 ("t2 treemap.Min reads the rightmost node", 'maps/treemap/treemap.go', [("\tif node := m.tree.Left(); node != nil {", "\tif node := m.tree.Right(); node != nil {")]),
 ("t3 treeset.Contains answers true on the first element found", 'sets/treeset/treeset.go', [("\t\tif _, contains := set.tree.Get(item); !contains {\n\t\t\treturn false", "\t\tif _, contains := set.tree.Get(item); contains {\n\t\t\treturn true")]),
 ("t4 treebidimap.Put keeps the old inverse entry", 'maps/treebidimap/treebidimap.go', [("\tif v, ok := m.forwardMap.Get(key); ok {\n\t\tm.inverseMap.Remove(v)\n\t}\n\tif k, ok", "\tif k, ok")]),
 ("x1 refused: range loop in Left", RB, [("\tvar parent *Node[K, V]\n\tcurrent := tree.Root\n\tfor current != nil {\n\t\tparent = current\n\t\tcurrent = current.Left\n",
                                          "\tvar parent *Node[K, V]\n\tcurrent := tree.Root\n\tfor range []int{1} {\n\t}\n\tfor current != nil {\n\t\tparent = current\n\t\tcurrent = current.Left\n")]),
 ("x2 refused: continue in lookup", RB, [(LOOKUP_TAIL, LOOKUP_TAIL.replace("\t\t\tnode = node.Right\n\t\t}\n", "\t\t\tnode = node.Right\n\t\t}\n\t\tcontinue\n"))]),
 ("x3 refused: the address of a parameter (&node)", RB, [("func (tree *Tree[K, V]) rotateLeft(node *Node[K, V]) {\n\tright := node.Right", "func (tree *Tree[K, V]) rotateLeft(node *Node[K, V]) {\n\ttree.touch(&node)\n\tright := node.Right"),
                                        ("func (tree *Tree[K, V]) rotateRight(", "func (tree *Tree[K, V]) touch(p **Node[K, V]) {\n}\n\nfunc (tree *Tree[K, V]) rotateRight(")]),
 ("x4 a field added to Node", RB, [("\tParent *Node[K, V]\n}", "\tParent *Node[K, V]\n\theight int\n}")]),
]
import os, re
only = os.environ.get('VALIDATE_ONLY') or only   # (or the second argument) regular expression on the names, e.g. VALIDATE_ONLY='^w'
bad = 0
for name, f, pairs in muts:
    if only and not re.search(only, name):
        continue
    src = open(repo + '/' + f).read()
    s = src
    for old, new in pairs:
        if s.count(old) != 1:
            print("== %s: PATTERN NOT FOUND (%d occurrences) -- the source has changed, update validate_tree.sh" % (name, s.count(old)))
            bad += 1
            s = None
            break
        s = s.replace(old, new)
    if s is None:
        continue
    open(scratch + '/' + f, 'w').write(s)
    p = subprocess.run([here + '/run.sh', scratch], stdout=subprocess.PIPE, text=True)
    open(scratch + '/' + f, 'w').write(src)
    d = json.loads(p.stdout)
    print("== %s: exit %d, %d / %d discharged, %.0f s" % (name, p.returncode, d['discharged'], d['obligations'], d['wall_s']))
    for x in d['failed']:
        print("     %s %s | %s" % (x.get('file'), x.get('theorem', ''), x.get('error', '')[:150]))
sys.exit(1 if bad else 0)
PY
