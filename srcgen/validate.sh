#!/bin/bash
# Validation of the tie on scratch copies of the repository (deleted afterwards):
# the unchanged tree discharges everything; each seeded semantic change breaks an obligation;
# harmless refactorings still verify; an untranslatable construct is refused loudly (exit 2).
here=$(cd "$(dirname "$0")" && pwd)
repo=${1:-/repo}
scratch=$(mktemp -d /tmp/srcgen-validate.XXXXXX)
trap 'rm -rf "$scratch"' EXIT

summ() { python3 -c '
import json,sys
d=json.load(sys.stdin)
f=[(x.get("file","")+":"+x.get("theorem","-")) for x in d["failed"]]
print("   obligations=%d discharged=%d wall=%ss failed=%s" % (d["obligations"], d["discharged"], d["wall_s"], f))
for x in d["failed"][:3]:
    print("     e.g. %s %s: %s" % (x.get("file"), x.get("theorem","-"), x["error"][:200]))
'; }

mutate() {  # name file old new        (VALIDATE_ONLY=<regex on the name> runs a subset)
  local name=$1 file=$2 ; shift 2
  if [ -n "$VALIDATE_ONLY" ] && ! [[ $name =~ $VALIDATE_ONLY ]]; then return; fi
  rm -rf "$scratch/r"; mkdir -p "$scratch/r"
  (cd "$repo" && tar cf - --exclude=.git .) | (cd "$scratch/r" && tar xf -)
  python3 - "$scratch/r/$file" "$@" <<'PY'
import sys
p, old, new = sys.argv[1], sys.argv[2], sys.argv[3]
s = open(p).read()
assert s.count(old) == 1, "mutation site not found exactly once: %r" % old
open(p, "w").write(s.replace(old, new))
PY
  [ $? -eq 0 ] || { echo "== $name: MUTATION NOT APPLIED"; return; }
  echo "== $name"
  "$here/run.sh" "$scratch/r" > "$scratch/out.json"; echo "   exit=$?"
  summ < "$scratch/out.json"
}

echo "== unchanged tree"
"$here/run.sh" "$repo" > "$scratch/out.json"; echo "   exit=$?"; summ < "$scratch/out.json"

CB=queues/circularbuffer/circularbuffer.go
mutate "(a) calculateSize = (end - start) % maxSize when not full" $CB \
'	if queue.end < queue.start {
		return queue.maxSize - queue.start + queue.end
	} else if queue.end == queue.start {
		if queue.full {
			return queue.maxSize
		}
		return 0
	}
	return queue.end - queue.start' \
'	if queue.full {
		return queue.maxSize
	}
	return (queue.end - queue.start) % queue.maxSize'

mutate "(b) Enqueue forgets queue.full = true" $CB \
'	if queue.end == queue.start {
		queue.full = true
	}
' ''

mutate "(c) ring iterator Value() uses % queue.size" queues/circularbuffer/iterator.go \
'% iterator.queue.maxSize' '% iterator.queue.size'

mutate "(d) arraylist iterator Prev decrements below -1" lists/arraylist/iterator.go \
'	if iterator.index >= 0 {
		iterator.index--
	}' '	iterator.index--'

mutate "(e1) harmless: queue.end++ instead of queue.end = queue.end + 1" $CB \
'	queue.end = queue.end + 1' '	queue.end++'

mutate "(e2) harmless: swap two independent assignments in Dequeue" $CB \
'	queue.full = false
	queue.size = queue.size - 1' '	queue.size = queue.size - 1
	queue.full = false'

mutate "(e3) harmless: Full() compares the field directly" $CB \
'	return queue.Size() == queue.maxSize' '	return queue.maxSize == queue.size'

mutate "(e4) harmless: Clear assigns the fields in another order" $CB \
'	queue.start = 0
	queue.end = 0
	queue.full = false
	queue.size = 0' '	queue.size = 0
	queue.full = false
	queue.end = 0
	queue.start = 0'

mutate "(f) untranslatable construct (range loop in Enqueue) is refused" $CB \
'	queue.size = queue.calculateSize()' '	for range queue.values {
	}
	queue.size = queue.calculateSize()'

mutate "(g) a new method appears in a whitelisted file" $CB \
'// Check that the index is within bounds of the list' 'func (queue *Queue[T]) Reset() { queue.start = 0 }

// Check that the index is within bounds of the list'

AS=stacks/arraystack/arraystack.go
mutate "(w1) ArrayStack.Values loop bound (size-1)/2" $AS \
'	for i := 1; i <= size; i++ {' '	for i := 1; i <= (size-1)/2; i++ {'

mutate "(w2) ArrayQueue.Dequeue removes index size-1" queues/arrayqueue/arrayqueue.go \
'		queue.list.Remove(0)' '		queue.list.Remove(queue.list.Size() - 1)'

mutate "(w3) LinkedListStack.Push uses Append instead of Prepend" stacks/linkedliststack/linkedliststack.go \
'	stack.list.Prepend(value)' '	stack.list.Append(value)'

mutate "(w4) PriorityQueue.Peek pops" queues/priorityqueue/priorityqueue.go \
'	return queue.heap.Peek()' '	return queue.heap.Pop()'

mutate "(w5) harmless: ArrayStack.Pop reads the size once" $AS \
'	value, ok = stack.list.Get(stack.list.Size() - 1)
	stack.list.Remove(stack.list.Size() - 1)' '	last := stack.list.Size() - 1
	value, ok = stack.list.Get(last)
	stack.list.Remove(last)'

mutate "(w6) harmless: ArrayStack.Values counts from 0" $AS \
'	for i := 1; i <= size; i++ {
		elements[size-i], _ = stack.list.Get(i - 1) // in reverse (LIFO)' '	for i := 0; i < size; i++ {
		elements[size-i-1], _ = stack.list.Get(i)'

AL=lists/arraylist/arraylist.go
mutate "(l1) shrink resizes to length cap/4 (phantom zero elements)" $AL \
'		list.resize(len(list.elements), len(list.elements))' '		list.resize(int(float32(currentCapacity)*shrinkFactor), int(float32(currentCapacity)*shrinkFactor))'

mutate "(l2) shrink keeps the length but sets the capacity to cap/4" $AL \
'		list.resize(len(list.elements), len(list.elements))' '		list.resize(len(list.elements), int(float32(currentCapacity)*shrinkFactor))'

mutate "(l3) growBy grows by 1.5 (not a supported dyadic product of ints? 1.5 = 3/2 is dyadic)" $AL \
'growthFactor = float32(2.0)' 'growthFactor = float32(1.5)'

mutate "(l4) growthFactor 1.1 is not dyadic: refused" $AL \
'growthFactor = float32(2.0)' 'growthFactor = float32(1.1)'

mutate "(l5) Remove deletes two elements" $AL \
'slices.Delete(list.elements, index, index+1)' 'slices.Delete(list.elements, index, index+2)'

mutate "(l6) Add copies to the wrong offset" $AL \
'		list.elements[l+i] = values[i]' '		list.elements[i] = values[i]'

mutate "(l7) Insert does not re-shorten before slices.Insert" $AL \
'slices.Insert(list.elements[:l], index, values...)' 'slices.Insert(list.elements, index, values...)'

mutate "(l8) value-model-harmless aliasing bug: Values returns the internal slice when len == cap" $AL \
'	return slices.Clone(list.elements)' '	if len(list.elements) == cap(list.elements) {
		return list.elements
	}
	return slices.Clone(list.elements)'

mutate "(l9) value-model-harmless: Insert fast path append(values, list.elements...) at index 0" $AL \
'	l := len(list.elements)
	list.growBy(len(values))
	list.elements = slices.Insert' '	if index == 0 {
		list.elements = append(values, list.elements...)
		return
	}
	l := len(list.elements)
	list.growBy(len(values))
	list.elements = slices.Insert'

mutate "(l10) harmless: Set tests the range positively" $AL \
'	if !list.withinRange(index) {
		// Append
		if index == len(list.elements) {
			list.Add(value)
		}
		return
	}

	list.elements[index] = value' '	if list.withinRange(index) {
		list.elements[index] = value
		return
	}
	if index == len(list.elements) {
		list.Add(value)
	}'

mutate "(l11) harmless: growBy names the new length before the if" $AL \
'	if newLength := len(list.elements) + n; newLength >= currentCapacity {' '	newLength := len(list.elements) + n
	if newLength >= currentCapacity {'

HS=sets/hashset/hashset.go
HM=maps/hashmap/hashmap.go
mutate "(m1) HashSet.Contains inverted test" $HS \
'		if _, contains := set.items[item]; !contains {
			return false' '		if _, contains := set.items[item]; contains {
			return false'

mutate "(m2) HashMap.Put stores the key as the value" $HM \
'	m.m[key] = value' '	m.m[key] = key'

mutate "(m3) HashSet.Difference tests membership in the receiver" $HS \
'		if _, contains := another.items[item]; !contains {
			result.Add(item)' '		if _, contains := set.items[item]; !contains {
			result.Add(item)'

mutate "(m4) HashSet.Union forgets the other set" $HS \
'	for item := range another.items {
		result.Add(item)
	}

	return result' '	return result'

mutate "(m5) HashMap.Keys collects the values" $HM \
'	for key := range m.m {
		keys[count] = key' '	for _, key := range m.m {
		keys[count] = key'

mutate "(m6) harmless: HashSet.Intersection without the size optimisation" $HS \
'	if set.Size() <= another.Size() {
		for item := range set.items {
			if _, contains := another.items[item]; contains {
				result.Add(item)
			}
		}
	} else {
		for item := range another.items {
			if _, contains := set.items[item]; contains {
				result.Add(item)
			}
		}
	}' '	for item := range set.items {
		if _, contains := another.items[item]; contains {
			result.Add(item)
		}
	}'

LM=maps/linkedhashmap/linkedhashmap.go
LS=sets/linkedhashset/linkedhashset.go
mutate "(k1) LinkedHashMap.Clear skips ordering.Clear() above 1024 entries" $LM \
'	clear(m.table)
	m.ordering.Clear()' '	if len(m.table) > 1024 {
		clear(m.table)
		return
	}
	clear(m.table)
	m.ordering.Clear()'

mutate "(k2) LinkedHashMap.Remove through a new helper probing 128 keys from each end" $LM \
'		index := m.ordering.IndexOf(key)
		m.ordering.Remove(index)
	}
}' '		m.ordering.Remove(m.position(key))
	}
}

func (m *Map[K, V]) position(key K) int {
	size := m.ordering.Size()
	for i := 0; i < 128 && i < size; i++ {
		if k, _ := m.ordering.Get(i); k == key {
			return i
		}
		if k, _ := m.ordering.Get(size - 1 - i); k == key {
			return size - 1 - i
		}
	}
	return -1
}'

mutate "(k3) LinkedHashSet.Remove with a sweep path for >= 128 arguments" $LS \
'func (set *Set[T]) Remove(items ...T) {
	for _, item := range items {' 'func (set *Set[T]) sweep(items []T) {
	for _, item := range items {
		delete(set.table, item)
	}
}

func (set *Set[T]) Remove(items ...T) {
	if len(items) >= 128 {
		set.sweep(items)
		return
	}
	for _, item := range items {'

mutate "(k4) LinkedHashSet.Clear forgets the table" $LS \
'	set.table = make(map[T]struct{})
	set.ordering.Clear()' '	set.ordering.Clear()'

mutate "(k5) LinkedHashSet.Add appends even when present" $LS \
'		if _, contains := set.table[item]; !contains {
			set.table[item] = itemExists
			set.ordering.Append(item)
		}' '		set.table[item] = itemExists
		set.ordering.Append(item)'

mutate "(k6) harmless: LinkedHashMap.Size() returns len(m.table)" $LM \
'	return m.ordering.Size()' '	return len(m.table)'

mutate "(k7) harmless: LinkedHashMap.Put with an early return and a renamed local" $LM \
'	if _, contains := m.table[key]; !contains {
		m.ordering.Append(key)
	}
	m.table[key] = value' '	if _, present := m.table[key]; present {
		m.table[key] = value
		return
	}
	m.ordering.Append(key)
	m.table[key] = value'

TS=sets/treeset/treeset.go
TM=maps/treemap/treemap.go
mutate "(t1) treeset.New installs a hand-written compare instead of cmp.Compare" $TS \
'	return NewWith[T](cmp.Compare[T], values...)
}' '	return NewWith[T](compare[T], values...)
}

func compare[T cmp.Ordered](a, b T) int {
	if a < b {
		return -1
	}
	if a > b {
		return 1
	}
	return 0
}'

mutate "(t2) treeset.New passes another library comparator" $TS \
'	return NewWith[T](cmp.Compare[T], values...)' '	return NewWith[T](utils.Compare[T], values...)'

mutate "(t3) treemap.New builds the tree with a hand-written compare" $TM \
'	return &Map[K, V]{tree: rbt.New[K, V]()}' '	return &Map[K, V]{tree: rbt.NewWith[K, V](func(a, b K) int { return cmp.Compare(a, b) })}'

mutate "(t4) TreeSet.Union returns a shallow copy when the argument is empty" $TS \
'func (set *Set[T]) Union(another *Set[T]) *Set[T] {
	result := NewWith(set.tree.Comparator)
' 'func (set *Set[T]) Union(another *Set[T]) *Set[T] {
	if another.Size() == 0 {
		tree := *set.tree
		return &Set[T]{tree: &tree}
	}
	result := NewWith(set.tree.Comparator)
'

mutate "(t5) TreeSet caches the comparator in a new field" $TS \
'type Set[T comparable] struct {
	tree *rbt.Tree[T, struct{}]
}' 'type Set[T comparable] struct {
	tree       *rbt.Tree[T, struct{}]
	comparator utils.Comparator[T]
}'

mutate "(t6) TreeSet.Difference keeps the common elements" $TS \
'		if !another.Contains(it.Value()) {' '		if another.Contains(it.Value()) {'

mutate "(t7) TreeMap.Floor returns the ceiling" $TM \
'	node, found := m.tree.Floor(key)' '	node, found := m.tree.Ceiling(key)'

mutate "(t8) harmless: TreeSet.Size via Keys; TreeMap.Min with a positive test" $TM \
'	if node := m.tree.Left(); node != nil {
		return node.Key, node.Value, true
	}
	return key, value, false' '	node := m.tree.Left()
	if node == nil {
		return key, value, false
	}
	return node.Key, node.Value, true'

HB=maps/hashbidimap/hashbidimap.go
TB=maps/treebidimap/treebidimap.go
mutate "(b1) HashBidiMap.Put forgets to drop the old inverse entry" $HB \
'	if valueByKey, ok := m.forwardMap.Get(key); ok {
		m.inverseMap.Remove(valueByKey)
	}
' ''

mutate "(b2) TreeBidiMap.Remove leaves the inverse entry" $TB \
'		m.forwardMap.Remove(key)
		m.inverseMap.Remove(v)' '		m.forwardMap.Remove(key)'

mutate "(b3) treebidimap.New installs a hand-written compare" $TB \
'		forwardMap: *redblacktree.New[K, V](),' '		forwardMap: *redblacktree.NewWith[K, V](func(a, b K) int { return cmp.Compare(a, b) }),'

mutate "(b4) harmless: HashBidiMap.Remove with an early return" $HB \
'	if value, found := m.forwardMap.Get(key); found {
		m.forwardMap.Remove(key)
		m.inverseMap.Remove(value)
	}' '	value, found := m.forwardMap.Get(key)
	if !found {
		return
	}
	m.forwardMap.Remove(key)
	m.inverseMap.Remove(value)'

DLE=lists/doublylinkedlist/enumerable.go
SLE=lists/singlylinkedlist/enumerable.go
mutate "(n1) DoublyLinkedList.Map: chunked Add for > 1024 elements" $DLE \
'	newList := &List[T]{}
	iterator := list.Iterator()
	for iterator.Next() {
		newList.Add(f(iterator.Index(), iterator.Value()))
	}
	return newList' '	newList := &List[T]{}
	if list.Size() > 1024 {
		chunk := make([]T, 0, 256)
		iterator := list.Iterator()
		for iterator.Next() {
			chunk = append(chunk, f(iterator.Index(), iterator.Value()))
			if len(chunk) == 256 {
				newList.Add(chunk...)
				chunk = chunk[:0]
			}
		}
		return newList
	}
	iterator := list.Iterator()
	for iterator.Next() {
		newList.Add(f(iterator.Index(), iterator.Value()))
	}
	return newList'

mutate "(n2) SinglyLinkedList.Select links cells by hand with a stale last" $SLE \
'		if f(iterator.Index(), iterator.Value()) {
			newList.Add(iterator.Value())
		}' '		if f(iterator.Index(), iterator.Value()) {
			cell := &element[T]{value: iterator.Value()}
			if newList.first == nil {
				newList.first = cell
			} else {
				newList.last.next = cell
			}
			newList.size++
		}'

mutate "(n3) TreeSet.Select builds the result with the default comparator" sets/treeset/enumerable.go \
'func (set *Set[T]) Select(f func(index int, value T) bool) *Set[T] {
	newSet := &Set[T]{tree: rbt.NewWith[T, struct{}](set.tree.Comparator)}' 'func (set *Set[T]) Select(f func(index int, value T) bool) *Set[T] {
	newSet := &Set[T]{tree: rbt.New[T, struct{}]()}'

mutate "(n4) LinkedHashMap.Select keeps the rejected entries" maps/linkedhashmap/enumerable.go \
'		if f(iterator.Key(), iterator.Value()) {
			newMap.Put(iterator.Key(), iterator.Value())' '		if !f(iterator.Key(), iterator.Value()) {
			newMap.Put(iterator.Key(), iterator.Value())'

mutate "(n5) ArrayList.Any returns on the first miss" lists/arraylist/enumerable.go \
'		if f(iterator.Index(), iterator.Value()) {
			return true
		}
	}
	return false' '		if !f(iterator.Index(), iterator.Value()) {
			return false
		}
	}
	return true'

mutate "(n6) harmless: TreeMap.Find with renamed locals" maps/treemap/enumerable.go \
'func (m *Map[K, V]) Find(f func(key K, value V) bool) (k K, v V) {
	iterator := m.Iterator()
	for iterator.Next() {
		if f(iterator.Key(), iterator.Value()) {
			return iterator.Key(), iterator.Value()
		}
	}
	return k, v' 'func (m *Map[K, V]) Find(f func(key K, value V) bool) (foundKey K, foundValue V) {
	it := m.Iterator()
	for it.Next() {
		if f(it.Key(), it.Value()) {
			return it.Key(), it.Value()
		}
	}
	return foundKey, foundValue'

mutate "(j1) arraylist.FromJSON decodes into list.elements[:0]" lists/arraylist/serialization.go \
'	var elements []T
	err := json.Unmarshal(data, &elements)' '	elements := list.elements[:0]
	err := json.Unmarshal(data, &elements)'

mutate "(j2) hashbidimap.FromJSON writes forwardMap / inverseMap directly" maps/hashbidimap/serialization.go \
'		m.Put(k, v)' '		m.forwardMap.Put(k, v)
		m.inverseMap.Put(v, k)'

mutate "(j3) treebidimap.FromJSON writes forwardMap / inverseMap directly" maps/treebidimap/serialization.go \
'		m.Put(key, value)' '		m.forwardMap.Put(key, value)
		m.inverseMap.Put(value, key)'

mutate "(j4) singlylinkedlist.FromJSON element by element into one shared value" lists/singlylinkedlist/serialization.go \
'	var elements []T
	err := json.Unmarshal(data, &elements)
	if err == nil {
		list.Clear()
		list.Add(elements...)
	}
	return err' '	var raw []json.RawMessage
	err := json.Unmarshal(data, &raw)
	if err == nil {
		list.Clear()
		var value T
		for _, r := range raw {
			json.Unmarshal(r, &value)
			list.Add(value)
		}
	}
	return err'

mutate "(j5) singlylinkedlist.FromJSON: streaming decode after Clear above 64 KiB" lists/singlylinkedlist/serialization.go \
'func (list *List[T]) FromJSON(data []byte) error {
	var elements []T' 'func (list *List[T]) FromJSON(data []byte) error {
	if len(data) > 65536 {
		list.Clear()
		dec := json.NewDecoder(bytes.NewReader(data))
		dec.Token()
		for dec.More() {
			var v T
			if err := dec.Decode(&v); err != nil {
				return err
			}
			list.Add(v)
		}
		return nil
	}
	var elements []T'

mutate "(j6) circularbuffer.ToJSON marshals the raw slots when full" queues/circularbuffer/serialization.go \
'	return json.Marshal(queue.Values())' '	if queue.full {
		return json.Marshal(queue.values)
	}
	return json.Marshal(queue.Values())'

mutate "(j7) binaryheap.UnmarshalJSON delegates to heap.list.UnmarshalJSON (no re-heapify)" trees/binaryheap/serialization.go \
'	return heap.FromJSON(bytes)' '	return heap.list.UnmarshalJSON(bytes)'

mutate "(j8) hashmap.MarshalJSON lazily initialises a nil map" maps/hashmap/serialization.go \
'	return m.ToJSON()' '	if m.m == nil {
		m.m = make(map[K]V)
	}
	return m.ToJSON()'

mutate "(j9) redblacktree.FromJSON through a Decoder with a trailing-data check" trees/redblacktree/serialization.go \
'	err := json.Unmarshal(data, &elements)' '	decoder := json.NewDecoder(bytes.NewReader(data))
	err := decoder.Decode(&elements)
	if err == nil && decoder.More() {
		err = errTrailing
	}'

mutate "(j10) treeset.FromJSON forgets Clear" sets/treeset/serialization.go \
'		set.Clear()
		set.Add(elements...)' '		set.Add(elements...)'

mutate "(j11) binaryheap.FromJSON heapifies from size/2 - 1 only" trees/binaryheap/serialization.go \
'for i := heap.list.Size()/2 + 1; i >= 0; i--' 'for i := heap.list.Size()/2 - 1; i >= 0; i--'

mutate "(j12) harmless: hashset.FromJSON with if err != nil { return err } and renamed temporaries" sets/hashset/serialization.go \
'	var elements []T
	err := json.Unmarshal(data, &elements)
	if err == nil {
		set.Clear()
		set.Add(elements...)
	}
	return err' '	var decoded []T
	if e := json.Unmarshal(data, &decoded); e != nil {
		return e
	}
	set.Clear()
	set.Add(decoded...)
	return nil'

mutate "(j13) harmless: treebidimap.FromJSON reshaped (if err == nil)" maps/treebidimap/serialization.go \
'	if err != nil {
		return err
	}

	m.Clear()
	for key, value := range elements {
		m.Put(key, value)
	}

	return nil' '	if err == nil {
		m.Clear()
		for k, v := range elements {
			m.Put(k, v)
		}
	}
	return err'

mutate "(s1) HashSet.Intersection returns &Set[T]{} (nil map) for an empty operand" sets/hashset/hashset.go \
'func (set *Set[T]) Intersection(another *Set[T]) *Set[T] {
	result := New[T]()
' 'func (set *Set[T]) Intersection(another *Set[T]) *Set[T] {
	if another.Size() == 0 {
		return &Set[T]{}
	}
	result := New[T]()
'

mutate "(s2) HashSet.Union returns a struct copy sharing the map when the other set is empty" sets/hashset/hashset.go \
'func (set *Set[T]) Union(another *Set[T]) *Set[T] {
	result := New[T]()
' 'func (set *Set[T]) Union(another *Set[T]) *Set[T] {
	if another.Size() == 0 {
		copied := *set
		return &copied
	}
	result := New[T]()
'

mutate "(s3) HashSet.Difference shares the map when the other set is empty" sets/hashset/hashset.go \
'func (set *Set[T]) Difference(another *Set[T]) *Set[T] {
	result := New[T]()
' 'func (set *Set[T]) Difference(another *Set[T]) *Set[T] {
	if another.Size() == 0 {
		return &Set[T]{items: set.items}
	}
	result := New[T]()
'

DL=lists/doublylinkedlist/doublylinkedlist.go
SL=lists/singlylinkedlist/singlylinkedlist.go
mutate "(p1) DoublyLinkedList.Insert sets oldNextElement.prev before the splice loop" $DL \
'		oldNextElement := beforeElement.next
		for _, value := range values {
			newElement := &element[T]{value: value}
			newElement.prev = beforeElement
			beforeElement.next = newElement
			beforeElement = newElement
		}
		oldNextElement.prev = beforeElement
		beforeElement.next = oldNextElement' \
'		oldNextElement := beforeElement.next
		oldNextElement.prev = beforeElement
		for _, value := range values {
			newElement := &element[T]{value: value}
			newElement.prev = beforeElement
			beforeElement.next = newElement
			beforeElement = newElement
		}
		beforeElement.next = oldNextElement'

mutate "(p2) DoublyLinkedList.Insert: newElement.prev = list.first in the front-insert branch" $DL \
'			} else {
				newElement.prev = beforeElement
				beforeElement.next = newElement' \
'			} else {
				newElement.prev = list.first
				beforeElement.next = newElement'

mutate "(p3) DoublyLinkedList.Remove walks backwards with list.last.prev" $DL \
'		element = list.last
		for e := list.size - 1; e != index; e, element = e-1, element.prev {
		}
	} else {
		element = list.first' \
'		element = list.last
		for e := list.size - 1; e != index; e, element = e-1, list.last.prev {
		}
	} else {
		element = list.first'

mutate "(p4) SinglyLinkedList.Add re-points first at the new cell" $SL \
'			list.last.next = newElement
			list.last = newElement
		}
		list.size++' \
'			list.last.next = newElement
			list.first = newElement
			list.last = newElement
		}
		list.size++'

mutate "(p5) DoublyLinkedList.Swap swaps the value with itself (element2.value, element2.value)" $DL \
'		element1.value, element2.value = element2.value, element1.value' \
'		element1.value, element2.value = element2.value, element2.value'

mutate "(p6) SinglyLinkedList.Values stops one cell early (element.next != nil)" $SL \
'	for e, element := 0, list.first; element != nil; e, element = e+1, element.next {
		values[e] = element.value' \
'	for e, element := 0, list.first; element.next != nil; e, element = e+1, element.next {
		values[e] = element.value'

mutate "(p7) DoublyLinkedList.Prepend forgets the prev link of the old first cell" $DL \
'			list.first.prev = newElement' ''

mutate "(p8) harmless: SinglyLinkedList.Add with renamed locals and list.size += 1" $SL \
'		newElement := &element[T]{value: value}
		if list.size == 0 {
			list.first = newElement
			list.last = newElement
		} else {
			list.last.next = newElement
			list.last = newElement
		}
		list.size++' \
'		cell := &element[T]{value: value}
		if list.size == 0 {
			list.first = cell
			list.last = cell
		} else {
			list.last.next = cell
			list.last = cell
		}
		list.size += 1'

mutate "(p9) harmless: SinglyLinkedList.Get steps in the loop body, counter e++ in the post statement" $SL \
'	element := list.first
	for e := 0; e != index; e, element = e+1, element.next {
	}

	return element.value, true' \
'	element := list.first
	for e := 0; e != index; e++ {
		element = element.next
	}

	return element.value, true'

mutate "(p10) harmless in Go, ANOTHER LOOP SHAPE for the translator: SinglyLinkedList.Get with for e := 0; e < index; e++" $SL \
'	element := list.first
	for e := 0; e != index; e, element = e+1, element.next {
	}

	return element.value, true' \
'	element := list.first
	for e := 0; e < index; e++ {
		element = element.next
	}

	return element.value, true'

mutate "(p11) untranslatable pointer construct (a continue in the inner loop of Contains) is refused" $SL \
'			if element.value == value {
				found = true
				break
			}' \
'			if element.value == value {
				found = true
				break
			}
			continue'

mutate "(p12) SinglyLinkedList.List gets a field the cell model does not have" $SL \
'	size  int
}' '	size  int
	cache []T
}'

mutate "(h) Dequeue forgets to wrap start" $CB \
'	if queue.start >= queue.maxSize {
		queue.start = 0
	}' ''

# ---------------------------------------------------------------- the binary heap itself (BinaryHeapGen, general loops + comparator calls)
BH=trees/binaryheap/binaryheap.go
mutate "(q1) bubbleDownIndex swaps when the comparator says >= 0" $BH \
'		if heap.Comparator(indexValue, smallerValue) > 0 {' '		if heap.Comparator(indexValue, smallerValue) >= 0 {'

mutate "(q2) bubbleDownIndex: wrong right child index" $BH \
'		rightIndex := index<<1 + 2' '		rightIndex := index<<1 + 3'

mutate "(q3) Pop forgets bubbleDown" $BH \
'	heap.list.Remove(lastIndex)
	heap.bubbleDown()' '	heap.list.Remove(lastIndex)'

mutate "(q4) bubbleUp: parent index (index-1)>>2" $BH \
'index > 0; parentIndex = (index - 1) >> 1 {' 'index > 0; parentIndex = (index - 1) >> 2 {'

mutate "(q5) bubbleUp stops on < 0 instead of <= 0 (equal elements keep moving up)" $BH \
'		if heap.Comparator(parentValue, indexValue) <= 0 {' '		if heap.Comparator(parentValue, indexValue) < 0 {'

mutate "(q6) Push heapifies from size/2 - 1 for large batches only" $BH \
'		size := heap.list.Size()/2 + 1' '		size := heap.list.Size()/2 + 1
		if len(values) > 1024 {
			size = heap.list.Size()/2 - 1
		}'

mutate "(q7) bubbleDownIndex compares the children the other way round" $BH \
'		if rightIndex < size && heap.Comparator(leftValue, rightValue) > 0 {' '		if rightIndex < size && heap.Comparator(rightValue, leftValue) > 0 {'

mutate "(q8) the comparator result is compared with 1 (refused: only the sign is modelled)" $BH \
'		if heap.Comparator(indexValue, smallerValue) > 0 {' '		if heap.Comparator(indexValue, smallerValue) == 1 {'

mutate "(q9) Peek returns the last element" $BH \
'	return heap.list.Get(0)' '	return heap.list.Get(heap.list.Size() - 1)'

mutate "(q10) harmless: bubbleDownIndex with renamed locals and the swap test negated" $BH \
'		indexValue, _ := heap.list.Get(index)
		smallerValue, _ := heap.list.Get(smallerIndex)
		if heap.Comparator(indexValue, smallerValue) > 0 {
			heap.list.Swap(index, smallerIndex)
		} else {
			break
		}' '		child, _ := heap.list.Get(smallerIndex)
		cur, _ := heap.list.Get(index)
		if heap.Comparator(cur, child) <= 0 {
			break
		}
		heap.list.Swap(index, smallerIndex)'

mutate "(q11) harmless: Pop reads the size before Get and uses a local for the list" $BH \
'	value, ok = heap.list.Get(0)
	if !ok {
		return
	}
	lastIndex := heap.list.Size() - 1' '	lastIndex := heap.list.Size() - 1
	value, ok = heap.list.Get(0)
	if !ok {
		return
	}'

mutate "(q12) a continue in bubbleUp is refused" $BH \
'		heap.list.Swap(index, parentIndex)
		index = parentIndex' '		heap.list.Swap(index, parentIndex)
		index = parentIndex
		continue'

# ---------------------------------------------------------------- the linked-list iterators in pointer mode (heapiter.go)
SI=lists/singlylinkedlist/iterator.go
DI=lists/doublylinkedlist/iterator.go
mutate "(i1) SinglyLinkedList iterator Next: off by one (first element at index 1)" $SI \
'	if iterator.index == 0 {
		iterator.element = iterator.list.first' '	if iterator.index == 1 {
		iterator.element = iterator.list.first'

mutate "(i2) SinglyLinkedList iterator Next keeps the stale element when leaving the range" $SI \
'	if !iterator.list.withinRange(iterator.index) {
		iterator.element = nil
		return false
	}
	if iterator.index == 0 {' '	if !iterator.list.withinRange(iterator.index) {
		return false
	}
	if iterator.index == 0 {'

mutate "(i3) DoublyLinkedList iterator Prev follows next instead of prev" $DI \
'		iterator.element = iterator.element.prev' '		iterator.element = iterator.element.next'

mutate "(i4) DoublyLinkedList iterator End forgets the element pointer" $DI \
'	iterator.index = iterator.list.size
	iterator.element = iterator.list.last' '	iterator.index = iterator.list.size
	iterator.element = nil'

mutate "(i5) DoublyLinkedList iterator Prev restarts from last at index size-2" $DI \
'	if iterator.index == iterator.list.size-1 {' '	if iterator.index == iterator.list.size-2 {'

mutate "(i6) SinglyLinkedList iterator NextTo returns true at the end" $SI \
'			return true
		}
	}
	return false
}' '			return true
		}
	}
	return true
}'

mutate "(i7) DoublyLinkedList iterator Begin leaves the index" $DI \
'	iterator.index = -1
	iterator.element = nil' '	iterator.element = nil'

mutate "(i8) harmless: SinglyLinkedList iterator Next with the branches swapped and a renamed receiver-free local" $SI \
'	if iterator.index == 0 {
		iterator.element = iterator.list.first
	} else {
		iterator.element = iterator.element.next
	}' '	if iterator.index != 0 {
		iterator.element = iterator.element.next
	} else {
		iterator.element = iterator.list.first
	}'

mutate "(i9) harmless: DoublyLinkedList iterator Prev returns true directly" $DI \
'	return iterator.list.withinRange(iterator.index)
}

// Value' '	return true
}

// Value'

mutate "(i10) an iterator that writes through the list is refused" $SI \
'	iterator.index = -1
	iterator.element = nil' '	iterator.index = -1
	iterator.list.size = 0
	iterator.element = nil'

# ---------------------------------------------------------------- heap iterator, linked-list-backed index iterators, priority queue iterator,
# containers.GetSortedValues, the wrappers' constructors
HI=trees/binaryheap/iterator.go
mutate "(v1) heap iterator Value() pops one time too few (index-start-1)" $HI \
'	for n := 0; n < iterator.index-start; n++ {' '	for n := 1; n < iterator.index-start; n++ {'

mutate "(v2) heap iterator evaluateRange: end = start + 1<<bits + 1" $HI \
'	end = start + 1<<bits' '	end = start + 1<<bits + 1'

mutate "(v3) heap iterator numOfBits counts from 1" $HI \
'	var count uint
	for n != 0 {' '	var count uint = 1
	for n != 0 {'

mutate "(v4) heap iterator Value() builds the temporary heap with the default comparator" $HI \
'	tmpHeap := NewWith(iterator.heap.Comparator)' '	tmpHeap := NewWith(cmp.Compare[T])'

mutate "(v5) heap iterator Value() clips the level at Size()-1" $HI \
'	if end > iterator.heap.Size() {
		end = iterator.heap.Size()
	}' '	if end > iterator.heap.Size()-1 {
		end = iterator.heap.Size() - 1
	}'

mutate "(v6) heap iterator Next without the size guard" $HI \
'	if iterator.index < iterator.heap.Size() {
		iterator.index++
	}' '	iterator.index++'

mutate "(v7) harmless: heap iterator Value() with the loops counting the same way but renamed variables" $HI \
'	for n := start; n < end; n++ {
		value, _ := iterator.heap.list.Get(n)
		tmpHeap.Push(value)
	}' '	for k := start; k < end; k++ {
		v, _ := iterator.heap.list.Get(k)
		tmpHeap.Push(v)
	}'

mutate "(v8) LinkedListStack iterator Value reads index+1" stacks/linkedliststack/iterator.go \
'	value, _ := iterator.stack.list.Get(iterator.index) // in reverse (LIFO)' '	value, _ := iterator.stack.list.Get(iterator.index + 1) // in reverse (LIFO)'

mutate "(v9) LinkedListQueue iterator Begin sets index 0" queues/linkedlistqueue/iterator.go \
'	iterator.index = -1
}' '	iterator.index = 0
}'

mutate "(v10) PriorityQueue iterator Prev delegates to Next" queues/priorityqueue/iterator.go \
'	return iterator.iterator.Prev()' '	return iterator.iterator.Next()'

mutate "(v11) GetSortedValues sorts only slices longer than 2" containers/containers.go \
'	values := container.Values()
	if len(values) < 2 {
		return values
	}
	slices.Sort(values)' '	values := container.Values()
	if len(values) < 3 {
		return values
	}
	slices.Sort(values)'

mutate "(v12) GetSortedValuesFunc ignores the comparator" containers/containers.go \
'	slices.SortFunc(values, comparator)' '	slices.SortFunc(values, func(a, b T) int { return 0 })'

mutate "(v13) priorityqueue.New installs no comparator on the queue" queues/priorityqueue/priorityqueue.go \
'	return &Queue[T]{heap: binaryheap.NewWith(comparator), Comparator: comparator}' '	return &Queue[T]{heap: binaryheap.NewWith(comparator)}'

mutate "(v14) arraystack.New pre-fills the list" stacks/arraystack/arraystack.go \
'	return &Stack[T]{list: arraylist.New[T]()}' '	var zero T
	return &Stack[T]{list: arraylist.New[T](zero)}'

# ---------------------------------------------------------------- COMPOSITIONS: wrapper code over generated implementation code
mutate "(c1) arraystack over arraylist, wrapper side: Pop removes index 0" stacks/arraystack/arraystack.go \
'	stack.list.Remove(stack.list.Size() - 1)
	return' '	stack.list.Remove(0)
	return'

mutate "(c2) arraystack / arrayqueue / binaryheap over arraylist, implementation side: arraylist.Swap writes elements[j] twice" lists/arraylist/arraylist.go \
'		list.elements[i], list.elements[j] = list.elements[j], list.elements[i]' '		list.elements[i], list.elements[j] = list.elements[j], list.elements[j]'

mutate "(c3) arrayqueue over arraylist, wrapper side: Peek reads the last element" queues/arrayqueue/arrayqueue.go \
'func (queue *Queue[T]) Peek() (value T, ok bool) {
	return queue.list.Get(0)' 'func (queue *Queue[T]) Peek() (value T, ok bool) {
	return queue.list.Get(queue.list.Size() - 1)'

mutate "(c4) arraystack / arrayqueue / binaryheap over arraylist, implementation side: arraylist.Get accepts index == size" lists/arraylist/arraylist.go \
'func (list *List[T]) Get(index int) (T, bool) {

	if !list.withinRange(index) {' 'func (list *List[T]) Get(index int) (T, bool) {

	if !list.withinRange(index) && index != len(list.elements) {'

mutate "(c5) linkedliststack / linkedlistqueue over cells, implementation side: singlylinkedlist.Prepend forgets last on an empty list" lists/singlylinkedlist/singlylinkedlist.go \
'		list.first = newElement
		if list.size == 0 {
			list.last = newElement
		}
		list.size++' '		list.first = newElement
		list.size++'

mutate "(c6) linkedliststack over cells, wrapper side: Peek reads index 1" stacks/linkedliststack/linkedliststack.go \
'func (stack *Stack[T]) Peek() (value T, ok bool) {
	return stack.list.Get(0)' 'func (stack *Stack[T]) Peek() (value T, ok bool) {
	return stack.list.Get(1)'

mutate "(c7) linkedlistqueue over cells, wrapper side: Enqueue prepends" queues/linkedlistqueue/linkedlistqueue.go \
'	queue.list.Add(value)' '	queue.list.Prepend(value)'

mutate "(c8) priorityqueue over heap, wrapper side: Enqueue pushes the value twice" queues/priorityqueue/priorityqueue.go \
'func (queue *Queue[T]) Enqueue(value T) {
	queue.heap.Push(value)' 'func (queue *Queue[T]) Enqueue(value T) {
	queue.heap.Push(value)
	queue.heap.Push(value)'

mutate "(c9) binaryheap / priorityqueue over arraylist, heap side: Pop swaps with lastIndex-1" trees/binaryheap/binaryheap.go \
'	heap.list.Swap(0, lastIndex)' '	heap.list.Swap(0, lastIndex-1)'

mutate "(c10) linkedhashset / linkedhashmap over cells, implementation side: doublylinkedlist.Remove forgets element.next.prev" lists/doublylinkedlist/doublylinkedlist.go \
'	if element.next != nil {
		element.next.prev = element.prev
	}
' ''

mutate "(c11) linkedhashset over cells, wrapper side: Remove forgets the ordering list" sets/linkedhashset/linkedhashset.go \
'			delete(set.table, item)
			index := set.ordering.IndexOf(item)
			set.ordering.Remove(index)' '			delete(set.table, item)'

mutate "(c12) linkedhashmap over cells, wrapper side: Put appends the key even when present" maps/linkedhashmap/linkedhashmap.go \
'	if _, contains := m.table[key]; !contains {
		m.ordering.Append(key)
	}
	m.table[key] = value' '	m.ordering.Append(key)
	m.table[key] = value'

mutate "(c13) harmless: arraystack.Pop reads the size once" stacks/arraystack/arraystack.go \
'	value, ok = stack.list.Get(stack.list.Size() - 1)
	stack.list.Remove(stack.list.Size() - 1)' '	last := stack.list.Size() - 1
	value, ok = stack.list.Get(last)
	stack.list.Remove(last)'
