package main

// General `for init; cond; post { body }` loops (with `break`), calls of fuelled / partial functions, and shifts,
// for the value-mode translator (translate.go).  See README.md, "General loops and partial calls".
//
//   - a loop that is not one of the two shapes of translate.go (counted fold, top-level `for cond`), or whose body
//     contains `break` or a call of a partial function, becomes a Fixpoint on explicit GAS (= maximal number of
//     iterations, started with the function's `fuel`), over every variable in scope; it YIELDS (in an option: None =
//     out of gas) the outer variables its body assigns; `break` yields the current values;
//   - a function that contains such a loop, or calls a function that takes fuel, takes a leading `fuel` parameter
//     and returns an option; it hands its own `fuel` to every fuelled callee: `fuel` bounds the number of
//     iterations of EVERY SINGLE loop execution;
//   - a call of a partial function is bound with `do pat <- call; rest` (a notation for the match on Some / None
//     that the generated file declares locally); it is refused inside constructs whose variables are joined (an
//     `if` whose branches fall through is then translated like an `if` with an early exit: the rest of the
//     enclosing block is duplicated into both branches).

import (
	"go/ast"
	"go/token"
	"strconv"
	"strings"
)

// per-unit flag: the generated file needs the `do` notation
var usesDo = map[*unit]bool{}

// loops being translated (innermost last)
type loopCtx struct {
	brk func() string // what a plain `break` becomes
}

var loopStack = map[*fx][]*loopCtx{}
var loopDry = map[*fx]int{} // number of enclosing dry runs that belong to general loops (partial calls are fine there)

func plainBreak(n ast.Node) bool {
	found := false
	ast.Inspect(n, func(x ast.Node) bool {
		switch y := x.(type) {
		case *ast.BranchStmt:
			if y.Tok == token.BREAK && y.Label == nil {
				found = true
			}
		case *ast.FuncLit:
			return false
		}
		return !found
	})
	return found
}

// the function a call refers to when that can be decided without types: recv.M(...), recv.container.M(...),
// x.M(...) on a local variable (any method M of a struct of this package), F(...)
func (t *translator) calleesOf(fi *funcInfo, c *ast.CallExpr) []*funcInfo {
	var res []*funcInfo
	switch fn := c.Fun.(type) {
	case *ast.Ident:
		if g := t.findFunc(fi.Unit.Dir, fn.Name, fi.Unit); g != nil && g.Unit == fi.Unit {
			res = append(res, g)
		}
	case *ast.SelectorExpr:
		switch x := fn.X.(type) {
		case *ast.Ident:
			if fi.Recv != nil && x.Name == fi.RecvName {
				if g := t.findMethod(fi.Recv, fn.Sel.Name); g != nil {
					res = append(res, g)
				}
				return res
			}
			if _, isPkg := fi.Unit.Imports[x.Name]; isPkg {
				return nil
			}
			if iterVarsOf(fi)[x.Name] { // it := y.Iterator(): the abstract enumeration, not an iterator object
				return nil
			}
			for _, g := range t.funcs { // a local variable: its type is not known here
				if g.Unit == fi.Unit && g.Recv != nil && g.Name == fn.Sel.Name && g != fi {
					res = append(res, g)
				}
			}
		case *ast.SelectorExpr: // recv.container.M(...)
			if id, ok := x.X.(*ast.Ident); ok && fi.Recv != nil && id.Name == fi.RecvName {
				if fl := fi.Recv.field(x.Sel.Name); fl != nil && fl.Ty.K == kStruct {
					if g := t.findMethod(fl.Ty.S, fn.Sel.Name); g != nil {
						res = append(res, g)
					}
				}
			}
		}
	}
	return res
}

var iterVarCache = map[*funcInfo]map[string]bool{}

// the variables of fi defined by `it := x.Iterator()`
func iterVarsOf(fi *funcInfo) map[string]bool {
	if m, ok := iterVarCache[fi]; ok {
		return m
	}
	m := map[string]bool{}
	if fi.Decl != nil && fi.Decl.Body != nil {
		ast.Inspect(fi.Decl.Body, func(x ast.Node) bool {
			if as, ok := x.(*ast.AssignStmt); ok && isIterDefineSyntax(as) {
				if id, ok := as.Lhs[0].(*ast.Ident); ok {
					m[id.Name] = true
				}
			}
			return true
		})
	}
	iterVarCache[fi] = m
	return m
}

func (t *translator) hasPartialCall(fi *funcInfo, n ast.Node) bool {
	found := false
	ast.Inspect(n, func(x ast.Node) bool {
		if c, ok := x.(*ast.CallExpr); ok {
			for _, g := range t.calleesOf(fi, c) {
				if g.Partial {
					found = true
				}
			}
		}
		return !found
	})
	return found
}

// is this loop one of the two shapes translate.go handles itself?
func countedShape(n *ast.ForStmt) bool {
	if n.Init == nil || n.Cond == nil || n.Post == nil {
		return false
	}
	init, ok := n.Init.(*ast.AssignStmt)
	if !ok || init.Tok != token.DEFINE || len(init.Lhs) != 1 || len(init.Rhs) != 1 {
		return false
	}
	iv, ok := init.Lhs[0].(*ast.Ident)
	if !ok {
		return false
	}
	cond, ok := n.Cond.(*ast.BinaryExpr)
	if !ok {
		return false
	}
	ci, ok := cond.X.(*ast.Ident)
	if !ok || ci.Name != iv.Name {
		return false
	}
	post, ok := n.Post.(*ast.IncDecStmt)
	if !ok {
		return false
	}
	pi, ok := post.X.(*ast.Ident)
	if !ok || pi.Name != iv.Name {
		return false
	}
	switch {
	case (cond.Op == token.LSS || cond.Op == token.LEQ) && post.Tok == token.INC:
		return true
	case cond.Op == token.GEQ && post.Tok == token.DEC:
		return true
	}
	return false
}

func (t *translator) isGeneralLoop(fi *funcInfo, n *ast.ForStmt) bool {
	if n.Init == nil && n.Post == nil { // `for cond`: the top-level fuelled shape of translate.go
		return plainBreak(n.Body) && n.Cond != nil
	}
	if !countedShape(n) {
		return true
	}
	return plainBreak(n.Body) || t.hasPartialCall(fi, n.Body)
}

// called at the end of the syntactic part of analyse(): which functions take fuel / are partial because of
// general loops and of calls of fuelled / partial functions
func (t *translator) analyseLoops(all []*funcInfo) {
	for _, fi := range all {
		fi := fi
		if fi.Decl == nil || fi.Decl.Body == nil {
			continue
		}
		ast.Inspect(fi.Decl.Body, func(x ast.Node) bool {
			if l, ok := x.(*ast.ForStmt); ok {
				if as, isAs := l.Init.(*ast.AssignStmt); isAs && l.Post == nil && l.Cond != nil {
					if isIterDefineSyntax(as) {
						return true // for it := x.Iterator(); it.Next(); {}: the abstract enumeration
					}
				}
				if t.isGeneralLoop(fi, l) {
					fi.Fuel, fi.Partial = true, true
				}
			}
			return true
		})
	}
	for changed := true; changed; {
		changed = false
		for _, fi := range all {
			fi := fi
			if fi.Decl == nil || fi.Decl.Body == nil {
				continue
			}
			ast.Inspect(fi.Decl.Body, func(x ast.Node) bool {
				if c, ok := x.(*ast.CallExpr); ok {
					for _, g := range t.calleesOf(fi, c) {
						if g.Fuel && !fi.Fuel {
							fi.Fuel, changed = true, true
						}
						if g.Partial && !fi.Partial {
							fi.Partial, changed = true, true
						}
					}
				}
				if l, ok := x.(*ast.ForStmt); ok && !fi.Fuel && t.isGeneralLoop(fi, l) {
					// a counted loop whose body calls a function that has just become partial
					if as, isAs := l.Init.(*ast.AssignStmt); !(isAs && l.Post == nil && isIterDefineSyntax(as)) {
						fi.Fuel, fi.Partial, changed = true, true, true
					}
				}
				return true
			})
		}
	}
}

func isIterDefineSyntax(n *ast.AssignStmt) bool {
	if n.Tok != token.DEFINE || len(n.Lhs) != 1 || len(n.Rhs) != 1 {
		return false
	}
	c, ok := n.Rhs[0].(*ast.CallExpr)
	if !ok || len(c.Args) != 0 {
		return false
	}
	sel, ok := c.Fun.(*ast.SelectorExpr)
	return ok && sel.Sel.Name == "Iterator"
}

// `break`
func (f *fx) branchStmt(n *ast.BranchStmt) string {
	st := loopStack[f]
	if n.Tok != token.BREAK || n.Label != nil || len(st) == 0 {
		f.bad(n.Pos(), "%s here (only a plain `break` of a general `for` loop is translated)", n.Tok)
	}
	return st[len(st)-1].brk()
}

// an `if` whose branch contains a `break` or a call of a partial function is translated like one with an early
// exit: the continuation is duplicated into the branches
func (f *fx) leavesOrPartial(n *ast.IfStmt) bool {
	if plainBreak(n.Body) || f.t.hasPartialCall(f.fi, n.Body) {
		return true
	}
	if n.Else != nil && (plainBreak(n.Else) || f.t.hasPartialCall(f.fi, n.Else)) {
		return true
	}
	return false
}

// the binding of a partial call: do pat <- call; ...
func (f *fx) doBind(pat, call string, at token.Pos) string {
	if !f.fi.Partial {
		f.bad(at, "internal: partial call in %s, which was not analysed as partial", f.fi.Name)
	}
	if f.dry > loopDry[f] {
		f.bad(at, "call of a partial function (it may panic / run out of fuel) inside a construct whose variables are joined (an `if` without early exit inside a counted / range loop)")
	}
	usesDo[f.u] = true
	return "do " + pat + " <- " + call + ";\n"
}

func (f *fx) generalLoop(n *ast.ForStmt, e env, next cont) string {
	if !f.fi.Fuel || !f.fi.Partial {
		f.bad(n.Pos(), "internal: general loop in %s, which was not analysed as fuelled", f.fi.Name)
	}
	if f.dry > loopDry[f] {
		f.bad(n.Pos(), "general loop inside a construct whose variables are joined")
	}
	if n.Cond == nil {
		f.bad(n.Pos(), "loop without condition")
	}
	if fuelShadowed[f] > 0 {
		f.bad(n.Pos(), "general loop inside / after a top-level `for cond` loop whose counter is called fuel")
	}
	ast.Inspect(n.Body, func(x ast.Node) bool {
		switch y := x.(type) {
		case *ast.BranchStmt:
			if y.Tok != token.BREAK || y.Label != nil {
				f.bad(y.Pos(), "%s inside a loop (only a plain `break`)", y.Tok)
			}
		case *ast.ForStmt, *ast.RangeStmt:
			f.bad(y.Pos(), "nested loop")
		case *ast.ReturnStmt:
			f.bad(y.Pos(), "return inside a general loop")
		case *ast.SwitchStmt, *ast.SelectStmt, *ast.TypeSwitchStmt:
			f.bad(y.Pos(), "switch inside a general loop")
		case *ast.CallExpr:
			if id, ok := y.Fun.(*ast.Ident); ok && id.Name == "panic" {
				f.bad(y.Pos(), "panic inside a general loop")
			}
		}
		return true
	})
	eL := e.deeper()
	initS := ""
	if n.Init != nil {
		as, ok := n.Init.(*ast.AssignStmt)
		if !ok || as.Tok != token.DEFINE {
			f.bad(n.Pos(), "loop initialiser that is not `x := ...`")
		}
		for _, l := range as.Lhs {
			if id, ok := l.(*ast.Ident); ok {
				if _, exists := e.vars[id.Name]; exists {
					f.bad(n.Pos(), "loop variable %s shadows an outer variable", id.Name)
				}
			}
		}
		initS = f.assignStmt(as, eL, func(e2 env) string { eL = e2; return "" })
	}
	cs, tc := f.expr(n.Cond, eL)
	f.want(n.Cond, tc, kBool)
	f.nloop++
	name := f.fi.Coq + "_loop" + strconv.Itoa(f.nloop)
	vars := eL.ordered()
	binders := []string{"(fuel : nat)", "(gas : nat)"}
	args := []string{}
	for _, v := range vars {
		vi := eL.vars[v]
		if vi.ty.K == kIter {
			f.bad(n.Pos(), "general loop while an iterator variable is in scope")
		}
		nm := strings.TrimSuffix(v, "@container")
		binders = append(binders, "("+vname(nm)+" : "+f.t.coqType(vi.ty, f.u)+")")
		args = append(args, vname(nm))
	}
	eB := env{vars: eL.vars, depth: eL.depth + 1}
	var post []ast.Stmt
	if n.Post != nil {
		post = []ast.Stmt{n.Post}
	}
	var ms []string
	yield := func() string { return "(Some " + tuple2(ms) + ")" }
	ctx := &loopCtx{brk: yield}
	iter := func(kk cont) string {
		loopStack[f] = append(loopStack[f], ctx)
		s := f.stmts(n.Body.List, eB, func(e2 env) string {
			// the post statement is outside the reach of `break`
			saved := loopStack[f]
			loopStack[f] = nil
			r := f.stmts(post, env{vars: dropDeeper(e2, eB.depth), depth: eB.depth}, kk, false)
			loopStack[f] = saved
			return r
		}, false)
		loopStack[f] = loopStack[f][:len(loopStack[f])-1]
		return s
	}
	loopDry[f]++
	ms = f.assignedBy(e, func() { iter(func(env) string { return "" }) })
	loopDry[f]--
	if len(ms) == 0 {
		f.bad(n.Pos(), "loop without any effect on variables or fields")
	}
	var tys []string
	for _, m := range ms {
		tys = append(tys, f.t.coqType(e.vars[m].ty, f.u))
	}
	resTy := strings.Join(tys, " * ")
	if len(tys) > 1 {
		resTy = "(" + resTy + ")"
	}
	rec := "(" + name + " fuel gas' " + strings.Join(args, " ") + ")"
	b := iter(func(env) string { return rec })
	for _, m := range ms {
		f.rebind(m, e)
	}
	def := "Fixpoint " + name + " " + strings.Join(binders, " ") + " {struct gas} : option " + resTy + " :=\n" +
		"if " + cs + "\nthen match gas with\n  | O => None (* out of fuel *)\n  | S gas' =>\n" + b + "\n  end\nelse " + yield() + ".\n"
	if f.dry == 0 {
		f.aux = append(f.aux, def)
	}
	usesDo[f.u] = true
	return initS + "do " + tuple2(ms) + " <- (" + name + " fuel fuel " + strings.Join(args, " ") + ");\n" + next(e)
}

func tuple2(ns []string) string {
	if len(ns) == 0 {
		return "tt"
	}
	return tuple(ns)
}

// x << k, x >> k with a literal count: Z.shiftl / Z.shiftr (arithmetic shift: floor division, as Go's >> on a signed int);
// x << u with an unsigned count u: GoUint.shl (0 when the count reaches the width of int)
func (f *fx) shift(n *ast.BinaryExpr, e env) (string, ty) {
	a, ta := f.expr(n.X, e)
	f.want(n.X, ta, kInt)
	lit, ok := n.Y.(*ast.BasicLit)
	if !ok || lit.Kind != token.INT {
		b, tb := f.expr(n.Y, e)
		if tb.K != kUint {
			f.bad(n.Pos(), "shift by something that is neither an integer literal nor an unsigned int")
		}
		usesUint[f.u] = true
		if n.Op == token.SHL {
			return "(GoUint.shl " + a + " " + b + ")", ty{K: kInt}
		}
		return "(GoUint.shr " + a + " " + b + ")", ty{K: kInt}
	}
	k, err := strconv.ParseInt(lit.Value, 0, 64)
	if err != nil || k < 0 || k > 62 {
		f.bad(n.Pos(), "shift count %s", lit.Value)
	}
	op := "Z.shiftl"
	if n.Op == token.SHR {
		op = "Z.shiftr"
	}
	return "(" + op + " " + a + " " + strconv.FormatInt(k, 10) + ")", ty{K: kInt}
}

// ---------------------------------------------------------------- unsigned ints

const kUint kind = 101 // Go's uint: a Z in [0, 2^64); + and - wrap around (coq/GoUint.v)

var usesUint = map[*unit]bool{}

func isIntLit(x ast.Expr) bool {
	for {
		p, ok := x.(*ast.ParenExpr)
		if !ok {
			break
		}
		x = p.X
	}
	lit, ok := x.(*ast.BasicLit)
	return ok && lit.Kind == token.INT
}

// a binary operator with an unsigned operand: both operands unsigned (an untyped integer literal counts as one)
func (f *fx) uintOp(n *ast.BinaryExpr, a string, ta ty, b string, tb ty) (string, ty) {
	okX := ta.K == kUint || (ta.K == kInt && isIntLit(n.X))
	okY := tb.K == kUint || (tb.K == kInt && isIntLit(n.Y))
	if !okX || !okY {
		f.bad(n.Pos(), "operator %s mixing an unsigned int with something that is neither unsigned nor an integer literal", n.Op)
	}
	usesUint[f.u] = true
	switch n.Op {
	case token.ADD:
		return "(GoUint.add " + a + " " + b + ")", ty{K: kUint}
	case token.SUB:
		return "(GoUint.sub " + a + " " + b + ")", ty{K: kUint}
	case token.LSS:
		return "(" + a + " <? " + b + ")", ty{K: kBool}
	case token.LEQ:
		return "(" + a + " <=? " + b + ")", ty{K: kBool}
	case token.GTR:
		return "(" + b + " <? " + a + ")", ty{K: kBool}
	case token.GEQ:
		return "(" + b + " <=? " + a + ")", ty{K: kBool}
	case token.EQL:
		return "(" + a + " =? " + b + ")", ty{K: kBool}
	case token.NEQ:
		return "(negb (" + a + " =? " + b + "))", ty{K: kBool}
	}
	f.bad(n.Pos(), "operator %s on unsigned ints (only + - and comparisons)", n.Op)
	return "", ty{}
}

func (f *fx) uintIncDec(cur string, tok token.Token) string {
	usesUint[f.u] = true
	if tok == token.DEC {
		return "(GoUint.sub " + cur + " 1)"
	}
	return "(GoUint.add " + cur + " 1)"
}

// ---------------------------------------------------------------- partial calls nested in expressions

// does n contain a call of a function that takes fuel?
func (t *translator) hasFuelCall(fi *funcInfo, n ast.Node) bool {
	found := false
	ast.Inspect(n, func(x ast.Node) bool {
		if c, ok := x.(*ast.CallExpr); ok {
			for _, g := range t.calleesOf(fi, c) {
				if g.Fuel {
					found = true
				}
			}
		}
		return !found
	})
	return found
}

// the expressions a statement evaluates itself (not those of nested statements)
func stmtExprs(s ast.Stmt) []*ast.Expr {
	switch n := s.(type) {
	case *ast.AssignStmt:
		var r []*ast.Expr
		for i := range n.Rhs {
			r = append(r, &n.Rhs[i])
		}
		return r
	case *ast.ReturnStmt:
		var r []*ast.Expr
		for i := range n.Results {
			r = append(r, &n.Results[i])
		}
		return r
	case *ast.IfStmt:
		if n.Init == nil {
			return []*ast.Expr{&n.Cond}
		}
	case *ast.ExprStmt:
		return []*ast.Expr{&n.X}
	}
	return nil
}

// A call of a partial, non-mutating, single-valued function nested inside an expression of statement s (an operand,
// an argument, one of several right-hand sides) is evaluated first: `do v_hoistN <- call;`, and the expression
// mentions the temporary instead.  The calls are bound in source order; one under && / || (which Go may not
// evaluate) is refused.  A call that IS the statement / the single right-hand side / the returned expression is
// left to callStmt.
func (f *fx) hoistPartial(s ast.Stmt, e env) (string, ast.Stmt, env, bool) {
	if !f.fi.Partial {
		return "", s, e, false
	}
	ptrs := stmtExprs(s)
	if len(ptrs) == 0 {
		return "", s, e, false
	}
	whole := map[ast.Expr]bool{} // calls handled by callStmt
	switch n := s.(type) {
	case *ast.AssignStmt:
		if len(n.Rhs) == 1 {
			if c, ok := isCall(n.Rhs[0]); ok {
				whole[c] = true
			}
		}
	case *ast.ReturnStmt:
		if len(n.Results) == 1 {
			if c, ok := isCall(n.Results[0]); ok {
				whole[c] = true
			}
		}
	case *ast.ExprStmt:
		if c, ok := isCall(n.X); ok {
			whole[c] = true
		}
	}
	// find the candidates (syntactically: a callee that is partial, does not write, has one result)
	isCand := func(c *ast.CallExpr) bool {
		if whole[c] {
			return false
		}
		for _, g := range f.t.calleesOf(f.fi, c) {
			if g.Partial && !g.Writes && len(g.Results) == 1 {
				return true
			}
		}
		return false
	}
	any := false
	for _, p := range ptrs {
		ast.Inspect(*p, func(x ast.Node) bool {
			if _, isLit := x.(*ast.FuncLit); isLit {
				return false
			}
			if c, ok := x.(*ast.CallExpr); ok && isCand(c) {
				any = true
			}
			return true
		})
	}
	if !any {
		return "", s, e, false
	}
	// copy the statement shallowly and rewrite its expressions
	prefix := ""
	var rewrite func(x ast.Expr, guarded bool) ast.Expr
	rewrite = func(x ast.Expr, guarded bool) ast.Expr {
		switch n := x.(type) {
		case *ast.ParenExpr:
			return &ast.ParenExpr{Lparen: n.Lparen, X: rewrite(n.X, guarded), Rparen: n.Rparen}
		case *ast.UnaryExpr:
			return &ast.UnaryExpr{OpPos: n.OpPos, Op: n.Op, X: rewrite(n.X, guarded)}
		case *ast.BinaryExpr:
			g := guarded || n.Op == token.LAND || n.Op == token.LOR
			l := rewrite(n.X, guarded) // the left operand of && / || is always evaluated
			return &ast.BinaryExpr{X: l, OpPos: n.OpPos, Op: n.Op, Y: rewrite(n.Y, g)}
		case *ast.IndexExpr:
			return &ast.IndexExpr{X: rewrite(n.X, guarded), Lbrack: n.Lbrack, Index: rewrite(n.Index, guarded), Rbrack: n.Rbrack}
		case *ast.CallExpr:
			c := &ast.CallExpr{Fun: n.Fun, Lparen: n.Lparen, Ellipsis: n.Ellipsis, Rparen: n.Rparen}
			for _, a := range n.Args {
				c.Args = append(c.Args, rewrite(a, guarded))
			}
			if !isCand(n) {
				return c
			}
			if guarded {
				f.bad(n.Pos(), "call of a partial function in the right operand of && / || (it may not be evaluated)")
			}
			cs, rs, info := f.call(c, e)
			if info == nil || !info.Partial || info.Writes || len(rs) != 1 {
				f.bad(n.Pos(), "internal: hoisted call is not a partial, read-only, single-valued call")
			}
			f.tmp++
			name := "hoist" + strconv.Itoa(f.tmp)
			if _, clash := e.vars[name]; clash {
				f.bad(n.Pos(), "variable named %s", name)
			}
			prefix += f.doBind(vname(name), cs, n.Pos())
			e = e.with(name, rs[0])
			return &ast.Ident{NamePos: n.Pos(), Name: name}
		}
		return x
	}
	var out ast.Stmt
	switch n := s.(type) {
	case *ast.AssignStmt:
		c := *n
		c.Rhs = nil
		for _, r := range n.Rhs {
			c.Rhs = append(c.Rhs, rewrite(r, false))
		}
		out = &c
	case *ast.ReturnStmt:
		c := *n
		c.Results = nil
		for _, r := range n.Results {
			c.Results = append(c.Results, rewrite(r, false))
		}
		out = &c
	case *ast.IfStmt:
		c := *n
		c.Cond = rewrite(n.Cond, false)
		out = &c
	case *ast.ExprStmt:
		c := *n
		c.X = rewrite(n.X, false)
		out = &c
	}
	return prefix, out, e, true
}

// ---------------------------------------------------------------- calls of fuelled / partial functions

// the fuel handed to a fuelled callee: the caller's own
func (f *fx) fuelArg(c *ast.CallExpr, info *funcInfo) string {
	if !f.fi.Fuel {
		f.bad(c.Pos(), "call of the fuelled function %s from %s, which takes no fuel", info.Name, f.fi.Name)
	}
	if fuelShadowed[f] > 0 {
		f.bad(c.Pos(), "call of the fuelled function %s inside a top-level `for cond` loop (its fuel variable is the loop's own counter)", info.Name)
	}
	return " fuel"
}

var fuelShadowed = map[*fx]int{}

// a call of a partial function in statement position / as a whole right-hand side
func (f *fx) partialCallStmt(c *ast.CallExpr, s string, info *funcInfo, temps []string, pat string, rs []ty, e env) (string, []string, []ty, env) {
	if info.Writes {
		sel, ok := c.Fun.(*ast.SelectorExpr)
		if !ok {
			f.bad(c.Pos(), "mutating partial function %s that is not called as a method", info.Name)
		}
		if fs, isSel := sel.X.(*ast.SelectorExpr); isSel {
			if _, isId := fs.X.(*ast.Ident); !isId {
				f.bad(c.Pos(), "mutating method %s called on a doubly nested field", info.Name)
			}
			_, tf := f.selector(fs, e)
			nt := f.fresh()
			p, e3 := f.assign(fs, nt, tf, false, e)
			return f.doBind("("+nt+", "+pat+")", s, c.Pos()) + p, temps, rs, e3
		}
		id, ok := sel.X.(*ast.Ident)
		if !ok {
			f.bad(c.Pos(), "mutating method %s called on something that is not a variable", info.Name)
		}
		if _, ok := e.vars[id.Name]; !ok {
			f.bad(c.Pos(), "mutating method called on unknown variable %s", id.Name)
		}
		f.rebind(id.Name, e)
		return f.doBind("("+vname(id.Name)+", "+pat+")", s, c.Pos()), temps, rs, e
	}
	return f.doBind(pat, s, c.Pos()), temps, rs, e
}

// a function type whose parameters and results are ints / T / bools (func(index int, value T) bool)
func allFlat(x ty) bool {
	for _, p := range append(append([]ty(nil), x.Params...), x.Results...) {
		if p.K != kInt && p.K != kElem && p.K != kBool {
			return false
		}
	}
	return true
}
