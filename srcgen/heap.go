package main

// HEAP MODE: the pointer code of the two linked lists (lists/singlylinkedlist, lists/doublylinkedlist).
// The receiver is a Model/LinkedCells.llist (heap of cells + first / last / size + allocation counter), an
// *element[T] is an address (option nat, nil = None); every function is in the option monad (None = the Go code
// dereferences nil / an unallocated cell, or a fuelled loop runs out of fuel).  The generated code uses the
// primitives of Model/LinkedCells.v (deref, store, alloc, set_first, ..., ptr_eqb, is_nil, the `do` notation).
// See README.md.

import (
	"fmt"
	"go/ast"
	"go/token"
	"sort"
	"strconv"
	"strings"
)

type hty int

const (
	hInt hty = iota
	hBool
	hElem
	hPtr
	hSlice
	hList
	hUnitT
)

func (k hty) coq() string {
	switch k {
	case hInt, hElem:
		return "Z"
	case hBool:
		return "bool"
	case hPtr:
		return "(option nat)"
	case hSlice:
		return "(Datatypes.list Z)"
	case hList:
		return "llist"
	case hIter: // heapiter.go
		return "Iterator"
	case hPred:
		return "(Z -> Z -> bool)"
	}
	return "unit"
}

type hvar struct {
	ty    hty
	depth int
	seq   int
}

type henv struct {
	vars  map[string]hvar
	depth int
}

func (e henv) with(n string, t hty) henv {
	m := make(map[string]hvar, len(e.vars)+1)
	for k, v := range e.vars {
		m[k] = v
	}
	m[n] = hvar{ty: t, depth: e.depth, seq: len(e.vars)}
	return henv{vars: m, depth: e.depth}
}
func (e henv) deeper() henv { return henv{vars: e.vars, depth: e.depth + 1} }
func (e henv) dropTo(depth int) henv {
	m := map[string]hvar{}
	for k, v := range e.vars {
		if v.depth <= depth {
			m[k] = v
		}
	}
	return henv{vars: m, depth: depth}
}
func (e henv) ordered() []string {
	var ns []string
	for n := range e.vars {
		ns = append(ns, n)
	}
	sort.Slice(ns, func(i, j int) bool { return e.vars[ns[i]].seq < e.vars[ns[j]].seq })
	return ns
}

type hfunc struct {
	name    string
	coq     string
	decl    *ast.FuncDecl
	recv    string
	params  []param2
	results []hty
	named   []string // names of named results ("" when unnamed)
	writes  bool
	text    string
}

type param2 struct {
	name string
	ty   hty
}

type hfx struct {
	t     *translator
	u     *unit
	fn    *hfunc
	funcs map[string]*hfunc
	aux   []string
	nloop int
	tmp   int
	logs  []map[string]bool
	logTh []int
	resTy string                     // the Coq type of what `return` yields (inside option)
	brk   []func(e henv) string      // innermost first at the END: what `break` becomes (nil: not allowed here)
	retk  []func(base string) string // inside loops that contain `return`: how a returned value leaves the loop
	wrote bool                       // the translation rebinds the receiver
	local map[string]bool            // slices made by this function (the only ones that may be written)
	iter  *hiterInfo                 // non-nil: a method of a list ITERATOR is being translated (heapiter.go)
}

type hcont func(e henv) string

func (h *hfx) bad(p token.Pos, format string, a ...interface{}) { h.t.unsupported(p, format, a...) }
func (h *hfx) fresh(pfx string) string {
	h.tmp++
	return pfx + strconv.Itoa(h.tmp)
}

func (h *hfx) rebind(n string, e henv) {
	vi, ok := e.vars[n]
	if !ok {
		return
	}
	if n == h.fn.recv {
		h.wrote = true
	}
	for i, l := range h.logs {
		if vi.depth <= h.logTh[i] {
			l[n] = true
		}
	}
}

// the outer variables assigned while running `run`
func (h *hfx) assignedBy(e henv, run func()) []string {
	l := map[string]bool{}
	h.logs = append(h.logs, l)
	h.logTh = append(h.logTh, e.depth)
	naux, nloop, ntmp := len(h.aux), h.nloop, h.tmp
	run()
	h.aux, h.nloop, h.tmp = h.aux[:naux], nloop, ntmp
	h.logs, h.logTh = h.logs[:len(h.logs)-1], h.logTh[:len(h.logTh)-1]
	var ns []string
	for n := range l {
		ns = append(ns, n)
	}
	sort.Slice(ns, func(i, j int) bool { return e.vars[ns[i]].seq < e.vars[ns[j]].seq })
	return ns
}

func htuple(ns []string) string {
	if len(ns) == 0 {
		return "tt"
	}
	if len(ns) == 1 {
		return vname(ns[0])
	}
	var p []string
	for _, n := range ns {
		p = append(p, vname(n))
	}
	return "(" + strings.Join(p, ", ") + ")"
}
func hpat(ns []string) string {
	if len(ns) == 0 {
		return "_"
	}
	if len(ns) == 1 {
		return vname(ns[0])
	}
	return htuple(ns) // the `do` notation of LinkedCells.v takes a pattern without quote
}
func htupleTy(e henv, ns []string) string {
	if len(ns) == 0 {
		return "unit"
	}
	var p []string
	for _, n := range ns {
		p = append(p, e.vars[n].ty.coq())
	}
	if len(p) == 1 {
		return p[0]
	}
	return "(" + strings.Join(p, " * ") + ")"
}

// ---------------------------------------------------------------- types

func (h *hfx) typeOf(x ast.Expr, variadic bool) hty {
	switch n := x.(type) {
	case *ast.Ident:
		switch n.Name {
		case "int":
			return hInt
		case "bool":
			return hBool
		case "T":
			return hElem
		}
	case *ast.Ellipsis:
		if h.typeOf(n.Elt, false) == hElem {
			return hSlice
		}
	case *ast.ArrayType:
		if n.Len == nil && h.typeOf(n.Elt, false) == hElem {
			return hSlice
		}
	case *ast.StarExpr:
		if ix, ok := n.X.(*ast.IndexExpr); ok {
			if id, ok := ix.X.(*ast.Ident); ok {
				switch id.Name {
				case "element":
					return hPtr
				case "List":
					return hList
				}
			}
		}
	}
	if t, ok := h.iterTypeOf(x); ok { // heapiter.go
		return t
	}
	h.bad(x.Pos(), "type %T in a pointer-mode file (int, bool, T, []T, *element[T], *List[T] only)", x)
	return hInt
}

// ---------------------------------------------------------------- expressions: (binds, term, type)

func (h *hfx) isNil(x ast.Expr, e henv) bool {
	id, ok := x.(*ast.Ident)
	_, shadow := e.vars["nil"]
	return ok && id.Name == "nil" && !shadow
}

func (h *hfx) expr(x ast.Expr, e henv) (string, string, hty) {
	switch n := x.(type) {
	case *ast.ParenExpr:
		return h.expr(n.X, e)
	case *ast.BasicLit:
		if n.Kind != token.INT {
			h.bad(n.Pos(), "literal %s", n.Value)
		}
		return "", n.Value, hInt
	case *ast.Ident:
		if n.Name == "true" || n.Name == "false" {
			if _, sh := e.vars[n.Name]; !sh {
				return "", n.Name, hBool
			}
		}
		if h.isNil(n, e) {
			return "", "(@None nat)", hPtr
		}
		if vi, ok := e.vars[n.Name]; ok {
			return "", vname(n.Name), vi.ty
		}
		h.bad(n.Pos(), "identifier %s", n.Name)
	case *ast.CompositeLit:
		if s, ok := h.iterLit(n, e); ok { // heapiter.go
			return "", s, hIter
		}
	case *ast.UnaryExpr:
		if cl, isLit := n.X.(*ast.CompositeLit); isLit && n.Op == token.AND {
			if s, ok := h.iterLit(cl, e); ok { // heapiter.go
				return "", s, hIter
			}
		}
		b, s, t := h.expr(n.X, e)
		switch {
		case n.Op == token.SUB && t == hInt:
			return b, "(- " + s + ")", hInt
		case n.Op == token.NOT && t == hBool:
			return b, "(negb " + s + ")", hBool
		}
		h.bad(n.Pos(), "unary operator %s", n.Op)
	case *ast.SelectorExpr:
		if s, t, ok := h.iterSelect(n, e); ok { // heapiter.go
			return "", s, t
		}
		b, s, t := h.expr(n.X, e)
		switch t {
		case hList:
			id, ok := n.X.(*ast.Ident)
			if (!ok || id.Name != h.fn.recv) && !h.isIterList(n.X) {
				h.bad(n.Pos(), "field of a list that is not the receiver")
			}
			switch n.Sel.Name {
			case "first":
				return b, "(lfirst " + s + ")", hPtr
			case "last":
				return b, "(llast " + s + ")", hPtr
			case "size":
				return b, "(lsize " + s + ")", hInt
			}
		case hPtr: // p.field: through the heap; nil / unallocated = failure
			c := h.fresh("c")
			b += "do " + c + " <- deref (lheap " + h.lv() + ") " + s + ";\n"
			switch n.Sel.Name {
			case "value":
				return b, "(cval " + c + ")", hElem
			case "next":
				return b, "(cnext " + c + ")", hPtr
			case "prev":
				return b, "(cprev " + c + ")", hPtr
			}
		}
		h.bad(n.Pos(), "field selection .%s", n.Sel.Name)
	case *ast.IndexExpr:
		b1, a, ta := h.expr(n.X, e)
		b2, i, ti := h.expr(n.Index, e)
		if ta != hSlice || ti != hInt {
			h.bad(n.Pos(), "index expression")
		}
		x := h.fresh("x") // a read outside the bounds panics
		return b1 + b2 + "do " + x + " <- GoHeap.hs_get " + a + " " + i + ";\n", x, hElem
	case *ast.BinaryExpr:
		b1, a, ta := h.expr(n.X, e)
		b2, c, tb := h.expr(n.Y, e)
		if (n.Op == token.LAND || n.Op == token.LOR) && b2 != "" {
			// short-circuit: the right operand (which reads through a pointer / calls a method) is evaluated only
			// when the left one does not decide
			if ta != hBool || tb != hBool {
				h.bad(n.Pos(), "operands of %s", n.Op)
			}
			r := h.fresh("r")
			if n.Op == token.LAND {
				return b1 + "do " + r + " <- (if " + a + " then (" + b2 + "Some " + c + ") else Some false);\n", r, hBool
			}
			return b1 + "do " + r + " <- (if " + a + " then Some true else (" + b2 + "Some " + c + "));\n", r, hBool
		}
		b := b1 + b2
		if ta == hPtr || tb == hPtr {
			if ta != tb || (n.Op != token.EQL && n.Op != token.NEQ) {
				h.bad(n.Pos(), "pointer operands of %s", n.Op)
			}
			var s string
			switch {
			case h.isNil(n.Y, e):
				s = "(is_nil " + a + ")"
			case h.isNil(n.X, e):
				s = "(is_nil " + c + ")"
			default:
				s = "(ptr_eqb " + a + " " + c + ")"
			}
			if n.Op == token.NEQ {
				s = "(negb " + s + ")"
			}
			return b, s, hBool
		}
		ints := ta == hInt && tb == hInt
		switch n.Op {
		case token.ADD, token.SUB, token.MUL:
			if ints {
				return b, "(" + a + " " + n.Op.String() + " " + c + ")", hInt
			}
		case token.LSS:
			if ints {
				return b, "(" + a + " <? " + c + ")", hBool
			}
		case token.LEQ:
			if ints {
				return b, "(" + a + " <=? " + c + ")", hBool
			}
		case token.GTR:
			if ints {
				return b, "(" + c + " <? " + a + ")", hBool
			}
		case token.GEQ:
			if ints {
				return b, "(" + c + " <=? " + a + ")", hBool
			}
		case token.EQL, token.NEQ:
			if ints || (ta == hElem && tb == hElem) {
				s := "(" + a + " =? " + c + ")"
				if n.Op == token.NEQ {
					s = "(negb " + s + ")"
				}
				return b, s, hBool
			}
		case token.LAND:
			if ta == hBool && tb == hBool {
				return b, "(andb " + a + " " + c + ")", hBool
			}
		case token.LOR:
			if ta == hBool && tb == hBool {
				return b, "(orb " + a + " " + c + ")", hBool
			}
		}
		h.bad(n.Pos(), "binary operator %s on these operands", n.Op)
	case *ast.CallExpr:
		if id, ok := n.Fun.(*ast.Ident); ok && id.Name == "len" && len(n.Args) == 1 {
			b, s, t := h.expr(n.Args[0], e)
			if t == hSlice {
				return b, "(zlen " + s + ")", hInt
			}
		}
		if id, ok := n.Fun.(*ast.Ident); ok && id.Name == "make" && (len(n.Args) == 2 || len(n.Args) == 3) {
			if _, sh := e.vars["make"]; !sh && h.typeOf(n.Args[0], false) == hSlice {
				b1, l, tl := h.expr(n.Args[1], e)
				b2, c, tc := b1, l, tl
				if len(n.Args) == 3 {
					var bb string
					bb, c, tc = h.expr(n.Args[2], e)
					b2 = b1 + bb
				}
				if tl != hInt || tc != hInt {
					h.bad(n.Pos(), "make with non-int sizes")
				}
				r := h.fresh("s") // a negative length / a capacity below the length panics
				return b2 + "do " + r + " <- GoHeap.hs_make " + l + " " + c + ";\n", r, hSlice
			}
		}
		if s, ok := h.predCall(n, e); ok { // heapiter.go: f(index, value)
			return s[0], s[1], hBool
		}
		// a method of the receiver with one result, in expression position
		b, call, fn := h.methodCall(n, e)
		if fn.writes || len(fn.results) != 1 {
			h.bad(n.Pos(), "call of %s inside an expression (it writes or has not exactly one result)", fn.name)
		}
		r := h.fresh("r")
		return b + "do " + r + " <- " + call + ";\n", r, fn.results[0]
	}
	h.bad(x.Pos(), "expression %T", x)
	return "", "", hInt
}

// recv.M(args): binds of the arguments, the application, the callee
func (h *hfx) methodCall(c *ast.CallExpr, e henv) (string, string, *hfunc) {
	if b, s, fn, ok := h.iterCall(c, e); ok { // heapiter.go
		return b, s, fn
	}
	sel, ok := c.Fun.(*ast.SelectorExpr)
	if !ok {
		h.bad(c.Pos(), "call of something that is not a method of the receiver")
	}
	id, ok := sel.X.(*ast.Ident)
	if !ok || id.Name != h.fn.recv {
		h.bad(c.Pos(), "method call on something that is not the receiver")
	}
	fn, ok := h.funcs[sel.Sel.Name]
	if !ok || fn.text == "" {
		h.bad(c.Pos(), "call of %s, which is not a (previously) translated method of this file", sel.Sel.Name)
	}
	binds := ""
	s := "(" + fn.coq + " " + vname(h.fn.recv)
	args := c.Args
	if c.Ellipsis == token.NoPos && len(fn.params) > 0 && fn.params[len(fn.params)-1].ty == hSlice && len(fn.decl.Type.Params.List) > 0 {
		if _, isVar := fn.decl.Type.Params.List[len(fn.decl.Type.Params.List)-1].Type.(*ast.Ellipsis); isVar {
			fixed := len(fn.params) - 1
			var els []string
			for _, a := range args[fixed:] {
				b, as, ta := h.expr(a, e)
				if ta != hElem {
					h.bad(a.Pos(), "variadic argument")
				}
				binds += b
				els = append(els, as)
			}
			for _, a := range args[:fixed] {
				b, as, _ := h.expr(a, e)
				binds += b
				s += " " + as
			}
			return binds, s + " [" + strings.Join(els, "; ") + "])", fn
		}
	}
	if len(args) != len(fn.params) {
		h.bad(c.Pos(), "call of %s with a wrong number of arguments", fn.name)
	}
	for i, a := range args {
		b, as, ta := h.expr(a, e)
		if ta != fn.params[i].ty {
			h.bad(a.Pos(), "argument of unexpected type")
		}
		binds += b
		s += " " + as
	}
	return binds, s + ")", fn
}

// ---------------------------------------------------------------- statements

func (h *hfx) ret(vals []string) string {
	var base string
	switch len(vals) {
	case 0:
		base = "tt"
	case 1:
		base = vals[0]
	default:
		base = "(" + strings.Join(vals, ", ") + ")"
	}
	if h.fn.writes {
		base = "(" + vname(h.fn.recv) + ", " + base + ")"
	}
	return h.leave(base)
}

// a value of the function's result type leaves the function (through the enclosing loops, if any)
func (h *hfx) leave(base string) string {
	if len(h.retk) > 0 {
		return h.retk[len(h.retk)-1](base)
	}
	return "Some " + base
}

func hHasReturn(n ast.Node) bool {
	found := false
	ast.Inspect(n, func(x ast.Node) bool {
		if _, ok := x.(*ast.ReturnStmt); ok {
			found = true
		}
		return !found
	})
	return found
}

// a `break` / `continue` of n that refers to a loop (or switch) AROUND n
func hHasBranch(n ast.Node) bool {
	found := false
	ast.Inspect(n, func(x ast.Node) bool {
		switch x.(type) {
		case *ast.BranchStmt:
			found = true
		case *ast.ForStmt, *ast.RangeStmt, *ast.SwitchStmt:
			if x != n {
				return false
			}
		}
		return !found
	})
	return found
}

func hHasExit(n ast.Node) bool { return hHasReturn(n) || hHasBranch(n) }

// assign `val` (of type tv) to a plain variable or a receiver field / a cell field
func (h *hfx) assign(lhs ast.Expr, val string, tv hty, define bool, e henv) (string, henv) {
	switch l := lhs.(type) {
	case *ast.Ident:
		if l.Name == "_" {
			return "", e
		}
		vi, exists := e.vars[l.Name]
		if define && (!exists || vi.depth != e.depth) {
			if exists {
				h.bad(l.Pos(), "variable %s shadows an outer variable", l.Name)
			}
			return "let " + vname(l.Name) + " := " + val + " in\n", e.with(l.Name, tv)
		}
		if !exists || vi.ty != tv {
			h.bad(l.Pos(), "assignment to %s", l.Name)
		}
		h.rebind(l.Name, e)
		return "let " + vname(l.Name) + " := " + val + " in\n", e
	case *ast.SelectorExpr:
		if p, e2, ok := h.iterAssign(l, val, tv, e); ok { // heapiter.go
			return p, e2
		}
		b, p, tp := h.expr(l.X, e)
		rv := vname(h.fn.recv)
		if h.iter != nil {
			h.bad(l.Pos(), "assignment through a pointer / to a list field in an iterator file (iterators only read the list)")
		}
		switch tp {
		case hList:
			setter := map[string]string{"first": "set_first", "last": "set_last", "size": "set_size"}[l.Sel.Name]
			want := map[string]hty{"first": hPtr, "last": hPtr, "size": hInt}[l.Sel.Name]
			if setter == "" || want != tv {
				h.bad(l.Pos(), "assignment to list.%s", l.Sel.Name)
			}
			h.rebind(h.fn.recv, e)
			return b + "let " + rv + " := " + setter + " " + rv + " " + val + " in\n", e
		case hPtr: // p.field = val: a store; nil / unallocated = failure
			with := map[string]string{"value": "with_val", "next": "with_next", "prev": "with_prev"}[l.Sel.Name]
			want := map[string]hty{"value": hElem, "next": hPtr, "prev": hPtr}[l.Sel.Name]
			if with == "" || want != tv {
				h.bad(l.Pos(), "assignment to the cell field %s", l.Sel.Name)
			}
			hn := h.fresh("h")
			h.rebind(h.fn.recv, e)
			return b + "do " + hn + " <- store (lheap " + rv + ") " + p + " (" + with + " " + val + ");\nlet " + rv + " := set_heap " + rv + " " + hn + " in\n", e
		}
	case *ast.IndexExpr: // s[i] = v on a slice made by this function; out of range = failure
		id, ok := l.X.(*ast.Ident)
		if !ok || !h.local[id.Name] {
			h.bad(lhs.Pos(), "assignment to an element of a slice that was not made by this function")
		}
		vi := e.vars[id.Name]
		bi, i, ti := h.expr(l.Index, e)
		if vi.ty != hSlice || ti != hInt || tv != hElem {
			h.bad(lhs.Pos(), "element assignment")
		}
		h.rebind(id.Name, e)
		return bi + "do " + vname(id.Name) + " <- GoHeap.hs_set " + vname(id.Name) + " " + i + " " + val + ";\n", e
	}
	h.bad(lhs.Pos(), "assignment target")
	return "", e
}

// &element[T]{value: v, next: x, prev: y}
func (h *hfx) isAlloc(x ast.Expr) (*ast.CompositeLit, bool) {
	u, ok := x.(*ast.UnaryExpr)
	if !ok || u.Op != token.AND {
		return nil, false
	}
	cl, ok := u.X.(*ast.CompositeLit)
	if !ok {
		return nil, false
	}
	if ix, ok := cl.Type.(*ast.IndexExpr); ok {
		if id, ok := ix.X.(*ast.Ident); ok && id.Name == "element" {
			return cl, true
		}
	}
	return nil, false
}

func (h *hfx) stmts(ss []ast.Stmt, e henv, k hcont) string {
	if len(ss) == 0 {
		return k(e)
	}
	s, rest := ss[0], ss[1:]
	next := func(e2 henv) string { return h.stmts(rest, e2, k) }
	rv := vname(h.fn.recv)
	switch n := s.(type) {
	case *ast.EmptyStmt:
		return next(e)
	case *ast.DeclStmt:
		gd := n.Decl.(*ast.GenDecl)
		out := ""
		for _, sp := range gd.Specs {
			vs := sp.(*ast.ValueSpec)
			if vs.Type == nil || len(vs.Values) != 0 {
				h.bad(vs.Pos(), "var declaration with initialiser")
			}
			t := h.typeOf(vs.Type, false)
			z := map[hty]string{hInt: "0", hElem: "0", hBool: "false", hPtr: "(@None nat)"}[t]
			if z == "" {
				h.bad(vs.Pos(), "var of this type")
			}
			for _, nm := range vs.Names {
				var p string
				p, e = h.assign(nm, z, t, true, e)
				out += p
			}
		}
		return out + next(e)
	case *ast.IncDecStmt:
		b, cur, t := h.expr(n.X, e)
		if t != hInt {
			h.bad(n.Pos(), "++ / -- on a non-int")
		}
		op := " + 1"
		if n.Tok == token.DEC {
			op = " - 1"
		}
		p, e2 := h.assign(n.X, "("+cur+op+")", hInt, false, e)
		return b + p + next(e2)
	case *ast.ExprStmt:
		c, ok := n.X.(*ast.CallExpr)
		if !ok {
			h.bad(n.Pos(), "expression statement")
		}
		b, call, fn := h.methodCall(c, e)
		if fn.writes {
			h.rebind(h.fn.recv, e)
			return b + "do (" + rv + ", _) <- " + call + ";\n" + next(e)
		}
		return b + "do _ <- " + call + ";\n" + next(e)
	case *ast.AssignStmt:
		return h.assignStmt(n, e, next)
	case *ast.ReturnStmt:
		if len(n.Results) == 0 {
			var vals []string
			for _, nm := range h.fn.named {
				if nm == "" {
					h.bad(n.Pos(), "bare return with unnamed results")
				}
				vals = append(vals, vname(nm))
			}
			return h.ret(vals)
		}
		if s, ok := h.retWritingCall(n, e); ok { // heapiter.go: return iterator.Next()
			return s
		}
		if len(n.Results) != len(h.fn.results) {
			h.bad(n.Pos(), "return with %d values", len(n.Results))
		}
		binds := ""
		var vals []string
		for i, r := range n.Results {
			b, v, tv := h.expr(r, e)
			if tv != h.fn.results[i] {
				h.bad(r.Pos(), "returned value of unexpected type")
			}
			binds += b
			vals = append(vals, v)
		}
		return binds + h.ret(vals)
	case *ast.IfStmt:
		if n.Init != nil {
			h.bad(n.Pos(), "if with an initialiser")
		}
		b, c, tc := h.expr(n.Cond, e)
		if tc != hBool {
			h.bad(n.Cond.Pos(), "condition")
		}
		branch := func(kk hcont) (string, string) {
			a := h.stmts(n.Body.List, e.deeper(), kk)
			bb := ""
			switch el := n.Else.(type) {
			case nil:
				bb = kk(e)
			case *ast.BlockStmt:
				bb = h.stmts(el.List, e.deeper(), kk)
			case *ast.IfStmt:
				bb = h.stmts([]ast.Stmt{el}, e.deeper(), kk)
			}
			return a, bb
		}
		if hHasExit(n.Body) || (n.Else != nil && hHasExit(n.Else)) {
			kk := func(e2 henv) string { return next(e2.dropTo(e.depth)) }
			a, bb := branch(kk)
			return b + "if " + c + "\nthen (" + a + ")\nelse (" + bb + ")"
		}
		ms := h.assignedBy(e, func() { branch(func(henv) string { return "" }) })
		a, bb := branch(func(henv) string { return "Some " + htuple(ms) })
		for _, m := range ms {
			h.rebind(m, e)
		}
		return b + "do " + hpat(ms) + " <- (if " + c + "\n  then (" + a + ")\n  else (" + bb + "));\n" + next(e)
	case *ast.ForStmt:
		return h.forStmt(n, e, next)
	case *ast.RangeStmt:
		return h.rangeStmt(n, e, next)
	case *ast.BranchStmt:
		if n.Tok != token.BREAK || n.Label != nil || len(h.brk) == 0 || h.brk[len(h.brk)-1] == nil {
			h.bad(n.Pos(), "%s here (only a plain `break` of a `for init; cond; post` loop is translated)", n.Tok)
		}
		return h.brk[len(h.brk)-1](e)
	case *ast.SwitchStmt:
		return h.switchStmt(n, e, next)
	}
	h.bad(s.Pos(), "statement %T", s)
	return ""
}

func (h *hfx) assignStmt(n *ast.AssignStmt, e henv, next hcont) string {
	define := n.Tok == token.DEFINE
	rv := vname(h.fn.recv)
	if n.Tok != token.ASSIGN && !define {
		var op string
		switch n.Tok {
		case token.ADD_ASSIGN:
			op = " + "
		case token.SUB_ASSIGN:
			op = " - "
		default:
			h.bad(n.Pos(), "assignment operator %s", n.Tok)
		}
		b1, cur, t1 := h.expr(n.Lhs[0], e)
		b2, v, t2 := h.expr(n.Rhs[0], e)
		if t1 != hInt || t2 != hInt {
			h.bad(n.Pos(), "compound assignment on non-ints")
		}
		p, e2 := h.assign(n.Lhs[0], "("+cur+op+v+")", hInt, false, e)
		return b1 + b2 + p + next(e2)
	}
	if len(n.Lhs) != len(n.Rhs) {
		// value, ok := list.Get(i)-style calls are not used by these files
		h.bad(n.Pos(), "assignment with %d targets and %d values", len(n.Lhs), len(n.Rhs))
	}
	if len(n.Lhs) == 1 {
		if cl, ok := h.isAlloc(n.Rhs[0]); ok { // x := &element[T]{...}
			val, nxt, prv, binds := "0", "None", "None", "" // record fields are typed
			for _, el := range cl.Elts {
				kv, ok := el.(*ast.KeyValueExpr)
				if !ok {
					h.bad(el.Pos(), "positional element literal")
				}
				b, v, tv := h.expr(kv.Value, e)
				binds += b
				switch key := kv.Key.(*ast.Ident).Name; {
				case key == "value" && tv == hElem:
					val = v
				case key == "next" && tv == hPtr:
					nxt = v
				case key == "prev" && tv == hPtr:
					prv = v
				default:
					h.bad(el.Pos(), "field %s of the element literal", key)
				}
			}
			tmp := h.fresh("a")
			h.rebind(h.fn.recv, e)
			p, e2 := h.assign(n.Lhs[0], tmp, hPtr, define, e)
			return binds + "let '(" + rv + ", " + tmp + ") := alloc " + rv + " {| cval := " + val + "; cnext := " + nxt + "; cprev := " + prv + " |} in\n" + p + next(e2)
		}
		if u, ok := n.Rhs[0].(*ast.UnaryExpr); ok && u.Op == token.AND { // list := &List[T]{}
			if cl, ok := u.X.(*ast.CompositeLit); ok && len(cl.Elts) == 0 {
				if ix, ok := cl.Type.(*ast.IndexExpr); ok {
					if id, ok := ix.X.(*ast.Ident); ok && id.Name == "List" {
						p, e2 := h.assign(n.Lhs[0], "empty_llist", hList, define, e)
						return p + next(e2)
					}
				}
			}
		}
		if c, ok := n.Rhs[0].(*ast.CallExpr); ok { // x := list.M(...)
			if sel, ok := c.Fun.(*ast.SelectorExpr); ok {
				if id, ok := sel.X.(*ast.Ident); ok && id.Name == h.fn.recv {
					b, call, fn := h.methodCall(c, e)
					if len(fn.results) != 1 {
						h.bad(n.Pos(), "call with %d results assigned to one target", len(fn.results))
					}
					r := h.fresh("r")
					pat := r
					if fn.writes {
						pat = "(" + rv + ", " + r + ")"
						h.rebind(h.fn.recv, e)
					}
					p, e2 := h.assign(n.Lhs[0], r, fn.results[0], define, e)
					return b + "do " + pat + " <- " + call + ";\n" + p + next(e2)
				}
			}
		}
		b, v, tv := h.expr(n.Rhs[0], e)
		if c, ok := n.Rhs[0].(*ast.CallExpr); ok && define {
			if id, ok := c.Fun.(*ast.Ident); ok && id.Name == "make" {
				if l, ok := n.Lhs[0].(*ast.Ident); ok {
					h.local[l.Name] = true
				}
			}
		}
		p, e2 := h.assign(n.Lhs[0], v, tv, define, e)
		return b + p + next(e2)
	}
	// parallel assignment: all right-hand sides first
	out := ""
	var temps []string
	var tys []hty
	for _, r := range n.Rhs {
		b, v, tv := h.expr(r, e)
		t := h.fresh("t")
		out += b + "let " + t + " := " + v + " in\n"
		temps = append(temps, t)
		tys = append(tys, tv)
	}
	for i, l := range n.Lhs {
		var p string
		p, e = h.assign(l, temps[i], tys[i], define, e)
		out += p
	}
	return out + next(e)
}

// ---------------------------------------------------------------- loops
//
// A loop becomes a Fixpoint over every variable in scope; it yields the outer variables its body assigns (ms).
// When the body contains `return`, the loop yields (early, ms) where early : option <result of the function> is
// Some r when the body returned r.  `break` (fuelled loops only) yields the current ms.

type hloop struct {
	h      *hfx
	e      henv     // the environment around the loop
	ms     []string // outer variables assigned by an iteration
	hasRet bool
}

func (l *hloop) normal() string { // the loop ends normally with the current values
	if l.hasRet {
		if len(l.ms) == 0 {
			return "Some None"
		}
		return "Some (None, " + htuple(l.ms) + ")"
	}
	return "Some " + htuple(l.ms)
}
func (l *hloop) early(base string) string {
	if len(l.ms) == 0 {
		return "Some (Some " + base + ")"
	}
	return "Some (Some " + base + ", " + htuple(l.ms) + ")"
}
func (l *hloop) resTy() string {
	if l.hasRet {
		if len(l.ms) == 0 {
			return "(option " + l.h.resTy + ")"
		}
		return "(option " + l.h.resTy + " * " + htupleTy(l.e, l.ms) + ")"
	}
	return htupleTy(l.e, l.ms)
}

// translate one iteration twice: once to find ms, once for real.  brk: whether `break` is allowed.
func (l *hloop) build(brk bool, iter func(kk hcont) string, rec string) string {
	h := l.h
	push := func() {
		if brk {
			h.brk = append(h.brk, func(henv) string { return l.normal() })
		} else {
			h.brk = append(h.brk, nil)
		}
		if l.hasRet {
			h.retk = append(h.retk, l.early)
		}
	}
	pop := func() {
		h.brk = h.brk[:len(h.brk)-1]
		if l.hasRet {
			h.retk = h.retk[:len(h.retk)-1]
		}
	}
	push()
	l.ms = h.assignedBy(l.e, func() { iter(func(henv) string { return "" }) })
	b := iter(func(henv) string { return rec })
	pop()
	for _, m := range l.ms {
		h.rebind(m, l.e)
	}
	return b
}

// the call of the loop function and what follows
func (l *hloop) call(app string, next hcont) string {
	h := l.h
	if !l.hasRet {
		return "do " + hpat(l.ms) + " <- " + app + ";\n" + next(l.e)
	}
	er := h.fresh("er")
	pat := er
	if len(l.ms) > 0 {
		pat = "(" + er + ", " + htuple(l.ms) + ")"
	}
	r := h.fresh("r")
	return "do " + pat + " <- " + app + ";\nmatch " + er + " with\n| Some " + r + " => " + h.leave(r) + "\n| None => " + next(l.e) + "\nend"
}

func hbinders(e henv) ([]string, []string) {
	var binders, args []string
	for _, v := range e.ordered() {
		binders = append(binders, "("+vname(v)+" : "+e.vars[v].ty.coq()+")")
		args = append(args, vname(v))
	}
	return binders, args
}

// for _, x := range xs / for i, x := range xs: a structural Fixpoint over the list (the body may fail)
func (h *hfx) rangeStmt(n *ast.RangeStmt, e henv, next hcont) string {
	bx, xs, tx := h.expr(n.X, e)
	if tx != hSlice || n.Tok != token.DEFINE {
		h.bad(n.Pos(), "range over something that is not a slice")
	}
	name := func(x ast.Expr) string {
		if x == nil {
			return ""
		}
		id := x.(*ast.Ident)
		if id.Name == "_" {
			return ""
		}
		if _, ex := e.vars[id.Name]; ex {
			h.bad(x.Pos(), "range variable %s shadows an outer variable", id.Name)
		}
		return id.Name
	}
	key, val := name(n.Key), name(n.Value)
	h.nloop++
	fname := h.fn.coq + "_loop" + strconv.Itoa(h.nloop)
	ein := e.deeper()
	pre := ""
	if key != "" {
		ein = ein.with(key, hInt)
		pre += "let " + vname(key) + " := idx in\n"
	}
	if val != "" {
		ein = ein.with(val, hElem)
		pre += "let " + vname(val) + " := x in\n"
	}
	ein = henv{vars: ein.vars, depth: ein.depth + 1}
	binders, args := hbinders(e)
	l := &hloop{h: h, e: e, hasRet: hHasReturn(n.Body)}
	rec := "(" + fname + " xs' (idx + 1) " + strings.Join(args, " ") + ")"
	b := l.build(false, func(kk hcont) string { return h.stmts(n.Body.List, ein, kk) }, rec)
	h.aux = append(h.aux, "Fixpoint "+fname+" (xs : Datatypes.list Z) (idx : Z) "+strings.Join(binders, " ")+" {struct xs} : option "+l.resTy()+" :=\n"+
		"match xs with\n| Datatypes.nil => "+l.normal()+"\n| Datatypes.cons x xs' =>\n"+pre+b+"\nend.\n")
	return bx + l.call(fname+" "+xs+" 0 "+strings.Join(args, " "), next)
}

// switch tag { case a, b: ...; default: ... } on an int tag without side effects: the chain of ifs
func (h *hfx) switchStmt(n *ast.SwitchStmt, e henv, next hcont) string {
	if n.Init != nil || n.Tag == nil {
		h.bad(n.Pos(), "switch with an initialiser / without a tag")
	}
	if b, _, t := h.expr(n.Tag, e); b != "" || t != hInt {
		h.bad(n.Tag.Pos(), "switch tag that is not a plain int expression")
	}
	var chain, last *ast.IfStmt
	var deflt *ast.BlockStmt
	for _, c := range n.Body.List {
		cc := c.(*ast.CaseClause)
		for _, st := range cc.Body {
			if br, ok := st.(*ast.BranchStmt); ok && br.Tok == token.FALLTHROUGH {
				h.bad(br.Pos(), "fallthrough")
			}
		}
		blk := &ast.BlockStmt{Lbrace: cc.Colon, List: cc.Body, Rbrace: cc.End()}
		if cc.List == nil {
			if deflt != nil {
				h.bad(cc.Pos(), "two default clauses")
			}
			deflt = blk
			continue
		}
		var cond ast.Expr
		for _, v := range cc.List {
			if b, _, t := h.expr(v, e); b != "" || t != hInt {
				h.bad(v.Pos(), "case value that is not a plain int expression")
			}
			eq := &ast.BinaryExpr{X: n.Tag, OpPos: v.Pos(), Op: token.EQL, Y: v}
			if cond == nil {
				cond = eq
			} else {
				cond = &ast.BinaryExpr{X: cond, OpPos: v.Pos(), Op: token.LOR, Y: eq}
			}
		}
		ifs := &ast.IfStmt{If: cc.Pos(), Cond: cond, Body: blk}
		if chain == nil {
			chain = ifs
		} else {
			last.Else = ifs
		}
		last = ifs
	}
	// `break` inside a switch leaves the switch: not translated (refused where it occurs)
	saved := h.brk
	h.brk = append(append([]func(henv) string(nil), saved...), nil)
	after := func(e2 henv) string {
		inner := h.brk
		h.brk = saved
		r := next(e2)
		h.brk = inner
		return r
	}
	var out string
	switch {
	case chain == nil && deflt == nil:
		out = after(e)
	case chain == nil:
		out = h.stmts(deflt.List, e.deeper(), func(e2 henv) string { return after(e2.dropTo(e.depth)) })
	default:
		if deflt != nil {
			last.Else = deflt
		}
		out = h.stmts([]ast.Stmt{chain}, e, after)
	}
	h.brk = saved
	return out
}

// for init; cond; post { body }:
//   - `for v := a; v >= b; v--` / `for v := a; v < b; v++` whose body neither assigns v nor leaves the loop: a
//     structural Fixpoint over the list of the indices;
//   - anything else: a Fixpoint on explicit FUEL, the maximal number of iterations (None when the condition still
//     holds and the fuel is used up): the number of allocated cells + 1 for `for ...; p != nil; ...` (a walk along a
//     chain that does not end within that many steps never ends), size + 1 of the receiver at loop entry otherwise.
func (h *hfx) forStmt(n *ast.ForStmt, e henv, next hcont) string {
	if n.Cond == nil {
		h.bad(n.Pos(), "loop without condition")
	}
	eL := e.deeper()
	init := ""
	if n.Init != nil {
		as, ok := n.Init.(*ast.AssignStmt)
		if !ok || as.Tok != token.DEFINE {
			h.bad(n.Pos(), "loop initialiser that is not `x := ...`")
		}
		init = h.assignStmt(as, eL, func(e2 henv) string { eL = e2; return "" })
	}
	// counted loop over a slice index
	if as, ok := n.Init.(*ast.AssignStmt); ok && len(as.Lhs) == 1 && n.Post != nil && !hHasReturn(n.Body) && !hHasBranch(n.Body) {
		iv := as.Lhs[0].(*ast.Ident).Name
		if cond, ok := n.Cond.(*ast.BinaryExpr); ok {
			if ci, ok := cond.X.(*ast.Ident); ok && ci.Name == iv {
				if post, ok := n.Post.(*ast.IncDecStmt); ok {
					if pi, ok := post.X.(*ast.Ident); ok && pi.Name == iv {
						down := cond.Op == token.GEQ && post.Tok == token.DEC
						up := cond.Op == token.LSS && post.Tok == token.INC
						bb, bound, tb := h.expr(cond.Y, e)
						if (down || up) && tb == hInt && bb == "" && !readVars(cond.Y)[iv] {
							return h.countedLoop(n, iv, as.Rhs[0], bound, down, e, next)
						}
					}
				}
			}
		}
	}
	h.nloop++
	fname := h.fn.coq + "_loop" + strconv.Itoa(h.nloop)
	eB := henv{vars: eL.vars, depth: eL.depth + 1}
	var bc, c string
	var tc hty
	condWrites := false
	if cb, cc, ok := h.iterCond(n, eL); ok { // heapiter.go: for iterator.Next() { ... }
		bc, c, tc, condWrites = cb, cc, hBool, true
	} else {
		bc, c, tc = h.expr(n.Cond, eL)
	}
	if tc != hBool {
		h.bad(n.Cond.Pos(), "loop condition")
	}
	var post []ast.Stmt
	if n.Post != nil {
		post = []ast.Stmt{n.Post}
	}
	binders, args := hbinders(eL)
	l := &hloop{h: h, e: e, hasRet: hHasReturn(n.Body)}
	rec := "(" + fname + " fuel' " + strings.Join(args, " ") + ")"
	b := l.build(true, func(kk hcont) string {
		if condWrites { // the condition assigns the receiver (iterator): it is part of what the loop yields
			h.rebind(h.fn.recv, eB)
		}
		return h.stmts(n.Body.List, eB, func(e2 henv) string {
			// the post statement is outside the reach of `break`
			saved := h.brk
			h.brk = append(append([]func(henv) string(nil), saved...), nil)
			r := h.stmts(post, e2.dropTo(eB.depth), kk)
			h.brk = saved
			return r
		})
	}, rec)
	h.aux = append(h.aux, "Fixpoint "+fname+" (fuel : nat) "+strings.Join(binders, " ")+" {struct fuel} : option "+l.resTy()+" :=\n"+
		bc+"if "+c+"\nthen match fuel with\n  | O => None (* out of fuel *)\n  | S fuel' =>\n"+b+"\n  end\nelse "+l.normal()+".\n")
	fuel := "(S (Z.to_nat (lsize " + h.lv() + ")))"
	if cond, ok := n.Cond.(*ast.BinaryExpr); ok && cond.Op == token.NEQ && h.isNil(cond.Y, eL) {
		if _, _, t := h.expr(cond.X, eL); t == hPtr {
			fuel = "(S (lnext_addr " + h.lv() + "))"
		}
	}
	return init + l.call(fname+" "+fuel+" "+strings.Join(args, " "), next)
}

func (h *hfx) countedLoop(n *ast.ForStmt, iv string, startX ast.Expr, bound string, down bool, e henv, next hcont) string {
	bs, start, ts := h.expr(startX, e)
	if ts != hInt {
		h.bad(n.Pos(), "loop start")
	}
	h.nloop++
	fname := h.fn.coq + "_loop" + strconv.Itoa(h.nloop)
	ein := e.deeper().with(iv, hInt)
	ein = henv{vars: ein.vars, depth: ein.depth + 1}
	body := func(kk hcont) string { return h.stmts(n.Body.List, ein, kk) }
	lv := map[string]bool{}
	h.logs = append(h.logs, lv)
	h.logTh = append(h.logTh, ein.depth)
	h.brk = append(h.brk, nil)
	body(func(henv) string { return "" })
	h.brk = h.brk[:len(h.brk)-1]
	h.logs, h.logTh = h.logs[:len(h.logs)-1], h.logTh[:len(h.logTh)-1]
	if lv[iv] {
		h.bad(n.Pos(), "loop body assigns the loop variable %s", iv)
	}
	binders, args := hbinders(e)
	l := &hloop{h: h, e: e}
	rec := "(" + fname + " idxs' " + strings.Join(args, " ") + ")"
	b := l.build(false, body, rec)
	h.aux = append(h.aux, "Fixpoint "+fname+" (idxs : Datatypes.list Z) "+strings.Join(binders, " ")+" {struct idxs} : option "+l.resTy()+" :=\n"+
		"match idxs with\n| Datatypes.nil => "+l.normal()+"\n| Datatypes.cons "+vname(iv)+" idxs' =>\n"+b+"\nend.\n")
	var idxs string
	if down {
		idxs = "(List.map (fun k : nat => " + start + " - Z.of_nat k) (List.seq 0 (Z.to_nat ((" + start + " + 1) - " + bound + "))))"
	} else {
		idxs = "(List.map (fun k : nat => " + start + " + Z.of_nat k) (List.seq 0 (Z.to_nat (" + bound + " - " + start + "))))"
	}
	return bs + l.call(fname+" "+idxs+" "+strings.Join(args, " "), next)
}

// ---------------------------------------------------------------- the unit

func (t *translator) heapUnit(u *unit) {
	t.heapIterSetup(u) // heapiter.go: nothing unless the unit is the iterator of a list
	funcs := map[string]*hfunc{}
	var order []*hfunc
	for _, d := range u.allDecls() {
		fd, ok := d.(*ast.FuncDecl)
		if !ok {
			if gd, isGen := d.(*ast.GenDecl); isGen && gd.Tok == token.TYPE {
				t.guard(func() { t.heapTypes(u, gd) })
			}
			continue
		}
		name := fd.Name.Name
		if reason, skip := u.Spec.Skip[name]; skip {
			u.Skipped = append(u.Skipped, [2]string{name, reason})
			continue
		}
		fn := &hfunc{name: name, coq: mangle(name), decl: fd}
		if name == "Iterator" && heapIterOf[u] != nil {
			fn.coq = "List_Iterator" // the record is called Iterator
		}
		funcs[name] = fn
		order = append(order, fn)
	}
	for n := range u.Spec.Skip {
		found := false
		for _, s := range u.Skipped {
			found = found || s[0] == n
		}
		if !found {
			t.errs = append(t.errs, fmt.Sprintf("%s: explicitly skipped function %s has vanished from the file", u.Spec.GoFile, n))
		}
	}
	// callees first
	var sorted []*hfunc
	state := map[*hfunc]int{}
	var visit func(fn *hfunc)
	visit = func(fn *hfunc) {
		if state[fn] != 0 {
			return
		}
		state[fn] = 1
		ast.Inspect(fn.decl.Body, func(x ast.Node) bool {
			if c, ok := x.(*ast.CallExpr); ok {
				if sel, ok := c.Fun.(*ast.SelectorExpr); ok {
					if g, ok := funcs[sel.Sel.Name]; ok && g != fn {
						visit(g)
					}
				}
			}
			return true
		})
		state[fn] = 2
		sorted = append(sorted, fn)
	}
	for _, fn := range order {
		visit(fn)
	}
	for _, fn := range sorted {
		fn := fn
		ok := t.guard(func() { t.heapFunc(u, fn, funcs) })
		if !ok {
			t.errs[len(t.errs)-1] += " [in function " + fn.name + " of " + u.Spec.GoFile + "]"
			fn.text = "(* refused *)"
			continue
		}
		u.Funcs = append(u.Funcs, &funcInfo{Unit: u, Name: fn.name, Coq: fn.coq, text: fn.text, Decl: fn.decl})
	}
	heapFuncsOf[u.Spec.Module] = funcs
}

// the two struct types must be exactly what the cells of Model/LinkedCells.v model: List{first, last *element[T];
// size int} and element{value T; next [, prev] *element[T]}; any other field or type is refused
func (t *translator) heapTypes(u *unit, gd *ast.GenDecl) {
	want := map[string]map[string]string{
		"List":    {"first": "*element", "last": "*element", "size": "int"},
		"element": {"value": "T", "next": "*element", "prev": "*element"},
	}
	for _, sp := range gd.Specs {
		ts := sp.(*ast.TypeSpec)
		if ts.Name.Name == "Iterator" && heapIterOf[u] != nil { // heapiter.go
			t.heapIterType(u, ts)
			continue
		}
		fields, ok := want[ts.Name.Name]
		st, isStruct := ts.Type.(*ast.StructType)
		if !ok || !isStruct {
			t.unsupported(ts.Pos(), "type %s declared in a pointer-mode file (only the structs List and element)", ts.Name.Name)
		}
		seen := map[string]bool{}
		for _, f := range fieldList(st.Fields) {
			ty := ""
			switch x := f.typ.(type) {
			case *ast.Ident:
				ty = x.Name
			case *ast.StarExpr:
				if ix, ok := x.X.(*ast.IndexExpr); ok {
					if id, ok := ix.X.(*ast.Ident); ok {
						ty = "*" + id.Name
					}
				}
			}
			if fields[f.name] == "" || fields[f.name] != ty {
				t.unsupported(ts.Pos(), "field %s of the struct %s (the cell model has List{first, last, size} and element{value, next, prev})", f.name, ts.Name.Name)
			}
			seen[f.name] = true
		}
		for n := range fields {
			if !seen[n] && n != "prev" {
				t.unsupported(ts.Pos(), "the struct %s has no field %s", ts.Name.Name, n)
			}
		}
	}
}

func (t *translator) heapFunc(u *unit, fn *hfunc, funcs map[string]*hfunc) {
	h := &hfx{t: t, u: u, fn: fn, funcs: funcs, local: map[string]bool{}, iter: heapIterOf[u]}
	fd := fn.decl
	e := henv{vars: map[string]hvar{}}
	var binders []string
	recvTy := hList
	if fd.Recv != nil {
		rn, rt, _, ok := recvInfo(fd)
		if ok && rt == "Iterator" && h.iter != nil { // heapiter.go: the iterator, and the list it walks as a parameter
			recvTy = hIter
			fn.recv = rn
			e = e.with(rn, hIter)
			binders = append(binders, "("+vname(rn)+" : Iterator)")
			if h.iter.needs[fn.name] {
				e = e.with("list", hList)
				binders = append(binders, "(v_list : llist)")
			}
		} else {
			if !ok || rt != "List" {
				t.unsupported(fd.Pos(), "receiver of %s", fn.name)
			}
			fn.recv = rn
			e = e.with(rn, hList)
			binders = append(binders, "("+vname(rn)+" : llist)")
		}
	}
	for _, p := range fieldList(fd.Type.Params) {
		ty := h.typeOf(p.typ, false)
		fn.params = append(fn.params, param2{p.name, ty})
		e = e.with(p.name, ty)
		binders = append(binders, "("+vname(p.name)+" : "+ty.coq()+")")
	}
	pre := ""
	for _, r := range fieldList(fd.Type.Results) {
		ty := h.typeOf(r.typ, false)
		fn.results = append(fn.results, ty)
		fn.named = append(fn.named, r.name)
		if r.name != "" {
			z := map[hty]string{hInt: "0", hElem: "0", hBool: "false", hPtr: "(@None nat)"}[ty]
			e = e.with(r.name, ty)
			pre += "let " + vname(r.name) + " := " + z + " in\n"
		}
	}
	for _, p := range fn.params {
		if p.name == "list" && recvTy == hIter {
			t.unsupported(fd.Pos(), "parameter named list in an iterator method")
		}
	}
	if fd.Recv == nil { // New: the result is the list built in a local variable
		if len(fn.results) != 1 || fn.results[0] != hList {
			t.unsupported(fd.Pos(), "plain function that does not return a list")
		}
		fn.recv = "list"
	}
	// does the function write the receiver?  (syntactic: any assignment through the receiver / a pointer, an
	// allocation, or a call of a writing method)
	if fd.Recv != nil {
		ast.Inspect(fd.Body, func(x ast.Node) bool {
			switch y := x.(type) {
			case *ast.AssignStmt:
				for _, l := range y.Lhs {
					if ix, ok := l.(*ast.IndexExpr); ok {
						if _, plain := ix.X.(*ast.Ident); plain {
							continue // an element of a local slice (anything else is refused by assign)
						}
					}
					if _, plain := l.(*ast.Ident); !plain {
						fn.writes = true
					}
				}
				for _, r := range y.Rhs {
					if _, ok := h.isAlloc(r); ok {
						fn.writes = true
					}
				}
			case *ast.IncDecStmt:
				if _, plain := y.X.(*ast.Ident); !plain {
					fn.writes = true
				}
			case *ast.CallExpr:
				if sel, ok := y.Fun.(*ast.SelectorExpr); ok {
					if g, ok := funcs[sel.Sel.Name]; ok && g.writes {
						fn.writes = true
					}
				}
			}
			return true
		})
	}
	var rs []string
	for _, r := range fn.results {
		rs = append(rs, r.coq())
	}
	resTy := "unit"
	if len(rs) == 1 {
		resTy = rs[0]
	} else if len(rs) > 1 {
		resTy = "(" + strings.Join(rs, " * ") + ")"
	}
	if fn.writes {
		resTy = "(" + recvTy.coq() + " * " + resTy + ")"
	}
	h.resTy = resTy
	k0 := func(e2 henv) string {
		if len(fn.results) == 0 {
			return h.ret(nil)
		}
		var vals []string
		for _, nm := range fn.named {
			if nm == "" {
				t.unsupported(fd.Body.Rbrace, "control reaches the end of a function with unnamed results")
			}
			vals = append(vals, vname(nm))
		}
		return h.ret(vals)
	}
	body := h.stmts(fd.Body.List, e, k0)
	if fd.Recv != nil && h.wrote && !fn.writes {
		// safety net: the syntactic write analysis (which decides the result type) must agree with the translation
		t.unsupported(fd.Pos(), "%s was analysed as read-only but its translation writes the list", fn.name)
	}
	pos := t.fset.Position(fd.Pos())
	out := fmt.Sprintf("(* %s:%d  func %s *)\n", u.Spec.GoFile, pos.Line, fn.name)
	for _, a := range h.aux {
		out += a
	}
	out += "Definition " + fn.coq + " " + strings.Join(binders, " ") + " : option " + resTy + " :=\n" + pre + body + ".\n"
	fn.text = out
}

func (t *translator) emitHeap(u *unit) string {
	var b strings.Builder
	var names, skipped []string
	for _, fi := range u.Funcs {
		names = append(names, fi.Coq)
	}
	for _, s := range u.Skipped {
		skipped = append(skipped, s[0])
	}
	fmt.Fprintf(&b, "(* GENERATED by /verif/srcgen (srcgen -repo ... -out ...) -- DO NOT EDIT.\n")
	fmt.Fprintf(&b, "   source: %s  (sha256 %s, %d lines)\n", u.Spec.GoFile, u.Sha, u.SrcLines)
	fmt.Fprintf(&b, "   POINTER MODE: the list is a Model/LinkedCells.llist (heap of cells, first / last / size, allocation counter),\n   an *element[T] an address (option nat, nil = None); every function is in the option monad: None = the Go code\n   dereferences nil (or an unallocated cell), or a fuelled loop runs out of fuel (fuel = maximal number of iterations: allocated cells + 1 for\n   `for ...; p != nil; ...`, size + 1 otherwise).\n")
	fmt.Fprintf(&b, "   translated: %s\n", strings.Join(names, ", "))
	for _, s := range u.Skipped {
		fmt.Fprintf(&b, "   SKIPPED explicitly: %s -- %s\n", s[0], s[1])
	}
	fmt.Fprintf(&b, "*)\nFrom Coq Require Import String.\nFrom Coq Require Import ZArith List Bool.\nFrom Gods Require Import Spec.SeqSpec Model.LinkedCells.\nFrom GodsGenProofs Require GoHeap. (* hand-written: checked slice reads / writes / make, /verif/srcgen/coq/GoHeap.v *)\nImport ListNotations.\nLocal Open Scope Z_scope.\n\n")
	b.WriteString(t.heapIterPrelude(u)) // heapiter.go: the iterator record (empty for the lists themselves)
	for _, fi := range u.Funcs {
		b.WriteString(fi.text)
		b.WriteString("\n")
	}
	sorted := append([]string(nil), names...)
	sort.Strings(sorted)
	sort.Strings(skipped)
	fmt.Fprintf(&b, "Definition source_file : string := %s%%string.\n", strconv.Quote(u.Spec.GoFile))
	fmt.Fprintf(&b, "Definition translated : Datatypes.list string := %s.\n", coqStrings(sorted))
	fmt.Fprintf(&b, "Definition skipped : Datatypes.list string := %s.\n", coqStrings(skipped))
	fmt.Fprintf(&b, "Definition not_selected : Datatypes.list string := %s.\n", coqStrings(nil))
	return b.String()
}
