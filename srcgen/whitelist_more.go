package main

// Units added after the first rounds (kept in a file of their own so that whitelist.go stays stable).

func init() {
	whitelist = append(whitelist, moreUnits...)
}

// the wrapped arraylist.List of the binary heap: an abstract interface (instantiated in the proofs with the
// sequence model al_add / al_get / al_swap / al_remove of Model/Lists.v)
var heapListAbs = map[string]absSpec{"list": {Pure: listPure,
	Methods: []string{"Add", "Clear", "Empty", "Get", "Remove", "Size", "Swap", "pkg.New"}}}

var moreUnits = []unitSpec{
	// trees/binaryheap: the heap algorithms themselves (general loops, comparator calls)
	// and its iterator (iterator.go: Value() rebuilds the level of the index in a temporary heap): one module, so that
	// the iterator can call Push / Pop; Values() still loops over the ABSTRACT enumeration of Iterator()
	{GoFile: "trees/binaryheap/binaryheap.go", Module: "BinaryHeapGen", Abstract: heapListAbs, ExtraFiles: []string{"trees/binaryheap/iterator.go"},
		EnumOwnIterator: true, Skip: map[string]string{"String": skipFmt}},
	// the iterators of the two linked lists, in pointer mode (heapiter.go): index + pointer to the current cell
	{GoFile: "lists/singlylinkedlist/iterator.go", Module: "SinglyLinkedListIterGen", HeapMode: true, HeapIter: "SinglyLinkedListCellsGen"},
	{GoFile: "lists/doublylinkedlist/iterator.go", Module: "DoublyLinkedListIterGen", HeapMode: true, HeapIter: "DoublyLinkedListCellsGen"},
	// the (forward-only) index iterators of the two containers backed by a singly linked list; the list is an abstract
	// interface, the two methods of the container the iterator calls are translated again in the same module
	{GoFile: "stacks/linkedliststack/linkedliststack.go", Module: "LinkedListStackIterGen", ExtraFiles: []string{"stacks/linkedliststack/iterator.go"},
		Funcs: iterFuncs, Abstract: iterListAbs},
	{GoFile: "queues/linkedlistqueue/linkedlistqueue.go", Module: "LinkedListQueueIterGen", ExtraFiles: []string{"queues/linkedlistqueue/iterator.go"},
		Funcs: iterFuncs, Abstract: iterListAbs},
	pqIterUnit,
	// containers.GetSortedValues / GetSortedValuesFunc: the container an interface value, sorting abstract (sorting.go)
	{GoFile: "containers/containers.go", Module: "ContainersGen", FreshValues: true,
		Opaque: map[string]absSpec{"Container": {Pure: []string{"Values", "Size", "Empty"}, Methods: []string{"Values"}}}},
	// the constructors of the five thin wrappers (skipped by name in the *WrapGen units, whose fixed interfaces have no
	// constructor): one small module each, over an interface that consists of the wrapped package's constructor
	{GoFile: "stacks/arraystack/arraystack.go", Module: "ArrayStackNewGen", Funcs: []string{"New"}, Abstract: ctorAbs("list", "pkg.New")},
	{GoFile: "queues/arrayqueue/arrayqueue.go", Module: "ArrayQueueNewGen", Funcs: []string{"New"}, Abstract: ctorAbs("list", "pkg.New")},
	{GoFile: "stacks/linkedliststack/linkedliststack.go", Module: "LinkedListStackNewGen", Funcs: []string{"New"}, Abstract: ctorAbs("list", "pkg.New")},
	{GoFile: "queues/linkedlistqueue/linkedlistqueue.go", Module: "LinkedListQueueNewGen", Funcs: []string{"New"}, Abstract: ctorAbs("list", "pkg.New")},
	{GoFile: "queues/priorityqueue/priorityqueue.go", Module: "PriorityQueueNewGen", Funcs: []string{"New", "NewWith"}, Abstract: ctorAbs("heap", "pkg.NewWith")},
}

func ctorAbs(field, ctor string) map[string]absSpec {
	return map[string]absSpec{field: {Methods: []string{ctor}}}
}

// queues/priorityqueue/iterator.go: every method delegates to the heap's iterator, an abstract interface here
var pqIterUnit = unitSpec{GoFile: "queues/priorityqueue/iterator.go", Module: "PriorityQueueIterGen",
	StructFiles:  []string{"queues/priorityqueue/priorityqueue.go"},
	Skip:         map[string]string{"Iterator": "constructor: wraps heap.Iterator(), an iterator object of the wrapped package (only its methods are an interface here)"},
	IgnoreFields: map[string]string{"Comparator": "comparator function value, only handed to the heap's constructor"},
	Abstract: map[string]absSpec{
		"heap":     {Methods: []string{}},
		"iterator": {Pure: []string{"Value", "Index"}, Methods: []string{"Begin", "End", "First", "Index", "Last", "Next", "NextTo", "Prev", "PrevTo", "Value"}}}}

var iterFuncs = []string{"Size", "withinRange", "Iterator", "Next", "Value", "Index", "Begin", "First", "NextTo"}
var iterListAbs = map[string]absSpec{"list": {Pure: listPure, Methods: []string{"Get", "Size"}}}
