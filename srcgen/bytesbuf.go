package main

// bytes.Buffer as a byte list, byte-slice expressions, single-entry map literals, and an iterator whose `for it.Next()`
// loop does not follow its definition immediately: what the hand-written ENCODER of maps/linkedhashmap/serialization.go
// (ToJSON) needs.  A buffer variable `buf := bytes.NewBuffer(b)` is a GoJson.bytes value (the bytes written so far):
// buf.WriteRune('c') appends the code of an ASCII rune, buf.Write(p) appends p, buf.Bytes() is the value.  Aliasing
// between the buffer and the slice it was created from is not modelled (refused unless that slice is never used again).
// p[lo:hi] on a []byte is GoJson.sub (Go's bounds check is not modelled, as for every slice access of the value mode).

import (
	"go/ast"
	"go/token"
	"strconv"
)

// the local variables of the function that are defined as `x := bytes.NewBuffer(..)`
func (f *fx) bufVars() map[string]bool {
	m := map[string]bool{}
	if f.u.Imports["bytes"] != "<std>/bytes" {
		return m
	}
	ast.Inspect(f.fi.Decl.Body, func(x ast.Node) bool {
		as, ok := x.(*ast.AssignStmt)
		if !ok || as.Tok != token.DEFINE || len(as.Lhs) != 1 || len(as.Rhs) != 1 {
			return true
		}
		c, ok := as.Rhs[0].(*ast.CallExpr)
		if !ok {
			return true
		}
		if sel, ok := c.Fun.(*ast.SelectorExpr); ok && sel.Sel.Name == "NewBuffer" {
			if id, ok := sel.X.(*ast.Ident); ok && id.Name == "bytes" {
				if l, ok := as.Lhs[0].(*ast.Ident); ok {
					m[l.Name] = true
				}
			}
		}
		return true
	})
	return m
}

func (f *fx) isBuf(x ast.Expr, e env) (string, bool) {
	id, ok := x.(*ast.Ident)
	if !ok {
		return "", false
	}
	vi, ok := e.vars[id.Name]
	if !ok || vi.ty.K != kBytes || !f.bufVars()[id.Name] {
		return "", false
	}
	return id.Name, true
}

// bytes.NewBuffer(b) and buf.Bytes() in expression position
func (f *fx) bufCall(c *ast.CallExpr, e env) (string, []ty, bool) {
	sel, ok := c.Fun.(*ast.SelectorExpr)
	if !ok {
		return "", nil, false
	}
	if id, ok := sel.X.(*ast.Ident); ok && id.Name == "bytes" && f.u.Imports["bytes"] == "<std>/bytes" {
		if _, shadow := e.vars["bytes"]; !shadow {
			if sel.Sel.Name != "NewBuffer" || len(c.Args) != 1 {
				f.bad(c.Pos(), "bytes.%s (only bytes.NewBuffer(b) is modelled)", sel.Sel.Name)
			}
			arg, isId := c.Args[0].(*ast.Ident)
			s, t := f.expr(c.Args[0], e)
			if !isId || t.K != kBytes {
				f.bad(c.Pos(), "bytes.NewBuffer of something that is not a []byte variable")
			}
			// the buffer may write into the slice it was given: that slice must not be used again
			uses := 0
			ast.Inspect(f.fi.Decl.Body, func(x ast.Node) bool {
				if i2, ok := x.(*ast.Ident); ok && i2.Name == arg.Name {
					uses++
				}
				return true
			})
			if uses != 2 { // its declaration and this call
				f.bad(c.Pos(), "the slice given to bytes.NewBuffer is used elsewhere (aliasing with the buffer is not modelled)")
			}
			return s, []ty{{K: kBytes}}, true
		}
	}
	if name, ok := f.isBuf(sel.X, e); ok {
		if sel.Sel.Name == "Bytes" && len(c.Args) == 0 {
			return vname(name), []ty{{K: kBytes}}, true
		}
		f.bad(c.Pos(), "method %s of a bytes.Buffer in an expression (only Bytes(); WriteRune / Write as statements)", sel.Sel.Name)
	}
	return "", nil, false
}

// buf.WriteRune('c') / buf.Write(p) as statements (their results are dropped, as in the Go code)
func (f *fx) bufStmt(c *ast.CallExpr, e env) (string, env, bool) {
	sel, ok := c.Fun.(*ast.SelectorExpr)
	if !ok {
		return "", e, false
	}
	name, ok := f.isBuf(sel.X, e)
	if !ok {
		return "", e, false
	}
	var val string
	switch sel.Sel.Name {
	case "WriteRune":
		lit, isLit := (ast.Expr)(nil), false
		if len(c.Args) == 1 {
			lit, isLit = c.Args[0], true
		}
		bl, isBl := lit.(*ast.BasicLit)
		if !isLit || !isBl || bl.Kind != token.CHAR {
			f.bad(c.Pos(), "WriteRune of something that is not a character literal")
		}
		s, err := strconv.Unquote(bl.Value)
		if err != nil || len(s) != 1 || s[0] >= 128 {
			f.bad(c.Pos(), "WriteRune of a rune that is not ASCII (its UTF-8 encoding is not modelled)")
		}
		val = "(GoJson.write_rune " + vname(name) + " " + strconv.Itoa(int(s[0])) + ")"
	case "Write":
		if len(c.Args) != 1 {
			f.bad(c.Pos(), "Write with %d arguments", len(c.Args))
		}
		p, tp := f.expr(c.Args[0], e)
		if tp.K != kBytes {
			f.bad(c.Args[0].Pos(), "Write of something that is not a []byte")
		}
		val = "(GoJson.write " + vname(name) + " " + p + ")"
	default:
		f.bad(c.Pos(), "method %s of a bytes.Buffer (only WriteRune, Write, Bytes)", sel.Sel.Name)
	}
	p, e2 := f.assign(sel.X, val, ty{K: kBytes}, false, e)
	return p, e2, true
}

// p[lo:hi] on a []byte
func (f *fx) bytesSlice(n *ast.SliceExpr, e env) (string, ty, bool) {
	if n.Slice3 || n.Low == nil || n.High == nil {
		return "", ty{}, false
	}
	if id, ok := n.X.(*ast.Ident); !ok || e.vars[id.Name].ty.K != kBytes {
		return "", ty{}, false
	}
	s, _ := f.expr(n.X, e)
	lo, tl := f.expr(n.Low, e)
	hi, th := f.expr(n.High, e)
	f.want(n.Low, tl, kInt)
	f.want(n.High, th, kInt)
	return "(GoJson.sub " + s + " " + lo + " " + hi + ")", ty{K: kBytes}, true
}

// map[K]V{k: v}: a fresh map with one entry
func (f *fx) mapLit(cl *ast.CompositeLit, e env) (string, ty, bool) {
	if _, ok := cl.Type.(*ast.MapType); !ok {
		return "", ty{}, false
	}
	t := f.t.resolveType(cl.Type, tctx{f.u, f.fi.TypeParms})
	if t.K != kMap {
		return "", ty{}, false
	}
	s := "GoMap.gm_empty"
	for _, el := range cl.Elts {
		kv, ok := el.(*ast.KeyValueExpr)
		if !ok {
			f.bad(el.Pos(), "map literal element without key")
		}
		k, tk := f.expr(kv.Key, e)
		v, tv := f.expr(kv.Value, e)
		if (tk.K != kElem && tk.K != kInt) || (tv.K != kElem && tv.K != kInt) {
			f.bad(el.Pos(), "map literal entry that is not T / int")
		}
		s = "(GoMap.gm_put " + s + " " + k + " " + v + ")"
	}
	f.u.UsesMap = true
	return s, t, true
}

// it := x.Iterator(); a := e1; b := e2; for it.Next() { .. }: the definitions between the iterator and its loop are
// moved in front of the iterator (they are `v := <pure expression>` that does not mention the iterator; pure expressions
// cannot modify the iterated container: a mutating call inside an expression is refused anyway)
func (f *fx) iterHoist(n *ast.AssignStmt, rest []ast.Stmt) ([]ast.Stmt, bool) {
	it := n.Lhs[0].(*ast.Ident).Name
	isLoop := func(s ast.Stmt) bool {
		loop, ok := s.(*ast.ForStmt)
		if !ok || loop.Init != nil || loop.Post != nil || loop.Cond == nil {
			return false
		}
		c, ok := loop.Cond.(*ast.CallExpr)
		if !ok || len(c.Args) != 0 {
			return false
		}
		s2, ok := c.Fun.(*ast.SelectorExpr)
		if !ok || s2.Sel.Name != "Next" {
			return false
		}
		id, ok := s2.X.(*ast.Ident)
		return ok && id.Name == it
	}
	if len(rest) == 0 || isLoop(rest[0]) {
		return nil, false
	}
	for j, s := range rest {
		if isLoop(s) {
			out := append([]ast.Stmt{}, rest[:j]...)
			out = append(out, n)
			return append(out, rest[j:]...), true
		}
		as, ok := s.(*ast.AssignStmt)
		if !ok || as.Tok != token.DEFINE || len(as.Lhs) != 1 || len(as.Rhs) != 1 {
			return nil, false
		}
		mentions := false
		ast.Inspect(as, func(x ast.Node) bool {
			if id, ok := x.(*ast.Ident); ok && id.Name == it {
				mentions = true
			}
			return true
		})
		if mentions {
			return nil, false
		}
	}
	return nil, false
}
