package main

// B-TREE EXTENSIONS of the tree pointer mode (`BTree` in whitelist.go; the unit is in whitelist_btree.go): what
// trees/btree/btree.go and its iterator need beyond treeheap.go.  Every function here is reached through a small hook
// in treeheap.go and does nothing unless the unit is a B-tree unit, so the red-black / AVL units are translated (and
// refused) exactly as before.
//
//   - the heap struct (Node) has SLICE fields: `[]*Entry` is a `list (option (Z * Z))`, `[]*Node` a `list (option nat)`
//     (coq/GoBTreeHeap.v).  Slices are VALUES: capacities and the sharing of backing arrays are not modelled (in the
//     translated functions every slice that is stored is a field of one node, or freshly built by append / a literal);
//     an index outside 0..len-1 and a slice expression outside 0 <= lo <= hi <= len are None (Go: panic; Go would allow
//     hi up to the capacity -- not modelled, the run tests never get there);
//   - the struct named by `Pair` (Entry{Key K; Value V}) is an IMMUTABLE VALUE behind a nilable pointer: `*Entry` is an
//     `option (Z * Z)`, `&Entry{Key: k, Value: v}` is `Some (k, v)`, `e.Key` fails on nil.  This is faithful because the
//     translator refuses every assignment to a field of an entry and every comparison of two entry pointers (so an
//     entry is never changed after its creation and its identity is never observed); the struct must be exactly
//     {Key K; Value V};
//   - `interface{}` results (LeftKey ...) are `option Z` (nil or a key / value);
//   - expressions: len(s), s[i], s[a:b], append(s, x...), append(s, t...), []T{...}, []T(nil), a / <non-zero literal>;
//   - statements: p.F[i] = x, copy(p.F[a:], src) (memmove = snapshot semantics), `for _, v := range s { }` (an inline
//     structural `fix` over the list, which may call the enclosing recursive function on fuel'), `for { }`,
//     `if init; cond { }`, panic(..) = None; a `:=` at the top level of a body may redeclare a named result.

import (
	"go/ast"
	"go/token"
	"strconv"
	"strings"
)

const (
	tkEnt  tkind = 200 + iota // *Entry: option (Z * Z)
	tkEntS                    // []*Entry
	tkPtrS                    // []*Node
	tkAny                     // interface{}: nil or a key / value
)

func btCoq(x tty) string {
	switch x.k {
	case tkEnt:
		return "(option (Z * Z))"
	case tkEntS:
		return "(list (option (Z * Z)))"
	case tkPtrS:
		return "(list (option nat))"
	case tkAny:
		return "(option Z)"
	}
	return "unit"
}

func btZero(x tty) string {
	switch x.k {
	case tkEnt:
		return "(@None (Z * Z))"
	case tkEntS:
		return "(@nil (option (Z * Z)))"
	case tkPtrS:
		return "(@nil (option nat))"
	case tkAny:
		return "(@None Z)"
	}
	return ""
}

func btElem(x tty) (tty, bool) {
	switch x.k {
	case tkEntS:
		return tty{k: tkEnt}, true
	case tkPtrS:
		return tty{k: tkPtr}, true
	}
	return tty{}, false
}

func btBaseName(x ast.Expr) string {
	switch n := x.(type) {
	case *ast.Ident:
		return n.Name
	case *ast.IndexExpr:
		return btBaseName(n.X)
	case *ast.IndexListExpr:
		return btBaseName(n.X)
	}
	return ""
}

func (tu *tunit) btTypeOf(x ast.Expr) (tty, bool) {
	if !tu.u.Spec.BTree {
		return tty{}, false
	}
	switch n := x.(type) {
	case *ast.StarExpr:
		if nm := btBaseName(n.X); nm != "" && nm == tu.u.Spec.Pair {
			return tty{k: tkEnt}, true
		}
	case *ast.ArrayType:
		if n.Len == nil {
			switch tu.typeOf(n.Elt).k {
			case tkEnt:
				return tty{k: tkEntS}, true
			case tkPtr:
				return tty{k: tkPtrS}, true
			}
		}
	case *ast.InterfaceType:
		if n.Methods == nil || len(n.Methods.List) == 0 {
			return tty{k: tkAny}, true
		}
	}
	return tty{}, false
}

// type Entry[K, V] struct { Key K; Value V }: exactly these two fields, of type-parameter type
func (tu *tunit) btPairDecl(ts *ast.TypeSpec, st *ast.StructType) bool {
	if !tu.u.Spec.BTree || ts.Name.Name != tu.u.Spec.Pair {
		return false
	}
	fs := fieldList(st.Fields)
	ok := len(fs) == 2 && fs[0].name == "Key" && fs[1].name == "Value"
	if ok {
		for _, f := range fs {
			id, isId := f.typ.(*ast.Ident)
			ok = ok && isId && tu.tparams[id.Name]
		}
	}
	if !ok {
		tu.t.unsupported(ts.Pos(), "struct %s must be exactly { Key K; Value V } (it is translated as a pair)", ts.Name.Name)
	}
	return true
}

func (tu *tunit) btRequire() string {
	if !tu.u.Spec.BTree {
		return ""
	}
	return "From GodsGenProofs Require GoBTreeHeap. (* hand-written: slices as lists, entries as pairs, /verif/srcgen/coq/GoBTreeHeap.v *)\n\n"
}

func (h *tfx) btSameScope(vi tvar, e tenv) bool {
	// Go: the parameters and results are declared in the function's outermost block, so `x, found := f()` at the top
	// level of the body assigns an existing named result `found`
	return h.tu.u.Spec.BTree && e.depth == h.topEnv && vi.depth == h.topEnv-1
}

// e.Key / e.Value on an entry pointer: nil = failure
func (h *tfx) btSelect(n *ast.SelectorExpr, b, s string, t tty) (string, string, tty, bool) {
	if !h.tu.u.Spec.BTree || t.k != tkEnt {
		return "", "", tty{}, false
	}
	var proj string
	switch n.Sel.Name {
	case "Key":
		proj = "GoBTreeHeap.Entry_Key"
	case "Value":
		proj = "GoBTreeHeap.Entry_Value"
	default:
		h.bad(n.Pos(), "field %s of an entry", n.Sel.Name)
	}
	c := h.fresh("c")
	return b + "do " + c + " <- " + s + ";\n", "(" + proj + " " + c + ")", tty{k: tkElem}, true
}

func (h *tfx) btIndex(n *ast.IndexExpr, binds, a string, ta tty, i string, ti tty) (string, string, tty, bool) {
	el, ok := btElem(ta)
	if !h.tu.u.Spec.BTree || !ok {
		return "", "", tty{}, false
	}
	if ti.k != tkInt {
		h.bad(n.Index.Pos(), "index that is not an int")
	}
	x := h.fresh("x") // an index outside 0..len-1 panics
	return binds + "do " + x + " <- GoBTreeHeap.sl_get " + a + " " + i + ";\n", x, el, true
}

func btList(elems []string, el tty) string {
	s := "(@nil " + btCoq(el) + ")"
	if el.k == tkPtr {
		s = "(@nil (option nat))"
	}
	for i := len(elems) - 1; i >= 0; i-- {
		s = "(" + elems[i] + " :: " + s + ")"
	}
	return s
}

// an expression of a known type; `nil` takes that type
func (h *tfx) btExprAs(x ast.Expr, want tty, e tenv) (string, string) {
	if h.isNil(x, e) {
		switch want.k {
		case tkPtr:
			return "", "(@None nat)"
		case tkEnt, tkEntS, tkPtrS, tkAny:
			return "", btZero(want)
		}
	}
	b, s, t := h.expr(x, e)
	if !t.eq(want) {
		h.bad(x.Pos(), "value of an unexpected type")
	}
	return b, s
}

func (h *tfx) btExpr(x ast.Expr, e tenv) (string, string, tty, bool) {
	if !h.tu.u.Spec.BTree {
		return "", "", tty{}, false
	}
	switch n := x.(type) {
	case *ast.SliceExpr:
		if n.Slice3 {
			h.bad(n.Pos(), "three-index slice expression")
		}
		b, a, ta := h.expr(n.X, e)
		if _, ok := btElem(ta); !ok {
			h.bad(n.Pos(), "slice expression on something that is not a slice")
		}
		lo, hi := "0", "(GoBTreeHeap.sl_len "+a+")"
		if n.Low != nil {
			bl, s, t := h.expr(n.Low, e)
			if t.k != tkInt {
				h.bad(n.Low.Pos(), "slice bound")
			}
			b, lo = b+bl, s
		}
		if n.High != nil {
			bh, s, t := h.expr(n.High, e)
			if t.k != tkInt {
				h.bad(n.High.Pos(), "slice bound")
			}
			b, hi = b+bh, s
		}
		r := h.fresh("s") // Go: panics unless 0 <= lo <= hi <= cap; here: <= len (capacities are not modelled)
		return b + "do " + r + " <- GoBTreeHeap.sl_slice " + a + " " + lo + " " + hi + ";\n", r, ta, true
	case *ast.CompositeLit: // []*Entry[K, V]{entry}, []*Node[K, V]{left, right}, []*Node[K, V]{}
		at, ok := n.Type.(*ast.ArrayType)
		if !ok || at.Len != nil {
			h.bad(n.Pos(), "composite literal that is not a slice literal")
		}
		st := h.tu.typeOf(n.Type)
		el, ok := btElem(st)
		if !ok {
			h.bad(n.Pos(), "slice literal of this type")
		}
		binds := ""
		var elems []string
		for _, v := range n.Elts {
			if _, kv := v.(*ast.KeyValueExpr); kv {
				h.bad(v.Pos(), "keyed element of a slice literal")
			}
			var bb, s string
			eff := h.assignedBy(e, func() { h.btExprAs(v, el, e) })
			if len(eff) > 0 {
				h.bad(v.Pos(), "element of a slice literal with side effects")
			}
			bb, s = h.btExprAs(v, el, e)
			binds += bb
			elems = append(elems, s)
		}
		return binds, btList(elems, el), st, true
	}
	return "", "", tty{}, false
}

// &Entry[K, V]{Key: key, Value: value}
func (h *tfx) btPairLit(cl *ast.CompositeLit, e tenv) (string, string, tty, bool) {
	if !h.tu.u.Spec.BTree || btBaseName(cl.Type) == "" || btBaseName(cl.Type) != h.tu.u.Spec.Pair {
		return "", "", tty{}, false
	}
	vals := map[string]string{"Key": "0", "Value": "0"}
	set := map[string]bool{}
	binds := ""
	for _, el := range cl.Elts {
		kv, ok := el.(*ast.KeyValueExpr)
		if !ok {
			h.bad(el.Pos(), "positional composite literal")
		}
		key, ok := kv.Key.(*ast.Ident)
		if !ok || (key.Name != "Key" && key.Name != "Value") || set[key.Name] {
			h.bad(el.Pos(), "field of the entry literal")
		}
		b, v, t := h.expr(kv.Value, e)
		if t.k != tkElem {
			h.bad(kv.Value.Pos(), "value of field %s has an unexpected type", key.Name)
		}
		binds += b
		vals[key.Name], set[key.Name] = v, true
	}
	return binds, "(Some (" + vals["Key"] + ", " + vals["Value"] + "))", tty{k: tkEnt}, true
}

// a / b: Go truncates toward zero (Z.quot) and panics on b = 0: only a non-zero literal divisor is translated
func (h *tfx) btQuo(n *ast.BinaryExpr, a, c string, ints bool) (string, bool) {
	if !h.tu.u.Spec.BTree || !ints {
		return "", false
	}
	lit, ok := n.Y.(*ast.BasicLit)
	if !ok || lit.Kind != token.INT {
		h.bad(n.Pos(), "division by something that is not an integer literal (division by zero panics)")
	}
	if v, err := strconv.ParseInt(lit.Value, 0, 64); err != nil || v == 0 {
		h.bad(n.Pos(), "division by the literal %s", lit.Value)
	}
	return "(Z.quot " + a + " " + c + ")", true
}

func (h *tfx) btBuiltin(c *ast.CallExpr, e tenv) string {
	id, ok := c.Fun.(*ast.Ident)
	if !ok {
		return ""
	}
	switch id.Name {
	case "len", "append", "copy", "panic":
		if _, sh := e.vars[id.Name]; sh {
			return ""
		}
		if h.tu.byKey["."+id.Name] != nil {
			return ""
		}
		return id.Name
	}
	return ""
}

// p.F where p is a pointer VARIABLE and F a slice field of the heap struct: an assignable slice location
func (h *tfx) btSliceLoc(x ast.Expr, e tenv) (string, *tfield, bool) {
	sel, ok := x.(*ast.SelectorExpr)
	if !ok {
		return "", nil, false
	}
	id, ok := sel.X.(*ast.Ident)
	if !ok {
		return "", nil, false
	}
	vi, ok := e.vars[id.Name]
	if !ok || vi.ty.k != tkPtr {
		return "", nil, false
	}
	f := h.tu.cell.field(sel.Sel.Name)
	if f == nil {
		return "", nil, false
	}
	if _, isSlice := btElem(f.ty); !isSlice {
		return "", nil, false
	}
	return tv(id.Name), f, true
}

func (h *tfx) btCall(c *ast.CallExpr, e tenv) (string, []string, []tty, bool) {
	if !h.tu.u.Spec.BTree {
		return "", nil, nil, false
	}
	if at, ok := c.Fun.(*ast.ArrayType); ok { // []*Entry[K, V](nil)
		st := h.tu.typeOf(at)
		if _, isSlice := btElem(st); !isSlice || len(c.Args) != 1 || !h.isNil(c.Args[0], e) {
			h.bad(c.Pos(), "conversion (only []T(nil) is translated)")
		}
		return "", []string{btZero(st)}, []tty{st}, true
	}
	switch h.btBuiltin(c, e) {
	case "len":
		if len(c.Args) != 1 {
			h.bad(c.Pos(), "len with %d arguments", len(c.Args))
		}
		b, a, ta := h.expr(c.Args[0], e)
		if _, ok := btElem(ta); !ok {
			h.bad(c.Pos(), "len of something that is not a slice")
		}
		return b, []string{"(GoBTreeHeap.sl_len " + a + ")"}, []tty{{k: tkInt}}, true
	case "append":
		if len(c.Args) < 1 {
			h.bad(c.Pos(), "append without arguments")
		}
		for _, a := range c.Args {
			a := a
			if eff := h.assignedBy(e, func() { h.expr(a, e) }); len(eff) > 0 && !h.isNil(a, e) {
				h.bad(a.Pos(), "argument of append with side effects")
			}
		}
		b, s, ts := h.expr(c.Args[0], e)
		el, ok := btElem(ts)
		if !ok {
			h.bad(c.Pos(), "append to something that is not a slice")
		}
		if c.Ellipsis != token.NoPos {
			if len(c.Args) != 2 {
				h.bad(c.Pos(), "append(s, t...) with %d arguments", len(c.Args))
			}
			b2, s2 := h.btExprAs(c.Args[1], ts, e)
			return b + b2, []string{"(" + s + " ++ " + s2 + ")"}, []tty{ts}, true
		}
		var elems []string
		for _, a := range c.Args[1:] {
			b2, s2 := h.btExprAs(a, el, e)
			b += b2
			elems = append(elems, s2)
		}
		return b, []string{"(" + s + " ++ " + btList(elems, el) + ")"}, []tty{ts}, true
	case "copy":
		// copy(p.F[lo:hi], src): statement form only (no result is handed back, so inside an expression it is refused).
		// The source is a VALUE (snapshot), which is what Go's copy does for overlapping slices (memmove)
		if len(c.Args) != 2 {
			h.bad(c.Pos(), "copy with %d arguments", len(c.Args))
		}
		dst := c.Args[0]
		var lo, hi ast.Expr
		if sl, ok := dst.(*ast.SliceExpr); ok {
			if sl.Slice3 {
				h.bad(c.Pos(), "three-index slice expression")
			}
			dst, lo, hi = sl.X, sl.Low, sl.High
		}
		p, f, ok := h.btSliceLoc(dst, e)
		if !ok {
			h.bad(c.Pos(), "copy whose destination is not p.F / p.F[a:] / p.F[a:b] with p a pointer variable and F a slice field")
		}
		if eff := h.assignedBy(e, func() { h.expr(c.Args[1], e) }); len(eff) > 0 {
			h.bad(c.Args[1].Pos(), "source of copy with side effects")
		}
		cd := h.fresh("c")
		b := "do " + cd + " <- deref h " + p + ";\n"
		cur := "(" + f.coq + " " + cd + ")"
		los, his := "0", "(GoBTreeHeap.sl_len "+cur+")"
		for i, bd := range []ast.Expr{lo, hi} {
			if bd == nil {
				continue
			}
			if eff := h.assignedBy(e, func() { h.expr(bd, e) }); len(eff) > 0 {
				h.bad(bd.Pos(), "slice bound with side effects")
			}
			bb, s, t := h.expr(bd, e)
			if t.k != tkInt {
				h.bad(bd.Pos(), "slice bound")
			}
			b += bb
			if i == 0 {
				los = s
			} else {
				his = s
			}
		}
		bs, src, tsrc := h.expr(c.Args[1], e)
		if !tsrc.eq(f.ty) {
			h.bad(c.Args[1].Pos(), "source of copy of an unexpected type")
		}
		x := h.fresh("x")
		h.rebind(tvHeap, e)
		b += bs + "do " + x + " <- GoBTreeHeap.sl_copy " + cur + " " + los + " " + his + " " + src + ";\n" +
			"do h <- store h " + p + " (" + h.tu.cell.name + "_with_" + f.name + " " + x + ");\n"
		return b, nil, nil, true
	case "panic":
		return "do _ <- (@None unit); (* panic *)\n", nil, nil, true
	}
	return "", nil, nil, false
}

// p.F[i] = val (F a slice field of the heap struct)
func (h *tfx) btIndexAssign(l *ast.IndexExpr, val string, tvl tty, e tenv) (string, bool) {
	if !h.tu.u.Spec.BTree {
		return "", false
	}
	sel, ok := l.X.(*ast.SelectorExpr)
	if !ok {
		return "", false
	}
	f := h.tu.cell.field(sel.Sel.Name)
	if f == nil {
		return "", false
	}
	el, isSlice := btElem(f.ty)
	if !isSlice {
		return "", false
	}
	b, p, tp := h.expr(sel.X, e)
	bi, i, ti := h.expr(l.Index, e)
	if tp.k != tkPtr || ti.k != tkInt || !tvl.eq(el) {
		h.bad(l.Pos(), "assignment target")
	}
	c, x := h.fresh("c"), h.fresh("x")
	h.rebind(tvHeap, e)
	return b + bi + "do " + c + " <- deref h " + p + ";\ndo " + x + " <- GoBTreeHeap.sl_set (" + f.coq + " " + c + ") " + i + " " + val + ";\ndo h <- store h " + p + " (" + h.tu.cell.name + "_with_" + f.name + " " + x + ");\n", true
}

// the static type of an assignment target (for `x = nil`)
func (h *tfx) btLhsType(lhs ast.Expr, e tenv) (tty, bool) {
	switch l := lhs.(type) {
	case *ast.Ident:
		if vi, ok := e.vars[l.Name]; ok {
			return vi.ty, true
		}
	case *ast.SelectorExpr:
		if id, ok := l.X.(*ast.Ident); ok {
			if vi, ok := e.vars[id.Name]; ok && vi.ty.k == tkRec {
				if f := h.tu.structs[vi.ty.s].field(l.Sel.Name); f != nil {
					return f.ty, true
				}
				return tty{}, false
			}
		}
		if f := h.tu.cell.field(l.Sel.Name); f != nil {
			return f.ty, true
		}
	case *ast.IndexExpr:
		if t, ok := h.btLhsType(l.X, e); ok {
			if el, ok := btElem(t); ok {
				return el, true
			}
		}
	}
	return tty{}, false
}

func (h *tfx) btNil(lhs, rhs ast.Expr, v string, tvl tty, e tenv) (string, tty) {
	if !h.tu.u.Spec.BTree {
		return v, tvl
	}
	if h.isNil(rhs, e) {
		if t, ok := h.btLhsType(lhs, e); ok {
			if z := btZero(t); z != "" {
				v, tvl = z, t
			}
		}
	}
	if _, isSlice := btElem(tvl); isSlice {
		h.btStoreSlice(rhs, lhs, e)
		btSliceOK[h] = true
		if id, ok := lhs.(*ast.Ident); ok && id.Name != "_" {
			if btOwned[h] == nil {
				btOwned[h] = map[string]bool{}
			}
			btOwned[h][id.Name] = true
		}
	}
	return v, tvl
}

// ALIASING GUARD.  Slices are values in the translation, so two slice locations (fields of nodes, local variables) must
// never share a backing array while one of them is still written or read.  A slice value may be stored only when it is
// FRESH: a literal, []T(nil) / nil, append(X, ..) or X[a:b] where X is fresh or X is the target location itself, or a
// fresh local variable that is not mentioned any more afterwards (it is moved).  Parameters and fields of other nodes are
// never fresh.
var btSliceOK = map[*tfx]bool{}
var btOwned = map[*tfx]map[string]bool{}

const btAliasMsg = "a slice that may share its backing array with another slice is stored (slices are values here: only a literal, []T(nil), append(X, ..) / X[a:b] with X fresh or the target itself, or a local fresh slice that is not used afterwards may be stored)"

func (h *tfx) btStoreSlice(rhs, target ast.Expr, e tenv) {
	if !h.btFresh(rhs, target, e) {
		h.bad(rhs.Pos(), btAliasMsg)
	}
}

func btSameLoc(a, b ast.Expr) bool {
	if b == nil {
		return false
	}
	switch x := a.(type) {
	case *ast.ParenExpr:
		return btSameLoc(x.X, b)
	case *ast.Ident:
		y, ok := b.(*ast.Ident)
		return ok && x.Name == y.Name && x.Name != "_"
	case *ast.SelectorExpr:
		y, ok := b.(*ast.SelectorExpr)
		if !ok || x.Sel.Name != y.Sel.Name {
			return false
		}
		xi, ok1 := x.X.(*ast.Ident)
		yi, ok2 := y.X.(*ast.Ident)
		return ok1 && ok2 && xi.Name == yi.Name
	}
	return false
}

func (h *tfx) btFresh(x ast.Expr, target ast.Expr, e tenv) bool {
	switch n := x.(type) {
	case *ast.ParenExpr:
		return h.btFresh(n.X, target, e)
	case *ast.CompositeLit:
		return true
	case *ast.Ident:
		if h.isNil(n, e) {
			return true
		}
		vi, ok := e.vars[n.Name]
		if !ok || !btOwned[h][n.Name] {
			return false
		}
		if btSameLoc(n, target) {
			return true
		}
		// a fresh local is MOVED into the target: it must be a variable of the current block (or we are not inside a
		// loop) and must not be mentioned after this expression
		if vi.depth != e.depth && h.inLoop > 0 {
			return false
		}
		used := false
		ast.Inspect(h.fn.decl.Body, func(y ast.Node) bool {
			if id, ok := y.(*ast.Ident); ok && id.Name == n.Name && id.Pos() > n.Pos() {
				used = true
			}
			return !used
		})
		if used {
			return false
		}
		delete(btOwned[h], n.Name)
		return true
	case *ast.CallExpr:
		if at, ok := n.Fun.(*ast.ArrayType); ok && at.Len == nil && len(n.Args) == 1 && h.isNil(n.Args[0], e) {
			return true
		}
		if h.btBuiltin(n, e) == "append" && len(n.Args) >= 1 {
			return btSameLoc(n.Args[0], target) || h.btFresh(n.Args[0], target, e)
		}
	case *ast.SliceExpr:
		return btSameLoc(n.X, target) || h.btFresh(n.X, target, e)
	}
	return false
}

// called at the top of `assign`: a slice-typed value reaches a variable / field only through a checked single assignment
func (h *tfx) btSliceGuard(lhs ast.Expr, val string, tvl tty) {
	if !h.tu.u.Spec.BTree {
		return
	}
	if _, isSlice := btElem(tvl); !isSlice {
		return
	}
	if id, ok := lhs.(*ast.Ident); ok && id.Name == "_" {
		return
	}
	if val == btZero(tvl) || btSliceOK[h] {
		btSliceOK[h] = false
		return
	}
	h.bad(lhs.Pos(), "slice-typed value assigned outside a plain single assignment (not checked for aliasing)")
}

// a slice-typed field of a node literal
func (h *tfx) btLitField(val ast.Expr, tvl tty, e tenv) {
	if !h.tu.u.Spec.BTree {
		return
	}
	if _, isSlice := btElem(tvl); isSlice {
		h.btStoreSlice(val, nil, e)
	}
}

func (h *tfx) btCoerce(r ast.Expr, v string, tvl, want tty, e tenv) (string, tty) {
	if !h.tu.u.Spec.BTree {
		return v, tvl
	}
	if _, isSlice := btElem(want); isSlice {
		h.btStoreSlice(r, nil, e) // a returned slice must not alias a field (the caller may keep and change it)
	}
	if tvl.eq(want) {
		return v, tvl
	}
	if h.isNil(r, e) {
		if z := btZero(want); z != "" {
			return z, want
		}
	}
	if want.k == tkAny && tvl.k == tkElem { // a key / value returned as interface{}
		return "(Some " + v + ")", want
	}
	return v, tvl
}

// for _, v := range s { body }: an inline structural fix over the list (evaluated once); the body may assign outer
// variables, write the heap and call functions (also the enclosing recursive function, on fuel'); it must not leave the
// loop (return / break / continue / goto)
func (h *tfx) btStmt(s ast.Stmt, e tenv, next tcont) (string, bool) {
	n, ok := s.(*ast.RangeStmt)
	if !h.tu.u.Spec.BTree || !ok {
		return "", false
	}
	if n.Tok != token.DEFINE || n.Key == nil || n.Value == nil {
		h.bad(n.Pos(), "range loop that is not `for _, v := range s`")
	}
	if k, ok := n.Key.(*ast.Ident); !ok || k.Name != "_" {
		h.bad(n.Pos(), "range loop with an index variable")
	}
	v, ok := n.Value.(*ast.Ident)
	if !ok || v.Name == "_" {
		h.bad(n.Pos(), "range loop without a value variable")
	}
	if _, sh := e.vars[v.Name]; sh {
		h.bad(v.Pos(), "variable %s shadows an outer variable", v.Name)
	}
	if _, isConst := h.tu.consts[v.Name]; isConst {
		h.bad(v.Pos(), "variable %s shadows a constant", v.Name)
	}
	if tHasReturn(n.Body) || tHasBranch(n.Body) {
		h.bad(n.Pos(), "return / break / continue / goto inside a range loop")
	}
	// Go reads the elements from the backing array as it goes; here the slice is a value read once: the body must not
	// write elements of a slice (s[i] = x, copy)
	ast.Inspect(n.Body, func(y ast.Node) bool {
		switch z := y.(type) {
		case *ast.AssignStmt:
			for _, l := range z.Lhs {
				if _, isIdx := l.(*ast.IndexExpr); isIdx {
					h.bad(l.Pos(), "assignment to a slice element inside a range loop")
				}
			}
		case *ast.CallExpr:
			if id, ok := z.Fun.(*ast.Ident); ok && id.Name == "copy" {
				h.bad(z.Pos(), "copy inside a range loop")
			}
		}
		return true
	})
	bx, xs, tx := h.expr(n.X, e)
	el, isSlice := btElem(tx)
	if !isSlice {
		h.bad(n.X.Pos(), "range over something that is not a slice")
	}
	h.nloop++
	name := h.fn.coq + "_range" + strconv.Itoa(h.nloop)
	eB := e.deeper().with(v.Name, el)
	var ms []string
	args := func() string {
		s := ""
		for _, m := range ms {
			s += " " + tv(m)
		}
		return s
	}
	run := func(kk tcont) string {
		saved := h.brk
		h.brk = append(append([]func(tenv) string(nil), saved...), nil)
		r := h.stmts(n.Body.List, eB.deeper(), func(e2 tenv) string { return kk(e2) })
		h.brk = saved
		return r
	}
	ms = h.assignedBy(e, func() { run(func(tenv) string { return "" }) })
	body := run(func(tenv) string { return "(" + name + " l'" + args() + ")" })
	for _, m := range ms {
		h.rebind(m, e)
	}
	var binders []string
	for _, m := range ms {
		binders = append(binders, " ("+tv(m)+" : "+e.vars[m].ty.coq(h.tu)+")")
	}
	elc := btCoq(el)
	if el.k == tkPtr {
		elc = "(option nat)"
	}
	out := bx + "do " + tpat(ms) + " <- (fix " + name + " (l : list " + elc + ")" + strings.Join(binders, "") + " {struct l} : option " + h.tupleTy(e, ms) + " :=\n" +
		"  match l with\n  | nil => Some " + ttuple(ms) + "\n  | cons " + tv(v.Name) + " l' =>\n" + body + "\n  end) " + xs + args() + ";\n"
	return out + next(e), true
}
