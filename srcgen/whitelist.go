package main

// The whitelist: which Go files are translated, into which Coq module, and which
// functions are skipped BY NAME (with the reason).  Order matters: a unit may only
// call functions of units listed before it.
type unitSpec struct {
	GoFile string            // path relative to the repository root
	Module string            // Coq module (file) name: <Module>.v
	Funcs  []string          // nil: every function of the file; else: only these (the rest is reported as not_selected)
	Skip   map[string]string // function name -> reason (explicit skips)
	// ExtraFiles: further files of the SAME package translated into the same Coq module (enumerable.go, ...)
	ExtraFiles []string
	// Abstract: struct field name -> the wrapped container is an ABSTRACT INTERFACE (a record of functions,
	// parameter of the generated definitions).  Pure lists its read-only methods; every other method is
	// translated as a mutator `state -> args -> state * result`.
	Abstract map[string]absSpec
	// HeapMode: the pointer code of a linked list, translated against Model/LinkedCells.v (see heap.go)
	HeapMode bool
	// HeapIter: (with HeapMode) the file is the ITERATOR of the list whose cells unit is this module (heapiter.go)
	HeapIter string
	// StructFiles: further files of the package read for their TYPE declarations only (the struct of a file that
	// only contains methods).  External: methods of such a struct that are NOT translated but called: they
	// become parameters `<Struct>_ext_<name> : Struct -> args -> Struct * result` (true) / `-> result` (false = read-only)
	StructFiles []string
	External    map[string]bool
	// Opaque: receiver struct types of this file that are ABSTRACT (linked structures declared elsewhere in the
	// package): type name -> interface.  Their methods are translated as functions taking the abstract value
	// as first parameter; "lit.empty" is the composite literal &T{} , "Iterator" the enumeration.
	Opaque map[string]absSpec
	// IgnoreFields: struct fields left out of the record (reading or writing them is refused), with the reason
	IgnoreFields map[string]string
	// EnumOwnIterator: `for it := x.Iterator(); it.Next(); {..}` is a loop over the abstract enumeration although Iterator()
	// is itself a translated method of this unit (the proofs show that the translated iterator walks that enumeration)
	EnumOwnIterator bool
	// FreshValues: `x := c.Values()` on an abstract container may be stored and sorted in place: Values() is taken to
	// return a fresh slice (the effect table / the aliasing probes check that; aliasing is not modelled here)
	FreshValues bool
	// CapSlices: slices are GoSlice.slice records (backing array up to the capacity + length) instead of
	// plain lists, so that cap(), reslicing, copy, append, slices.Insert/Delete/Clone are meaningful.
	// Aliasing between slices is NOT modelled in such a unit.
	CapSlices bool
	// TreeMode: the pointer code of a balanced tree and its iterator (treeheap.go): the struct named Cell lives in a
	// heap of records generated from its declaration (coq/GoTreeHeap.v), the other structs are record values
	TreeMode bool
	Cell     string
	// BTree: (with TreeMode) the B-tree extensions of btreeheap.go: slice-typed fields of the heap struct ([]*Entry,
	// []*Node), the struct named Pair (Entry{Key, Value}) as an immutable value pair behind a nilable pointer, range
	// loops, for { }, if init; cond, len / append / copy / slicing, panic, interface{} results
	BTree bool
	Pair  string
}

type absSpec struct {
	Pure []string
	// Methods: the FIXED interface (record fields), "pkg.F" for package-level constructors.  A call of anything
	// else is refused.  (nil: the interface consists of the methods the file happens to call.)
	Methods []string
}

var whitelist = []unitSpec{
	{GoFile: "queues/circularbuffer/circularbuffer.go", Module: "RingGen", ExtraFiles: []string{"queues/circularbuffer/serialization.go"},
		Skip: map[string]string{"String": "uses fmt / strings (text formatting is not modelled)"}},
	{GoFile: "queues/circularbuffer/iterator.go", Module: "RingIterGen"},

	// support units: only the methods the iterators below call
	{GoFile: "lists/arraylist/arraylist.go", Module: "ArrayListGen", Funcs: []string{"Get", "Size", "withinRange"}},
	{GoFile: "lists/arraylist/iterator.go", Module: "ArrayListIterGen"},
	{GoFile: "stacks/arraystack/arraystack.go", Module: "ArrayStackGen", Funcs: []string{"Size", "withinRange"}},
	{GoFile: "stacks/arraystack/iterator.go", Module: "ArrayStackIterGen"},
	{GoFile: "queues/arrayqueue/arrayqueue.go", Module: "ArrayQueueGen", Funcs: []string{"Size", "withinRange"}},
	{GoFile: "queues/arrayqueue/iterator.go", Module: "ArrayQueueIterGen"},

	// thin wrappers: every method except String / the constructors; the wrapped container is an abstract interface
	{GoFile: "stacks/arraystack/arraystack.go", Module: "ArrayStackWrapGen", Skip: wrapSkip, Abstract: listAbs, ExtraFiles: []string{"stacks/arraystack/serialization.go"}},
	{GoFile: "queues/arrayqueue/arrayqueue.go", Module: "ArrayQueueWrapGen", Skip: wrapSkip, Abstract: listAbs, ExtraFiles: []string{"queues/arrayqueue/serialization.go"}},
	{GoFile: "stacks/linkedliststack/linkedliststack.go", Module: "LinkedListStackWrapGen", Skip: wrapSkip, Abstract: sllAbs, ExtraFiles: []string{"stacks/linkedliststack/serialization.go"}},
	{GoFile: "queues/linkedlistqueue/linkedlistqueue.go", Module: "LinkedListQueueWrapGen", Skip: wrapSkip, Abstract: sllAbs, ExtraFiles: []string{"queues/linkedlistqueue/serialization.go"}},
	// the ArrayList core, with capacity-aware slices (GoSlice.v)
	{GoFile: "lists/arraylist/arraylist.go", Module: "ArrayListCoreGen", CapSlices: true, ExtraFiles: []string{"lists/arraylist/serialization.go"},
		Skip: map[string]string{"String": skipFmt, "Sort": "takes a comparator and calls slices.SortFunc (sorting is property C09's model)"}},
	// Go maps (GoMap.v); range over a map visits the entries in the order of the parameter map_order
	{GoFile: "maps/hashmap/hashmap.go", Module: "HashMapGen", Skip: map[string]string{"String": skipFmt}, ExtraFiles: []string{"maps/hashmap/serialization.go"}},
	{GoFile: "sets/hashset/hashset.go", Module: "HashSetGen", Skip: map[string]string{"String": skipFmt}, ExtraFiles: []string{"sets/hashset/serialization.go"}},
	// table (Go map) + ordering (abstract doubly linked list); Iterator() is an abstract enumeration
	{GoFile: "sets/linkedhashset/linkedhashset.go", Module: "LinkedHashSetGen", Skip: enumSkip, ExtraFiles: []string{"sets/linkedhashset/enumerable.go", "sets/linkedhashset/serialization.go"},
		Abstract: dllOrdering},
	{GoFile: "maps/linkedhashmap/linkedhashmap.go", Module: "LinkedHashMapGen", Skip: lhmSkip, ExtraFiles: []string{"maps/linkedhashmap/enumerable.go", "maps/linkedhashmap/serialization.go"},
		Abstract: dllOrdering},
	// red-black tree wrappers: the tree is an abstract interface (instantiated with the machine's model of it)
	{GoFile: "maps/treemap/treemap.go", Module: "TreeMapGen", Skip: enumSkip, ExtraFiles: []string{"maps/treemap/enumerable.go", "maps/treemap/serialization.go"}, Abstract: rbtAbs},
	{GoFile: "sets/treeset/treeset.go", Module: "TreeSetGen", Skip: enumSkip, ExtraFiles: []string{"sets/treeset/enumerable.go", "sets/treeset/serialization.go"}, Abstract: rbtAbs},
	// bidirectional maps: two abstract maps / trees
	{GoFile: "maps/hashbidimap/hashbidimap.go", Module: "HashBidiMapGen", Skip: map[string]string{"String": skipFmt}, ExtraFiles: []string{"maps/hashbidimap/serialization.go"},
		Abstract: map[string]absSpec{"forwardMap": hmapSpec, "inverseMap": hmapSpec}},
	{GoFile: "maps/treebidimap/treebidimap.go", Module: "TreeBidiMapGen", Skip: enumSkip, ExtraFiles: []string{"maps/treebidimap/enumerable.go", "maps/treebidimap/serialization.go"},
		Abstract: map[string]absSpec{"forwardMap": rbtSpec, "inverseMap": rbtSpec}},
	// enumerable.go of the three lists: the list itself is an opaque (abstract) receiver
	{GoFile: "lists/arraylist/enumerable.go", Module: "ArrayListEnumGen", Skip: enumOnlySkip, Opaque: listOpaque},
	{GoFile: "lists/singlylinkedlist/enumerable.go", Module: "SinglyLinkedListEnumGen", Skip: enumOnlySkip, Opaque: linkedOpaque, ExtraFiles: []string{"lists/singlylinkedlist/serialization.go"}},
	{GoFile: "lists/doublylinkedlist/enumerable.go", Module: "DoublyLinkedListEnumGen", Skip: enumOnlySkip, Opaque: linkedOpaque, ExtraFiles: []string{"lists/doublylinkedlist/serialization.go"}},
	// serialization.go of the three trees: the tree is an opaque receiver
	{GoFile: "trees/redblacktree/serialization.go", Module: "RedBlackTreeJsonGen", Opaque: treeOpaque},
	{GoFile: "trees/avltree/serialization.go", Module: "AVLTreeJsonGen", Opaque: treeOpaque},
	{GoFile: "trees/btree/serialization.go", Module: "BTreeJsonGen", Opaque: treeOpaque},
	{GoFile: "trees/binaryheap/serialization.go", Module: "BinaryHeapJsonGen", StructFiles: []string{"trees/binaryheap/binaryheap.go"},
		Abstract:     map[string]absSpec{"list": {Pure: listPure, Methods: []string{"FromJSON", "Size", "ToJSON"}}},
		IgnoreFields: map[string]string{"Comparator": "comparator function value, used only by the heap's own (external) methods"},
		External:     map[string]bool{"bubbleDownIndex": true}},
	// the pointer code of the two linked lists (heap of cells, option monad): Model/LinkedCells.v
	{GoFile: "lists/singlylinkedlist/singlylinkedlist.go", Module: "SinglyLinkedListCellsGen", HeapMode: true, Skip: cellsSkip},
	{GoFile: "lists/doublylinkedlist/doublylinkedlist.go", Module: "DoublyLinkedListCellsGen", HeapMode: true, Skip: cellsSkip},
	// the pointer code of the red-black tree and its iterator (heap of Node records, comparator calls counted)
	{GoFile: "trees/redblacktree/redblacktree.go", Module: "RedBlackTreeHeapGen", TreeMode: true, Cell: "Node", ExtraFiles: []string{"trees/redblacktree/iterator.go"},
		Skip: rbTreeSkip},
	// the pointer code of the AVL tree (read paths, Put / Remove on **Node links: treelink.go), Node.Next / Prev (walk1) and its iterator
	{GoFile: "trees/avltree/avltree.go", Module: "AVLTreeHeapGen", TreeMode: true, Cell: "Node", ExtraFiles: []string{"trees/avltree/iterator.go"},
		Skip: avlSkip},
	{GoFile: "queues/priorityqueue/priorityqueue.go", Module: "PriorityQueueWrapGen", ExtraFiles: []string{"queues/priorityqueue/serialization.go"},
		Skip: map[string]string{"String": skipFmt, "New": skipCtor, "NewWith": skipCtor},
		Abstract: map[string]absSpec{"heap": {Pure: []string{"Peek", "Empty", "Size", "Values", "ToJSON"},
			Methods: []string{"Clear", "Empty", "FromJSON", "Peek", "Pop", "Push", "Size", "ToJSON", "Values"}}},
		IgnoreFields: map[string]string{"Comparator": "comparator function value, only handed to the heap's constructor"}},
}

const skipFmt = "uses fmt / strings (text formatting is not modelled)"
const skipCtor = "constructor: only calls the wrapped container's package-level constructor (the initial state is the model's init)"

var wrapSkip = map[string]string{"String": skipFmt, "New": skipCtor}

// read-only methods of the list packages (arraylist, singlylinkedlist); backed by the effect table (C16)
var listPure = []string{"Get", "Size", "Empty", "Values", "Contains", "IndexOf", "ToJSON"}
var treeOpaque = map[string]absSpec{"Tree": {Pure: []string{"Get", "Size", "Empty", "Keys", "Values"}, Methods: []string{"Clear", "Iterator", "Put"}}}
var listAbs = map[string]absSpec{"list": {Pure: listPure, Methods: []string{"Add", "Clear", "Empty", "FromJSON", "Get", "Remove", "Size", "ToJSON", "Values"}}}
var sllAbs = map[string]absSpec{"list": {Pure: listPure, Methods: []string{"Add", "Append", "Clear", "Empty", "FromJSON", "Get", "Prepend", "Remove", "Size", "ToJSON", "Values"}}}
var dllOrdering = map[string]absSpec{"ordering": {Pure: listPure,
	Methods: []string{"Add", "Append", "Clear", "Get", "IndexOf", "Prepend", "Remove", "Size", "Values", "pkg.New"}}}

var hmapSpec = absSpec{Pure: []string{"Get", "Size", "Empty", "Keys", "Values", "ToJSON"},
	Methods: []string{"Clear", "Empty", "Get", "Keys", "Put", "Remove", "Size", "ToJSON", "Values", "pkg.New"}}
var rbtSpec = rbtAbs["tree"]
var rbtAbs = map[string]absSpec{"tree": {Pure: []string{"Get", "Size", "Empty", "Keys", "Values", "Left", "Right", "Floor", "Ceiling", "ToJSON"},
	Methods: []string{"Ceiling", "Clear", "Empty", "Floor", "FromJSON", "Get", "Keys", "Left", "Put", "Remove", "Right", "Size", "ToJSON", "Values",
		"fld.Comparator", "pkg.New", "pkg.NewWith"}}}

// Each(f) calls f for its side effects only, which the value model does not have; the order of the calls is the
// iterator's (the abstract enumeration)
var enumSkip = map[string]string{"String": skipFmt, "Each": "calls f only for its side effects (not modelled); visits the iterator's enumeration"}

var enumOnlySkip = map[string]string{"Each": enumSkip["Each"]}
var listOpaque = map[string]absSpec{"List": {Pure: listPure, Methods: []string{"Add", "Iterator", "lit.empty"}}}
var linkedOpaque = map[string]absSpec{"List": {Pure: listPure, Methods: []string{"Add", "Clear", "Iterator", "Values", "lit.empty"}}}

var cellsSkip = map[string]string{"String": skipFmt, "Sort": "takes a comparator and calls slices.SortFunc (a function value: not translated)"}

var treeSkip = map[string]string{"String": skipFmt, "output": skipFmt,
	"Keys":   "fills a slice through an iterator object (`it := tree.Iterator(); for i := 0; it.Next(); i++`); the walk itself is Iterator.Next, which is translated",
	"Values": "fills a slice through an iterator object; the walk itself is Iterator.Next, which is translated"}

// the AVL write path (Put / Remove on **Node) is translated: treelink.go
var avlSkip = map[string]string{"String": skipFmt, "output": skipFmt} // Keys / Values are translated (a slice filled through a local iterator object)

// the red-black unit translates Keys / Values too (a local iterator record built from the receiver, a slice made by the function)
var rbTreeSkip = map[string]string{"String": skipFmt, "output": skipFmt}

// maps/linkedhashmap/serialization.go: the encoder half (ToJSON, MarshalJSON) is translated (bytesbuf.go); the decoder reads a token stream
const skipDecoder = "hand-written token decoder (json.NewDecoder, Token, More, RawMessage, a string concatenation fed to json.Unmarshal): not modelled"

var lhmSkip = map[string]string{"String": enumSkip["String"], "Each": enumSkip["Each"], "FromJSON": skipDecoder, "UnmarshalJSON": "calls the untranslated FromJSON"}
