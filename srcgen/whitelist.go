package main

// The whitelist: which Go files are translated, into which Coq module, and which
// functions are skipped BY NAME (with the reason).  Order matters: a unit may only
// call functions of units listed before it.
type unitSpec struct {
	GoFile string            // path relative to the repository root
	Module string            // Coq module (file) name: <Module>.v
	Funcs  []string          // nil: every function of the file; else: only these (the rest is reported as not_selected)
	Skip   map[string]string // function name -> reason (explicit skips)
	// ExtraFiles: further files of the SAME package translated into the same Coq module (enumerable.go, ...)
	ExtraFiles []string
	// Abstract: struct field name -> the wrapped container is an ABSTRACT INTERFACE (a record of functions,
	// parameter of the generated definitions).  Pure lists its read-only methods; every other method is
	// translated as a mutator `state -> args -> state * result`.
	Abstract map[string]absSpec
	// Opaque: receiver struct types of this file that are ABSTRACT (linked structures declared elsewhere in the
	// package): type name -> interface.  Their methods are translated as functions taking the abstract value
	// as first parameter; "lit.empty" is the composite literal &T{} , "Iterator" the enumeration.
	Opaque map[string]absSpec
	// IgnoreFields: struct fields left out of the record (reading or writing them is refused), with the reason
	IgnoreFields map[string]string
	// CapSlices: slices are GoSlice.slice records (backing array up to the capacity + length) instead of
	// plain lists, so that cap(), reslicing, copy, append, slices.Insert/Delete/Clone are meaningful.
	// Aliasing between slices is NOT modelled in such a unit.
	CapSlices bool
}

type absSpec struct {
	Pure []string
	// Methods: the FIXED interface (record fields), "pkg.F" for package-level constructors.  A call of anything
	// else is refused.  (nil: the interface consists of the methods the file happens to call.)
	Methods []string
}

var whitelist = []unitSpec{
	{GoFile: "queues/circularbuffer/circularbuffer.go", Module: "RingGen",
		Skip: map[string]string{"String": "uses fmt / strings (text formatting is not modelled)"}},
	{GoFile: "queues/circularbuffer/iterator.go", Module: "RingIterGen"},

	// support units: only the methods the iterators below call
	{GoFile: "lists/arraylist/arraylist.go", Module: "ArrayListGen", Funcs: []string{"Get", "Size", "withinRange"}},
	{GoFile: "lists/arraylist/iterator.go", Module: "ArrayListIterGen"},
	{GoFile: "stacks/arraystack/arraystack.go", Module: "ArrayStackGen", Funcs: []string{"Size", "withinRange"}},
	{GoFile: "stacks/arraystack/iterator.go", Module: "ArrayStackIterGen"},
	{GoFile: "queues/arrayqueue/arrayqueue.go", Module: "ArrayQueueGen", Funcs: []string{"Size", "withinRange"}},
	{GoFile: "queues/arrayqueue/iterator.go", Module: "ArrayQueueIterGen"},

	// thin wrappers: every method except String / the constructors; the wrapped container is an abstract interface
	{GoFile: "stacks/arraystack/arraystack.go", Module: "ArrayStackWrapGen", Skip: wrapSkip, Abstract: listAbs},
	{GoFile: "queues/arrayqueue/arrayqueue.go", Module: "ArrayQueueWrapGen", Skip: wrapSkip, Abstract: listAbs},
	{GoFile: "stacks/linkedliststack/linkedliststack.go", Module: "LinkedListStackWrapGen", Skip: wrapSkip, Abstract: sllAbs},
	{GoFile: "queues/linkedlistqueue/linkedlistqueue.go", Module: "LinkedListQueueWrapGen", Skip: wrapSkip, Abstract: sllAbs},
	// the ArrayList core, with capacity-aware slices (GoSlice.v)
	{GoFile: "lists/arraylist/arraylist.go", Module: "ArrayListCoreGen", CapSlices: true,
		Skip: map[string]string{"String": skipFmt, "Sort": "takes a comparator and calls slices.SortFunc (sorting is property C09's model)"}},
	// Go maps (GoMap.v); range over a map visits the entries in the order of the parameter map_order
	{GoFile: "maps/hashmap/hashmap.go", Module: "HashMapGen", Skip: map[string]string{"String": skipFmt}},
	{GoFile: "sets/hashset/hashset.go", Module: "HashSetGen", Skip: map[string]string{"String": skipFmt}},
	// table (Go map) + ordering (abstract doubly linked list); Iterator() is an abstract enumeration
	{GoFile: "sets/linkedhashset/linkedhashset.go", Module: "LinkedHashSetGen", Skip: enumSkip, ExtraFiles: []string{"sets/linkedhashset/enumerable.go"},
		Abstract: dllOrdering},
	{GoFile: "maps/linkedhashmap/linkedhashmap.go", Module: "LinkedHashMapGen", Skip: enumSkip, ExtraFiles: []string{"maps/linkedhashmap/enumerable.go"},
		Abstract: dllOrdering},
	// red-black tree wrappers: the tree is an abstract interface (instantiated with the machine's model of it)
	{GoFile: "maps/treemap/treemap.go", Module: "TreeMapGen", Skip: enumSkip, ExtraFiles: []string{"maps/treemap/enumerable.go"}, Abstract: rbtAbs},
	{GoFile: "sets/treeset/treeset.go", Module: "TreeSetGen", Skip: enumSkip, ExtraFiles: []string{"sets/treeset/enumerable.go"}, Abstract: rbtAbs},
	// bidirectional maps: two abstract maps / trees
	{GoFile: "maps/hashbidimap/hashbidimap.go", Module: "HashBidiMapGen", Skip: map[string]string{"String": skipFmt},
		Abstract: map[string]absSpec{"forwardMap": hmapSpec, "inverseMap": hmapSpec}},
	{GoFile: "maps/treebidimap/treebidimap.go", Module: "TreeBidiMapGen", Skip: enumSkip, ExtraFiles: []string{"maps/treebidimap/enumerable.go"},
		Abstract: map[string]absSpec{"forwardMap": rbtSpec, "inverseMap": rbtSpec}},
	// enumerable.go of the three lists: the list itself is an opaque (abstract) receiver
	{GoFile: "lists/arraylist/enumerable.go", Module: "ArrayListEnumGen", Skip: enumOnlySkip, Opaque: listOpaque},
	{GoFile: "lists/singlylinkedlist/enumerable.go", Module: "SinglyLinkedListEnumGen", Skip: enumOnlySkip, Opaque: listOpaque},
	{GoFile: "lists/doublylinkedlist/enumerable.go", Module: "DoublyLinkedListEnumGen", Skip: enumOnlySkip, Opaque: listOpaque},
	{GoFile: "queues/priorityqueue/priorityqueue.go", Module: "PriorityQueueWrapGen",
		Skip: map[string]string{"String": skipFmt, "New": skipCtor, "NewWith": skipCtor},
		Abstract: map[string]absSpec{"heap": {Pure: []string{"Peek", "Empty", "Size", "Values"},
			Methods: []string{"Clear", "Empty", "Peek", "Pop", "Push", "Size", "Values"}}},
		IgnoreFields: map[string]string{"Comparator": "comparator function value, only handed to the heap's constructor"}},
}

const skipFmt = "uses fmt / strings (text formatting is not modelled)"
const skipCtor = "constructor: only calls the wrapped container's package-level constructor (the initial state is the model's init)"

var wrapSkip = map[string]string{"String": skipFmt, "New": skipCtor}

// read-only methods of the list packages (arraylist, singlylinkedlist); backed by the effect table (C16)
var listPure = []string{"Get", "Size", "Empty", "Values", "Contains", "IndexOf"}
var listAbs = map[string]absSpec{"list": {Pure: listPure, Methods: []string{"Add", "Clear", "Empty", "Get", "Remove", "Size", "Values"}}}
var sllAbs = map[string]absSpec{"list": {Pure: listPure, Methods: []string{"Add", "Append", "Clear", "Empty", "Get", "Prepend", "Remove", "Size", "Values"}}}
var dllOrdering = map[string]absSpec{"ordering": {Pure: listPure,
	Methods: []string{"Add", "Append", "Clear", "Get", "IndexOf", "Prepend", "Remove", "Size", "Values", "pkg.New"}}}

var hmapSpec = absSpec{Pure: []string{"Get", "Size", "Empty", "Keys", "Values"},
	Methods: []string{"Clear", "Empty", "Get", "Keys", "Put", "Remove", "Size", "Values", "pkg.New"}}
var rbtSpec = rbtAbs["tree"]
var rbtAbs = map[string]absSpec{"tree": {Pure: []string{"Get", "Size", "Empty", "Keys", "Values", "Left", "Right", "Floor", "Ceiling"},
	Methods: []string{"Ceiling", "Clear", "Empty", "Floor", "Get", "Keys", "Left", "Put", "Remove", "Right", "Size", "Values",
		"fld.Comparator", "pkg.New", "pkg.NewWith"}}}

// Each(f) calls f for its side effects only, which the value model does not have; the order of the calls is the
// iterator's (the abstract enumeration)
var enumSkip = map[string]string{"String": skipFmt, "Each": "calls f only for its side effects (not modelled); visits the iterator's enumeration"}

var enumOnlySkip = map[string]string{"Each": enumSkip["Each"]}
var listOpaque = map[string]absSpec{"List": {Pure: listPure, Methods: []string{"Add", "Iterator", "lit.empty"}}}
