package main

// The whitelist: which Go files are translated, into which Coq module, and which
// functions are skipped BY NAME (with the reason).  Order matters: a unit may only
// call functions of units listed before it.
type unitSpec struct {
	GoFile string            // path relative to the repository root
	Module string            // Coq module (file) name: <Module>.v
	Funcs  []string          // nil: every function of the file; else: only these (the rest is reported as not_selected)
	Skip   map[string]string // function name -> reason (explicit skips)
}

var whitelist = []unitSpec{
	{GoFile: "queues/circularbuffer/circularbuffer.go", Module: "RingGen",
		Skip: map[string]string{"String": "uses fmt / strings (text formatting is not modelled)"}},
	{GoFile: "queues/circularbuffer/iterator.go", Module: "RingIterGen"},

	// support units: only the methods the iterators below call
	{GoFile: "lists/arraylist/arraylist.go", Module: "ArrayListGen", Funcs: []string{"Get", "Size", "withinRange"}},
	{GoFile: "lists/arraylist/iterator.go", Module: "ArrayListIterGen"},
	{GoFile: "stacks/arraystack/arraystack.go", Module: "ArrayStackGen", Funcs: []string{"Size", "withinRange"}},
	{GoFile: "stacks/arraystack/iterator.go", Module: "ArrayStackIterGen"},
	{GoFile: "queues/arrayqueue/arrayqueue.go", Module: "ArrayQueueGen", Funcs: []string{"Size", "withinRange"}},
	{GoFile: "queues/arrayqueue/iterator.go", Module: "ArrayQueueIterGen"},
}
