package main

// CALLS of a comparator (a field of type utils.Comparator[T] of a translated struct, or a comparator-typed
// variable).  A Go comparator returns an int of which only the SIGN matters; the model's comparator (cmpf) returns
// a `comparison`.  So a call is translated only where its result is compared with the literal 0, directly:
//
//	c(a, b) > 0   ->  GoCmpCall.gt0 c a b      (= Heap.gt c a b: the model's result is Gt)
//	c(a, b) < 0   ->  GoCmpCall.lt0 c a b      c(a, b) == 0 -> GoCmpCall.eq0 c a b
//	c(a, b) <= 0  ->  GoCmpCall.le0 c a b      c(a, b) >= 0 -> GoCmpCall.ge0 c a b     c(a, b) != 0 -> GoCmpCall.ne0 c a b
//
// (coq/GoCmpCall.v).  Anywhere else (stored in a variable, compared with 1, added to something) the call is refused.
// Comparators are taken to be pure, total functions: whether `a && c(x, y) > 0` evaluates the call is invisible.

import (
	"go/ast"
	"go/token"
)

const kCmpRes kind = 100 // the int result of a comparator call: only its comparison with 0 is translated

var cmpCtx = map[*fx]int{} // > 0 while translating the operand of a comparison with 0
var usesCmpCall = map[*unit]bool{}

func isZeroLit(x ast.Expr) bool {
	for {
		p, ok := x.(*ast.ParenExpr)
		if !ok {
			break
		}
		x = p.X
	}
	lit, ok := x.(*ast.BasicLit)
	return ok && lit.Kind == token.INT && lit.Value == "0"
}

// n is `<call> op 0` or `0 op <call>` with a comparator call: the Gallina test
func (f *fx) cmpTest(n *ast.BinaryExpr, e env) (string, bool) {
	var callX ast.Expr
	op := n.Op
	switch {
	case isZeroLit(n.Y):
		callX = n.X
	case isZeroLit(n.X):
		callX = n.Y
		switch op { // 0 op call  ==  call op' 0
		case token.LSS:
			op = token.GTR
		case token.GTR:
			op = token.LSS
		case token.LEQ:
			op = token.GEQ
		case token.GEQ:
			op = token.LEQ
		}
	default:
		return "", false
	}
	var name string
	switch op {
	case token.GTR:
		name = "gt0"
	case token.LSS:
		name = "lt0"
	case token.EQL:
		name = "eq0"
	case token.NEQ:
		name = "ne0"
	case token.LEQ:
		name = "le0"
	case token.GEQ:
		name = "ge0"
	default:
		return "", false
	}
	c, ok := isCall(callX)
	if !ok || !f.looksLikeCmpCall(c, e) {
		return "", false
	}
	cmpCtx[f]++
	s, rs, _ := f.call(c, e)
	cmpCtx[f]--
	if len(rs) != 1 || rs[0].K != kCmpRes {
		return "", false
	}
	usesCmpCall[f.u] = true
	return "(GoCmpCall." + name + " " + s + ")", true
}

// syntactic pre-check (so that nothing else is evaluated twice): x.F(a, b) / c(a, b) with two arguments where F is
// a comparator field / c a comparator variable
func (f *fx) looksLikeCmpCall(c *ast.CallExpr, e env) bool {
	if len(c.Args) != 2 || c.Ellipsis != token.NoPos {
		return false
	}
	switch fn := c.Fun.(type) {
	case *ast.Ident:
		vi, ok := e.vars[fn.Name]
		return ok && vi.ty.K == kCmp
	case *ast.SelectorExpr:
		if id, ok := fn.X.(*ast.Ident); ok {
			if vi, ok := e.vars[id.Name]; ok && vi.ty.K == kStruct {
				fl := vi.ty.S.field(fn.Sel.Name)
				return fl != nil && fl.Ty.K == kCmp
			}
		}
		if inner, ok := fn.X.(*ast.SelectorExpr); ok { // recv.container.Comparator(a, b)
			if id, ok := inner.X.(*ast.Ident); ok {
				if vi, ok := e.vars[id.Name]; ok && vi.ty.K == kStruct {
					if cf := vi.ty.S.field(inner.Sel.Name); cf != nil && cf.Ty.K == kStruct {
						fl := cf.Ty.S.field(fn.Sel.Name)
						return fl != nil && fl.Ty.K == kCmp
					}
				}
			}
		}
	}
	return false
}

// the call cmp(a, b) where cmp (a Gallina term of type GoCmp.comparator) is a comparator: "cmp a b"
func (f *fx) cmpCall(c *ast.CallExpr, cmp string, e env) (string, []ty, *funcInfo) {
	if cmpCtx[f] == 0 {
		f.bad(c.Pos(), "call of a comparator whose result is not compared with the literal 0 directly (only the sign of a comparator's result is modelled)")
	}
	if len(c.Args) != 2 || c.Ellipsis != token.NoPos {
		f.bad(c.Pos(), "comparator call with %d arguments", len(c.Args))
	}
	saved := cmpCtx[f]
	cmpCtx[f] = 0 // the arguments are ordinary expressions
	a, ta := f.expr(c.Args[0], e)
	b, tb := f.expr(c.Args[1], e)
	cmpCtx[f] = saved
	if (ta.K != kElem && ta.K != kInt) || (tb.K != kElem && tb.K != kInt) {
		f.bad(c.Pos(), "comparator called on something that is not T / int")
	}
	f.u.UsesCmp = true
	return cmp + " " + a + " " + b, []ty{{K: kCmpRes}}, nil
}
