#!/bin/bash
# usage: run.sh [repo-dir]      (default /repo)
# Builds the translator, regenerates the Gallina from the Go sources of repo-dir into a temporary
# directory, compiles generated + proof files and prints ONE JSON object (see README.md).
# exit 0: ran (obligations may have failed: see "failed"); exit 2: internal error / construct refused.
here=$(cd "$(dirname "$0")" && pwd)
export GOFLAGS=-mod=mod GOPROXY=off GOSUMDB=off GOTOOLCHAIN=local
exec python3 "$here/run.py" "${1:-/repo}"
