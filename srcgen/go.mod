module gods-verif/srcgen

go 1.23
